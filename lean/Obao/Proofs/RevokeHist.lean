import Obao.Proofs.RevokeTree
/-!
`Inv` holds initially and is preserved by every request of a fault-free sequential history.
-/
namespace Obao.Revoke

theorem inv_init : Inv St.init := by
  refine ⟨⟨?_, ?_, ?_, ?_, ?_, ?_, ?_, ?_, ?_, ?_⟩, ?_, ?_, ?_, ?_, ?_, ?_, ?_⟩
  · intro p c h; cases h
  · intro p c h; cases h
  · intro c e p h hp
    simp only [St.init] at h
    split at h
    · cases h; cases hp
    · cases h
  · intro x h
    simp only [St.init] at h ⊢
    split at h
    · omega
    · cases h
  · intro x e h
    simp only [St.init] at h
    split at h
    · rename_i hx; subst hx
      exact ⟨by simp [St.init], fun h0 => absurd rfl h0, fun _ => rfl⟩
    · cases h
  · intro t k h; cases h
  · intro c k h; cases h
  · intro x e h
    simp only [St.init] at h
    split at h
    · cases h; rfl
    · cases h
  · intro t l h; cases h
  · intro l t h; cases h
  · intro x e h
    simp only [St.init] at h
    split at h
    · cases h; rfl
    · cases h
  · intro x e h h0
    simp only [St.init] at h
    split at h
    · rename_i hx; exact absurd hx h0
    · cases h
  · intro x e h
    simp only [St.init] at h ⊢
    split at h
    · rename_i hx; simp [hx]
    · cases h
  · intro x; rfl
  · intro x h
    simp only [St.init] at h
    split at h
    · cases h
    · rename_i hx
      exact ⟨by simp [St.init, hx], rfl, by simp [St.init, hx], fun _ => ⟨rfl, rfl⟩, fun l e hl => by cases hl⟩
  · intro c e p h hp
    simp only [St.init] at h
    split at h
    · cases h; cases hp
    · cases h
  · intro k h; cases h


theorem Inv.fresh {s : St} (hI : Inv s) : s.ids s.next = none := by
  cases h : s.ids s.next with
  | none => rfl
  | some e => have := hI.fi.idsB s.next (by simp [h]); omega

/-- closed form of a successful token creation: identity `n` (a fresh ordinal `n = next`, or — caller-chosen id —
an identity that was used before and has no entry now), created by `r` -/
def mkTokAt (r n : Nat) (orphan pfx : Bool) (sk : Nat) (s : St) : St :=
  { s with
    next := if n = s.next then s.next + 1 else s.next,
    skey := fun x => if n = s.next ∧ x = s.next then sk else s.skey x,
    acc := fun x => if x = n then true else s.acc x,
    par := fun x y => if orphan = false ∧ x = r ∧ y = n then true else s.par x y,
    ids := fun x => if x = n then
        some { parent := if orphan then none else some r, marked := false,
               cubId := createCubId true pfx, pfx := pfx, nsRoot := true }
      else s.ids x,
    tl := fun x => if x = n then some false else s.tl x,
    cache := fun x => if x = n then some false else s.cache x }

theorem run_newTok (sk : Nat) (s : St) :
    run (newTok sk) s = (.ok s.next, { s with next := s.next + 1, skey := fun x => if x = s.next then sk else s.skey x }) := rfl

theorem run_allocId (x sk : Nat) (s : St) :
    run (allocId x sk) s = (.ok x, if x = s.next then
      { s with next := s.next + 1, skey := fun y => if y = s.next then sk else s.skey y } else s) := by
  unfold allocId
  by_cases h : x = s.next <;> simp [run_io, exec, h]

/-- `storeCommon` + `RegisterAuth` after the accessor write, from a state that differs from an `Inv` state `s`
only in `next`, `skey` and `acc` -/
theorem run_storeAndRegister {s : St} (hI : Inv s) (f r n : Nat) (orphan pfx : Bool) {e : TokEntry}
    (hr : s.ids r = some e) (N : Nat) (K : Nat → Nat) (A : Nat → Bool) :
    let σ : St := { s with next := N, skey := K, acc := A }
    run (storeAndRegister (f+1) r n orphan pfx) σ =
      (.ok (), { σ with
        par := fun x y => if orphan = false ∧ x = r ∧ y = n then true else σ.par x y,
        ids := fun x => if x = n then
            some { parent := if orphan then none else some r, marked := false,
                   cubId := createCubId true pfx, pfx := pfx, nsRoot := true }
          else σ.ids x,
        tl := fun x => if x = n then some false else σ.tl x,
        cache := fun x => if x = n then some false else σ.cache x }) := by
  intro σ
  have hids : σ.ids = s.ids := rfl
  have hcache : σ.cache = s.cache := rfl
  unfold storeAndRegister
  simp only [bind_eq, pure_eq]
  cases orphan with
  | true =>
    simp only [Bool.not_true, Bool.false_eq_true, if_false, run_bind, run_putKey, St.putKey, run_cacheSet]
    congr 1 <;> (apply St.ext' <;> simp)
  | false =>
    simp only [Bool.not_false, if_true]
    rw [run_bind]
    rw [run_lookup f r false σ (by
      intro e' he' h0
      rw [hcache, hI.cacheEq, hI.lease r e hr h0])]
    simp only [lkRes, hids, hr, hI.unmarked r e hr, Bool.false_and, Bool.false_eq_true, if_false, run_putKey,
      St.putKey, run_bind, run_cacheSet]
    congr 1 <;> (apply St.ext' <;> simp)

theorem run_create {s : St} (hI : Inv s) (f r : Nat) (orphan : Bool) (sk : Nat) :
    run ((Req.create r orphan sk).prog (f+1)) s =
      if (s.ids r).isSome then (.ok (), mkTokAt r s.next orphan true sk s) else (.error .denied, s) := by
  unfold Req.prog
  simp only [bind_eq, pure_eq]
  rw [run_bind, hI.run_auth]
  cases hr : s.ids r with
  | none => rfl
  | some e =>
    simp only [Option.isSome_some, if_true]
    rw [run_bind, hI.run_lookup, hr]
    simp only
    rw [run_bind, hI.run_sudoCheck, hr]
    simp only [Option.isSome_some, Bool.not_true, Bool.and_false, Bool.false_eq_true, if_false]
    rw [run_bind, run_newTok]
    simp only
    rw [run_bind, run_putKey]
    simp only [St.putKey]
    rw [run_storeAndRegister hI f r s.next orphan true hr]
    congr 1
    apply St.ext' <;> simp [mkTokAt]

theorem run_createId {s : St} (hI : Inv s) (f r x : Nat) (sk : Nat) (hx : x ≤ s.next) :
    run ((Req.createId r x sk).prog (f+1)) s =
      if (s.ids r).isSome then
        (if (s.ids x).isSome then
          (.error .invalid, if x = s.next then
            { s with next := s.next + 1, skey := fun y => if y = s.next then sk else s.skey y } else s)
         else (.ok (), mkTokAt r x false false sk s))
      else (.error .denied, s) := by
  unfold Req.prog
  simp only [bind_eq, pure_eq]
  rw [run_bind, hI.run_auth]
  cases hr : s.ids r with
  | none => rfl
  | some e =>
    simp only [Option.isSome_some, if_true]
    rw [run_bind, hI.run_lookup, hr]
    simp only
    rw [run_bind, hI.run_sudoCheck, hr]
    simp only [Option.isSome_some, Bool.not_true, Bool.false_eq_true, if_false]
    rw [run_bind, run_allocId]
    simp only
    -- the duplicate check runs in the state after the allocation: same ids and cache
    have hdup : ∀ σ : St, σ.ids = s.ids → σ.cache = s.cache →
        run (lookup (f+1) x true) σ = (.ok (s.ids x), σ) := by
      intro σ h1 h2
      rw [run_lookup f x true σ (by
        intro e' he' h0
        rw [h1] at he'
        rw [h2, hI.cacheEq, hI.lease x e' he' h0])]
      simp only [lkRes, h1]
      cases hq : s.ids x with
      | none => rfl
      | some q => simp [hI.unmarked x q hq]
    by_cases hxn : x = s.next
    · subst hxn
      have hfresh := hI.fresh
      simp only [if_true]
      rw [run_bind, run_bindE, hdup { s with next := s.next + 1, skey := fun y => if y = s.next then sk else s.skey y } rfl rfl, hfresh]
      simp only [run_ret, Bool.false_eq_true, if_false, Option.isSome_none]
      rw [run_bind, run_putKey]
      simp only [St.putKey]
      rw [run_storeAndRegister hI f r s.next false false hr]
      congr 1
      apply St.ext' <;> simp [mkTokAt]
    · simp only [hxn, if_false]
      rw [run_bind, run_bindE, hdup s rfl rfl]
      cases hq : s.ids x with
      | some q => simp [run_ret, run_bind, Prog.fail]
      | none =>
        simp only [run_ret, Bool.false_eq_true, if_false, Option.isSome_none]
        rw [run_bind, run_putKey]
        simp only [St.putKey]
        have := run_storeAndRegister hI f r x false false hr s.next s.skey (fun y => if y = x then true else s.acc y)
        simp only at this
        rw [this]
        congr 1
        apply St.ext' <;> simp [mkTokAt, hxn]

theorem inv_mkTokAt {s : St} (hI : Inv s) (r n : Nat) (orphan pfx : Bool) (sk : Nat) (hr : (s.ids r).isSome)
    (hn : n ≤ s.next) (hnone : s.ids n = none) (hrn : r < n) (hnopar : ∀ c, s.par n c = false) :
    Inv (mkTokAt r n orphan pfx sk s) := by
  have hrne : r ≠ n := by omega
  have hnext : s.next ≤ (mkTokAt r n orphan pfx sk s).next ∧ n < (mkTokAt r n orphan pfx sk s).next := by
    simp only [mkTokAt]; split <;> omega
  have hdn := hI.deadClean n hnone
  have hids : ∀ x, x ≠ n → (mkTokAt r n orphan pfx sk s).ids x = s.ids x := by
    intro x hx; simp [mkTokAt, hx]
  have hlive : ∀ x, (s.ids x).isSome → x ≠ n := by
    intro x hx h; subst h; rw [hnone] at hx; cases hx
  refine ⟨⟨?_, ?_, ?_, ?_, ?_, hI.fi.cubB, ?_, ?_, hI.fi.tixB, hI.fi.slIx⟩, ?_, ?_, ?_, ?_, ?_, ?_, hI.pendClean⟩
  · intro p c h
    simp only [mkTokAt] at h
    split at h
    · rename_i hh; obtain ⟨_, rfl, rfl⟩ := hh; exact ⟨hrn, hnext.2⟩
    · have := hI.fi.edge_lt p c h; omega
  · intro p c h hp
    simp only [mkTokAt] at h
    split at h
    · rename_i hh; obtain ⟨ho, rfl, rfl⟩ := hh
      exact ⟨⟨if orphan = true then none else some p, false, createCubId true pfx, pfx, true⟩, by simp [mkTokAt], by simp [ho]⟩
    · by_cases hpn : p = n
      · subst hpn; rw [hnopar c] at h; cases h
      · rw [hids p hpn] at hp
        obtain ⟨e, he, hpe⟩ := hI.fi.edge_live p c h hp
        exact ⟨e, by rw [hids c (hlive c (by simp [he]))]; exact he, hpe⟩
  · intro c e p h hpe
    by_cases hc : c = n
    · subst hc
      simp only [mkTokAt, if_true] at h
      cases h
      cases orphan with
      | true => simp at hpe
      | false => simp at hpe; subst hpe; simp [mkTokAt]
    · rw [hids c hc] at h
      have := hI.fi.entry_edge c e p h hpe
      simp [mkTokAt, this]
  · intro x hx
    by_cases hxn : x = n
    · subst hxn; exact hnext.2
    · rw [hids x hxn] at hx
      have := hI.fi.idsB x hx; omega
  · intro x e h
    by_cases hxn : x = n
    · subst hxn
      exact ⟨hI.pendClean _, fun _ => by simp [mkTokAt], fun h' => by simp [mkTokAt] at h'⟩
    · rw [hids x hxn] at h
      have ht := hI.fi.tok x e h
      exact ⟨ht.pend, fun h0 => by simp [mkTokAt, hxn]; exact ht.cache h0, by simp [mkTokAt, hxn]; exact ht.tlc⟩
  · intro c k h
    obtain ⟨y, ey, hy, hry⟩ := hI.fi.cubOwn c k h
    exact ⟨y, ey, by rw [hids y (hlive y (by simp [hy]))]; exact hy, hry⟩
  · intro x e h
    by_cases hxn : x = n
    · subst hxn
      simp only [mkTokAt, if_true] at h
      cases h; rfl
    · rw [hids x hxn] at h; exact hI.fi.entryWf x e h
  · intro x e h
    by_cases hxn : x = n
    · subst hxn
      simp only [mkTokAt, if_true] at h
      cases h; rfl
    · rw [hids x hxn] at h; exact hI.unmarked x e h
  · intro x e h h0
    by_cases hxn : x = n
    · subst hxn; simp [mkTokAt]
    · rw [hids x hxn] at h
      simp only [mkTokAt, hxn, if_false]; exact hI.lease x e h h0
  · intro x e h
    by_cases hxn : x = n
    · subst hxn; simp [mkTokAt]
    · rw [hids x hxn] at h
      simp only [mkTokAt, hxn, if_false]; exact hI.acc x e h
  · intro x
    simp only [mkTokAt]
    split
    · rfl
    · exact hI.cacheEq x
  · intro x h
    by_cases hxn : x = n
    · subst hxn; simp [mkTokAt] at h
    · rw [hids x hxn] at h
      have hd := hI.deadClean x h
      exact ⟨by rw [hids x hxn]; exact h, by simp [mkTokAt, hxn, hd.noLease], by simp [mkTokAt, hxn, hd.noAcc],
        hd.noCub, hd.leases⟩
  · intro c e p h hpe
    by_cases hc : c = n
    · subst hc
      simp only [mkTokAt, if_true] at h
      cases h
      cases orphan with
      | true => simp at hpe
      | false =>
        simp at hpe; subst hpe
        rw [hids r hrne]; exact hr
    · rw [hids c hc] at h
      have := hI.parentLive c e p h hpe
      rw [hids p (hlive p this)]; exact this

/-! ### renew-self, cubbyhole write, leased read, lookup-self, settle -/

def renewTok (t : Nat) (s : St) : St :=
  { s with tl := fun x => if x = t then some false else s.tl x,
           cache := fun x => if x = t then some false else s.cache x }

theorem run_renew {s : St} (hI : Inv s) (f t : Nat) :
    run ((Req.renew t).prog (f+1)) s =
      if (s.ids t).isSome then (.ok (), renewTok t s) else (.error .denied, s) := by
  unfold Req.prog
  simp only [bind_eq]
  rw [run_bind, hI.run_auth]
  cases ht : s.ids t with
  | none => rfl
  | some e =>
    simp only [Option.isSome_some, if_true]
    rw [run_bind, hI.run_lookup]; simp only
    rw [run_bind, run_getTL]; simp only
    rw [run_bind, hI.run_lookup]; simp only
    rw [run_bind, run_putKey]; simp only
    rw [run_cacheSet]
    rfl

theorem inv_renewTok {s : St} (hI : Inv s) (t : Nat) (ht : (s.ids t).isSome) : Inv (renewTok t s) := by
  obtain ⟨e, he⟩ := Option.isSome_iff_exists.mp ht
  refine ⟨⟨hI.fi.edge_lt, hI.fi.edge_live, hI.fi.entry_edge, hI.fi.idsB, ?_, hI.fi.cubB, hI.fi.cubOwn, hI.fi.entryWf,
    hI.fi.tixB, hI.fi.slIx⟩, hI.unmarked, ?_, hI.acc, ?_, ?_, hI.parentLive, hI.pendClean⟩
  · intro x e' h
    have hx := hI.fi.tok x e' h
    refine ⟨hx.pend, ?_, ?_⟩
    · intro h0; simp only [renewTok]; split
      · rfl
      · exact hx.cache h0
    · simp only [renewTok]; split
      · intro h'; cases h'
      · exact hx.tlc
  · intro x e' h h0
    simp only [renewTok]; split
    · rfl
    · exact hI.lease x e' h h0
  · intro x
    simp only [renewTok]; split
    · rfl
    · exact hI.cacheEq x
  · intro x h
    have hd := hI.deadClean x h
    have hxt : x ≠ t := by intro h'; subst h'; have h2 : s.ids x = none := h; rw [he] at h2; cases h2
    exact ⟨h, by simp [renewTok, hxt, hd.noLease], hd.noAcc, hd.noCub, hd.leases⟩

def cubbyTok (c : CubKey) (k : Nat) (s : St) : St :=
  { s with cub := fun x y => if x = c ∧ y = k then true else s.cub x y,
           kmax := if s.kmax ≤ k then k + 1 else s.kmax }

theorem Inv.routerKey {s : St} (hI : Inv s) {t : Nat} {e : TokEntry} (he : s.ids t = some e) :
    routerKey t e = some (ckey t e) := (destroyKey_eq_routerKey t e (hI.fi.entryWf t e he)).2

theorem run_cubby {s : St} (hI : Inv s) (f t k : Nat) :
    run ((Req.cubby t k).prog (f+1)) s =
      match s.ids t with
      | some e => (.ok (), cubbyTok (ckey t e) k s)
      | none => (.error .denied, s) := by
  unfold Req.prog
  simp only [bind_eq]
  rw [run_bind, hI.run_authE]
  cases ht : s.ids t with
  | none => rfl
  | some e =>
    simp only [hI.routerKey ht]
    rw [run_bind, run_getKey]; simp only
    rw [run_putKey]
    rfl

theorem run_cubRead {s : St} (hI : Inv s) (f t k : Nat) :
    (run ((Req.cubRead t k).prog (f+1)) s).2 = s := by
  unfold Req.prog
  simp only [bind_eq, pure_eq]
  rw [run_bind, hI.run_authE]
  cases ht : s.ids t with
  | none => rfl
  | some e =>
    simp only [hI.routerKey ht]
    rw [run_bind, run_getKey]
    rfl

theorem inv_cubbyTok {s : St} (hI : Inv s) (t k : Nat) {e : TokEntry} (he : s.ids t = some e) :
    Inv (cubbyTok (ckey t e) k s) := by
  refine ⟨⟨hI.fi.edge_lt, hI.fi.edge_live, hI.fi.entry_edge, hI.fi.idsB, ?_, ?_, ?_, hI.fi.entryWf, hI.fi.tixB,
    hI.fi.slIx⟩, hI.unmarked, hI.lease, hI.acc, hI.cacheEq, ?_, hI.parentLive, hI.pendClean⟩
  · intro x e' h
    have hx := hI.fi.tok x e' h
    exact ⟨hx.pend, hx.cache, hx.tlc⟩
  · intro c k' h
    simp only [cubbyTok] at h ⊢
    split at h
    · rename_i hh; obtain ⟨_, rfl⟩ := hh; split <;> omega
    · have := hI.fi.cubB c k' h; split <;> omega
  · intro c k' h
    simp only [cubbyTok] at h
    split at h
    · rename_i hh; obtain ⟨rfl, _⟩ := hh
      exact ⟨t, e, he, hI.routerKey he⟩
    · exact hI.fi.cubOwn c k' h
  · intro x h
    have hx : s.ids x = none := h
    have hd := hI.deadClean x hx
    have hxt : x ≠ t := by intro h'; subst h'; rw [he] at hx; cases hx
    have hck : ckey t e ≠ .cid x ∧ ckey t e ≠ .salted x := by
      unfold ckey; split <;> constructor <;> intro h' <;> cases h' <;> exact hxt rfl
    refine ⟨h, hd.noLease, hd.noAcc, fun k' => ?_, hd.leases⟩
    simp only [cubbyTok]
    constructor
    · split
      · rename_i hh; exact absurd hh.1.symm hck.1
      · exact (hd.noCub k').1
    · split
      · rename_i hh; exact absurd hh.1.symm hck.2
      · exact (hd.noCub k').2

def leaseTok (t lk : Nat) (s : St) : St :=
  { s with nextL := s.nextL + 1, lkey := fun x => if x = s.nextL then lk else s.lkey x,
           sl := fun x => if x = s.nextL then some (t, false) else s.sl x,
           tix := fun x y => if x = t ∧ y = s.nextL then true else s.tix x y }

theorem run_lease {s : St} (hI : Inv s) (f t lk : Nat) :
    run ((Req.lease t lk).prog (f+1)) s =
      if (s.ids t).isSome then (.ok (), leaseTok t lk s) else (.error .denied, s) := by
  unfold Req.prog
  simp only [bind_eq]
  rw [run_bind, hI.run_auth]
  cases ht : s.ids t with
  | none => rfl
  | some e => rfl

theorem inv_leaseTok {s : St} (hI : Inv s) (t lk : Nat) (ht : (s.ids t).isSome) : Inv (leaseTok t lk s) := by
  obtain ⟨e, he⟩ := Option.isSome_iff_exists.mp ht
  refine ⟨⟨hI.fi.edge_lt, hI.fi.edge_live, hI.fi.entry_edge, hI.fi.idsB, ?_, hI.fi.cubB, hI.fi.cubOwn, hI.fi.entryWf,
    ?_, ?_⟩, hI.unmarked, hI.lease, hI.acc, hI.cacheEq, ?_, hI.parentLive, hI.pendClean⟩
  · intro x e' h
    have hx := hI.fi.tok x e' h
    exact ⟨hx.pend, hx.cache, hx.tlc⟩
  · intro t' l h
    simp only [leaseTok] at h ⊢
    split at h
    · rename_i hh; obtain ⟨_, rfl⟩ := hh; omega
    · have := hI.fi.tixB t' l h; omega
  · intro l t' h
    simp only [leaseTok] at h ⊢
    split at h
    · rename_i hl; cases h; simp [hl]
    · have := hI.fi.slIx l t' h; simp [this]
  · intro x h
    have hd := hI.deadClean x h
    have hxt : x ≠ t := by intro h'; subst h'; have h2 : s.ids x = none := h; rw [he] at h2; cases h2
    refine ⟨h, hd.noLease, hd.noAcc, hd.noCub, ?_⟩
    intro l e' hl
    simp only [leaseTok] at hl
    split at hl
    · cases hl; exact absurd rfl hxt
    · exact hd.leases l e' hl

theorem run_lookupSelf {s : St} (hI : Inv s) (f t : Nat) :
    (run ((Req.lookupSelf t).prog (f+1)) s).2 = s := by
  unfold Req.prog
  simp only [bind_eq, pure_eq]
  rw [run_bind, hI.run_auth]
  cases ht : s.ids t with
  | none => rfl
  | some e =>
    simp only [Option.isSome_some, if_true]
    rw [run_bind, hI.run_lookup, ht]
    rfl

theorem inv_settle {s : St} (hI : Inv s) : Inv s.settle := by
  refine ⟨⟨hI.fi.edge_lt, hI.fi.edge_live, hI.fi.entry_edge, hI.fi.idsB, ?_, hI.fi.cubB, hI.fi.cubOwn, hI.fi.entryWf,
    ?_, ?_⟩, hI.unmarked, hI.lease, hI.acc, hI.cacheEq, ?_, hI.parentLive, hI.pendClean⟩
  · intro x e' h
    have hx := hI.fi.tok x e' h
    exact ⟨hx.pend, hx.cache, hx.tlc⟩
  · intro t l h
    simp only [St.settle, Bool.and_eq_true] at h
    exact hI.fi.tixB t l h.1
  · intro l t h
    simp only [St.settle] at h ⊢
    have hs : s.sl l = some (t, false) := by
      cases hq : s.sl l with
      | none => rw [hq] at h; cases h
      | some q =>
        obtain ⟨t', b⟩ := q
        cases b with
        | true => rw [hq] at h; cases h
        | false => rw [hq] at h; exact h
    simp [hs, hI.fi.slIx l t hs]
  · intro x h
    have hd := hI.deadClean x h
    refine ⟨h, hd.noLease, hd.noAcc, hd.noCub, ?_⟩
    intro l e' hl
    simp only [St.settle] at hl
    cases hq : s.sl l with
    | none => rw [hq] at hl; cases hl
    | some q =>
      obtain ⟨t', b⟩ := q
      cases b with
      | true => rw [hq] at hl; cases hl
      | false => rw [hq] at hl; cases hl; exact hd.leases l false hq

end Obao.Revoke
