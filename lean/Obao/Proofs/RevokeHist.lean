import Obao.Proofs.RevokeTree
/-!
`Inv` holds initially and is preserved by every request of a fault-free sequential history.
-/
namespace Obao.Revoke

theorem inv_init : Inv St.init := by
  refine ⟨⟨?_, ?_, ?_, ?_, ?_, ?_, ?_, ?_⟩, ?_, ?_, ?_, ?_, ?_, ?_, ?_⟩
  · intro p c h; cases h
  · intro p c h; cases h
  · intro c e p h hp
    simp only [St.init] at h
    split at h
    · cases h; cases hp
    · cases h
  · intro x h
    simp only [St.init] at h ⊢
    split at h
    · omega
    · cases h
  · intro x e h
    simp only [St.init] at h
    split at h
    · rename_i hx; subst hx
      exact ⟨by simp [St.init], fun h0 => absurd rfl h0, fun _ => rfl⟩
    · cases h
  · intro t k h; cases h
  · intro t l h; cases h
  · intro l t h; cases h
  · intro x e h
    simp only [St.init] at h
    split at h
    · cases h; rfl
    · cases h
  · intro x e h h0
    simp only [St.init] at h
    split at h
    · rename_i hx; exact absurd hx h0
    · cases h
  · intro x e h
    simp only [St.init] at h ⊢
    split at h
    · rename_i hx; simp [hx]
    · cases h
  · intro x; rfl
  · intro x h
    simp only [St.init] at h
    split at h
    · cases h
    · rename_i hx
      exact ⟨by simp [St.init, hx], rfl, by simp [St.init, hx], fun _ => rfl, fun l e hl => by cases hl⟩
  · intro c e p h hp
    simp only [St.init] at h
    split at h
    · cases h; cases hp
    · cases h
  · intro k h; cases h


/-- closed form of a successful `auth/token/create[-orphan]` by `r` -/
def mkTok (r : Nat) (orphan : Bool) (sk : Nat) (s : St) : St :=
  { s with
    next := s.next + 1,
    skey := fun x => if x = s.next then sk else s.skey x,
    acc := fun x => if x = s.next then true else s.acc x,
    par := fun x y => if orphan = false ∧ x = r ∧ y = s.next then true else s.par x y,
    ids := fun x => if x = s.next then some ⟨if orphan then none else some r, false⟩ else s.ids x,
    tl := fun x => if x = s.next then some false else s.tl x,
    cache := fun x => if x = s.next then some false else s.cache x }

theorem run_newTok (sk : Nat) (s : St) :
    run (newTok sk) s = (.ok s.next, { s with next := s.next + 1, skey := fun x => if x = s.next then sk else s.skey x }) := rfl

theorem run_create {s : St} (hI : Inv s) (f r : Nat) (orphan : Bool) (sk : Nat) :
    run ((Req.create r orphan sk).prog (f+1)) s =
      if (s.ids r).isSome then (.ok (), mkTok r orphan sk s) else (.error .denied, s) := by
  unfold Req.prog
  simp only [bind_eq, pure_eq]
  rw [run_bind, hI.run_auth]
  cases hr : s.ids r with
  | none => rfl
  | some e =>
    simp only [Option.isSome_some, if_true]
    rw [run_bind, hI.run_lookup, hr]
    simp only
    rw [run_bind, hI.run_sudoCheck, hr]
    simp only [Option.isSome_some, Bool.not_true, Bool.and_false, Bool.false_eq_true, if_false]
    rw [run_bind, run_newTok]
    simp only
    rw [run_bind, run_putKey]
    simp only [St.putKey]
    unfold storeAndRegister
    simp only [bind_eq, pure_eq]
    cases orphan with
    | true =>
      simp only [Bool.not_true, Bool.false_eq_true, if_false, run_bind, run_putKey, St.putKey, run_cacheSet]
      congr 1 <;> (apply St.ext' <;> simp [mkTok])
    | false =>
      simp only [Bool.not_false, if_true]
      rw [run_bind]
      rw [run_lookup f r false _ (by
        intro e' he' h0
        show s.cache r = some false
        rw [hI.cacheEq, hI.lease r e hr h0])]
      simp only [lkRes, hr, hI.unmarked r e hr, Bool.false_and, Bool.false_eq_true, if_false, run_putKey,
        St.putKey, run_bind, run_cacheSet]
      congr 1 <;> (apply St.ext' <;> simp [mkTok])


theorem Inv.fresh {s : St} (hI : Inv s) : s.ids s.next = none := by
  cases h : s.ids s.next with
  | none => rfl
  | some e => have := hI.fi.idsB s.next (by simp [h]); omega

theorem inv_mkTok {s : St} (hI : Inv s) (r : Nat) (orphan : Bool) (sk : Nat) (hr : (s.ids r).isSome) :
    Inv (mkTok r orphan sk s) := by
  have hrn : r < s.next := hI.fi.idsB r hr
  have hfresh := hI.fresh
  have hdn := hI.deadClean s.next hfresh
  have hnopar : ∀ p c, s.par p c = true → p ≠ s.next ∧ c ≠ s.next := by
    intro p c h
    have := hI.fi.edge_lt p c h
    omega
  refine ⟨⟨?_, ?_, ?_, ?_, ?_, ?_, ?_, ?_⟩, ?_, ?_, ?_, ?_, ?_, ?_, ?_⟩
  · intro p c h
    simp only [mkTok] at h ⊢
    split at h
    · rename_i hh; obtain ⟨_, rfl, rfl⟩ := hh; omega
    · have := hI.fi.edge_lt p c h; omega
  · intro p c h hp
    simp only [mkTok] at h hp ⊢
    split at h
    · rename_i hh; obtain ⟨ho, rfl, rfl⟩ := hh
      exact ⟨⟨if orphan = true then none else some p, false⟩, by simp, by simp [ho]⟩
    · obtain ⟨hp1, hc1⟩ := hnopar p c h
      simp only [hp1, if_false] at hp
      obtain ⟨e, he, hpe⟩ := hI.fi.edge_live p c h hp
      exact ⟨e, by simp [hc1, he], hpe⟩
  · intro c e p h hpe
    simp only [mkTok] at h ⊢
    split at h
    · rename_i hc; subst hc
      cases h
      cases orphan with
      | true => simp at hpe
      | false => simp at hpe; subst hpe; simp
    · have := hI.fi.entry_edge c e p h hpe
      simp [this]
  · intro x hx
    simp only [mkTok] at hx ⊢
    split at hx
    · omega
    · have := hI.fi.idsB x hx; omega
  · intro x e h
    simp only [mkTok] at h
    split at h
    · rename_i hx; subst hx
      refine ⟨hI.pendClean _, fun _ => by simp [mkTok], fun h' => by simp [mkTok] at h'⟩
    · rename_i hx
      have ht := hI.fi.tok x e h
      exact ⟨ht.pend, fun h0 => by simp [mkTok, hx]; exact ht.cache h0, by simp [mkTok, hx]; exact ht.tlc⟩
  · exact hI.fi.cubB
  · exact hI.fi.tixB
  · exact hI.fi.slIx
  · intro x e h
    simp only [mkTok] at h
    split at h
    · cases h; rfl
    · exact hI.unmarked x e h
  · intro x e h h0
    simp only [mkTok] at h ⊢
    split at h
    · rename_i hx; simp [hx]
    · rename_i hx; simp [hx]; exact hI.lease x e h h0
  · intro x e h
    simp only [mkTok] at h ⊢
    split at h
    · rename_i hx; simp [hx]
    · rename_i hx; simp [hx]; exact hI.acc x e h
  · intro x
    simp only [mkTok]
    split
    · rfl
    · exact hI.cacheEq x
  · intro x h
    simp only [mkTok] at h
    split at h
    · cases h
    · rename_i hx
      have hd := hI.deadClean x h
      exact ⟨by simp [mkTok, hx, h], by simp [mkTok, hx, hd.noLease], by simp [mkTok, hx, hd.noAcc],
        hd.noCub, hd.leases⟩
  · intro c e p h hpe
    simp only [mkTok] at h ⊢
    split at h
    · cases h
      cases orphan with
      | true => simp at hpe
      | false =>
        simp at hpe; subst hpe
        have : r ≠ s.next := by omega
        simp [this, hr]
    · have := hI.parentLive c e p h hpe
      split
      · rfl
      · exact this
  · exact hI.pendClean


/-! ### renew-self, cubbyhole write, leased read, lookup-self, settle -/

def renewTok (t : Nat) (s : St) : St :=
  { s with tl := fun x => if x = t then some false else s.tl x,
           cache := fun x => if x = t then some false else s.cache x }

theorem run_renew {s : St} (hI : Inv s) (f t : Nat) :
    run ((Req.renew t).prog (f+1)) s =
      if (s.ids t).isSome then (.ok (), renewTok t s) else (.error .denied, s) := by
  unfold Req.prog
  simp only [bind_eq]
  rw [run_bind, hI.run_auth]
  cases ht : s.ids t with
  | none => rfl
  | some e =>
    simp only [Option.isSome_some, if_true]
    rw [run_bind, hI.run_lookup]; simp only
    rw [run_bind, run_getTL]; simp only
    rw [run_bind, hI.run_lookup]; simp only
    rw [run_bind, run_putKey]; simp only
    rw [run_cacheSet]
    rfl

theorem inv_renewTok {s : St} (hI : Inv s) (t : Nat) (ht : (s.ids t).isSome) : Inv (renewTok t s) := by
  obtain ⟨e, he⟩ := Option.isSome_iff_exists.mp ht
  refine ⟨⟨hI.fi.edge_lt, hI.fi.edge_live, hI.fi.entry_edge, hI.fi.idsB, ?_, hI.fi.cubB, hI.fi.tixB, hI.fi.slIx⟩,
    hI.unmarked, ?_, hI.acc, ?_, ?_, hI.parentLive, hI.pendClean⟩
  · intro x e' h
    have hx := hI.fi.tok x e' h
    refine ⟨hx.pend, ?_, ?_⟩
    · intro h0; simp only [renewTok]; split
      · rfl
      · exact hx.cache h0
    · simp only [renewTok]; split
      · intro h'; cases h'
      · exact hx.tlc
  · intro x e' h h0
    simp only [renewTok]; split
    · rfl
    · exact hI.lease x e' h h0
  · intro x
    simp only [renewTok]; split
    · rfl
    · exact hI.cacheEq x
  · intro x h
    have hd := hI.deadClean x h
    have hxt : x ≠ t := by intro h'; subst h'; have h2 : s.ids x = none := h; rw [he] at h2; cases h2
    exact ⟨h, by simp [renewTok, hxt, hd.noLease], hd.noAcc, hd.noCub, hd.leases⟩

def cubbyTok (t k : Nat) (s : St) : St :=
  { s with cub := fun x y => if x = t ∧ y = k then true else s.cub x y,
           kmax := if s.kmax ≤ k then k + 1 else s.kmax }

theorem run_cubby {s : St} (hI : Inv s) (f t k : Nat) :
    run ((Req.cubby t k).prog (f+1)) s =
      if (s.ids t).isSome then (.ok (), cubbyTok t k s) else (.error .denied, s) := by
  unfold Req.prog
  simp only [bind_eq]
  rw [run_bind, hI.run_auth]
  cases ht : s.ids t with
  | none => rfl
  | some e =>
    simp only [Option.isSome_some, if_true]
    rw [run_bind, run_getKey]; simp only
    rw [run_putKey]
    rfl

theorem inv_cubbyTok {s : St} (hI : Inv s) (t k : Nat) (ht : (s.ids t).isSome) : Inv (cubbyTok t k s) := by
  obtain ⟨e, he⟩ := Option.isSome_iff_exists.mp ht
  refine ⟨⟨hI.fi.edge_lt, hI.fi.edge_live, hI.fi.entry_edge, hI.fi.idsB, ?_, ?_, hI.fi.tixB, hI.fi.slIx⟩,
    hI.unmarked, hI.lease, hI.acc, hI.cacheEq, ?_, hI.parentLive, hI.pendClean⟩
  · intro x e' h
    have hx := hI.fi.tok x e' h
    exact ⟨hx.pend, hx.cache, hx.tlc⟩
  · intro t' k' h
    simp only [cubbyTok] at h ⊢
    split at h
    · rename_i hh; obtain ⟨_, rfl⟩ := hh; split <;> omega
    · have := hI.fi.cubB t' k' h; split <;> omega
  · intro x h
    have hd := hI.deadClean x h
    have hxt : x ≠ t := by intro h'; subst h'; have h2 : s.ids x = none := h; rw [he] at h2; cases h2
    exact ⟨h, hd.noLease, hd.noAcc, fun k' => by simp [cubbyTok, hxt, hd.noCub k'], hd.leases⟩

def leaseTok (t lk : Nat) (s : St) : St :=
  { s with nextL := s.nextL + 1, lkey := fun x => if x = s.nextL then lk else s.lkey x,
           sl := fun x => if x = s.nextL then some (t, false) else s.sl x,
           tix := fun x y => if x = t ∧ y = s.nextL then true else s.tix x y }

theorem run_lease {s : St} (hI : Inv s) (f t lk : Nat) :
    run ((Req.lease t lk).prog (f+1)) s =
      if (s.ids t).isSome then (.ok (), leaseTok t lk s) else (.error .denied, s) := by
  unfold Req.prog
  simp only [bind_eq]
  rw [run_bind, hI.run_auth]
  cases ht : s.ids t with
  | none => rfl
  | some e => rfl

theorem inv_leaseTok {s : St} (hI : Inv s) (t lk : Nat) (ht : (s.ids t).isSome) : Inv (leaseTok t lk s) := by
  obtain ⟨e, he⟩ := Option.isSome_iff_exists.mp ht
  refine ⟨⟨hI.fi.edge_lt, hI.fi.edge_live, hI.fi.entry_edge, hI.fi.idsB, ?_, hI.fi.cubB, ?_, ?_⟩,
    hI.unmarked, hI.lease, hI.acc, hI.cacheEq, ?_, hI.parentLive, hI.pendClean⟩
  · intro x e' h
    have hx := hI.fi.tok x e' h
    exact ⟨hx.pend, hx.cache, hx.tlc⟩
  · intro t' l h
    simp only [leaseTok] at h ⊢
    split at h
    · rename_i hh; obtain ⟨_, rfl⟩ := hh; omega
    · have := hI.fi.tixB t' l h; omega
  · intro l t' h
    simp only [leaseTok] at h ⊢
    split at h
    · rename_i hl; cases h; simp [hl]
    · have := hI.fi.slIx l t' h; simp [this]
  · intro x h
    have hd := hI.deadClean x h
    have hxt : x ≠ t := by intro h'; subst h'; have h2 : s.ids x = none := h; rw [he] at h2; cases h2
    refine ⟨h, hd.noLease, hd.noAcc, hd.noCub, ?_⟩
    intro l e' hl
    simp only [leaseTok] at hl
    split at hl
    · cases hl; exact absurd rfl hxt
    · exact hd.leases l e' hl

theorem run_lookupSelf {s : St} (hI : Inv s) (f t : Nat) :
    (run ((Req.lookupSelf t).prog (f+1)) s).2 = s := by
  unfold Req.prog
  simp only [bind_eq, pure_eq]
  rw [run_bind, hI.run_auth]
  cases ht : s.ids t with
  | none => rfl
  | some e =>
    simp only [Option.isSome_some, if_true]
    rw [run_bind, hI.run_lookup, ht]
    rfl

theorem inv_settle {s : St} (hI : Inv s) : Inv s.settle := by
  refine ⟨⟨hI.fi.edge_lt, hI.fi.edge_live, hI.fi.entry_edge, hI.fi.idsB, ?_, hI.fi.cubB, ?_, ?_⟩,
    hI.unmarked, hI.lease, hI.acc, hI.cacheEq, ?_, hI.parentLive, hI.pendClean⟩
  · intro x e' h
    have hx := hI.fi.tok x e' h
    exact ⟨hx.pend, hx.cache, hx.tlc⟩
  · intro t l h
    simp only [St.settle, Bool.and_eq_true] at h
    exact hI.fi.tixB t l h.1
  · intro l t h
    simp only [St.settle] at h ⊢
    have hs : s.sl l = some (t, false) := by
      cases hq : s.sl l with
      | none => rw [hq] at h; cases h
      | some q =>
        obtain ⟨t', b⟩ := q
        cases b with
        | true => rw [hq] at h; cases h
        | false => rw [hq] at h; exact h
    simp [hs, hI.fi.slIx l t hs]
  · intro x h
    have hd := hI.deadClean x h
    refine ⟨h, hd.noLease, hd.noAcc, hd.noCub, ?_⟩
    intro l e' hl
    simp only [St.settle] at hl
    cases hq : s.sl l with
    | none => rw [hq] at hl; cases hl
    | some q =>
      obtain ⟨t', b⟩ := q
      cases b with
      | true => rw [hq] at hl; cases hl
      | false => rw [hq] at hl; cases hl; exact hd.leases l false hq

end Obao.Revoke
