import Obao.Proofs.ListingProofs
/-! Key/value map lemmas, the file backend's page, the read cache and view confinement (property C13). Core Lean only. -/
namespace Obao.KV

theorem kvGet_insertKV_ne {k k' : Key} (v : Val) (s : Store) (h : k' ≠ k) : kvGet (insertKV k v s) k' = kvGet s k' := by
  induction s with
  | nil => simp [insertKV, kvGet, Ne.symm h]
  | cons e r ih =>
    obtain ⟨k0, v0⟩ := e
    unfold insertKV
    split
    · simp [kvGet, Ne.symm h]
    · simp only [kvGet]
      split
      · rfl
      · exact ih

theorem kvGet_insertKV_same {k : Key} (v : Val) (s : Store) (h : ∀ e ∈ s, e.1 ≠ k) : kvGet (insertKV k v s) k = some v := by
  induction s with
  | nil => simp [insertKV, kvGet]
  | cons e r ih =>
    obtain ⟨k0, v0⟩ := e
    unfold insertKV
    split
    · simp [kvGet]
    · simp only [kvGet]
      have hne : k0 ≠ k := h (k0, v0) (List.mem_cons_self ..)
      simp only [hne, if_false]
      exact ih (fun e he => h e (List.mem_cons_of_mem _ he))

theorem kvGet_kvDel (s : Store) (k k' : Key) : kvGet (kvDel s k) k' = if k' = k then none else kvGet s k' := by
  induction s with
  | nil => simp [kvDel, kvGet]
  | cons e r ih =>
    obtain ⟨k0, v0⟩ := e
    unfold kvDel at ih ⊢
    by_cases h0 : k0 = k
    · subst h0
      rw [List.filter_cons_of_neg (by simp)]
      rw [ih]
      by_cases h1 : k' = k0
      · simp [h1]
      · simp [h1, kvGet, Ne.symm h1]
    · rw [List.filter_cons_of_pos (by simpa using h0)]
      simp only [kvGet]
      by_cases h1 : k0 = k'
      · subst h1; simp [h0]
      · simp only [h1, if_false]; exact ih

theorem kvGet_kvPut (s : Store) (k k' : Key) (v : Val) : kvGet (kvPut s k v) k' = if k' = k then some v else kvGet s k' := by
  unfold kvPut
  by_cases h : k' = k
  · subst h
    simp only [if_true]
    apply kvGet_insertKV_same
    intro e he
    have := (List.mem_filter.mp he).2
    simpa using this
  · simp only [h, if_false]
    rw [kvGet_insertKV_ne v _ h, kvGet_kvDel]
    simp [h]

theorem keys_insertKV_mem {k k' : Key} {v : Val} {s : Store} : k' ∈ keys (insertKV k v s) ↔ k' = k ∨ k' ∈ keys s := by
  induction s with
  | nil => simp [insertKV, keys]
  | cons e r ih =>
    obtain ⟨k0, v0⟩ := e
    unfold insertKV
    split
    · simp [keys]
    · simp only [keys, List.map_cons, List.mem_cons] at ih ⊢
      rw [ih]
      constructor
      · rintro (h | h | h) <;> simp [h]
      · rintro (h | h | h) <;> simp [h]

theorem keys_kvDel (s : Store) (k : Key) : keys (kvDel s k) = (keys s).filter (· ≠ k) := by
  unfold keys kvDel
  induction s with
  | nil => rfl
  | cons e r ih =>
    by_cases h : e.1 = k
    · rw [List.filter_cons_of_neg (by simpa using h)]
      simp only [List.map_cons]
      rw [List.filter_cons_of_neg (by simpa using h)]
      exact ih
    · rw [List.filter_cons_of_pos (by simpa using h)]
      simp only [List.map_cons]
      rw [List.filter_cons_of_pos (by simpa using h)]
      rw [ih]

theorem sorted_keys_insertKV {k : Key} {v : Val} {s : Store} (hs : Sorted (keys s)) (hk : k ∉ keys s) :
    Sorted (keys (insertKV k v s)) := by
  induction s with
  | nil => simp [insertKV, keys, Sorted]
  | cons e r ih =>
    obtain ⟨k0, v0⟩ := e
    unfold Sorted at hs ih ⊢
    simp only [keys, List.map_cons] at hs hk ih
    have h0 := List.pairwise_cons.mp hs
    unfold insertKV
    split
    · rename_i hlt
      simp only [keys, List.map_cons]
      refine List.pairwise_cons.mpr ⟨?_, hs⟩
      intro z hz
      rcases List.mem_cons.mp hz with e | hz
      · subst e; exact hlt
      · exact klt_trans hlt (h0.1 z hz)
    · rename_i hnlt
      have hne : k ≠ k0 := fun e => hk (by simp [e])
      have hlt : k0 < k := by
        rcases klt_trichotomy k k0 with h | h | h
        · exact absurd h hnlt
        · exact absurd h hne
        · exact h
      simp only [keys, List.map_cons]
      refine List.pairwise_cons.mpr ⟨?_, ih h0.2 (fun m => hk (List.mem_cons_of_mem _ m))⟩
      intro z hz
      rcases (keys_insertKV_mem (s := r)).mp hz with e | hz
      · subst e; exact hlt
      · exact h0.1 z hz

theorem sorted_keys_kvDel {s : Store} (k : Key) (hs : Sorted (keys s)) : Sorted (keys (kvDel s k)) := by
  rw [keys_kvDel]; exact sorted_filter _ hs

theorem sorted_keys_kvPut {s : Store} (k : Key) (v : Val) (hs : Sorted (keys s)) : Sorted (keys (kvPut s k v)) := by
  unfold kvPut
  apply sorted_keys_insertKV (sorted_keys_kvDel k hs)
  rw [keys_kvDel]
  simp

theorem mem_keys_kvPut {s : Store} {k k' : Key} {v : Val} : k' ∈ keys (kvPut s k v) ↔ k' = k ∨ k' ∈ keys s := by
  unfold kvPut
  rw [keys_insertKV_mem, keys_kvDel, List.mem_filter]
  constructor
  · rintro (h | h)
    · exact .inl h
    · exact .inr h.1
  · rintro (h | h)
    · exact .inl h
    · by_cases e : k' = k
      · exact .inl e
      · exact .inr ⟨h, by simpa using e⟩

theorem mem_keys_kvDel {s : Store} {k k' : Key} : k' ∈ keys (kvDel s k) ↔ k' ≠ k ∧ k' ∈ keys s := by
  rw [keys_kvDel, List.mem_filter]
  constructor
  · rintro ⟨h1, h2⟩; exact ⟨by simpa using h2, h1⟩
  · rintro ⟨h1, h2⟩; exact ⟨h2, by simpa using h1⟩

end Obao.KV

namespace Obao.Listing
open Obao.KV

/-! ### file backend -/

theorem fileSkip_eq_filter (names : List Key) (hs : Sorted names) (after : Key) :
    names.drop (if names[searchStrings names after]? = some after then searchStrings names after + 1 else searchStrings names after)
      = names.filter (fun c => after < c) := by
  induction names with
  | nil => simp [searchStrings]
  | cons x xs ih =>
    have hx := List.pairwise_cons.mp hs
    by_cases hlt : x < after
    · have h1 : searchStrings (x :: xs) after = searchStrings xs after + 1 := by
        unfold searchStrings; rw [List.takeWhile_cons_of_pos (by simpa using hlt)]; simp
      rw [h1]
      simp only [List.getElem?_cons_succ]
      rw [List.filter_cons_of_neg (by simpa using klt_asymm hlt)]
      rw [← ih hx.2]
      split <;> simp
    · have h1 : searchStrings (x :: xs) after = 0 := by
        unfold searchStrings; rw [List.takeWhile_cons_of_neg (by simpa using hlt)]; simp
      rw [h1]
      simp only [List.getElem?_cons_zero, Option.some.injEq]
      have hall : ∀ z ∈ xs, after < z := fun z hz => klt_of_le_of_lt (knot_lt.mp hlt) (hx.1 z hz)
      have hfilt : xs.filter (fun c => after < c) = xs := by
        rw [List.filter_eq_self]; intro z hz; simpa using hall z hz
      by_cases he : x = after
      · subst he
        simp only [if_true, Nat.zero_add, List.drop_succ_cons, List.drop_zero]
        rw [List.filter_cons_of_neg (by simpa using klt_irrefl x), hfilt]
      · simp only [he, if_false, List.drop_zero]
        have : after < x := by
          rcases klt_trichotomy x after with h | h | h
          · exact absurd h hlt
          · exact absurd h he
          · exact h
        rw [List.filter_cons_of_pos (by simpa using this), hfilt]

/-- **file**: sorted directory names, `sort.SearchStrings`, slice — equals the specification -/
theorem fileList_eq_listPage (keys : List Key) (p after : Key) (limit : Int) :
    fileList (children keys p) after limit = listPage keys p after limit := by
  have hs := children_sorted' keys p
  rw [listPage_eq]
  unfold fileList spec0
  simp only
  have hnames : (if after ≠ [] then
        (children keys p).drop (if (children keys p)[searchStrings (children keys p) after]? = some after
          then searchStrings (children keys p) after + 1 else searchStrings (children keys p) after)
      else children keys p) = (if after = [] then children keys p else (children keys p).filter (fun c => after < c)) := by
    by_cases ha : after = []
    · simp [ha]
    · simp only [ha, ne_eq, not_false_eq_true, if_true, if_false]
      exact fileSkip_eq_filter _ hs after
  rw [hnames]
  split
  · rename_i hl
    generalize (if after = [] then children keys p else (children keys p).filter (fun c => after < c)) = L
    split
    · rename_i hgt
      rw [List.take_of_length_le (Nat.le_refl _), List.take_of_length_le (by omega)]
    · rfl
  · rfl

/-! ### read cache -/

/-- every cached result is what the backend would answer -/
def Coherent (c : CacheSt) : Prop := ∀ k r, updGet c.lru k = some r → r = kvGet c.backend k

theorem updGet_updSet (u : Updates) (k k' : Key) (r : Option Val) :
    updGet (updSet u k r) k' = if k' = k then some r else updGet u k' := by
  unfold updSet
  by_cases h : k' = k
  · subst h; simp [updGet]
  · simp only [updGet, h, if_false]
    have hne : ¬ k = k' := fun e => h e.symm
    simp only [hne, if_false]
    induction u with
    | nil => rfl
    | cons e r' ih =>
      by_cases he : e.1 = k
      · rw [List.filter_cons_of_neg (by simpa using he)]
        rw [ih]
        obtain ⟨k0, v0⟩ := e
        simp only at he
        subst he
        simp [updGet, hne]
      · rw [List.filter_cons_of_pos (by simpa using he)]
        obtain ⟨k0, v0⟩ := e
        simp only [updGet]
        split
        · rfl
        · exact ih

theorem updGet_lruRemove (u : Updates) (k k' : Key) :
    updGet (lruRemove u k) k' = if k' = k then none else updGet u k' := by
  unfold lruRemove
  induction u with
  | nil => simp [updGet]
  | cons e r ih =>
    obtain ⟨k0, v0⟩ := e
    by_cases he : k0 = k
    · subst he
      rw [List.filter_cons_of_neg (by simp), ih]
      by_cases h : k' = k0
      · simp [h]
      · have : ¬ k0 = k' := fun e => h e.symm
        simp [h, updGet, this]
    · rw [List.filter_cons_of_pos (by simpa using he)]
      simp only [updGet]
      by_cases h : k0 = k'
      · subst h; simp [he]
      · simp only [h, if_false]; exact ih

theorem coherent_step (c : CacheSt) (op : CacheOp) (h : Coherent c) :
    Coherent (cacheStep c op).1 ∧ (cacheStep c op).2 = (plainStep c.backend op).2 ∧
      (cacheStep c op).1.backend = (plainStep c.backend op).1 := by
  cases op with
  | get k =>
    simp only [cacheStep, plainStep]
    cases hg : updGet c.lru k with
    | some r =>
      simp only
      exact ⟨h, by rw [h k r hg], trivial⟩
    | none =>
      simp only
      refine ⟨?_, trivial, trivial⟩
      intro k' r' hr'
      simp only at hr'
      rw [updGet_updSet] at hr'
      by_cases e : k' = k
      · subst e; simp at hr'; exact hr'.symm
      · simp only [e, if_false] at hr'; exact h k' r' hr'
  | put k v =>
    unfold cacheStep plainStep
    refine ⟨?_, rfl, rfl⟩
    intro k' r' hr'
    simp only at hr'
    rw [updGet_updSet] at hr'
    simp only
    rw [kvGet_kvPut]
    by_cases e : k' = k
    · simp only [e, if_true] at hr' ⊢; exact (Option.some.inj hr').symm
    · simp only [e, if_false] at hr' ⊢; exact h k' r' hr'
  | del k =>
    unfold cacheStep plainStep
    refine ⟨?_, rfl, rfl⟩
    intro k' r' hr'
    simp only at hr'
    rw [updGet_lruRemove] at hr'
    simp only
    rw [kvGet_kvDel]
    by_cases e : k' = k
    · simp [e] at hr'
    · simp only [e, if_false] at hr' ⊢; exact h k' r' hr'
  | evict k =>
    unfold cacheStep plainStep
    refine ⟨?_, rfl, rfl⟩
    intro k' r' hr'
    simp only at hr'
    rw [updGet_lruRemove] at hr'
    by_cases e : k' = k
    · simp [e] at hr'
    · simp only [e, if_false] at hr'; exact h k' r' hr'

theorem cacheRun_eq_plainRun (c : CacheSt) (h : Coherent c) (ops : List CacheOp) :
    cacheRun c ops = plainRun c.backend ops := by
  induction ops generalizing c with
  | nil => rfl
  | cons op r ih =>
    obtain ⟨h1, h2, h3⟩ := coherent_step c op h
    unfold cacheRun plainRun
    simp only
    rw [h2, ih _ h1, h3]

/-! ### views -/

theorem xlate_prefix (w : Bool) (layers : List Layer) (k bk : Key) (h : xlate w layers k = some (.ok bk)) :
    bk = viewPrefix layers ++ k := by
  induction layers generalizing k with
  | nil => simp [xlate] at h; simp [viewPrefix, h]
  | cons l r ih =>
    cases l with
    | cache => simp only [xlate] at h; simpa [viewPrefix] using ih k h
    | enc =>
      simp only [xlate] at h
      split at h
      · split at h
        · exact absurd h (by simp)
        · exact absurd h (by simp)
        · simpa [viewPrefix] using ih k h
      · simpa [viewPrefix] using ih k h
    | pview p =>
      simp only [xlate] at h
      split at h
      · exact absurd h (by simp)
      · have := ih (p ++ k) h
        simp [viewPrefix, this]
    | lview p =>
      simp only [xlate] at h
      split at h
      · exact absurd h (by simp)
      · have := ih (p ++ k) h
        simp [viewPrefix, this]

theorem trimPrefix_append (p k : Key) : trimPrefix p (p ++ k) = k := by
  unfold trimPrefix
  simp [hasPrefix_append]

/-- what goes down through the views comes back up: the key of the returned entry is the key that was asked for -/
theorem keyBack_xlate (w : Bool) (layers : List Layer) (k bk : Key) (h : xlate w layers k = some (.ok bk)) :
    keyBack layers bk = k := by
  induction layers generalizing k with
  | nil => simp [xlate] at h; simp [keyBack, h]
  | cons l r ih =>
    cases l with
    | cache => simp only [xlate] at h; simpa [keyBack] using ih k h
    | enc =>
      simp only [xlate] at h
      split at h
      · split at h
        · exact absurd h (by simp)
        · exact absurd h (by simp)
        · simpa [keyBack] using ih k h
      · simpa [keyBack] using ih k h
    | pview p =>
      simp only [xlate] at h
      split at h
      · exact absurd h (by simp)
      · simp only [keyBack, ih (p ++ k) h, trimPrefix_append]
    | lview p =>
      simp only [xlate] at h
      split at h
      · exact absurd h (by simp)
      · simp only [keyBack, ih (p ++ k) h, trimPrefix_append]

end Obao.Listing
