import Obao.Model.SortedKV
/-! Order lemmas on keys (`List Nat`, bytewise lexicographic) used by the C13 proofs. Core Lean only. -/
namespace Obao.KV

theorem klt_irrefl (a : Key) : ¬ a < a := List.lt_irrefl a
theorem klt_trans {a b c : Key} (h1 : a < b) (h2 : b < c) : a < c := List.lt_trans h1 h2
theorem klt_asymm {a b : Key} (h : a < b) : ¬ b < a := List.lt_asymm h
theorem kle_refl (a : Key) : a ≤ a := List.le_refl a
theorem kle_trans {a b c : Key} (h1 : a ≤ b) (h2 : b ≤ c) : a ≤ c := List.le_trans h1 h2
theorem klt_of_le_of_lt {a b c : Key} (h1 : a ≤ b) (h2 : b < c) : a < c := List.lt_of_le_of_lt h1 h2
theorem kle_of_lt {a b : Key} (h : a < b) : a ≤ b := List.le_of_lt h
theorem kle_antisymm {a b : Key} (h1 : a ≤ b) (h2 : b ≤ a) : a = b := List.le_antisymm h1 h2
theorem knot_lt {a b : Key} : ¬ a < b ↔ b ≤ a := List.not_lt
theorem knot_le {a b : Key} : ¬ a ≤ b ↔ b < a := List.not_le
theorem klt_trichotomy (a b : Key) : a < b ∨ a = b ∨ b < a := Std.lt_trichotomy a b

theorem klt_of_lt_of_le {a b c : Key} (h1 : a < b) (h2 : b ≤ c) : a < c := by
  rcases klt_trichotomy a c with h | h | h
  · exact h
  · subst h; exact absurd h1 (knot_lt.mpr h2)
  · exact absurd (klt_trans h h1) (knot_lt.mpr h2)

theorem kle_iff_lt_or_eq {a b : Key} : a ≤ b ↔ a < b ∨ a = b := by
  constructor
  · intro h
    rcases klt_trichotomy a b with h' | h' | h'
    · exact .inl h'
    · exact .inr h'
    · exact absurd h' (knot_lt.mpr h)
  · rintro (h | h)
    · exact kle_of_lt h
    · subst h; exact kle_refl a

theorem klt_ne {a b : Key} (h : a < b) : a ≠ b := by
  intro e; subst e; exact klt_irrefl a h

theorem nil_kle (a : Key) : ([] : Key) ≤ a := by
  cases a with
  | nil => exact kle_refl _
  | cons x xs => exact kle_of_lt (List.nil_lt_cons x xs)

theorem not_klt_nil (a : Key) : ¬ a < ([] : Key) := knot_lt.mpr (nil_kle a)

theorem cons_klt_cons {x y : Nat} {a b : Key} : x :: a < y :: b ↔ x < y ∨ x = y ∧ a < b := List.cons_lt_cons_iff
theorem cons_kle_cons {x y : Nat} {a b : Key} : x :: a ≤ y :: b ↔ x < y ∨ x = y ∧ a ≤ b := List.cons_le_cons_iff

theorem append_klt_append_left (p : Key) {a b : Key} : p ++ a < p ++ b ↔ a < b := by
  induction p with
  | nil => simp
  | cons x xs ih =>
    simp only [List.cons_append, cons_klt_cons, Nat.lt_irrefl, true_and, false_or]
    exact ih

theorem append_kle_append_left (p : Key) {a b : Key} : p ++ a ≤ p ++ b ↔ a ≤ b := by
  rw [← knot_lt, ← knot_lt, append_klt_append_left]

theorem kle_append_right (a b : Key) : a ≤ a ++ b := by
  have := (append_kle_append_left a (a := []) (b := b)).mpr (nil_kle b)
  simpa using this

/-- `hasPrefix` as an equation -/
theorem hasPrefix_iff {p k : Key} : hasPrefix p k = true ↔ ∃ t, k = p ++ t := by
  unfold hasPrefix
  rw [List.isPrefixOf_iff_prefix]
  constructor
  · rintro ⟨t, rfl⟩; exact ⟨t, rfl⟩
  · rintro ⟨t, rfl⟩; exact ⟨t, rfl⟩

theorem hasPrefix_append (p t : Key) : hasPrefix p (p ++ t) = true := hasPrefix_iff.mpr ⟨t, rfl⟩

theorem drop_of_hasPrefix {p k : Key} (h : hasPrefix p k = true) : p ++ k.drop p.length = k := by
  obtain ⟨t, rfl⟩ := hasPrefix_iff.mp h
  simp

/-- keys with a given prefix form an interval of the order -/
theorem hasPrefix_convex {p a b c : Key} (ha : hasPrefix p a = true) (hc : hasPrefix p c = true)
    (hab : a ≤ b) (hbc : b ≤ c) : hasPrefix p b = true := by
  obtain ⟨ta, rfl⟩ := hasPrefix_iff.mp ha
  obtain ⟨tc, rfl⟩ := hasPrefix_iff.mp hc
  clear ha hc
  induction p generalizing b with
  | nil => exact hasPrefix_iff.mpr ⟨b, by simp⟩
  | cons x xs ih =>
    cases b with
    | nil =>
      exact absurd hab (by simpa using knot_le.mpr (List.nil_lt_cons x (xs ++ ta)))
    | cons y ys =>
      simp only [List.cons_append, cons_kle_cons] at hab hbc
      have hxy : x = y := by
        rcases hab with h | ⟨h, _⟩
        · rcases hbc with h' | ⟨h', _⟩
          · omega
          · omega
        · exact h
      subst hxy
      have h1 : xs ++ ta ≤ ys := by
        rcases hab with h | ⟨_, h⟩
        · omega
        · exact h
      have h2 : ys ≤ xs ++ tc := by
        rcases hbc with h | ⟨_, h⟩
        · omega
        · exact h
      obtain ⟨t, ht⟩ := hasPrefix_iff.mp (ih h1 h2)
      exact hasPrefix_iff.mpr ⟨t, by simp [ht]⟩

end Obao.KV
