import Obao.Proofs.KV2
/-! C14 helper lemmas, part 2: what each request does to one path; well-formedness of every reachable state. -/
namespace Obao.KV2

@[simp] theorem setPath_same (s : State) (p : String) (ps : PathSt) : (setPath s p ps).paths p = ps := by
  simp [setPath]

theorem setPath_other (s : State) (p q : String) (ps : PathSt) (h : q ≠ p) : (setPath s p ps).paths q = s.paths q := by
  simp [setPath, h]

@[simp] theorem setPath_cfg (s : State) (p : String) (ps : PathSt) : (setPath s p ps).cfg = s.cfg := rfl

theorem setPath_paths (s : State) (p q : String) (ps : PathSt) :
    (setPath s p ps).paths q = if q = p then ps else s.paths q := rfl

theorem metaOr_wf (ps : PathSt) (h : PathWF ps) : MetaWF (metaOr ps) := by
  unfold metaOr; split
  · rename_i m hm; exact h.mwf m hm
  · exact freshMeta_wf

theorem metaOr_some (ps : PathSt) (m : Meta) (h : ps.md = some m) : metaOr ps = m := by unfold metaOr; rw [h]

theorem metaOr_none (ps : PathSt) (h : ps.md = none) : metaOr ps = freshMeta := by unfold metaOr; rw [h]

/-- versions of the metadata a write works on are versions of the stored metadata -/
theorem metaOr_versions (ps : PathSt) (w : Nat) (vm : Ver) (h : (metaOr ps).versions w = some vm) :
    ∃ m, ps.md = some m ∧ m.versions w = some vm := by
  unfold metaOr at h; split at h
  · rename_i m hm; exact ⟨m, hm, h⟩
  · simp [freshMeta] at h

/-! ### write and patch -/

theorem writePath_cases (cfg : Config) (ps : PathSt) (cas : Cas) (d : Data) (tx : Bool) (fault : Option Nat) :
    ((writePath cfg ps cas d tx fault).1 = ps ∧ ∃ e, (writePath cfg ps cas d tx fault).2.1 = .err e) ∨
    (casCheck cas cfg (metaOr ps) = none ∧
      WriteOutcome ps (metaOr ps) d (newDel cfg (metaOr ps)) cfg.maxVersions
        (writePath cfg ps cas d tx fault).1 (writePath cfg ps cas d tx fault).2.1) := by
  cases tx <;> simp only [writePath, Bool.false_eq_true, false_and, true_and, ↓reduceIte]
  · split
    · exact Or.inl ⟨rfl, _, rfl⟩
    split
    · exact Or.inl ⟨rfl, _, rfl⟩
    · rename_i hc
      exact Or.inr ⟨hc, commitWrite_outcome _ _ _ _ _ _ _ _⟩
  · split
    · exact Or.inl ⟨rfl, _, rfl⟩
    split
    · exact Or.inl ⟨rfl, _, rfl⟩
    split
    · exact Or.inl ⟨rfl, _, rfl⟩
    · rename_i hc
      exact Or.inr ⟨hc, commitWrite_outcome _ _ _ _ _ _ _ _⟩

/-- a response that leaves the storage alone: an error, a bare 404 or a 404 with version metadata -/
def Resp.refusal : Resp → Prop
  | .err _ | .notFound | .gone _ _ _ => True
  | _ => False

theorem patchPath_cases (cfg : Config) (ps : PathSt) (cas : Cas) (pd : PatchData) (tx : Bool) (fault : Option Nat) :
    ((patchPath cfg ps cas pd tx fault).1 = ps ∧ (patchPath cfg ps cas pd tx fault).2.1.refusal) ∨
    (∃ m vm d0, ps.md = some m ∧ casCheck cas cfg m = none ∧ m.versions m.current = some vm ∧ vm.del ≠ .deleted ∧
      vm.destroyed = false ∧ ps.blobs m.current = some d0 ∧
      WriteOutcome ps m (mergePatch d0 pd) (newDel cfg m) cfg.maxVersions
        (patchPath cfg ps cas pd tx fault).1 (patchPath cfg ps cas pd tx fault).2.1) := by
  have tail : ∀ (b : Nat),
      ((patchBody cfg ps cas pd tx fault b).1 = ps ∧ (patchBody cfg ps cas pd tx fault b).2.1.refusal) ∨
      (∃ m vm d0, ps.md = some m ∧ casCheck cas cfg m = none ∧ m.versions m.current = some vm ∧ vm.del ≠ .deleted ∧
        vm.destroyed = false ∧ ps.blobs m.current = some d0 ∧
        WriteOutcome ps m (mergePatch d0 pd) (newDel cfg m) cfg.maxVersions
          (patchBody cfg ps cas pd tx fault b).1 (patchBody cfg ps cas pd tx fault b).2.1) := by
    intro b
    unfold patchBody
    split
    · exact Or.inl ⟨rfl, trivial⟩
    rename_i m hm
    split
    · exact Or.inl ⟨rfl, trivial⟩
    rename_i hc
    split
    · exact Or.inl ⟨rfl, trivial⟩
    rename_i vm hvm
    split
    · exact Or.inl ⟨rfl, trivial⟩
    rename_i hdel
    split
    · exact Or.inl ⟨rfl, trivial⟩
    rename_i hds
    split
    · exact Or.inl ⟨rfl, trivial⟩
    split
    · exact Or.inl ⟨rfl, trivial⟩
    rename_i d0 hd0
    exact Or.inr ⟨m, vm, d0, hm, hc, hvm, hdel, by simpa using hds, hd0, commitWrite_outcome _ _ _ _ _ _ _ _⟩
  cases tx <;> simp only [patchPath, Bool.false_eq_true, false_and, true_and, ↓reduceIte]
  · split
    · exact Or.inl ⟨rfl, trivial⟩
    · exact tail 0
  · split
    · exact Or.inl ⟨rfl, trivial⟩
    split
    · exact Or.inl ⟨rfl, trivial⟩
    · exact tail 1

theorem writeOutcome_wf (ps ps' : PathSt) (m : Meta) (d : Data) (del : Del) (c : Nat) (r : Resp)
    (hwf : PathWF ps) (hm : m = metaOr ps) (h : WriteOutcome ps m d del c ps' r) : PathWF ps' := by
  have mwf : MetaWF m := hm ▸ metaOr_wf ps hwf
  rcases h with ⟨w, _, hmd, hb, hrest⟩ | ⟨_, hmd, hrest⟩
  · have awf := addVersion_wf m del c mwf
    constructor
    · intro m' hm'; rw [hmd] at hm'; cases hm'; exact awf
    · intro m' x vm hm' hv hd
      rw [hmd] at hm'; cases hm'
      have hbnd := awf.bound x vm hv
      rw [addVersion_versions] at hv
      by_cases hpr : pruned m c x
      · simp [hpr] at hv
      · simp only [hpr, ↓reduceIte] at hv
        by_cases hx : x = m.current + 1
        · subst hx; simp [hb]
        · simp only [hx, ↓reduceIte] at hv
          have hgt : (addVersion m del c).2 < x := by
            rcases addVersion_vtd m del c with h0 | h1 <;> omega
          rw [hrest x hgt hx]
          obtain ⟨m0, hm0, hv0⟩ := metaOr_versions ps x vm (hm ▸ hv)
          exact hwf.blob m0 x vm hm0 hv0 hd
  · constructor
    · intro m' hm'; rw [hmd] at hm'; exact hwf.mwf m' hm'
    · intro m' x vm hm' hv hd
      rw [hmd] at hm'
      have hb := (hwf.mwf m' hm').bound x vm hv
      have hcur : m.current = m'.current := by rw [hm]; unfold metaOr; rw [hm']
      rw [hrest x (by omega)]
      exact hwf.blob m' x vm hm' hv hd

theorem writePath_wf (cfg : Config) (ps : PathSt) (cas : Cas) (d : Data) (tx : Bool) (fault : Option Nat)
    (h : PathWF ps) : PathWF (writePath cfg ps cas d tx fault).1 := by
  rcases writePath_cases cfg ps cas d tx fault with ⟨e, _⟩ | ⟨_, ho⟩
  · rw [e]; exact h
  · exact writeOutcome_wf _ _ _ _ _ _ _ h rfl ho

theorem patchPath_wf (cfg : Config) (ps : PathSt) (cas : Cas) (pd : PatchData) (tx : Bool) (fault : Option Nat)
    (h : PathWF ps) : PathWF (patchPath cfg ps cas pd tx fault).1 := by
  rcases patchPath_cases cfg ps cas pd tx fault with ⟨e, _⟩ | ⟨m, vm, d0, hm, _, _, _, _, _, ho⟩
  · rw [e]; exact h
  · exact writeOutcome_wf _ _ _ _ _ _ _ h (by unfold metaOr; rw [hm]) ho

/-! ### delete / undelete / destroy: only flags of versions change -/

/-- `m'` is `m` with some versions' flags changed; a destroyed version stays destroyed -/
structure FlagStep (m m' : Meta) : Prop where
  cur : m'.current = m.current
  old : m'.oldest = m.oldest
  mx : m'.maxVersions = m.maxVersions
  cr : m'.casRequired = m.casRequired
  dva : m'.dva = m.dva
  mv : m'.metaVersion = m.metaVersion
  vers : ∀ w, m'.versions w = m.versions w ∨
    ∃ vm vm', m.versions w = some vm ∧ m'.versions w = some vm' ∧ (vm.destroyed = true → vm'.destroyed = true)

theorem FlagStep.refl (m : Meta) : FlagStep m m := ⟨rfl, rfl, rfl, rfl, rfl, rfl, fun _ => Or.inl rfl⟩

theorem FlagStep.trans {a b c : Meta} (h1 : FlagStep a b) (h2 : FlagStep b c) : FlagStep a c := by
  refine ⟨h2.cur.trans h1.cur, h2.old.trans h1.old, h2.mx.trans h1.mx, h2.cr.trans h1.cr, h2.dva.trans h1.dva,
    h2.mv.trans h1.mv, ?_⟩
  intro w
  rcases h1.vers w with e1 | ⟨vm, vm', ha, hb, hd⟩
  · rcases h2.vers w with e2 | ⟨vm, vm', ha, hb, hd⟩
    · exact Or.inl (e2.trans e1)
    · exact Or.inr ⟨vm, vm', e1 ▸ ha, hb, hd⟩
  · rcases h2.vers w with e2 | ⟨vm2, vm2', ha2, hb2, hd2⟩
    · exact Or.inr ⟨vm, vm', ha, e2 ▸ hb, hd⟩
    · rw [hb] at ha2; cases ha2
      exact Or.inr ⟨vm, vm2', ha, hb2, fun h => hd2 (hd h)⟩

theorem FlagStep.isSome {m m' : Meta} (h : FlagStep m m') (w : Nat) : (m'.versions w).isSome = (m.versions w).isSome := by
  rcases h.vers w with e | ⟨vm, vm', ha, hb, _⟩
  · rw [e]
  · rw [ha, hb]; rfl

/-- a version that is not destroyed afterwards existed and was not destroyed before -/
theorem FlagStep.live {m m' : Meta} (h : FlagStep m m') (w : Nat) (vm' : Ver) (hv : m'.versions w = some vm')
    (hd : vm'.destroyed = false) : ∃ vm, m.versions w = some vm ∧ vm.destroyed = false := by
  rcases h.vers w with e | ⟨vm, vm2, ha, hb, hmono⟩
  · exact ⟨vm', e ▸ hv, hd⟩
  · rw [hb] at hv; cases hv
    refine ⟨vm, ha, ?_⟩
    cases hvd : vm.destroyed
    · rfl
    · have := hmono hvd; rw [hd] at this; cases this

theorem FlagStep.wf {m m' : Meta} (h : FlagStep m m') (hw : MetaWF m) : MetaWF m' := by
  constructor
  · intro w vm hv
    have : (m.versions w).isSome = true := by rw [← h.isSome w, hv]; rfl
    obtain ⟨vm0, hv0⟩ := Option.isSome_iff_exists.mp this
    have := hw.bound w vm0 hv0
    rw [h.cur, h.old]; exact this
  · rw [h.cur, h.old]; exact hw.old_le

theorem setVer_flagStep (m : Meta) (w : Nat) (vm vm' : Ver) (hv : m.versions w = some vm)
    (hd : vm.destroyed = true → vm'.destroyed = true) : FlagStep m (setVer m w vm') := by
  refine ⟨rfl, rfl, rfl, rfl, rfl, rfl, ?_⟩
  intro x
  by_cases hx : x = w
  · subst hx; exact Or.inr ⟨vm, vm', hv, by simp [setVer], hd⟩
  · exact Or.inl (by simp [setVer, hx])

theorem markDeleted_flagStep (m : Meta) (v : Int) : FlagStep m (markDeleted m v) := by
  unfold markDeleted
  split
  · exact FlagStep.refl m
  · rename_i vm hv
    split
    · exact FlagStep.refl m
    · split
      · exact FlagStep.refl m
      · exact setVer_flagStep m _ vm _ hv (fun h => h)

theorem markUndeleted_flagStep (cfg : Config) (m : Meta) (v : Int) : FlagStep m (markUndeleted cfg m v) := by
  unfold markUndeleted
  split
  · exact FlagStep.refl m
  · rename_i vm hv
    split
    · exact FlagStep.refl m
    · exact setVer_flagStep m _ vm _ hv (fun h => h)

theorem markDestroyed_flagStep (m : Meta) (v : Int) : FlagStep m (markDestroyed m v) := by
  unfold markDestroyed
  split
  · exact FlagStep.refl m
  · rename_i vm hv
    split
    · exact FlagStep.refl m
    · exact setVer_flagStep m _ vm _ hv (fun _ => rfl)

theorem foldl_flagStep (f : Meta → Int → Meta) (hf : ∀ m v, FlagStep m (f m v)) (vs : List Int) (m : Meta) :
    FlagStep m (vs.foldl f m) := by
  induction vs generalizing m with
  | nil => exact FlagStep.refl m
  | cons v rest ih => exact (hf m v).trans (ih (f m v))

/-- locality: a version number that is not named keeps its entry -/
theorem foldl_mark_other (f : Meta → Int → Meta)
    (hf : ∀ m v w, uint64 v ≠ w → (f m v).versions w = m.versions w)
    (vs : List Int) (m : Meta) (w : Nat) (hw : ∀ v ∈ vs, uint64 v ≠ w) : (vs.foldl f m).versions w = m.versions w := by
  induction vs generalizing m with
  | nil => rfl
  | cons v rest ih =>
    simp only [List.foldl_cons]
    rw [ih (f m v) (fun v' hv' => hw v' (List.mem_cons_of_mem _ hv'))]
    exact hf m v w (hw v (List.mem_cons_self ..))

theorem setVer_other (m : Meta) (a w : Nat) (vm : Ver) (h : a ≠ w) : (setVer m a vm).versions w = m.versions w := by
  simp [setVer, Ne.symm h]

theorem markDeleted_other (m : Meta) (v : Int) (w : Nat) (h : uint64 v ≠ w) : (markDeleted m v).versions w = m.versions w := by
  unfold markDeleted; split
  · rfl
  · split
    · rfl
    · split
      · rfl
      · exact setVer_other m _ w _ h

theorem markUndeleted_other (cfg : Config) (m : Meta) (v : Int) (w : Nat) (h : uint64 v ≠ w) :
    (markUndeleted cfg m v).versions w = m.versions w := by
  unfold markUndeleted; split
  · rfl
  · split
    · rfl
    · exact setVer_other m _ w _ h

theorem markDestroyed_other (m : Meta) (v : Int) (w : Nat) (h : uint64 v ≠ w) : (markDestroyed m v).versions w = m.versions w := by
  unfold markDestroyed; split
  · rfl
  · split
    · rfl
    · exact setVer_other m _ w _ h

/-- every named version that exists is destroyed after a destroy -/
theorem foldl_markDestroyed_named (vs : List Int) (m : Meta) (v : Int) (hv : v ∈ vs) (vm' : Ver)
    (h : (vs.foldl markDestroyed m).versions (uint64 v) = some vm') : vm'.destroyed = true := by
  induction vs generalizing m with
  | nil => cases hv
  | cons a rest ih =>
    simp only [List.foldl_cons] at h
    rcases List.mem_cons.mp hv with rfl | hr
    · -- after the first step the version is destroyed; the rest keeps it so
      have hrest := foldl_flagStep markDestroyed markDestroyed_flagStep rest (markDestroyed m v)
      cases hd : vm'.destroyed
      · obtain ⟨vm1, h1, hd1⟩ := hrest.live _ vm' h hd
        unfold markDestroyed at h1
        split at h1
        · rename_i hn; rw [hn] at h1; cases h1
        · rename_i vm0 h0
          split at h1
          · rename_i hds; rw [h0] at h1; cases h1; rw [hds] at hd1; cases hd1
          · simp [setVer] at h1; subst h1; simp at hd1
      · rfl
    · exact ih (markDestroyed m a) hr h

/-! ### every request preserves well-formedness -/

theorem deleteLatest_wf (ps : PathSt) (h : PathWF ps) : PathWF (deleteLatest ps) := by
  unfold deleteLatest
  split
  · exact h
  · rename_i m hm
    split
    · exact h
    · rename_i vm hv
      split
      · exact h
      · split
        · exact h
        · have fs : FlagStep m (setVer m m.current { vm with del := .deleted }) :=
            setVer_flagStep m _ vm _ hv (fun h => h)
          constructor
          · intro m' hm'; cases hm'; exact fs.wf (h.mwf m hm)
          · intro m' w vm' hm' hv' hd; cases hm'
            obtain ⟨vm0, hv0, hd0⟩ := fs.live w vm' hv' hd
            exact h.blob m w vm0 hm hv0 hd0

theorem flagOnly_wf (ps : PathSt) (m m' : Meta) (hm : ps.md = some m) (fs : FlagStep m m') (h : PathWF ps) :
    PathWF { ps with md := some m' } := by
  constructor
  · intro m2 hm2; cases hm2; exact fs.wf (h.mwf m hm)
  · intro m2 w vm' hm2 hv' hd; cases hm2
    obtain ⟨vm0, hv0, hd0⟩ := fs.live w vm' hv' hd
    exact h.blob m w vm0 hm hv0 hd0

theorem deleteVersions_wf (ps : PathSt) (vs : List Int) (h : PathWF ps) : PathWF (deleteVersions ps vs) := by
  unfold deleteVersions; split
  · exact h
  · rename_i m hm
    exact flagOnly_wf ps m _ hm (foldl_flagStep _ markDeleted_flagStep vs m) h

theorem undeleteVersions_wf (cfg : Config) (ps : PathSt) (vs : List Int) (h : PathWF ps) :
    PathWF (undeleteVersions cfg ps vs) := by
  unfold undeleteVersions; split
  · exact h
  · rename_i m hm
    exact flagOnly_wf ps m _ hm (foldl_flagStep _ (markUndeleted_flagStep cfg) vs m) h

theorem destroyVersions_wf (ps : PathSt) (vs : List Int) (h : PathWF ps) : PathWF (destroyVersions ps vs) := by
  unfold destroyVersions; split
  · exact h
  · rename_i m hm
    have fs := foldl_flagStep _ markDestroyed_flagStep vs m
    constructor
    · intro m2 hm2; cases hm2; exact fs.wf (h.mwf m hm)
    · intro m2 w vm' hm2 hv' hd; cases hm2
      obtain ⟨vm0, hv0, hd0⟩ := fs.live w vm' hv' hd
      have hnot : (vs.any fun v => decide (uint64 v = w)) = false := by
        apply Bool.eq_false_iff.mpr
        intro hany
        obtain ⟨v, hvmem, hveq⟩ := List.any_eq_true.mp hany
        have hveq : uint64 v = w := by simpa using hveq
        subst hveq
        have := foldl_markDestroyed_named vs m v hvmem vm' hv'
        rw [hd] at this; cases this
      simp only [hnot]
      exact h.blob m w vm0 hm hv0 hd0

/-! ### metadata PUT / PATCH: only settings change -/

/-- `m'` has the counters and version entries of `m` (settings may differ) -/
structure SameVersions (m m' : Meta) : Prop where
  cur : m'.current = m.current
  old : m'.oldest = m.oldest
  vers : m'.versions = m.versions

/-- a metadata PUT/PATCH either leaves the path alone or replaces the metadata by one with the same versions; an error
    answer means the former -/
def SettingsShape (ps ps' : PathSt) (r : Resp) : Prop :=
  ps' = ps ∨ (∃ m', ps' = { ps with md := some m' } ∧ SameVersions (metaOr ps) m' ∧ (r = .nil ∨ r = .warn))

theorem metaWrite_shape (cfg : Config) (ps : PathSt) (a : MetaPut) :
    SettingsShape ps (metaWrite cfg ps a).1 (metaWrite cfg ps a).2 := by
  unfold metaWrite SettingsShape
  split
  · exact Or.inl rfl
  · simp only
    have hr : ∀ (c : Prop) [Decidable c], (if c then Resp.warn else Resp.nil) = .nil ∨ (if c then Resp.warn else Resp.nil) = .warn := by
      intro c _; split
      · exact Or.inr rfl
      · exact Or.inl rfl
    cases hmd : ps.md with
    | none =>
      simp only
      split
      · exact Or.inl rfl
      · exact Or.inr ⟨_, rfl, ⟨by rw [metaOr_none ps hmd]; rfl, by rw [metaOr_none ps hmd]; rfl, by rw [metaOr_none ps hmd]; rfl⟩, hr _⟩
    | some m =>
      simp only
      split
      · exact Or.inl rfl
      · exact Or.inr ⟨_, rfl, ⟨by rw [metaOr_some ps m hmd]; rfl, by rw [metaOr_some ps m hmd]; rfl, by rw [metaOr_some ps m hmd]; rfl⟩, hr _⟩

theorem metaPatch_shape (cfg : Config) (ps : PathSt) (a : MetaPatchArgs) :
    SettingsShape ps (metaPatch cfg ps a).1 (metaPatch cfg ps a).2 := by
  unfold metaPatch SettingsShape
  split
  · exact Or.inl rfl
  · cases hmd : ps.md with
    | none => exact Or.inl rfl
    | some m =>
      simp only
      split
      · exact Or.inl rfl
      · refine Or.inr ⟨_, rfl, ⟨by rw [metaOr_some ps m hmd]; rfl, by rw [metaOr_some ps m hmd]; rfl, by rw [metaOr_some ps m hmd]; rfl⟩, ?_⟩
        split
        · exact Or.inr rfl
        · exact Or.inl rfl

theorem settings_wf (ps : PathSt) (m' : Meta) (sv : SameVersions (metaOr ps) m') (h : PathWF ps) :
    PathWF { ps with md := some m' } := by
  have mwf := metaOr_wf ps h
  constructor
  · intro m2 hm2; cases hm2
    constructor
    · intro w vm hv
      rw [sv.vers] at hv
      rw [sv.cur, sv.old]; exact mwf.bound w vm hv
    · rw [sv.cur, sv.old]; exact mwf.old_le
  · intro m2 w vm hm2 hv hd; cases hm2
    rw [sv.vers] at hv
    obtain ⟨m0, hm0, hv0⟩ := metaOr_versions ps w vm hv
    exact h.blob m0 w vm hm0 hv0 hd

theorem settingsShape_wf (ps ps' : PathSt) (r : Resp) (sh : SettingsShape ps ps' r) (h : PathWF ps) : PathWF ps' := by
  rcases sh with e | ⟨m', e, sv, _⟩
  · rw [e]; exact h
  · rw [e]; exact settings_wf ps m' sv h

theorem metaDelete_wf (ps : PathSt) (h : PathWF ps) : PathWF (metaDelete ps) := by
  unfold metaDelete; split
  · exact h
  · exact ⟨(by intro m hm; cases hm), (by intro m w vm hm; cases hm)⟩

theorem emptyPath_wf : PathWF emptyPath := ⟨(by intro m hm; cases hm), (by intro m w vm hm; cases hm)⟩

theorem init_wf : WF init := fun _ => emptyPath_wf

theorem setPath_wf (s : State) (p : String) (ps : PathSt) (h : WF s) (hp : PathWF ps) : WF (setPath s p ps) := by
  intro q; rw [setPath_paths]; split
  · exact hp
  · exact h q

theorem stepF_wf (tx : Bool) (fault : Option Nat) (s : State) (op : Op) (h : WF s) : WF (stepF tx fault s op).1 := by
  cases op with
  | write p cas d => exact setPath_wf _ _ _ h (writePath_wf _ _ _ _ _ _ (h p))
  | patch p cas d => exact setPath_wf _ _ _ h (patchPath_wf _ _ _ _ _ _ (h p))
  | read p v => exact h
  | delete p => exact setPath_wf _ _ _ h (deleteLatest_wf _ (h p))
  | deleteV p vs =>
    simp only [stepF]; split
    · exact h
    · exact setPath_wf _ _ _ h (deleteVersions_wf _ _ (h p))
  | undelete p vs =>
    simp only [stepF]; split
    · exact h
    · exact setPath_wf _ _ _ h (undeleteVersions_wf _ _ _ (h p))
  | destroy p vs =>
    simp only [stepF]; split
    · exact h
    · exact setPath_wf _ _ _ h (destroyVersions_wf _ _ (h p))
  | metaWrite p a => exact setPath_wf _ _ _ h (settingsShape_wf _ _ _ (metaWrite_shape _ _ _) (h p))
  | metaPatch p a => exact setPath_wf _ _ _ h (settingsShape_wf _ _ _ (metaPatch_shape _ _ _) (h p))
  | metaRead p => exact h
  | metaDelete p => exact setPath_wf _ _ _ h (metaDelete_wf _ (h p))
  | confWrite mx cr dva => exact h
  | confRead => exact h

theorem stepEv_wf (s : State) (e : Ev) (h : WF s) : WF (stepEv s e).1 := stepF_wf e.tx e.fault s e.op h

theorem step_wf (s : State) (op : Op) (h : WF s) : WF (step s op).1 := stepF_wf false none s op h

theorem run_wf (s : State) (evs : List Ev) (h : WF s) : WF (run s evs) := by
  induction evs generalizing s with
  | nil => exact h
  | cons e es ih => exact ih _ (stepEv_wf s e h)

end Obao.KV2
