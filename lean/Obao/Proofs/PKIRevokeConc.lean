import Obao.Model.PKIRevokeConc
import Obao.Proofs.PKIRevoke
/-! Helper lemmas for `C16.served_crl_lists_serial_concurrent`: one revoke of certificate `k` (thread `true`)
against one other, benign, rebuilding request (thread `false`), every schedule. -/
namespace Obao.PKIRevoke

/-! ### thread plumbing -/

@[simp] theorem CSt.get_set_same (c : CSt) (a : Bool) (t : Thread) : (c.set a t).get a = t := by
  cases a <;> simp [CSt.get, CSt.set]
@[simp] theorem CSt.get_set_other (c : CSt) (a : Bool) (t : Thread) : (c.set a t).get (!a) = c.get (!a) := by
  cases a <;> simp [CSt.get, CSt.set]
@[simp] theorem CSt.set_s (c : CSt) (a : Bool) (t : Thread) : (c.set a t).s = c.s := by
  cases a <;> simp [CSt.set]
@[simp] theorem CSt.set_lockB (c : CSt) (a : Bool) (t : Thread) : (c.set a t).lockB = c.lockB := by
  cases a <;> simp [CSt.set]
@[simp] theorem CSt.set_lockR (c : CSt) (a : Bool) (t : Thread) : (c.set a t).lockR = c.lockR := by
  cases a <;> simp [CSt.set]
@[simp] theorem CSt.set_builds (c : CSt) (a : Bool) (t : Thread) : (c.set a t).builds = c.builds := by
  cases a <;> simp [CSt.set]

/-! ### what the property is about -/

/-- the certificate whose revocation is followed: ordinal and (immutable) data -/
structure CTgt where
  k : Nat
  c : Cert

/-- facts about the shared state that neither thread disturbs -/
structure Frame (g : CTgt) (s : St) : Prop where
  cert : s.certs[g.k]? = some g.c
  live : g.c.issuer ∈ s.issuers
  enabled : s.cfg.disable = false
  autoOff : s.cfg.autoRebuild = false
  unexpired : s.now ≤ g.c.notAfter

def Rec (g : CTgt) (s : St) : Prop := ∃ t, s.revoked.lookup g.k = some t

instance (g : CTgt) (s : St) : Decidable (Rec g s) := by
  unfold Rec
  cases h : s.revoked.lookup g.k with
  | none => exact isFalse (by simp)
  | some t => exact isTrue ⟨t, rfl⟩

def ServedOK (g : CTgt) (s : St) : Prop := ∃ n ser, served s g.c.issuer = some (n, ser) ∧ g.k ∈ ser

/-- writes the other request may issue outside a CRL build -/
def benignW (g : CTgt) : Step → Prop
  | .addIssuer _ => True
  | .delIssuer i => i ≠ g.c.issuer
  | .noteSerial .. => True
  | .putCounters _ => True
  | .putCfg c => c.disable = false ∧ c.autoRebuild = false
  | .putCert _ => True
  | .delCert _ => True
  | .putRevoked k' _ => k' ≠ g.k
  | .delRevoked k' => k' ≠ g.k
  | _ => False

/-- writes of a CRL build -/
def buildW (g : CTgt) : Step → Prop
  | .putCRL .. => True
  | .putDelta .. => True
  | .putCounters _ => True
  | .delDelta _ => True
  | .delCRL i => i ≠ g.c.issuer
  | _ => False

/-- a complete CRL for the followed issuer lists the followed certificate -/
def freshW (g : CTgt) : Step → Prop
  | .putCRL i _ ser _ => i = g.c.issuer → g.k ∈ ser
  | _ => True

/-- the writes of the revoke itself -/
def revokeW (g : CTgt) : Step → Prop
  | .putCert k' => k' = g.k
  | .putRevoked k' _ => k' = g.k
  | _ => False

def writesRec (g : CTgt) : Step → Bool
  | .putRevoked k' _ => k' == g.k
  | _ => false

/-- Static shape of a thread's pending micro-steps, read as an abstract execution.  `isRev`: the thread is the
revoke of `g.k` (else the other request); `rec`: the revocation record exists (or will, by the time the reading
reaches this point); `inB`: the thread owns the builder mutex.  For the revoke it demands that every build it
still starts comes after its record write and covers the issuer, and that every pending complete CRL of the issuer
lists the certificate. -/
def Tok (g : CTgt) (isRev : Bool) : Bool → Bool → List Act → Prop
  | _, false, [] => True
  | rec, false, .w st :: r =>
      (if isRev then revokeW g st else benignW g st) ∧ Tok g isRev (rec || (isRev && writesRec g st)) false r
  | rec, false, .lockR :: r => Tok g isRev rec false r
  | rec, false, .unlockR :: r => Tok g isRev rec false r
  | rec, false, .note :: r => Tok g isRev rec false r
  | rec, false, .lockB :: .snap _ a _ :: .unlockB :: r =>
      (isRev = true → rec = true ∧ g.c.issuer ∈ a) ∧ Tok g isRev rec false r
  | _, false, .revoke k' _ a _ :: r => isRev = true ∧ k' = g.k ∧ g.c.issuer ∈ a ∧ ∀ x, Tok g isRev x false r
  | rec, false, .tidy .. :: r => isRev = false ∧ Tok g isRev rec false r
  | rec, true, .snap _ a _ :: .unlockB :: r =>
      (isRev = true → rec = true ∧ g.c.issuer ∈ a) ∧ Tok g isRev rec false r
  | rec, true, .bw st :: r => buildW g st ∧ (isRev = true → rec = true ∧ freshW g st) ∧ Tok g isRev rec true r
  | rec, true, .built :: .unlockB :: r => Tok g isRev rec false r
  | rec, true, .unlockB :: r => Tok g isRev rec false r
  | _, _, _ => False

/-! ### effect of single writes on the facts of interest -/

theorem frame_step (g : CTgt) (s : St) (st : Step) (hf : Frame g s)
    (h : benignW g st ∨ buildW g st ∨ revokeW g st) : Frame g (applyStep s st) := by
  obtain ⟨h1, h2, h3, h4, h5⟩ := hf
  have hlt : g.k < s.certs.length := (List.getElem?_eq_some_iff.mp h1).1
  cases st <;> simp only [benignW, buildW, revokeW, or_false, false_or, or_self] at h <;>
    first
    | exact absurd h id
    | exact ⟨by simpa [applyStep] using h1, by simpa [applyStep] using h2, by simpa [applyStep] using h3,
        by simpa [applyStep] using h4, by simpa [applyStep] using h5⟩
    | skip
  · -- addIssuer
    exact ⟨by simpa [applyStep] using h1, by simp [applyStep, h2], by simpa [applyStep] using h3,
      by simpa [applyStep] using h4, by simpa [applyStep] using h5⟩
  · -- delIssuer
    rename_i i
    have hi : i ≠ g.c.issuer := by simpa using h
    exact ⟨by simpa [applyStep] using h1, by simp [applyStep, h2, Ne.symm hi], by simpa [applyStep] using h3,
      by simpa [applyStep] using h4, by simpa [applyStep] using h5⟩
  · -- putCfg
    rename_i cfg
    have hc : cfg.disable = false ∧ cfg.autoRebuild = false := by simpa using h
    exact ⟨by simpa [applyStep] using h1, by simpa [applyStep] using h2, by simp [applyStep, hc.1],
      by simp [applyStep, hc.2], by simpa [applyStep] using h5⟩

theorem rec_step_other (g : CTgt) (s : St) (st : Step) (h : benignW g st ∨ buildW g st) :
    (applyStep s st).revoked.lookup g.k = s.revoked.lookup g.k := by
  cases st <;> simp only [benignW, buildW, or_false, false_or, or_self] at h <;>
    first
    | exact absurd h id
    | rfl
    | skip
  · rename_i k' t'
    simp only [applyStep]
    exact lookup_setAssoc_ne _ _ _ _ (fun e => h e.symm)
  · rename_i k'
    simp only [applyStep]
    exact lookup_filter_ne _ _ _ (fun e => h e.symm)

theorem rec_step_revoke (g : CTgt) (s : St) (st : Step) (h : revokeW g st) :
    decide (Rec g (applyStep s st)) = (decide (Rec g s) || writesRec g st) := by
  cases st with
  | putCert k' => simp only [writesRec, Bool.or_false]; rfl
  | putRevoked k' t' =>
    have hk : k' = g.k := h
    subst hk
    have : Rec g (applyStep s (Step.putRevoked g.k t')) := ⟨_, lookup_setAssoc_self _ _ _⟩
    simp [writesRec, this]
  | _ => exact absurd h id

theorem served_keep (g : CTgt) (s s' : St) (hl' : g.c.issuer ∈ s'.issuers)
    (hc : s'.crls.lookup g.c.issuer = s.crls.lookup g.c.issuer) (hl : g.c.issuer ∈ s.issuers) (hs : ServedOK g s) :
    ServedOK g s' := by
  obtain ⟨n, ser, h1, h2⟩ := hs
  refine ⟨n, ser, ?_, h2⟩
  simp only [served, hl, hl', ↓reduceIte] at h1 ⊢
  rw [hc]; exact h1

theorem servedOK_step (g : CTgt) (s : St) (st : Step) (hl : g.c.issuer ∈ s.issuers) (hs : ServedOK g s)
    (h : benignW g st ∨ (buildW g st ∧ freshW g st) ∨ revokeW g st) : ServedOK g (applyStep s st) := by
  cases st with
  | addIssuer i => exact served_keep g s _ (by simp [applyStep, hl]) rfl hl hs
  | delIssuer i =>
    have hi : i ≠ g.c.issuer := by simpa [benignW, buildW, revokeW] using h
    exact served_keep g s _ (by simp [applyStep, hl, Ne.symm hi]) rfl hl hs
  | putCRL i num ser' d =>
    have hf : i = g.c.issuer → g.k ∈ ser' := by simpa [benignW, buildW, freshW, revokeW] using h
    by_cases hi : i = g.c.issuer
    · subst hi
      exact ⟨num, ser', by simp [served, applyStep, hl, lookup_setAssoc_self], hf rfl⟩
    · exact served_keep g s _ (by simpa [applyStep] using hl)
        (by simp only [applyStep]; exact lookup_setAssoc_ne _ _ _ _ (fun e => hi e.symm)) hl hs
  | delCRL i =>
    have hi : i ≠ g.c.issuer := by simpa [benignW, buildW, freshW, revokeW] using h
    exact served_keep g s _ (by simpa [applyStep] using hl)
      (by simp only [applyStep]; exact lookup_filter_ne _ _ _ (fun e => hi e.symm)) hl hs
  | addCert c b => exact absurd h (by simp [benignW, buildW, revokeW])
  | tick d => exact absurd h (by simp [benignW, buildW, revokeW])
  | _ => exact served_keep g s _ (by simpa [applyStep] using hl) rfl hl hs

theorem putCRL_serves (g : CTgt) (s : St) (n : Nat) (ser : List Nat) (d : Bool) (hl : g.c.issuer ∈ s.issuers)
    (hk : g.k ∈ ser) : ServedOK g (applyStep s (.putCRL g.c.issuer n ser d)) :=
  ⟨n, ser, by simp [served, applyStep, hl, lookup_setAssoc_self], hk⟩

/-! ### expansions keep the static shape -/

theorem rebuild_buildW (g : CTgt) (s : St) (hf : Frame g s) (f : Bool) (a b : List Nat) :
    ∀ st ∈ rebuildSteps s f a b, buildW g st := by
  intro st h
  rcases rebuild_mem s f a b st h with ⟨i, _, _, rfl⟩ | h | ⟨_, rfl⟩ | ⟨_, _, rfl⟩
  · trivial
  · rcases staleDeletes_kind' s st h with ⟨i, rfl, hi⟩ | ⟨i, rfl⟩
    · exact fun e => hi (e ▸ hf.live)
    · trivial
  · trivial
  · trivial

theorem rebuild_fresh (g : CTgt) (s : St) (hf : Frame g s) (hr : Rec g s) (f : Bool) (a b : List Nat) :
    ∀ st ∈ rebuildSteps s f a b, freshW g st := by
  intro st h
  obtain ⟨t, ht⟩ := hr
  rcases rebuild_mem s f a b st h with ⟨i, _, _, rfl⟩ | h | ⟨_, rfl⟩ | ⟨_, _, rfl⟩
  · intro hi
    subst hi
    simp only [hf.enabled, Bool.false_eq_true, ↓reduceIte]
    exact mem_crlSerials s ⟨g.k, g.c, t⟩ hf.cert ht hf.live
  · rcases staleDeletes_kind s st h with ⟨i, rfl⟩ | ⟨i, rfl⟩ <;> trivial
  · trivial
  · trivial

/-- a rebuild in an enabled mount writes the CRL of every live issuer that the runtime's order covers -/
theorem mem_phaseSteps_mk (mk : Nat → Step) (kOf : List Nat → Step) : ∀ (L done : List Nat) (a : Nat),
    a ∈ L → mk a ∈ phaseSteps mk kOf done L := by
  intro L
  induction L with
  | nil => intro _ a h; simp at h
  | cons x L ih =>
    intro done a h
    simp only [phaseSteps, List.mem_cons]
    rcases List.mem_cons.mp h with rfl | h
    · exact Or.inr (Or.inl rfl)
    · exact Or.inr (Or.inr (ih _ a h))

theorem rebuild_has_putCRL (g : CTgt) (s : St) (hf : Frame g s) (f : Bool) (a b : List Nat) (ha : g.c.issuer ∈ a) :
    ∃ n ser d, Step.putCRL g.c.issuer n ser d ∈ rebuildSteps s f a b := by
  refine ⟨counter s g.c.issuer, crlSerials s g.c.issuer, false, ?_⟩
  unfold rebuildSteps
  rw [hf.enabled]
  simp only [Bool.false_and, Bool.false_eq_true, ↓reduceIte, List.mem_append]
  refine Or.inl (Or.inl (Or.inl (Or.inl ?_)))
  exact mem_phaseSteps_mk (fun i => Step.putCRL i (counter s i) (crlSerials s i) false) _ _ []
    g.c.issuer (List.mem_filter.mpr ⟨ha, by simpa using hf.live⟩)

theorem tok_build (g : CTgt) (isRev rec : Bool) (l : List Step) (r : List Act)
    (hb : ∀ st ∈ l, buildW g st ∧ (isRev = true → rec = true ∧ freshW g st)) (hr : Tok g isRev rec false r) :
    Tok g isRev rec true (l.map Act.bw ++ [Act.built] ++ Act.unlockB :: r) := by
  induction l with
  | nil => simpa [Tok] using hr
  | cons x l ih =>
    have hx := hb x (List.mem_cons_self ..)
    simp only [List.map_cons, List.cons_append, Tok]
    exact ⟨hx.1, hx.2, ih (fun st h => hb st (List.mem_cons_of_mem _ h))⟩

theorem tok_ws (g : CTgt) (isRev : Bool) (l : List Step) (r : List Act) :
    ∀ rec, (∀ st ∈ l, if isRev then revokeW g st else benignW g st) →
      Tok g isRev (rec || (isRev && l.any (writesRec g))) false r → Tok g isRev rec false (l.map Act.w ++ r) := by
  induction l with
  | nil => intro rec _ h; simpa using h
  | cons x l ih =>
    intro rec hb h
    simp only [List.map_cons, List.cons_append, Tok]
    refine ⟨hb x (List.mem_cons_self ..), ih _ (fun st hst => hb st (List.mem_cons_of_mem _ hst)) ?_⟩
    simpa [List.any_cons, Bool.or_assoc, Bool.and_or_distrib_left] using h

theorem revokeHead_facts (g : CTgt) (s : St) (hf : Frame g s) (b : Bool) :
    (∀ st ∈ (revokeHead s g.k b).1, revokeW g st) ∧
    ((revokeHead s g.k b).2.2 = true → (decide (Rec g s) || (revokeHead s g.k b).1.any (writesRec g)) = true) ∧
    ((∃ t, (revokeHead s g.k b).2.1 = .revoked t) → (revokeHead s g.k b).2.2 = true) := by
  have hpre : ∀ st ∈ revokePre s g.k b, revokeW g st := by
    intro st h; rw [revokePre_kind s g.k b st h]; rfl
  unfold revokeHead
  rw [hf.cert]
  simp only
  split
  · simp
  · split
    · simp
    · by_cases hcol : collides s g.k = true
      · simp only [hcol, ↓reduceIte]
        exact ⟨hpre, by simp, by simp⟩
      · simp only [hcol, Bool.false_eq_true, ↓reduceIte]
        cases hl : s.revoked.lookup g.k with
        | some t =>
          simp only
          refine ⟨hpre, fun _ => ?_, fun _ => by simp [hf.autoOff]⟩
          have : Rec g s := ⟨t, hl⟩
          simp [this]
        | none =>
          simp only
          split
          · exact ⟨hpre, by simp, by simp⟩
          · refine ⟨?_, fun _ => ?_, fun _ => by simp [hf.autoOff]⟩
            · intro st h
              rcases List.mem_append.mp h with h | h
              · exact hpre st h
              · simp only [List.mem_singleton] at h; subst h; rfl
            · simp [List.any_append, writesRec]

/-- what tidy's two passes may write while the followed certificate is unexpired and its issuer exists -/
theorem tidyPass_benign (g : CTgt) (s : St) (hf : Frame g s) (cs rc assoc : Bool) :
    ∀ st ∈ tidyPass1 s cs rc ++ tidyPass2 s cs rc assoc, benignW g st := by
  intro st h
  have hne : ∀ k', tidyExpired s k' = true → k' ≠ g.k := by
    intro k' he e
    subst e
    unfold tidyExpired at he
    rw [hf.cert] at he
    have he := of_decide_eq_true he
    have := hf.unexpired
    simp only [tidyBuffer] at he
    omega
  have hgone : ∀ k', issuerGone s k' = true → k' ≠ g.k := by
    intro k' hg e
    subst e
    unfold issuerGone at hg
    rw [hf.cert] at hg
    simp [hf.live] at hg
  rw [List.mem_append] at h
  rcases h with h | h
  · unfold tidyPass1 at h
    split at h
    · simp only [List.mem_flatMap] at h
      obtain ⟨k', _, hk⟩ := h
      split at hk
      · rename_i he
        simp only [List.mem_append, List.mem_singleton] at hk
        rcases hk with rfl | hk
        · trivial
        · split at hk
          · simp only [List.mem_singleton] at hk; subst hk; exact hne k' he
          · simp at hk
      · simp at hk
    · simp at h
  · unfold tidyPass2 at h
    split at h
    · simp only [List.mem_flatMap] at h
      obtain ⟨k', _, hk⟩ := h
      split at hk
      · rename_i he
        have he' : tidyExpired s k' = true := by simp only [Bool.and_eq_true] at he; exact he.2
        split at hk
        · simp at hk
        · simp only [List.mem_append, List.mem_singleton] at hk
          rcases hk with rfl | hk
          · exact hne k' he'
          · split at hk
            · simp only [List.mem_singleton] at hk; subst hk; trivial
            · simp at hk
      · split at hk
        · rename_i hg
          have hg' : issuerGone s k' = true := by simp only [Bool.and_eq_true] at hg; exact hg.2
          split at hk
          · simp only [List.mem_singleton] at hk; subst hk; exact hgone k' hg'
          · simp at hk
        · simp at hk
    · simp at h

/-- outside the builder mutex a thread has no pending build writes -/
theorem tok_noBW (g : CTgt) (isRev : Bool) (n : Nat) : ∀ (l : List Act) (rec : Bool), l.length ≤ n →
    Tok g isRev rec false l → ∀ st, Act.bw st ∉ l := by
  induction n with
  | zero =>
    intro l rec hl _ st hm
    cases l with
    | nil => simp at hm
    | cons x l => simp at hl
  | succ n ih =>
    intro l rec hl ht st hm
    cases l with
    | nil => simp at hm
    | cons x r =>
      have hlr : r.length ≤ n := by simp at hl; omega
      cases x with
      | w st' =>
        simp only [Tok] at ht
        rcases List.mem_cons.mp hm with h | h
        · cases h
        · exact ih r _ hlr ht.2 st h
      | lockR => simp only [Tok] at ht; rcases List.mem_cons.mp hm with h | h; cases h; exact ih r _ hlr ht st h
      | unlockR => simp only [Tok] at ht; rcases List.mem_cons.mp hm with h | h; cases h; exact ih r _ hlr ht st h
      | note => simp only [Tok] at ht; rcases List.mem_cons.mp hm with h | h; cases h; exact ih r _ hlr ht st h
      | revoke k' b' a' b'' =>
        simp only [Tok] at ht; rcases List.mem_cons.mp hm with h | h; cases h; exact ih r rec hlr (ht.2.2.2 rec) st h
      | tidy cs rc assoc a' b' =>
        simp only [Tok] at ht; rcases List.mem_cons.mp hm with h | h; cases h; exact ih r _ hlr ht.2 st h
      | lockB =>
        match r, ht, hm, hlr with
        | .snap f a' b' :: .unlockB :: r', ht, hm, hlr =>
          simp only [Tok] at ht
          have : Act.bw st ∈ r' := by simpa using hm
          exact ih r' _ (by simp at hlr; omega) ht.2 st this
      | bw _ => simp [Tok] at ht
      | snap _ _ _ => simp [Tok] at ht
      | built => simp [Tok] at ht
      | unlockB => simp [Tok] at ht

def ahead (g : CTgt) : Act → Bool
  | .revoke .. => true
  | .snap .. => true
  | .bw (.putCRL i _ _ _) => i == g.c.issuer
  | _ => false

/-- the revoke answered success and has nothing left that could still change the issuer's CRL -/
def Published (g : CTgt) (c : CSt) : Prop :=
  (∃ t, c.t2.res = some (.revoked t)) ∧ c.t2.acts.all (fun a => !ahead g a) = true

structure CInv (g : CTgt) (c : CSt) : Prop where
  frame : Frame g c.s
  tok1 : Tok g false false (c.lockB == some false) c.t1.acts
  tok2 : Tok g true (decide (Rec g c.s)) (c.lockB == some true) c.t2.acts
  pub : Published g c → Rec g c.s ∧ ServedOK g c.s ∧ ∀ st, Act.bw st ∈ c.t1.acts → freshW g st

theorem rec_iff_of_lookup (g : CTgt) (s s' : St) (h : s'.revoked.lookup g.k = s.revoked.lookup g.k) :
    decide (Rec g s') = decide (Rec g s) := by
  have : Rec g s' ↔ Rec g s := by simp [Rec, h]
  exact decide_eq_decide.mpr this

theorem published_congr (g : CTgt) (c c' : CSt) (h : c'.t2 = c.t2) : Published g c' ↔ Published g c := by
  simp [Published, h]

/-- one micro-step of the OTHER request keeps the invariant -/
theorem cinv_step_other (g : CTgt) (c c' : CSt) (hi : CInv g c) (hs : cstep false c false = some c') : CInv g c' := by
  obtain ⟨hf, h1, h2, hp⟩ := hi
  have hget : c.get false = c.t1 := rfl
  unfold cstep at hs
  simp only [hget] at hs
  cases hacts : c.t1.acts with
  | nil => simp [hacts] at hs
  | cons act r =>
    rw [hacts] at h1
    simp only [hacts] at hs
    have hp' : Published g c → Rec g c.s ∧ ServedOK g c.s ∧ ∀ st, Act.bw st ∈ act :: r → freshW g st := by
      intro h; have := hp h; rw [hacts] at this; exact this
    cases act with
    | w st =>
      simp only [Option.some.injEq] at hs; subst hs
      cases hb : (c.lockB == some false) with
      | true => rw [hb] at h1; simp [Tok] at h1
      | false =>
        rw [hb] at h1
        simp only [Tok, Bool.false_eq_true, ↓reduceIte, Bool.false_and, Bool.or_false] at h1
        have hl := rec_step_other g c.s st (Or.inl h1.1)
        refine ⟨frame_step g c.s st hf (Or.inl h1.1), by simpa [CSt.set, hb] using h1.2, ?_, ?_⟩
        · have : decide (Rec g (applyStep c.s st)) = decide (Rec g c.s) := rec_iff_of_lookup g _ _ hl
          simpa [CSt.set, this] using h2
        · intro hpub
          have hpub' : Published g c := by simpa [Published, CSt.set] using hpub
          obtain ⟨p1, p2, p3⟩ := hp' hpub'
          refine ⟨?_, servedOK_step g c.s st hf.live p2 (Or.inl h1.1), ?_⟩
          · obtain ⟨t, ht⟩ := p1; exact ⟨t, by simpa [CSt.set, hl] using ht⟩
          · intro st' hm; exact p3 st' (List.mem_cons_of_mem _ (by simpa [CSt.set] using hm))
    | bw st =>
      simp only [Option.some.injEq] at hs; subst hs
      cases hb : (c.lockB == some false) with
      | false => rw [hb] at h1; simp [Tok] at h1
      | true =>
        rw [hb] at h1
        simp only [Tok, Bool.false_eq_true, false_implies, true_and] at h1
        have hl := rec_step_other g c.s st (Or.inr h1.1)
        refine ⟨frame_step g c.s st hf (Or.inr (Or.inl h1.1)), by simpa [CSt.set, hb] using h1.2, ?_, ?_⟩
        · have : decide (Rec g (applyStep c.s st)) = decide (Rec g c.s) := rec_iff_of_lookup g _ _ hl
          simpa [CSt.set, this] using h2
        · intro hpub
          have hpub' : Published g c := by simpa [Published, CSt.set] using hpub
          obtain ⟨p1, p2, p3⟩ := hp' hpub'
          refine ⟨?_, servedOK_step g c.s st hf.live p2 (Or.inr (Or.inl ⟨h1.1, p3 st (List.mem_cons_self ..)⟩)), ?_⟩
          · obtain ⟨t, ht⟩ := p1; exact ⟨t, by simpa [CSt.set, hl] using ht⟩
          · intro st' hm; exact p3 st' (List.mem_cons_of_mem _ (by simpa [CSt.set] using hm))
    | lockR =>
      by_cases hlk : c.lockR.isNone = true
      · simp only [hlk, ↓reduceIte, Option.some.injEq] at hs; subst hs
        cases hb : (c.lockB == some false) with
        | true => rw [hb] at h1; simp [Tok] at h1
        | false =>
          rw [hb] at h1; simp only [Tok] at h1
          refine ⟨by simpa [CSt.set] using hf, by simpa [CSt.set, hb] using h1, by simpa [CSt.set] using h2, ?_⟩
          intro hpub
          obtain ⟨p1, p2, p3⟩ := hp' (by simpa [Published, CSt.set] using hpub)
          exact ⟨by simpa [CSt.set] using p1, by simpa [CSt.set] using p2,
            fun st' hm => p3 st' (List.mem_cons_of_mem _ (by simpa [CSt.set] using hm))⟩
      · simp [hlk] at hs
    | unlockR =>
      simp only [Option.some.injEq] at hs; subst hs
      cases hb : (c.lockB == some false) with
      | true => rw [hb] at h1; simp [Tok] at h1
      | false =>
        rw [hb] at h1; simp only [Tok] at h1
        refine ⟨by simpa [CSt.set] using hf, by simpa [CSt.set, hb] using h1, by simpa [CSt.set] using h2, ?_⟩
        intro hpub
        obtain ⟨p1, p2, p3⟩ := hp' (by simpa [Published, CSt.set] using hpub)
        exact ⟨by simpa [CSt.set] using p1, by simpa [CSt.set] using p2,
          fun st' hm => p3 st' (List.mem_cons_of_mem _ (by simpa [CSt.set] using hm))⟩
    | note =>
      simp only [Option.some.injEq] at hs; subst hs
      cases hb : (c.lockB == some false) with
      | true => rw [hb] at h1; simp [Tok] at h1
      | false =>
        rw [hb] at h1; simp only [Tok] at h1
        refine ⟨by simpa [CSt.set] using hf, by simpa [CSt.set, hb] using h1, by simpa [CSt.set] using h2, ?_⟩
        intro hpub
        obtain ⟨p1, p2, p3⟩ := hp' (by simpa [Published, CSt.set] using hpub)
        exact ⟨by simpa [CSt.set] using p1, by simpa [CSt.set] using p2,
          fun st' hm => p3 st' (List.mem_cons_of_mem _ (by simpa [CSt.set] using hm))⟩
    | lockB =>
      by_cases hnone : c.lockB.isNone = true
      · simp only [hnone, ↓reduceIte, Option.some.injEq] at hs; subst hs
        have hn : c.lockB = none := by simpa using hnone
        rw [hn, show ((none : Option Bool) == some false) = false from rfl] at h1
        rw [hn, show ((none : Option Bool) == some true) = false from rfl] at h2
        match r, h1 with
        | .snap f a' b' :: .unlockB :: r', h1 =>
          simp only [Tok, Bool.false_eq_true, false_implies, true_and] at h1
          refine ⟨by simpa [CSt.set] using hf, by simpa [CSt.set, Tok] using h1, by simpa [CSt.set] using h2, ?_⟩
          intro hpub
          obtain ⟨p1, p2, p3⟩ := hp' (by simpa [Published, CSt.set] using hpub)
          exact ⟨by simpa [CSt.set] using p1, by simpa [CSt.set] using p2,
            fun st' hm => p3 st' (List.mem_cons_of_mem _ (by simpa [CSt.set] using hm))⟩
      · simp [hnone] at hs
    | snap f a' b' =>
      simp only [Bool.false_and, Bool.false_eq_true, ↓reduceIte, Option.some.injEq] at hs; subst hs
      cases hb : (c.lockB == some false) with
      | false => rw [hb] at h1; simp [Tok] at h1
      | true =>
        rw [hb] at h1
        match r, h1, hp' with
        | .unlockB :: r', h1, hp' =>
          simp only [Tok, Bool.false_eq_true, false_implies, true_and] at h1
          refine ⟨by simpa [CSt.set] using hf, ?_, by simpa [CSt.set] using h2, ?_⟩
          · have := tok_build g false false (rebuildSteps c.s f a' b') r'
              (fun st hst => ⟨rebuild_buildW g c.s hf f a' b' st hst, by simp⟩) h1
            simpa [CSt.set, hb] using this
          · intro hpub
            obtain ⟨p1, p2, p3⟩ := hp' (by simpa [Published, CSt.set] using hpub)
            refine ⟨by simpa [CSt.set] using p1, by simpa [CSt.set] using p2, ?_⟩
            intro st' hm
            have hm' : (∃ x ∈ rebuildSteps c.s f a' b', Act.bw x = Act.bw st') ∨ Act.bw st' ∈ r' := by
              simpa [CSt.set] using hm
            rcases hm' with ⟨x, hx, he⟩ | hm'
            · cases he; exact rebuild_fresh g c.s hf p1 f a' b' st' hx
            · exact p3 st' (by simp [hm'])
    | built =>
      simp only [Option.some.injEq] at hs; subst hs
      cases hb : (c.lockB == some false) with
      | false => rw [hb] at h1; simp [Tok] at h1
      | true =>
        rw [hb] at h1
        match r, h1, hp' with
        | .unlockB :: r', h1, hp' =>
          simp only [Tok] at h1
          refine ⟨by simpa [CSt.set] using hf, by simpa [CSt.set, hb, Tok] using h1, by simpa [CSt.set] using h2, ?_⟩
          intro hpub
          obtain ⟨p1, p2, p3⟩ := hp' (by simpa [Published, CSt.set] using hpub)
          exact ⟨by simpa [CSt.set] using p1, by simpa [CSt.set] using p2,
            fun st' hm => p3 st' (List.mem_cons_of_mem _ (by simpa [CSt.set] using hm))⟩
    | unlockB =>
      simp only [Option.some.injEq] at hs; subst hs
      cases hb : (c.lockB == some false) with
      | false => rw [hb] at h1; simp [Tok] at h1
      | true =>
        rw [hb] at h1; simp only [Tok] at h1
        have hlb : c.lockB = some false := by simpa using hb
        rw [hlb] at h2
        refine ⟨by simpa [CSt.set] using hf, by simpa [CSt.set] using h1, by simpa [CSt.set] using h2, ?_⟩
        intro hpub
        obtain ⟨p1, p2, p3⟩ := hp' (by simpa [Published, CSt.set] using hpub)
        exact ⟨by simpa [CSt.set] using p1, by simpa [CSt.set] using p2,
          fun st' hm => p3 st' (List.mem_cons_of_mem _ (by simpa [CSt.set] using hm))⟩
    | revoke k' b' a' b'' =>
      cases hb : (c.lockB == some false) <;> (rw [hb] at h1; simp [Tok] at h1)
    | tidy cs rc assoc a' b' =>
      simp only [Option.some.injEq] at hs; subst hs
      cases hb : (c.lockB == some false) with
      | true => rw [hb] at h1; simp [Tok] at h1
      | false =>
        rw [hb] at h1; simp only [Tok, true_and] at h1
        refine ⟨by simpa [CSt.set] using hf, ?_, by simpa [CSt.set] using h2, ?_⟩
        · have hrest : Tok g false false false ([Act.unlockR] ++
              (if ((tidyPass1 c.s cs rc ++ tidyPass2 c.s cs rc assoc).any removesEntry && !c.s.cfg.autoRebuild) = true
                then buildActs false a' b' else []) ++ r) := by
            split <;> simpa [Tok, buildActs] using h1
          have := tok_ws g false (tidyPass1 c.s cs rc ++ tidyPass2 c.s cs rc assoc) _ false
            (by simpa using tidyPass_benign g c.s hf cs rc assoc) (by simpa using hrest)
          simpa [CSt.set, hb, List.append_assoc] using this
        · intro hpub
          obtain ⟨p1, p2, p3⟩ := hp' (by simpa [Published, CSt.set] using hpub)
          refine ⟨by simpa [CSt.set] using p1, by simpa [CSt.set] using p2, ?_⟩
          intro st' hm
          have hm' : Act.bw st' ∈ (if ((tidyPass1 c.s cs rc ++ tidyPass2 c.s cs rc assoc).any removesEntry && !c.s.cfg.autoRebuild) = true
              then buildActs false a' b' else []) ∨ Act.bw st' ∈ r := by
            simpa [CSt.set] using hm
          rcases hm' with hm' | hm'
          · split at hm' <;> simp [buildActs] at hm'
          · exact p3 st' (List.mem_cons_of_mem _ hm')

theorem all_not_ahead_cons (g : CTgt) (x : Act) (r : List Act) (h : ahead g x = false) :
    (x :: r).all (fun a => !ahead g a) = r.all (fun a => !ahead g a) := by
  simp [List.all_cons, h]

/-- one micro-step of the REVOKE keeps the invariant -/
theorem cinv_step_revoke (g : CTgt) (c c' : CSt) (hi : CInv g c) (hs : cstep false c true = some c') : CInv g c' := by
  obtain ⟨hf, h1, h2, hp⟩ := hi
  have hget : c.get true = c.t2 := rfl
  unfold cstep at hs
  simp only [hget] at hs
  cases hacts : c.t2.acts with
  | nil => simp [hacts] at hs
  | cons act r =>
    rw [hacts] at h2
    simp only [hacts] at hs
    -- a step that neither is "ahead" nor touches the shared state except through `s'`
    have keep : ∀ (s' : St) (lb : Option Bool) (t2' : Thread), t2'.res = c.t2.res → t2'.acts = r → ahead g act = false →
        (Rec g c.s → Rec g s') → (ServedOK g c.s → ServedOK g s') →
        (Published g { c with s := s', lockB := lb, t2 := t2' } →
          Rec g s' ∧ ServedOK g s' ∧ ∀ st, Act.bw st ∈ c.t1.acts → freshW g st) := by
      intro s' lb t2' hres hr ha hrec hsv hpub
      have hpub' : Published g c := by
        obtain ⟨⟨t, ht⟩, hall⟩ := hpub
        refine ⟨⟨t, by simpa [hres] using ht⟩, ?_⟩
        rw [hacts, all_not_ahead_cons g act r ha]
        simpa [hr] using hall
      obtain ⟨p1, p2, p3⟩ := hp hpub'
      exact ⟨hrec p1, hsv p2, p3⟩
    cases act with
    | w st =>
      simp only [Option.some.injEq] at hs; subst hs
      cases hb : (c.lockB == some true) with
      | true => rw [hb] at h2; simp [Tok] at h2
      | false =>
        rw [hb] at h2
        simp only [Tok, ↓reduceIte, Bool.true_and] at h2
        have hrs := rec_step_revoke g c.s st h2.1
        refine ⟨frame_step g c.s st hf (Or.inr (Or.inr h2.1)), by simpa [CSt.set] using h1,
          by simpa [CSt.set, hb, hrs] using h2.2, ?_⟩
        intro hpub
        refine keep (applyStep c.s st) c.lockB { c.t2 with acts := r } rfl rfl rfl ?_ ?_ (by simpa [CSt.set] using hpub)
        · intro hr
          have : decide (Rec g (applyStep c.s st)) = true := by rw [hrs]; simp [hr]
          exact of_decide_eq_true this
        · exact fun hsv => servedOK_step g c.s st hf.live hsv (Or.inr (Or.inr h2.1))
    | bw st =>
      simp only [Option.some.injEq] at hs; subst hs
      cases hb : (c.lockB == some true) with
      | false => rw [hb] at h2; simp [Tok] at h2
      | true =>
        rw [hb] at h2
        simp only [Tok, true_implies] at h2
        obtain ⟨hbw, ⟨hrec, hfresh⟩, hrest⟩ := h2
        have hl := rec_step_other g c.s st (Or.inr hbw)
        have hrec' : Rec g c.s := of_decide_eq_true hrec
        have hlb : c.lockB = some true := by simpa using hb
        refine ⟨frame_step g c.s st hf (Or.inr (Or.inl hbw)), by simpa [CSt.set] using h1, ?_, ?_⟩
        · have : decide (Rec g (applyStep c.s st)) = decide (Rec g c.s) := rec_iff_of_lookup g _ _ hl
          simpa [CSt.set, hb, this] using hrest
        · intro hpub
          have hrecS : Rec g (applyStep c.s st) := by
            obtain ⟨t, ht⟩ := hrec'; exact ⟨t, by rw [hl]; exact ht⟩
          by_cases ha : ahead g (Act.bw st) = true
          · -- the revoke publishes the issuer's CRL
            refine ⟨by simpa [CSt.set] using hrecS, ?_, ?_⟩
            · cases st with
              | putCRL i n ser d =>
                have hi : i = g.c.issuer := by simpa [ahead] using ha
                subst hi
                simpa [CSt.set] using putCRL_serves g c.s n ser d hf.live (hfresh rfl)
              | _ => simp [ahead] at ha
            · intro st' hm
              have h1' := h1
              rw [hlb, show ((some true : Option Bool) == some false) = false from rfl] at h1'
              exact absurd (by simpa [CSt.set] using hm) (tok_noBW g false _ _ _ (Nat.le_refl _) h1' st')
          · have := keep (applyStep c.s st) c.lockB { c.t2 with acts := r } rfl rfl (by simpa using ha)
              (fun _ => hrecS) (fun hsv => servedOK_step g c.s st hf.live hsv (Or.inr (Or.inl ⟨hbw, hfresh⟩)))
              (by simpa [CSt.set] using hpub)
            simpa [CSt.set] using this
    | lockR =>
      by_cases hlk : c.lockR.isNone = true
      · simp only [hlk, ↓reduceIte, Option.some.injEq] at hs; subst hs
        cases hb : (c.lockB == some true) with
        | true => rw [hb] at h2; simp [Tok] at h2
        | false =>
          rw [hb] at h2; simp only [Tok] at h2
          refine ⟨by simpa [CSt.set] using hf, by simpa [CSt.set] using h1, by simpa [CSt.set, hb] using h2, ?_⟩
          intro hpub
          have := keep c.s c.lockB { c.t2 with acts := r } rfl rfl rfl id id (by
            obtain ⟨hp1, hp2⟩ := hpub; exact ⟨by simpa [CSt.set] using hp1, by simpa [CSt.set] using hp2⟩)
          simpa [CSt.set] using this
      · simp [hlk] at hs
    | unlockR =>
      simp only [Option.some.injEq] at hs; subst hs
      cases hb : (c.lockB == some true) with
      | true => rw [hb] at h2; simp [Tok] at h2
      | false =>
        rw [hb] at h2; simp only [Tok] at h2
        refine ⟨by simpa [CSt.set] using hf, by simpa [CSt.set] using h1, by simpa [CSt.set, hb] using h2, ?_⟩
        intro hpub
        have := keep c.s c.lockB { c.t2 with acts := r } rfl rfl rfl id id (by
          obtain ⟨hp1, hp2⟩ := hpub; exact ⟨by simpa [CSt.set] using hp1, by simpa [CSt.set] using hp2⟩)
        simpa [CSt.set] using this
    | note =>
      simp only [Option.some.injEq] at hs; subst hs
      cases hb : (c.lockB == some true) with
      | true => rw [hb] at h2; simp [Tok] at h2
      | false =>
        rw [hb] at h2; simp only [Tok] at h2
        refine ⟨by simpa [CSt.set] using hf, by simpa [CSt.set] using h1, by simpa [CSt.set, hb] using h2, ?_⟩
        intro hpub
        have := keep c.s c.lockB { c.t2 with acts := r, seen := c.builds } rfl rfl rfl id id (by
          obtain ⟨hp1, hp2⟩ := hpub; exact ⟨by simpa [CSt.set] using hp1, by simpa [CSt.set] using hp2⟩)
        simpa [CSt.set] using this
    | lockB =>
      by_cases hnone : c.lockB.isNone = true
      · simp only [hnone, ↓reduceIte, Option.some.injEq] at hs; subst hs
        have hn : c.lockB = none := by simpa using hnone
        rw [hn, show ((none : Option Bool) == some false) = false from rfl] at h1
        rw [hn, show ((none : Option Bool) == some true) = false from rfl] at h2
        match r, h2, keep with
        | .snap f a' b' :: .unlockB :: r', h2, keep =>
          simp only [Tok, true_implies] at h2
          refine ⟨by simpa [CSt.set] using hf, by simpa [CSt.set] using h1, by simpa [CSt.set, Tok] using h2, ?_⟩
          intro hpub
          have := keep c.s (some true) { c.t2 with acts := .snap f a' b' :: .unlockB :: r' } rfl rfl rfl id id (by
            obtain ⟨hp1, hp2⟩ := hpub; exact ⟨by simpa [CSt.set] using hp1, by simpa [CSt.set] using hp2⟩)
          simpa [CSt.set] using this
      · simp [hnone] at hs
    | snap f a' b' =>
      simp only [Bool.false_and, Bool.false_eq_true, ↓reduceIte, Option.some.injEq] at hs; subst hs
      cases hb : (c.lockB == some true) with
      | false => rw [hb] at h2; simp [Tok] at h2
      | true =>
        rw [hb] at h2
        match r, h2 with
        | .unlockB :: r', h2 =>
          simp only [Tok, true_implies] at h2
          obtain ⟨⟨hrec, hmem⟩, hrest⟩ := h2
          have hrec' : Rec g c.s := of_decide_eq_true hrec
          refine ⟨by simpa [CSt.set] using hf, by simpa [CSt.set] using h1, ?_, ?_⟩
          · have := tok_build g true (decide (Rec g c.s)) (rebuildSteps c.s f a' b') r'
              (fun st hst => ⟨rebuild_buildW g c.s hf f a' b' st hst, fun _ => ⟨hrec, rebuild_fresh g c.s hf hrec' f a' b' st hst⟩⟩) hrest
            simpa [CSt.set, hb] using this
          · intro hpub
            exfalso
            obtain ⟨n, ser, d, hin⟩ := rebuild_has_putCRL g c.s hf f a' b' hmem
            have hall := hpub.2
            simp only [CSt.set, ↓reduceIte, List.all_eq_true] at hall
            have := hall (Act.bw (Step.putCRL g.c.issuer n ser d)) (by simp; exact Or.inl hin)
            simp [ahead] at this
    | built =>
      simp only [Option.some.injEq] at hs; subst hs
      cases hb : (c.lockB == some true) with
      | false => rw [hb] at h2; simp [Tok] at h2
      | true =>
        rw [hb] at h2
        match r, h2, keep with
        | .unlockB :: r', h2, keep =>
          simp only [Tok] at h2
          refine ⟨by simpa [CSt.set] using hf, by simpa [CSt.set] using h1, by simpa [CSt.set, hb, Tok] using h2, ?_⟩
          intro hpub
          have := keep c.s c.lockB { c.t2 with acts := .unlockB :: r' } rfl rfl rfl id id (by
            obtain ⟨hp1, hp2⟩ := hpub; exact ⟨by simpa [CSt.set] using hp1, by simpa [CSt.set] using hp2⟩)
          simpa [CSt.set] using this
    | unlockB =>
      simp only [Option.some.injEq] at hs; subst hs
      cases hb : (c.lockB == some true) with
      | false => rw [hb] at h2; simp [Tok] at h2
      | true =>
        rw [hb] at h2; simp only [Tok] at h2
        have hlb : c.lockB = some true := by simpa using hb
        rw [hlb, show ((some true : Option Bool) == some false) = false from rfl] at h1
        refine ⟨by simpa [CSt.set] using hf, by simpa [CSt.set] using h1, by simpa [CSt.set] using h2, ?_⟩
        intro hpub
        have := keep c.s none { c.t2 with acts := r } rfl rfl rfl id id (by
          obtain ⟨hp1, hp2⟩ := hpub; exact ⟨by simpa [CSt.set] using hp1, by simpa [CSt.set] using hp2⟩)
        simpa [CSt.set] using this
    | revoke k' b' a' b'' =>
      simp only [Option.some.injEq] at hs; subst hs
      cases hb : (c.lockB == some true) with
      | true => rw [hb] at h2; simp [Tok] at h2
      | false =>
        rw [hb] at h2
        simp only [Tok, true_and] at h2
        obtain ⟨hk, hmem, hrest⟩ := h2
        subst hk
        obtain ⟨f1, f2, f3⟩ := revokeHead_facts g c.s hf b'
        refine ⟨by simpa [CSt.set] using hf, by simpa [CSt.set] using h1, ?_, ?_⟩
        · have htail : Tok g true (decide (Rec g c.s) || (true && (revokeHead c.s g.k b').1.any (writesRec g))) false
              ((if (revokeHead c.s g.k b').2.2 = true then buildActs false a' b'' else []) ++ r) := by
            split
            · rename_i hrb
              simp only [buildActs, List.cons_append, List.nil_append, Tok, true_implies]
              exact ⟨⟨by simpa using f2 hrb, hmem⟩, hrest _⟩
            · simpa using hrest _
          have := tok_ws g true (revokeHead c.s g.k b').1 _ (decide (Rec g c.s)) (by simpa using f1) htail
          simpa [CSt.set, hb, List.append_assoc] using this
        · intro hpub
          exfalso
          obtain ⟨⟨t, ht⟩, hall⟩ := hpub
          have hres : (revokeHead c.s g.k b').2.1 = Res.revoked t := by simpa [CSt.set] using ht
          have hrb := f3 ⟨t, hres⟩
          simp only [CSt.set, ↓reduceIte, hrb, List.all_eq_true] at hall
          have := hall (Act.snap false a' b'') (by simp [buildActs])
          simp [ahead] at this
    | tidy cs rc assoc a' b' =>
      cases hb : (c.lockB == some true) <;> (rw [hb] at h2; simp [Tok] at h2)

theorem cinv_run (g : CTgt) (sched : List Bool) : ∀ c, CInv g c → CInv g (crun false c sched) := by
  induction sched with
  | nil => intro c h; exact h
  | cons a sched ih =>
    intro c h
    simp only [crun]
    cases hs : cstep false c a with
    | none => exact ih c h
    | some c' =>
      cases a with
      | false => exact ih c' (cinv_step_other g c c' h hs)
      | true => exact ih c' (cinv_step_revoke g c c' h hs)

/-- the other request leaves the preconditions of the property alone: it neither deletes the certificate's issuer
nor disables the CRL / switches auto-rebuild on -/
def Benign (g : CTgt) (s : St) : Op → Prop
  | .delIssuer i => i ≠ g.c.issuer
  | .addIssuer => True
  | .importIssuer none => True
  | .config a d _ => orKeep d s.cfg.disable = false ∧ orKeep a s.cfg.autoRebuild = false
  | .tidy .. => True
  | .rotate => True
  | _ => False

theorem cinv_init (g : CTgt) (s : St) (op1 : Op) (p1 p2 : List Nat) (byCert : Bool) (q1 q2 : List Nat)
    (hf : Frame g s) (hb : Benign g s op1) (hq : g.c.issuer ∈ q1) :
    CInv g (cinit s op1 p1 p2 g.k byCert q1 q2) := by
  refine ⟨hf, ?_, ?_, ?_⟩
  · show Tok g false false ((none : Option Bool) == some false) (opActs s p1 p2 op1).1
    rw [show ((none : Option Bool) == some false) = false from rfl]
    cases op1 with
    | delIssuer i =>
      simp only [opActs]
      split
      · simp [Tok]
      · have hb' : i ≠ g.c.issuer := hb
        simpa [Tok, buildActs, benignW] using hb'
    | addIssuer =>
      simp only [opActs]
      split <;> simp [Tok, buildActs, benignW]
    | importIssuer col =>
      cases col with
      | none =>
        simp only [opActs]
        split <;> simp [Tok, buildActs, benignW]
      | some k => exact absurd hb id
    | config a d x =>
      simp only [opActs]
      have hb' : orKeep d s.cfg.disable = false ∧ orKeep a s.cfg.autoRebuild = false := hb
      split
      · simpa [Tok, buildActs, benignW] using hb'
      · simpa [Tok, buildActs, benignW] using hb'
    | tidy cs rc assoc => simp [opActs, Tok]
    | rotate => simp [opActs, Tok, buildActs]
    | _ => exact absurd hb id
  · show Tok g true (decide (Rec g s)) ((none : Option Bool) == some true) (opActs s q1 q2 (.revoke g.k byCert)).1
    rw [show ((none : Option Bool) == some true) = false from rfl]
    simp [opActs, Tok, hq]
  · intro hpub
    exfalso
    have := hpub.2
    simp [cinit, opActs, ahead] at this

end Obao.PKIRevoke
