import Obao.Proofs.PKIRevoke
/-! CRL numbers: in an uninterrupted history every CRL written for an issuer carries a larger number than all
CRLs written for it before (helper lemmas for `C16.crl_number_increasing`). -/
namespace Obao.PKIRevoke

/-- newest first: every CRL has a larger number than each earlier CRL of the same issuer -/
def Inc (log : List Ev) : Prop := log.Pairwise (fun a b => a.issuer = b.issuer → b.number < a.number)

structure J (s : St) : Prop where
  inc : Inc s.log
  bound : ∀ e ∈ s.log, e.issuer ∈ s.issuers → e.number < counter s e.issuer
  evIss : ∀ e ∈ s.log, e.issuer ≤ s.nIssuers
  issLe : ∀ i ∈ s.issuers, i ≤ s.nIssuers

theorem J_congr (s s' : St) (h1 : s'.log = s.log) (h2 : s'.issuers = s.issuers) (h3 : s'.nIssuers = s.nIssuers)
    (h4 : s'.counters = s.counters) (hj : J s) : J s' := by
  have hc : ∀ i, counter s' i = counter s i := fun i => by simp [counter, h4]
  exact ⟨by rw [h1]; exact hj.inc, by intro e he hi; rw [h1] at he; rw [h2] at hi; rw [hc]; exact hj.bound e he hi,
    by intro e he; rw [h1] at he; rw [h3]; exact hj.evIss e he, by intro i hi; rw [h2] at hi; rw [h3]; exact hj.issLe i hi⟩

/-- writes that leave log, issuers and counters alone -/
def neutral : Step → Bool
  | .addCert .. | .tick _ | .putCert _ | .delCert _ | .putRevoked .. | .delRevoked _ | .delCRL _ | .delDelta _
  | .putCfg _ | .noteSerial .. => true
  | _ => false

theorem neutral_step (s : St) (st : Step) (h : neutral st = true) :
    (applyStep s st).log = s.log ∧ (applyStep s st).issuers = s.issuers ∧ (applyStep s st).nIssuers = s.nIssuers ∧
    (applyStep s st).counters = s.counters := by
  cases st <;> simp_all [applyStep, neutral]

theorem neutral_steps (l : List Step) : ∀ s, (∀ st ∈ l, neutral st = true) →
    (applySteps s l).log = s.log ∧ (applySteps s l).issuers = s.issuers ∧ (applySteps s l).nIssuers = s.nIssuers ∧
    (applySteps s l).counters = s.counters := by
  induction l with
  | nil => intro s _; exact ⟨rfl, rfl, rfl, rfl⟩
  | cons a l ih =>
    intro s h
    obtain ⟨a1, a2, a3, a4⟩ := neutral_step s a (h a (List.mem_cons_self ..))
    obtain ⟨b1, b2, b3, b4⟩ := ih (applyStep s a) (fun st hst => h st (List.mem_cons_of_mem _ hst))
    rw [applySteps_cons]
    exact ⟨b1.trans a1, b2.trans a2, b3.trans a3, b4.trans a4⟩

theorem J_neutral_steps (l : List Step) (s : St) (h : ∀ st ∈ l, neutral st = true) (hj : J s) : J (applySteps s l) := by
  obtain ⟨h1, h2, h3, h4⟩ := neutral_steps l s h
  exact J_congr s _ h1 h2 h3 h4 hj

/-- one phase of a rebuild: one CRL per issuer of a duplicate-free list, numbered by `f` -/
theorem phase (stepOf : Nat → Step) (f : Nat → Nat)
    (hlog : ∀ cur i, ∃ e, (applyStep cur (stepOf i)).log = e :: cur.log ∧ e.issuer = i ∧ e.number = f i)
    (hfr : ∀ cur i, (applyStep cur (stepOf i)).issuers = cur.issuers ∧ (applyStep cur (stepOf i)).nIssuers = cur.nIssuers ∧
      (applyStep cur (stepOf i)).counters = cur.counters)
    (L : List Nat) (hnd : L.Nodup) :
    ∀ cur, Inc cur.log → (∀ e ∈ cur.log, e.issuer ∈ L → e.number < f e.issuer) →
      Inc (applySteps cur (L.map stepOf)).log ∧
      (∀ e ∈ (applySteps cur (L.map stepOf)).log, e ∈ cur.log ∨ (e.issuer ∈ L ∧ e.number = f e.issuer)) ∧
      (applySteps cur (L.map stepOf)).issuers = cur.issuers ∧ (applySteps cur (L.map stepOf)).nIssuers = cur.nIssuers ∧
      (applySteps cur (L.map stepOf)).counters = cur.counters := by
  induction L with
  | nil => intro cur h _; exact ⟨h, fun e he => Or.inl he, rfl, rfl, rfl⟩
  | cons a L ih =>
    intro cur hinc hb
    obtain ⟨e, hl, hei, hen⟩ := hlog cur a
    obtain ⟨f1, f2, f3⟩ := hfr cur a
    have hnd' := List.nodup_cons.mp hnd
    rw [List.map_cons, applySteps_cons]
    have hinc' : Inc (applyStep cur (stepOf a)).log := by
      rw [hl]
      refine List.pairwise_cons.mpr ⟨fun b hb' hiss => ?_, hinc⟩
      have : b.issuer ∈ a :: L := by rw [← hiss, hei]; exact List.mem_cons_self ..
      have := hb b hb' this
      rw [hen, ← hei, hiss]; exact this
    have hb'' : ∀ e' ∈ (applyStep cur (stepOf a)).log, e'.issuer ∈ L → e'.number < f e'.issuer := by
      intro e' he' hi'
      rw [hl] at he'
      rcases List.mem_cons.mp he' with rfl | he'
      · rw [hei] at hi'; exact absurd hi' hnd'.1
      · exact hb e' he' (List.mem_cons_of_mem _ hi')
    obtain ⟨r1, r2, r3, r4, r5⟩ := ih hnd'.2 _ hinc' hb''
    refine ⟨r1, fun e' he' => ?_, r3.trans f1, r4.trans f2, r5.trans f3⟩
    rcases r2 e' he' with h | ⟨h1, h2⟩
    · rw [hl] at h
      rcases List.mem_cons.mp h with rfl | h
      · right; exact ⟨by rw [hei]; exact List.mem_cons_self .., by rw [hen, hei]⟩
      · left; exact h
    · right; exact ⟨List.mem_cons_of_mem _ h1, h2⟩

theorem lookup_map_mk (l : List Nat) (g : Nat → Nat) (i : Nat) (h : i ∈ l) :
    (l.map fun j => (j, g j)).lookup i = some (g i) := by
  induction l with
  | nil => simp at h
  | cons a l ih =>
    by_cases ha : i = a
    · subst ha; simp
    · have : (i == a) = false := by simp [ha]
      rw [List.map_cons, List.lookup_cons, this]
      exact ih (by rcases List.mem_cons.mp h with h | h; exact absurd h ha; exact h)

theorem counter_of_lookup (s : St) (i n : Nat) (h : s.counters.lookup i = some n) : counter s i = n := by
  simp [counter, h]

theorem J_rebuild (s : St) (f : Bool) (o1 o2 : List Nat) (h1 : o1.Nodup) (h2 : o2.Nodup) (hj : J s) :
    J (applySteps s (rebuildSteps s f o1 o2)) := by
  unfold rebuildSteps
  split
  · exact hj
  · rw [applySteps_append, applySteps_append, applySteps_append, applySteps_append]
    -- phase A: complete CRLs
    have hA := phase (fun i => Step.putCRL i (counter s i) (if s.cfg.disable then [] else crlSerials s i) s.cfg.disable)
      (counter s) (fun cur i => ⟨_, rfl, rfl, rfl⟩) (fun cur i => ⟨rfl, rfl, rfl⟩)
      (o1.filter (· ∈ s.issuers)) (List.Nodup.sublist List.filter_sublist h1) s hj.inc
      (fun e he hi => hj.bound e he (by simpa using (List.mem_filter.mp hi).2))
    obtain ⟨a1, a2, a3, a4, a5⟩ := hA
    generalize applySteps s _ = sA at a1 a2 a3 a4 a5 ⊢
    -- stale deletes and the first counter write
    have hB := neutral_steps (staleDeletes s) sA (fun st hst => by
      rcases staleDeletes_kind s st hst with ⟨i, rfl⟩ | ⟨i, rfl⟩ <;> rfl)
    obtain ⟨b1, b2, b3, _⟩ := hB
    generalize applySteps sA (staleDeletes s) = sB at b1 b2 b3 ⊢
    have hK1 : (applySteps sB [Step.putCounters (s.issuers.map fun i => (i, counter s i + 1))]).log = sB.log ∧
        (applySteps sB [Step.putCounters (s.issuers.map fun i => (i, counter s i + 1))]).issuers = sB.issuers ∧
        (applySteps sB [Step.putCounters (s.issuers.map fun i => (i, counter s i + 1))]).nIssuers = sB.nIssuers :=
      ⟨rfl, rfl, rfl⟩
    obtain ⟨k1, k2, k3⟩ := hK1
    generalize applySteps sB [Step.putCounters _] = sK at k1 k2 k3 ⊢
    have hlogK : sK.log = sA.log := k1.trans b1
    -- phase D: delta CRLs
    have hD := phase (fun i => Step.putDelta i (counter s i + 1)) (fun i => counter s i + 1)
      (fun cur i => ⟨_, rfl, rfl, rfl⟩) (fun cur i => ⟨rfl, rfl, rfl⟩)
      (o2.filter (· ∈ s.issuers)) (List.Nodup.sublist List.filter_sublist h2) sK (by rw [hlogK]; exact a1)
      (fun e he hi => by
        rw [hlogK] at he
        have hlive : e.issuer ∈ s.issuers := by simpa using (List.mem_filter.mp hi).2
        rcases a2 e he with h | ⟨_, h⟩
        · exact Nat.lt_succ_of_lt (hj.bound e h hlive)
        · omega)
    obtain ⟨d1, d2, d3, d4, _⟩ := hD
    generalize applySteps sK _ = sD at d1 d2 d3 d4 ⊢
    have hiss : sD.issuers = s.issuers := d3.trans (k2.trans (b2.trans a3))
    have hnis : sD.nIssuers = s.nIssuers := d4.trans (k3.trans (b3.trans a4))
    have hev : ∀ e ∈ sD.log, e ∈ s.log ∨ (e.issuer ∈ s.issuers ∧ (e.number = counter s e.issuer ∨ e.number = counter s e.issuer + 1)) := by
      intro e he
      rcases d2 e he with h | ⟨h, hn⟩
      · rw [hlogK] at h
        rcases a2 e h with h | ⟨h, hn⟩
        · exact Or.inl h
        · exact Or.inr ⟨by simpa using (List.mem_filter.mp h).2, Or.inl hn⟩
      · exact Or.inr ⟨by simpa using (List.mem_filter.mp h).2, Or.inr hn⟩
    refine ⟨d1, fun e he hi => ?_, fun e he => ?_, fun i hi => ?_⟩
    · have hi' : e.issuer ∈ s.issuers := by
        simpa [applySteps, applyStep, hiss] using hi
      have hc : counter (applySteps sD [Step.putCounters (s.issuers.map fun i => (i, counter s i + 2))]) e.issuer
          = counter s e.issuer + 2 := by
        apply counter_of_lookup
        exact lookup_map_mk s.issuers (fun i => counter s i + 2) e.issuer hi'
      rw [hc]
      rcases hev e (by simpa [applySteps, applyStep] using he) with h | ⟨_, h | h⟩
      · have := hj.bound e h hi'; omega
      · omega
      · omega
    · have : (applySteps sD [Step.putCounters (s.issuers.map fun i => (i, counter s i + 2))]).nIssuers = s.nIssuers := hnis
      rw [this]
      rcases hev e (by simpa [applySteps, applyStep] using he) with h | ⟨h, _⟩
      · exact hj.evIss e h
      · exact hj.issLe _ h
    · have : (applySteps sD [Step.putCounters (s.issuers.map fun i => (i, counter s i + 2))]).nIssuers = s.nIssuers := hnis
      rw [this]
      exact hj.issLe i (by simpa [applySteps, applyStep, hiss] using hi)

theorem J_neutral_rebuild (s : St) (N : List Step) (hN : ∀ st ∈ N, neutral st = true) (f : Bool) (o1 o2 : List Nat)
    (h1 : o1.Nodup) (h2 : o2.Nodup) (hj : J s) :
    J (applySteps s N) ∧ J (applySteps s (N ++ rebuildSteps (applySteps s N) f o1 o2)) := by
  have := J_neutral_steps N s hN hj
  exact ⟨this, by rw [applySteps_append]; exact J_rebuild _ f o1 o2 h1 h2 this⟩

theorem lookup_filter_keep {β : Type} (l : List (Nat × β)) (p : Nat → Bool) (i : Nat) (h : p i = true) :
    (l.filter (fun q => p q.1)).lookup i = l.lookup i := by
  induction l with
  | nil => rfl
  | cons q l ih =>
    obtain ⟨a, b⟩ := q
    by_cases ha : i = a
    · subst ha
      rw [List.filter_cons_of_pos (by simpa using h)]
      simp
    · have hb : (i == a) = false := by simp [ha]
      by_cases hp : p a = true
      · rw [List.filter_cons_of_pos (by simpa using hp), List.lookup_cons, List.lookup_cons, hb, ih]
      · rw [List.filter_cons_of_neg (by simpa using hp), List.lookup_cons, hb, ih]

theorem revokeProg_shape (s : St) (k : Nat) (b : Bool) (o1 o2 : List Nat) :
    ∃ N, (∀ st ∈ N, neutral st = true) ∧
      ((revokeProg s k b o1 o2).1 = N ∨ (revokeProg s k b o1 o2).1 = N ++ rebuildSteps (applySteps s N) false o1 o2) := by
  have hpre : ∀ st ∈ revokePre s k b, neutral st = true := by
    intro st h; rw [revokePre_kind s k b st h]; rfl
  unfold revokeProg
  split
  · exact ⟨[], by simp, Or.inl rfl⟩
  · split
    · exact ⟨[], by simp, Or.inl rfl⟩
    · split
      · exact ⟨[], by simp, Or.inl rfl⟩
      · simp only
        by_cases hcol : collides s k = true
        · simp only [hcol, ↓reduceIte]; exact ⟨_, hpre, Or.inl rfl⟩
        simp only [hcol, Bool.false_eq_true, ↓reduceIte]
        split
        · split
          · exact ⟨_, hpre, Or.inl rfl⟩
          · exact ⟨_, hpre, Or.inr rfl⟩
        · split
          · exact ⟨_, hpre, Or.inl rfl⟩
          · have hrec : ∀ st ∈ revokePre s k b ++ [Step.putRevoked k (s.stamps + 1)], neutral st = true := by
              intro st h
              rcases List.mem_append.mp h with h | h
              · exact hpre st h
              · simp only [List.mem_singleton] at h; subst h; rfl
            split
            · exact ⟨_, hrec, Or.inl rfl⟩
            · exact ⟨_, hrec, Or.inr rfl⟩

theorem J_addIssuer (s : St) (o1 o2 : List Nat) (h1 : o1.Nodup) (h2 : o2.Nodup) (hj : J s) :
    J (applySteps s (addIssuerProg s o1 o2).1) := by
  simp only [addIssuerProg]
  rw [applySteps_append, applySteps_append]
  have hs1 : J (applySteps s [Step.addIssuer (s.nIssuers + 1)]) := by
    refine ⟨hj.inc, fun e he hi => ?_, fun e he => ?_, fun i hi => ?_⟩
    · have hi' : e.issuer ∈ s.issuers ∨ e.issuer = s.nIssuers + 1 := by
        simpa [applySteps, applyStep] using hi
      rcases hi' with h | h
      · exact hj.bound e he h
      · have := hj.evIss e he; omega
    · have := hj.evIss e he
      show e.issuer ≤ s.nIssuers + 1
      omega
    · have hi' : i ∈ s.issuers ∨ i = s.nIssuers + 1 := by simpa [applySteps, applyStep] using hi
      show i ≤ s.nIssuers + 1
      rcases hi' with h | h
      · have := hj.issLe i h; omega
      · omega
  generalize hg : applySteps s [Step.addIssuer (s.nIssuers + 1)] = s1 at hs1
  have hs1' : s1 = applyStep s (Step.addIssuer (s.nIssuers + 1)) := hg.symm
  have hs2 : J (applySteps s1 (if s.dflt.isNone = true then
      [Step.putCounters (s.counters.filter fun p => decide (p.1 ∈ s.issuers))] else [])) := by
    split
    · refine ⟨hs1.inc, fun e he hi => ?_, hs1.evIss, hs1.issLe⟩
      have hlog : e ∈ s.log := by rw [hs1'] at he; exact he
      have hi' : e.issuer ∈ s.issuers ∨ e.issuer = s.nIssuers + 1 := by
        rw [hs1'] at hi; simpa [applySteps, applyStep] using hi
      rcases hi' with h | h
      · have hb := hj.bound e hlog h
        have : counter (applySteps s1 [Step.putCounters (s.counters.filter fun p => decide (p.1 ∈ s.issuers))]) e.issuer
            = counter s e.issuer := by
          simp only [applySteps, List.foldl_cons, List.foldl_nil, applyStep, counter]
          rw [lookup_filter_keep s.counters (fun i => decide (i ∈ s.issuers)) e.issuer (by simpa using h)]
        rw [this]; exact hb
      · have := hj.evIss e hlog; omega
    · exact hs1
  subst hs1'
  exact J_rebuild _ true o1 o2 h1 h2 hs2

theorem J_exec (s : St) (r : Run) (hc : r.cut = none) (h1 : r.o1.Nodup) (h2 : r.o2.Nodup) (hj : J s) : J (exec s r) := by
  obtain ⟨op, o1, o2, cut⟩ := r
  simp only at hc h1 h2
  subst hc
  simp only [exec, cutSteps]
  cases op with
  | addIssuer => exact J_addIssuer s o1 o2 h1 h2 hj
  | importIssuer col =>
    cases col with
    | none => exact J_addIssuer s o1 o2 h1 h2 hj
    | some k =>
      simp only [prog, importIssuerProg]
      split
      · exact hj
      · rw [applySteps_cons]
        exact J_addIssuer _ o1 o2 h1 h2
          (J_neutral_steps [Step.noteSerial (s.nIssuers + 1) k] s
            (by intro st h; simp only [List.mem_singleton] at h; subst h; rfl) hj)
  | delIssuer i =>
    simp only [prog, delIssuerProg]
    split
    · exact hj
    · rw [applySteps_append]
      have hs1 : J (applySteps s [Step.delIssuer i]) := by
        refine ⟨hj.inc, fun e he hi => ?_, hj.evIss, fun j hjm => ?_⟩
        · have hi' : e.issuer ∈ s.issuers := by
            have : e.issuer ∈ s.issuers.filter (· != i) := hi
            exact (List.mem_filter.mp this).1
          exact hj.bound e he hi'
        · have : j ∈ s.issuers.filter (· != i) := hjm
          exact hj.issLe j (List.mem_filter.mp this).1
      exact J_rebuild _ true o1 o2 h1 h2 hs1
  | issue i ttl =>
    simp only [prog, issueProg]
    split
    · exact hj
    · exact J_neutral_steps _ s (by intro st h; simp only [List.mem_singleton] at h; subst h; rfl) hj
  | craft i v =>
    simp only [prog, craftProg]
    split
    · exact hj
    · exact J_neutral_steps _ s (by intro st h; simp only [List.mem_singleton] at h; subst h; rfl) hj
  | revoke k b =>
    simp only [prog]
    obtain ⟨N, hN, h | h⟩ := revokeProg_shape s k b o1 o2
    · rw [h]; exact J_neutral_steps N s hN hj
    · rw [h]; exact (J_neutral_rebuild s N hN false o1 o2 h1 h2 hj).2
  | rotate => exact J_rebuild s false o1 o2 h1 h2 hj
  | tidy cs rc assoc =>
    simp only [prog, tidyProg]
    have hN : ∀ st ∈ tidyPass1 s cs rc ++ tidyPass2 s cs rc assoc, neutral st = true := by
      intro st h
      rcases tidyPass_kind s cs rc assoc st h with ⟨_, rfl, _⟩ | ⟨_, rfl, _⟩ | ⟨_, _, rfl, _⟩ <;> rfl
    split
    · exact (J_neutral_rebuild s _ hN false o1 o2 h1 h2 hj).2
    · rw [List.append_nil]; exact J_neutral_steps _ s hN hj
  | config a d x =>
    simp only [prog, configProg]
    have hN : ∀ st ∈ [Step.putCfg ⟨orKeep a s.cfg.autoRebuild, orKeep d s.cfg.disable, orKeep x s.cfg.allowExpired⟩],
        neutral st = true := by
      intro st h; simp only [List.mem_singleton] at h; subst h; rfl
    split
    · exact (J_neutral_rebuild s _ hN true o1 o2 h1 h2 hj).2
    · rw [List.append_nil]; exact J_neutral_steps _ s hN hj
  | restart => exact hj
  | tick d => exact J_neutral_steps _ s (by intro st h; simp only [prog, List.mem_singleton] at h; subst h; rfl) hj

theorem J_init : J init := ⟨List.Pairwise.nil, by simp [init], by simp [init], by simp [init]⟩

theorem J_run (h : List Run) : ∀ s, (∀ r ∈ h, r.cut = none ∧ r.o1.Nodup ∧ r.o2.Nodup) → J s → J (run s h) := by
  induction h with
  | nil => intro s _ hj; exact hj
  | cons r h ih =>
    intro s hh hj
    have hr := hh r (List.mem_cons_self ..)
    exact ih (exec s r) (fun r' hr' => hh r' (List.mem_cons_of_mem _ hr')) (J_exec s r hr.1 hr.2.1 hr.2.2 hj)

end Obao.PKIRevoke
