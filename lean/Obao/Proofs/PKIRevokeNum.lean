import Obao.Proofs.PKIRevoke
/-! CRL numbers: in an uninterrupted history every CRL written for an issuer carries a larger number than all
CRLs written for it before (helper lemmas for `C16.crl_number_increasing`). -/
namespace Obao.PKIRevoke

/-- newest first: every CRL has a larger number than each earlier CRL of the same issuer -/
def Inc (log : List Ev) : Prop := log.Pairwise (fun a b => a.issuer = b.issuer → b.number < a.number)

structure J (s : St) : Prop where
  inc : Inc s.log
  bound : ∀ e ∈ s.log, e.issuer ∈ s.issuers → e.number < counter s e.issuer
  evIss : ∀ e ∈ s.log, e.issuer ≤ s.nIssuers
  issLe : ∀ i ∈ s.issuers, i ≤ s.nIssuers

theorem J_congr (s s' : St) (h1 : s'.log = s.log) (h2 : s'.issuers = s.issuers) (h3 : s'.nIssuers = s.nIssuers)
    (h4 : s'.counters = s.counters) (hj : J s) : J s' := by
  have hc : ∀ i, counter s' i = counter s i := fun i => by simp [counter, h4]
  exact ⟨by rw [h1]; exact hj.inc, by intro e he hi; rw [h1] at he; rw [h2] at hi; rw [hc]; exact hj.bound e he hi,
    by intro e he; rw [h1] at he; rw [h3]; exact hj.evIss e he, by intro i hi; rw [h2] at hi; rw [h3]; exact hj.issLe i hi⟩

/-- writes that leave log, issuers and counters alone -/
def neutral : Step → Bool
  | .addCert .. | .tick _ | .putCert _ | .delCert _ | .putRevoked .. | .delRevoked _ | .delCRL _ | .delDelta _
  | .putCfg _ | .noteSerial .. => true
  | _ => false

theorem neutral_step (s : St) (st : Step) (h : neutral st = true) :
    (applyStep s st).log = s.log ∧ (applyStep s st).issuers = s.issuers ∧ (applyStep s st).nIssuers = s.nIssuers ∧
    (applyStep s st).counters = s.counters := by
  cases st <;> simp_all [applyStep, neutral]

theorem neutral_steps (l : List Step) : ∀ s, (∀ st ∈ l, neutral st = true) →
    (applySteps s l).log = s.log ∧ (applySteps s l).issuers = s.issuers ∧ (applySteps s l).nIssuers = s.nIssuers ∧
    (applySteps s l).counters = s.counters := by
  induction l with
  | nil => intro s _; exact ⟨rfl, rfl, rfl, rfl⟩
  | cons a l ih =>
    intro s h
    obtain ⟨a1, a2, a3, a4⟩ := neutral_step s a (h a (List.mem_cons_self ..))
    obtain ⟨b1, b2, b3, b4⟩ := ih (applyStep s a) (fun st hst => h st (List.mem_cons_of_mem _ hst))
    rw [applySteps_cons]
    exact ⟨b1.trans a1, b2.trans a2, b3.trans a3, b4.trans a4⟩

theorem J_neutral_steps (l : List Step) (s : St) (h : ∀ st ∈ l, neutral st = true) (hj : J s) : J (applySteps s l) := by
  obtain ⟨h1, h2, h3, h4⟩ := neutral_steps l s h
  exact J_congr s _ h1 h2 h3 h4 hj

theorem lookup_map_mk (l : List Nat) (g : Nat → Nat) (i : Nat) (h : i ∈ l) :
    (l.map fun j => (j, g j)).lookup i = some (g i) := by
  induction l with
  | nil => simp at h
  | cons a l ih =>
    by_cases ha : i = a
    · subst ha; simp
    · have : (i == a) = false := by simp [ha]
      rw [List.map_cons, List.lookup_cons, this]
      exact ih (by rcases List.mem_cons.mp h with h | h; exact absurd h ha; exact h)

theorem counter_of_lookup (s : St) (i n : Nat) (h : s.counters.lookup i = some n) : counter s i = n := by
  simp [counter, h]

/-! ### association-list lookups in the persisted counters -/

theorem lookup_append_skip {β : Type} (l1 l2 : List (Nat × β)) (i : Nat) (h : ∀ p ∈ l1, p.1 ≠ i) :
    (l1 ++ l2).lookup i = l2.lookup i := by
  induction l1 with
  | nil => rfl
  | cons q l ih =>
    obtain ⟨a, b⟩ := q
    have ha : (i == a) = false := by
      have := h (a, b) (List.mem_cons_self ..); simp at this; simp [Ne.symm this]
    rw [List.cons_append, List.lookup_cons, ha]
    exact ih (fun p hp => h p (List.mem_cons_of_mem _ hp))

theorem lookup_map_none (l : List Nat) (g : Nat → Nat) (i : Nat) (h : i ∉ l) :
    (l.map fun j => (j, g j)).lookup i = none := by
  induction l with
  | nil => rfl
  | cons a l ih =>
    have ha : (i == a) = false := by simp; exact fun e => h (e ▸ List.mem_cons_self ..)
    rw [List.map_cons, List.lookup_cons, ha]
    exact ih (fun hm => h (List.mem_cons_of_mem _ hm))

/-- the CRL number a state assigns to a live issuer while a phase is under way -/
theorem counter_countersAt (s0 cur : St) (base : Nat) (dn : List Nat) (complete : Bool)
    (hb : complete = true → base = 0) (hcur : cur.counters = countersAt s0 base dn complete) (i : Nat)
    (hi : i ∈ s0.issuers) : counter cur i = counter s0 i + base + (if i ∈ dn then 1 else 0) := by
  have hskip : ∀ p ∈ (if complete then s0.counters.filter (fun p => !(p.1 ∈ s0.issuers)) else []), p.1 ≠ i := by
    intro p hp e
    split at hp
    · have := (List.mem_filter.mp hp).2; subst e; simp [hi] at this
    · simp at hp
  unfold counter
  rw [hcur, countersAt, lookup_append_skip _ _ _ hskip]
  by_cases hc : (decide (i ∈ dn) || !complete || (s0.counters.lookup i).isSome) = true
  · rw [lookup_map_mk _ (fun j => counter s0 j + base + (if j ∈ dn then 1 else 0)) i
      (List.mem_filter.mpr ⟨hi, hc⟩)]
    simp only [counter]
  · rw [lookup_map_none _ _ i (fun hm => hc (List.mem_filter.mp hm).2)]
    simp only [Bool.or_eq_true, decide_eq_true_eq, Bool.not_eq_true', not_or, Bool.not_eq_false,
      Option.not_isSome_iff_eq_none] at hc
    obtain ⟨⟨h1, h2⟩, h3⟩ := hc
    simp [h3, h1, hb h2]

/-! ### a phase of a rebuild, interrupted anywhere -/

/-- states inside a phase (`base` 0: complete CRLs, 1: delta CRLs) of a rebuild started in `s0`; `log0` is the log
    at the start of the phase, `done` the issuers whose number has been advanced -/
structure PhaseSt (s0 : St) (base : Nat) (log0 : List Ev) (cur : St) (done : List Nat) : Prop where
  iss : cur.issuers = s0.issuers
  nis : cur.nIssuers = s0.nIssuers
  inc : Inc cur.log
  evs : ∀ e ∈ cur.log, e ∈ log0 ∨ (e.issuer ∈ done ∧ e.issuer ∈ s0.issuers ∧ e.number = counter s0 e.issuer + base)
  cnt : ∀ i ∈ s0.issuers, counter cur i = counter s0 i + base + (if i ∈ done then 1 else 0)

theorem J_of_phaseSt (s0 : St) (base : Nat) (log0 : List Ev) (cur : St) (done : List Nat)
    (h0 : ∀ e ∈ log0, e.issuer ∈ s0.issuers → e.number < counter s0 e.issuer + base)
    (h1 : ∀ e ∈ log0, e.issuer ≤ s0.nIssuers) (h2 : ∀ i ∈ s0.issuers, i ≤ s0.nIssuers)
    (h : PhaseSt s0 base log0 cur done) : J cur := by
  refine ⟨h.inc, fun e he hi => ?_, fun e he => ?_, fun i hi => ?_⟩
  · rw [h.iss] at hi
    rw [h.cnt _ hi]
    rcases h.evs e he with hl | ⟨hd, _, hn⟩
    · have := h0 e hl hi; omega
    · simp only [hd, ↓reduceIte]; omega
  · rw [h.nis]
    rcases h.evs e he with hl | ⟨_, hlive, _⟩
    · exact h1 e hl
    · exact h2 _ hlive
  · rw [h.iss] at hi; rw [h.nis]; exact h2 i hi

theorem phase_prefix (s0 : St) (base : Nat) (log0 : List Ev) (mk : Nat → Step) (kOf : List Nat → Step)
    (h0 : ∀ e ∈ log0, e.issuer ∈ s0.issuers → e.number < counter s0 e.issuer + base)
    (hmk : ∀ cur i, ∃ e, (applyStep cur (mk i)).log = e :: cur.log ∧ e.issuer = i ∧ e.number = counter s0 i + base ∧
      (applyStep cur (mk i)).issuers = cur.issuers ∧ (applyStep cur (mk i)).nIssuers = cur.nIssuers ∧
      (applyStep cur (mk i)).counters = cur.counters)
    (hk : ∀ cur dn, (applyStep cur (kOf dn)).log = cur.log ∧ (applyStep cur (kOf dn)).issuers = cur.issuers ∧
      (applyStep cur (kOf dn)).nIssuers = cur.nIssuers ∧
      ∀ i ∈ s0.issuers, counter (applyStep cur (kOf dn)) i = counter s0 i + base + (if i ∈ dn then 1 else 0)) :
    ∀ (L done : List Nat) (cur : St), (∀ a ∈ L, a ∈ s0.issuers) → L.Nodup → (∀ a ∈ L, a ∉ done) →
      PhaseSt s0 base log0 cur done →
      ∀ j, ∃ done', PhaseSt s0 base log0 (applySteps cur ((phaseSteps mk kOf done L).take j)) done' := by
  intro L
  induction L with
  | nil => intro done cur _ _ _ h j; exact ⟨done, by simpa [phaseSteps, applySteps] using h⟩
  | cons a L ih =>
    intro done cur hlive hnd hdis h j
    have hnd' := List.nodup_cons.mp hnd
    have ha : a ∈ s0.issuers := hlive a (List.mem_cons_self ..)
    have hadone : a ∉ done := hdis a (List.mem_cons_self ..)
    obtain ⟨k1, k2, k3, k4⟩ := hk cur (a :: done)
    -- after the counter write
    have hK : PhaseSt s0 base log0 (applyStep cur (kOf (a :: done))) (a :: done) := by
      refine ⟨k2.trans h.iss, k3.trans h.nis, by rw [k1]; exact h.inc, fun e he => ?_, k4⟩
      rw [k1] at he
      rcases h.evs e he with hl | ⟨hd, hrest⟩
      · exact Or.inl hl
      · exact Or.inr ⟨List.mem_cons_of_mem _ hd, hrest⟩
    -- after the CRL write
    obtain ⟨e, m1, m2, m3, m4, m5, m6⟩ := hmk (applyStep cur (kOf (a :: done))) a
    have hC : PhaseSt s0 base log0 (applyStep (applyStep cur (kOf (a :: done))) (mk a)) (a :: done) := by
      refine ⟨m4.trans hK.iss, m5.trans hK.nis, ?_, fun e' he' => ?_, fun i hi => ?_⟩
      · rw [m1]
        refine List.pairwise_cons.mpr ⟨fun b hb hiss => ?_, hK.inc⟩
        rw [k1] at hb
        have hbi : b.issuer = a := by rw [← hiss, m2]
        rcases h.evs b hb with hl | ⟨hd, _⟩
        · have := h0 b hl (by rw [hbi]; exact ha)
          rw [m3, ← hbi]; exact this
        · rw [hbi] at hd; exact absurd hd hadone
      · rw [m1] at he'
        rcases List.mem_cons.mp he' with rfl | he'
        · exact Or.inr ⟨by rw [m2]; exact List.mem_cons_self .., by rw [m2]; exact ha, by rw [m3, m2]⟩
        · exact hK.evs e' he'
      · have : counter (applyStep (applyStep cur (kOf (a :: done))) (mk a)) i = counter (applyStep cur (kOf (a :: done))) i := by
          simp [counter, m6]
        rw [this]; exact hK.cnt i hi
    match j with
    | 0 => exact ⟨done, by simpa [applySteps] using h⟩
    | 1 => exact ⟨a :: done, by simpa [phaseSteps, applySteps] using hK⟩
    | j + 2 =>
      have := ih (a :: done) _ (fun x hx => hlive x (List.mem_cons_of_mem _ hx)) hnd'.2
        (fun x hx hd => by
          rcases List.mem_cons.mp hd with rfl | hd
          · exact hnd'.1 hx
          · exact hdis x (List.mem_cons_of_mem _ hx) hd) hC j
      simpa [phaseSteps, applySteps] using this

/-! ### every prefix of every request program keeps the numbering invariant -/

/-- the invariant holds after every prefix of the writes -/
def AllPre (s : St) (l : List Step) : Prop := ∀ j, J (applySteps s (l.take j))

theorem AllPre.full {s : St} {l : List Step} (h : AllPre s l) : J (applySteps s l) := by
  have := h l.length; simpa using this

theorem allPre_nil (s : St) (hj : J s) : AllPre s [] := fun j => by simpa [applySteps] using hj

theorem allPre_neutral (s : St) (l : List Step) (hN : ∀ st ∈ l, neutral st = true) (hj : J s) : AllPre s l :=
  fun j => J_neutral_steps _ s (fun st h => hN st (List.mem_of_mem_take h)) hj

theorem allPre_append (s : St) (l1 l2 : List Step) (h1 : AllPre s l1) (h2 : AllPre (applySteps s l1) l2) :
    AllPre s (l1 ++ l2) := by
  intro j
  rw [List.take_append]
  by_cases hj : j ≤ l1.length
  · have : j - l1.length = 0 := by omega
    rw [this]; simpa using h1 j
  · have : l1.take j = l1 := List.take_of_length_le (by omega)
    rw [this, applySteps_append]; exact h2 _

theorem allPre_single (s : St) (st : Step) (hj : J s) (h : J (applyStep s st)) : AllPre s [st] := by
  intro j
  match j with
  | 0 => simpa [applySteps] using hj
  | j + 1 => simpa [applySteps] using h

theorem allPre_rebuild (s : St) (f : Bool) (o1 o2 : List Nat) (h1 : o1.Nodup) (h2 : o2.Nodup) (hj : J s) :
    AllPre s (rebuildSteps s f o1 o2) := by
  unfold rebuildSteps
  split
  · exact allPre_nil s hj
  · have hlive : ∀ o : List Nat, ∀ a ∈ o.filter (· ∈ s.issuers), a ∈ s.issuers := fun o a ha => by
      simpa using (List.mem_filter.mp ha).2
    have hA0 : PhaseSt s 0 s.log s [] :=
      ⟨rfl, rfl, hj.inc, fun e he => Or.inl he, fun i _ => by simp⟩
    have hA := phase_prefix s 0 s.log
      (fun i => Step.putCRL i (counter s i) (if s.cfg.disable then [] else crlSerials s i) s.cfg.disable)
      (fun done => Step.putCounters (countersAt s 0 done true))
      (fun e he hi => by have := hj.bound e he hi; omega)
      (fun cur i => ⟨_, rfl, rfl, rfl, rfl, rfl, rfl⟩)
      (fun cur dn => ⟨rfl, rfl, rfl, fun i hi => counter_countersAt s _ 0 dn true (fun _ => rfl) rfl i hi⟩)
      (o1.filter (· ∈ s.issuers)) [] s (hlive o1) (List.Nodup.sublist List.filter_sublist h1) (fun _ _ h => by simp at h) hA0
    have hD := fun (log0 : List Ev) (h0 : ∀ e ∈ log0, e.issuer ∈ s.issuers → e.number < counter s e.issuer + 1)
        (cur : St) (hst : PhaseSt s 1 log0 cur []) =>
      phase_prefix s 1 log0 (fun i => Step.putDelta i (counter s i + 1))
        (fun done => Step.putCounters (countersAt s 1 done false)) h0
        (fun cur i => ⟨_, rfl, rfl, rfl, rfl, rfl, rfl⟩)
        (fun cur dn => ⟨rfl, rfl, rfl, fun i hi => counter_countersAt s _ 1 dn false (fun h => by simp at h) rfl i hi⟩)
        (o2.filter (· ∈ s.issuers)) [] cur (hlive o2) (List.Nodup.sublist List.filter_sublist h2) (fun _ _ h => by simp at h) hst
    generalize phaseSteps (fun i => Step.putCRL i (counter s i) (if s.cfg.disable then [] else crlSerials s i) s.cfg.disable)
      (fun done => Step.putCounters (countersAt s 0 done true)) [] (o1.filter (· ∈ s.issuers)) = A at hA ⊢
    generalize phaseSteps (fun i => Step.putDelta i (counter s i + 1))
      (fun done => Step.putCounters (countersAt s 1 done false)) [] (o2.filter (· ∈ s.issuers)) = D at hD ⊢
    have hJA : ∀ cur done, PhaseSt s 0 s.log cur done → J cur := fun cur done h =>
      J_of_phaseSt s 0 s.log cur done (fun e he hi => by have := hj.bound e he hi; omega) hj.evIss hj.issLe h
    -- the state after phase A and after the stale deletes
    obtain ⟨dA, hdA⟩ := hA A.length
    rw [List.take_length] at hdA
    have hBn : ∀ st ∈ staleDeletes s, neutral st = true := fun st hst => by
      rcases staleDeletes_kind s st hst with ⟨i, rfl⟩ | ⟨i, rfl⟩ <;> rfl
    obtain ⟨b1, b2, b3, b4⟩ := neutral_steps (staleDeletes s) (applySteps s A) hBn
    have hdB : PhaseSt s 0 s.log (applySteps (applySteps s A) (staleDeletes s)) dA :=
      ⟨b2.trans hdA.iss, b3.trans hdA.nis, by rw [b1]; exact hdA.inc, by rw [b1]; exact hdA.evs,
        fun i hi => by rw [← hdA.cnt i hi]; simp [counter, b4]⟩
    generalize hsB : applySteps (applySteps s A) (staleDeletes s) = sB at hdB
    have hlogB : ∀ e ∈ sB.log, e.issuer ∈ s.issuers → e.number < counter s e.issuer + 1 := by
      intro e he hi
      rcases hdB.evs e he with hl | ⟨_, _, hn⟩
      · have := hj.bound e hl hi; omega
      · omega
    have hevB : ∀ e ∈ sB.log, e.issuer ≤ s.nIssuers := by
      intro e he
      rcases hdB.evs e he with hl | ⟨_, hl, _⟩
      · exact hj.evIss e hl
      · exact hj.issLe _ hl
    have hK1 : PhaseSt s 1 sB.log (applyStep sB (Step.putCounters (s.issuers.map fun i => (i, counter s i + 1)))) [] := by
      refine ⟨hdB.iss, hdB.nis, hdB.inc, fun e he => Or.inl he, fun i hi => ?_⟩
      rw [counter_of_lookup _ i (counter s i + 1) (lookup_map_mk s.issuers (fun i => counter s i + 1) i hi)]
      simp
    have hJD : ∀ cur done, PhaseSt s 1 sB.log cur done → J cur := fun cur done h =>
      J_of_phaseSt s 1 sB.log cur done hlogB hevB hj.issLe h
    have hDD := hD sB.log hlogB _ hK1
    refine allPre_append _ _ _ (allPre_append _ _ _ (allPre_append _ _ _ (allPre_append _ _ _ ?_ ?_) ?_) ?_) ?_
    · intro j; obtain ⟨d, hd⟩ := hA j; exact hJA _ d hd
    · exact allPre_neutral _ _ hBn (hJA _ dA hdA)
    · rw [applySteps_append, hsB]
      exact allPre_single _ _ (hJA _ dA hdB) (hJD _ [] hK1)
    · rw [applySteps_append, applySteps_append, hsB]
      intro j
      obtain ⟨d, hd⟩ := hDD j
      exact hJD _ d hd
    · rw [applySteps_append, applySteps_append, applySteps_append, hsB]
      obtain ⟨dD, hdD⟩ := hDD D.length
      rw [List.take_length] at hdD
      have e1 : applySteps sB [Step.putCounters (s.issuers.map fun i => (i, counter s i + 1))] =
          applyStep sB (Step.putCounters (s.issuers.map fun i => (i, counter s i + 1))) := rfl
      rw [e1]
      generalize applySteps (applyStep sB (Step.putCounters (s.issuers.map fun i => (i, counter s i + 1)))) D = sD at hdD ⊢
      refine allPre_single _ _ (hJD _ dD hdD) ?_
      refine ⟨hdD.inc, fun e he hi => ?_, fun e he => ?_, fun i hi => ?_⟩
      · have hi' : e.issuer ∈ s.issuers := by rw [← hdD.iss]; exact hi
        rw [counter_of_lookup _ e.issuer (counter s e.issuer + 2) (lookup_map_mk s.issuers (fun i => counter s i + 2) _ hi')]
        rcases hdD.evs e he with hl | ⟨_, _, hn⟩
        · have := hlogB e hl hi'; omega
        · omega
      · show e.issuer ≤ sD.nIssuers
        rw [hdD.nis]
        rcases hdD.evs e he with hl | ⟨_, hl, _⟩
        · exact hevB e hl
        · exact hj.issLe _ hl
      · show i ≤ sD.nIssuers
        rw [hdD.nis]; exact hj.issLe i (by rw [← hdD.iss]; exact hi)

theorem lookup_filter_keep {β : Type} (l : List (Nat × β)) (p : Nat → Bool) (i : Nat) (h : p i = true) :
    (l.filter (fun q => p q.1)).lookup i = l.lookup i := by
  induction l with
  | nil => rfl
  | cons q l ih =>
    obtain ⟨a, b⟩ := q
    by_cases ha : i = a
    · subst ha
      rw [List.filter_cons_of_pos (by simpa using h)]
      simp
    · have hb : (i == a) = false := by simp [ha]
      by_cases hp : p a = true
      · rw [List.filter_cons_of_pos (by simpa using hp), List.lookup_cons, List.lookup_cons, hb, ih]
      · rw [List.filter_cons_of_neg (by simpa using hp), List.lookup_cons, hb, ih]

theorem revokeProg_shape (s : St) (k : Nat) (b : Bool) (o1 o2 : List Nat) :
    ∃ N, (∀ st ∈ N, neutral st = true) ∧
      ((revokeProg s k b o1 o2).1 = N ∨ (revokeProg s k b o1 o2).1 = N ++ rebuildSteps (applySteps s N) false o1 o2) := by
  have hpre : ∀ st ∈ revokePre s k b, neutral st = true := by
    intro st h; rw [revokePre_kind s k b st h]; rfl
  unfold revokeProg
  split
  · exact ⟨[], by simp, Or.inl rfl⟩
  · split
    · exact ⟨[], by simp, Or.inl rfl⟩
    · split
      · exact ⟨[], by simp, Or.inl rfl⟩
      · simp only
        by_cases hcol : collides s k = true
        · simp only [hcol, ↓reduceIte]; exact ⟨_, hpre, Or.inl rfl⟩
        simp only [hcol, Bool.false_eq_true, ↓reduceIte]
        split
        · split
          · exact ⟨_, hpre, Or.inl rfl⟩
          · exact ⟨_, hpre, Or.inr rfl⟩
        · split
          · exact ⟨_, hpre, Or.inl rfl⟩
          · have hrec : ∀ st ∈ revokePre s k b ++ [Step.putRevoked k (s.stamps + 1)], neutral st = true := by
              intro st h
              rcases List.mem_append.mp h with h | h
              · exact hpre st h
              · simp only [List.mem_singleton] at h; subst h; rfl
            split
            · exact ⟨_, hrec, Or.inl rfl⟩
            · exact ⟨_, hrec, Or.inr rfl⟩

theorem allPre_addIssuer (s : St) (o1 o2 : List Nat) (h1 : o1.Nodup) (h2 : o2.Nodup) (hj : J s) :
    AllPre s (addIssuerProg s o1 o2).1 := by
  simp only [addIssuerProg]
  have hs1 : J (applyStep s (Step.addIssuer (s.nIssuers + 1))) := by
    refine ⟨hj.inc, fun e he hi => ?_, fun e he => ?_, fun i hi => ?_⟩
    · have hi' : e.issuer ∈ s.issuers ∨ e.issuer = s.nIssuers + 1 := by
        simpa [applyStep] using hi
      rcases hi' with h | h
      · exact hj.bound e he h
      · have := hj.evIss e he; omega
    · have := hj.evIss e he
      show e.issuer ≤ s.nIssuers + 1
      omega
    · have hi' : i ∈ s.issuers ∨ i = s.nIssuers + 1 := by simpa [applyStep] using hi
      show i ≤ s.nIssuers + 1
      rcases hi' with h | h
      · have := hj.issLe i h; omega
      · omega
  refine allPre_append _ _ _ (allPre_append _ _ _ (allPre_single _ _ hj hs1) ?_) ?_
  · show AllPre (applyStep s (Step.addIssuer (s.nIssuers + 1))) _
    split
    · refine allPre_single _ _ hs1 ⟨hs1.inc, fun e he hi => ?_, hs1.evIss, hs1.issLe⟩
      have hlog : e ∈ s.log := he
      have hi' : e.issuer ∈ s.issuers ∨ e.issuer = s.nIssuers + 1 := by
        simpa [applyStep] using hi
      rcases hi' with h | h
      · have hb := hj.bound e hlog h
        have : counter (applyStep (applyStep s (Step.addIssuer (s.nIssuers + 1)))
            (Step.putCounters (s.counters.filter fun p => decide (p.1 ∈ s.issuers)))) e.issuer = counter s e.issuer := by
          simp only [applyStep, counter]
          rw [lookup_filter_keep s.counters (fun i => decide (i ∈ s.issuers)) e.issuer (by simpa using h)]
        rw [this]; exact hb
      · have := hj.evIss e hlog; omega
    · exact allPre_nil _ hs1
  · rw [applySteps_append]
    show AllPre (applySteps (applyStep s (Step.addIssuer (s.nIssuers + 1))) _) _
    refine allPre_rebuild _ true o1 o2 h1 h2 ?_
    split
    · refine ⟨hs1.inc, fun e he hi => ?_, hs1.evIss, hs1.issLe⟩
      have hlog : e ∈ s.log := he
      have hi' : e.issuer ∈ s.issuers ∨ e.issuer = s.nIssuers + 1 := by
        simpa [applySteps, applyStep] using hi
      rcases hi' with h | h
      · have hb := hj.bound e hlog h
        have : counter (applySteps (applyStep s (Step.addIssuer (s.nIssuers + 1)))
            [Step.putCounters (s.counters.filter fun p => decide (p.1 ∈ s.issuers))]) e.issuer = counter s e.issuer := by
          simp only [applySteps, List.foldl_cons, List.foldl_nil, applyStep, counter]
          rw [lookup_filter_keep s.counters (fun i => decide (i ∈ s.issuers)) e.issuer (by simpa using h)]
        rw [this]; exact hb
      · have := hj.evIss e hlog; omega
    · exact hs1

/-- every prefix of every request program keeps the numbering invariant -/
theorem allPre_prog (s : St) (o1 o2 : List Nat) (op : Op) (h1 : o1.Nodup) (h2 : o2.Nodup) (hj : J s) :
    AllPre s (prog s o1 o2 op).1 := by
  have hNR : ∀ (N : List Step), (∀ st ∈ N, neutral st = true) → ∀ f,
      AllPre s (N ++ rebuildSteps (applySteps s N) f o1 o2) := fun N hN f =>
    allPre_append _ _ _ (allPre_neutral s N hN hj) (allPre_rebuild _ f o1 o2 h1 h2 (J_neutral_steps N s hN hj))
  cases op with
  | addIssuer => exact allPre_addIssuer s o1 o2 h1 h2 hj
  | importIssuer col =>
    cases col with
    | none => exact allPre_addIssuer s o1 o2 h1 h2 hj
    | some k =>
      simp only [prog, importIssuerProg]
      split
      · exact allPre_nil s hj
      · have hn : ∀ st ∈ [Step.noteSerial (s.nIssuers + 1) k], neutral st = true := by
          intro st h; simp only [List.mem_singleton] at h; subst h; rfl
        have := allPre_append s [Step.noteSerial (s.nIssuers + 1) k] _ (allPre_neutral s _ hn hj)
          (allPre_addIssuer _ o1 o2 h1 h2 (J_neutral_steps _ s hn hj))
        simpa [applySteps] using this
  | delIssuer i =>
    simp only [prog, delIssuerProg]
    split
    · exact allPre_nil s hj
    · have hs1 : J (applyStep s (Step.delIssuer i)) := by
        refine ⟨hj.inc, fun e he hi => ?_, hj.evIss, fun j hjm => ?_⟩
        · have hi' : e.issuer ∈ s.issuers := by
            have : e.issuer ∈ s.issuers.filter (· != i) := hi
            exact (List.mem_filter.mp this).1
          exact hj.bound e he hi'
        · have : j ∈ s.issuers.filter (· != i) := hjm
          exact hj.issLe j (List.mem_filter.mp this).1
      exact allPre_append _ _ _ (allPre_single _ _ hj hs1) (allPre_rebuild _ true o1 o2 h1 h2 hs1)
  | issue i ttl =>
    simp only [prog, issueProg]
    split
    · exact allPre_nil s hj
    · exact allPre_neutral s _ (by intro st h; simp only [List.mem_singleton] at h; subst h; rfl) hj
  | craft i v =>
    simp only [prog, craftProg]
    split
    · exact allPre_nil s hj
    · exact allPre_neutral s _ (by intro st h; simp only [List.mem_singleton] at h; subst h; rfl) hj
  | revoke k b =>
    simp only [prog]
    obtain ⟨N, hN, h | h⟩ := revokeProg_shape s k b o1 o2
    · rw [h]; exact allPre_neutral s N hN hj
    · rw [h]; exact hNR N hN false
  | rotate => exact allPre_rebuild s false o1 o2 h1 h2 hj
  | tidy cs rc assoc =>
    simp only [prog, tidyProg]
    have hN : ∀ st ∈ tidyPass1 s cs rc ++ tidyPass2 s cs rc assoc, neutral st = true := by
      intro st h
      rcases tidyPass_kind s cs rc assoc st h with ⟨_, rfl, _⟩ | ⟨_, rfl, _⟩ | ⟨_, _, rfl, _⟩ <;> rfl
    split
    · exact hNR _ hN false
    · rw [List.append_nil]; exact allPre_neutral s _ hN hj
  | config a d x =>
    simp only [prog, configProg]
    have hN : ∀ st ∈ [Step.putCfg ⟨orKeep a s.cfg.autoRebuild, orKeep d s.cfg.disable, orKeep x s.cfg.allowExpired⟩],
        neutral st = true := by
      intro st h; simp only [List.mem_singleton] at h; subst h; rfl
    split
    · exact hNR _ hN true
    · rw [List.append_nil]; exact allPre_neutral s _ hN hj
  | restart => exact allPre_nil s hj
  | tick d => exact allPre_neutral s _ (by intro st h; simp only [prog, List.mem_singleton] at h; subst h; rfl) hj

/-- one request, interrupted anywhere or not, keeps the numbering invariant -/
theorem J_exec (s : St) (r : Run) (h1 : r.o1.Nodup) (h2 : r.o2.Nodup) (hj : J s) : J (exec s r) := by
  have h := allPre_prog s r.o1 r.o2 r.op h1 h2 hj
  simp only [exec]
  cases r.cut with
  | none => exact h.full
  | some j => exact h j

theorem J_init : J init := ⟨List.Pairwise.nil, by simp [init], by simp [init], by simp [init]⟩

theorem J_run (h : List Run) : ∀ s, (∀ r ∈ h, r.o1.Nodup ∧ r.o2.Nodup) → J s → J (run s h) := by
  induction h with
  | nil => intro s _ hj; exact hj
  | cons r h ih =>
    intro s hh hj
    have hr := hh r (List.mem_cons_self ..)
    exact ih (exec s r) (fun r' hr' => hh r' (List.mem_cons_of_mem _ hr')) (J_exec s r hr.1 hr.2 hj)

end Obao.PKIRevoke
