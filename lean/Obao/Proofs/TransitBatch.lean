import Obao.Proofs.TransitRun
/-! Batch requests are the per-item map of the single-request semantics. -/
namespace Obao.Transit

theorem outs_length (st : St) (items : List Op) : (outs st items).length = items.length := by
  induction items generalizing st with
  | nil => rfl
  | cons o os ih => simp [outs, ih]

theorem run_take_succ (st : St) (items : List Op) (i : Nat) (o : Op) (h : items[i]? = some o) :
    run st (items.take (i + 1)) = (step (run st (items.take i)) o).1 := by
  induction items generalizing st i with
  | nil => simp at h
  | cons x xs ih =>
    cases i with
    | zero => simp at h; subst h; simp [run]
    | succ j =>
      simp only [List.getElem?_cons_succ] at h
      simp only [List.take_succ_cons, run]
      exact ih _ j h

theorem outs_get (st : St) (items : List Op) (i : Nat) (o : Op) (h : items[i]? = some o) :
    (outs st items)[i]? = some (step (run st (items.take i)) o).2 := by
  induction items generalizing st i with
  | nil => simp at h
  | cons x xs ih =>
    cases i with
    | zero => simp at h; subst h; simp [outs, run]
    | succ j =>
      simp only [List.getElem?_cons_succ] at h
      simp only [outs, List.getElem?_cons_succ, List.take_succ_cons, run]
      exact ih _ j h

/-- decrypt requests leave the state alone -/
theorem run_decrypts (st : St) (items : List Op) (h : ∀ o ∈ items, ∃ hd vm bm c a, o = .decrypt hd vm bm c a) :
    run st items = st := by
  induction items generalizing st with
  | nil => rfl
  | cons o os ih =>
    obtain ⟨hd, vm, bm, c, a, rfl⟩ := h o (by simp)
    simp only [run, step, decrypt_state]
    exact ih st (fun o' ho' => h o' (by simp [ho']))

theorem ff_append {xs ys : List Op} (h1 : FF xs) (h2 : FF ys) : FF (xs ++ ys) := by
  intro o ho
  rcases List.mem_append.1 ho with h | h
  · exact h1 o h
  · exact h2 o h

theorem ff_take {xs : List Op} (h : FF xs) (i : Nat) : FF (xs.take i) :=
  fun o ho => h o (List.mem_of_mem_take ho)

end Obao.Transit
