import Obao.Proofs.RevokeSafe
/-!
Sequential, fault-free execution: equational specifications (`run prog s = (result, closed form of s)`) of the
revocation programs, used by the history theorems of C04.
-/
namespace Obao.Revoke

@[simp] theorem run_ret (r : Except Err α) (s : St) : run (.ret r) s = (r, s) := rfl
@[simp] theorem run_io (o : Op) (k : Val → Prog α) (s : St) : run (.io o k) s = run (k (exec o s).2) (exec o s).1 := rfl

theorem run_bind (p : Prog α) (f : α → Prog β) (s : St) :
    run (p.bind f) s = match run p s with
      | (.ok a, s') => run (f a) s'
      | (.error e, s') => (.error e, s') := by
  induction p generalizing s with
  | ret r => cases r <;> rfl
  | io o k ih => simp only [Prog.bind, run_io]; exact ih _ _

theorem run_bindE (p : Prog α) (f : Except Err α → Prog β) (s : St) :
    run (p.bindE f) s = run (f (run p s).1) (run p s).2 := by
  induction p generalizing s with
  | ret r => rfl
  | io o k ih => simp only [Prog.bindE, run_io]; exact ih _ _

theorem run_bind_ok {p : Prog α} {f : α → Prog β} {s s' : St} {a : α} (h : run p s = (.ok a, s')) :
    run (p.bind f) s = run (f a) s' := by
  rw [run_bind, h]

@[simp] theorem run_getKey (k : Key) (s : St) : run (getKey k) s = (.ok (s.getKey k), s) := rfl
@[simp] theorem run_putKey (k : Key) (v : Payload) (s : St) : run (putKey k v) s = (.ok (), s.putKey k v) := rfl
@[simp] theorem run_delKey (k : Key) (s : St) : run (delKey k) s = (.ok (), s.delKey k) := rfl
@[simp] theorem run_listPar (p : Nat) (s : St) : run (listPfx (.par p)) s = (.ok (s.children p), s) := rfl
@[simp] theorem run_listTix (t : Nat) (s : St) : run (listPfx (.tix t)) s = (.ok (s.leasesOf t), s) := rfl
@[simp] theorem run_listCub (t : CubKey) (s : St) : run (listPfx (.cub t)) s = (.ok (s.cubKeys t), s) := rfl
@[simp] theorem run_cacheGet (t : Nat) (s : St) : run (cacheGet t) s = (.ok (s.cache t), s) := rfl
@[simp] theorem run_cacheSet (t : Nat) (v : Option Bool) (s : St) :
    run (cacheSet t v) s = (.ok (), { s with cache := fun x => if x = t then v else s.cache x }) := rfl
@[simp] theorem run_pendStore (k : PKey) (b : Bool) (s : St) :
    run (pendStore k b) s = (.ok (), { s with pend := fun x => if x = k then some b else s.pend x }) := rfl
@[simp] theorem run_pendDel (k : PKey) (s : St) :
    run (pendDel k) s = (.ok (), { s with pend := fun x => if x = k then none else s.pend x }) := rfl

theorem run_getTok (t : Nat) (s : St) : run (getTok t) s = (.ok (s.ids t), s) := by
  unfold getTok
  simp only [bind_eq, run_bind, run_getKey, St.getKey]
  cases s.ids t <;> rfl

theorem run_getTL (t : Nat) (s : St) : run (getTL t) s = (.ok (s.tl t), s) := by
  unfold getTL
  simp only [bind_eq, run_bind, run_getKey, St.getKey]
  cases s.tl t <;> rfl


/-- what `lookupInternal` answers when the token's lease is in the pending cache (or the token is the root) -/
def lkRes (s : St) (x : Nat) (tn : Bool) : Option TokEntry :=
  match s.ids x with
  | none => none
  | some e => if e.marked && !tn then none else some e

theorem run_lookup (f x : Nat) (tn : Bool) (s : St)
    (hc : ∀ e, s.ids x = some e → x ≠ 0 → s.cache x = some false) :
    run (lookup (f+1) x tn) s = (.ok (lkRes s x tn), s) := by
  unfold lookup lkRes
  simp only [bind_eq, pure_eq, run_bind, run_getTok]
  cases h : s.ids x with
  | none => rfl
  | some e =>
    simp only
    by_cases hm : (e.marked && !tn) = true
    · simp [hm]
    · simp only [hm, if_false, Bool.false_eq_true]
      by_cases h0 : x = 0
      · simp [h0]
      · have := hc e h h0
        simp [h0, run_bind, this]


theorem run_forM' (l : List Nat) (f : Nat → Prog Unit) (g : Nat → St → St)
    (hf : ∀ x s, run (f x) s = (.ok (), g x s)) (s : St) :
    run (forM' l f) s = (.ok (), l.foldl (fun s x => g x s) s) := by
  induction l generalizing s with
  | nil => rfl
  | cons x xs ih =>
    simp only [forM', bind_eq, run_bind, hf, List.foldl_cons]
    exact ih _

/-- closed form of `ClearView` on the cubbyhole of `t` -/
def clearCub (t : CubKey) (s : St) : St :=
  { s with cub := fun x k => if x = t ∧ k ∈ s.cubKeys t then false else s.cub x k }

theorem foldl_delCub (t : CubKey) (ks : List Nat) (s : St) :
    ks.foldl (fun s k => s.delKey (.cub t k)) s =
      { s with cub := fun x k => if x = t ∧ k ∈ ks then false else s.cub x k } := by
  induction ks generalizing s with
  | nil => simp
  | cons k0 ks ih =>
    rw [List.foldl_cons, ih]
    simp only [St.delKey]
    congr 1
    funext x k
    by_cases h1 : x = t <;> by_cases h2 : k = k0 <;> by_cases h3 : k ∈ ks <;> simp [h1, h2, h3]

theorem run_cubDestroy (t : CubKey) (s : St) : run (cubDestroy t) s = (.ok (), clearCub t s) := by
  unfold cubDestroy
  simp only [bind_eq, pure_eq]
  have hdel : ∀ (s' : St), run (forM' (s.cubKeys t) fun k => delKey (.cub t k)) s' =
      (.ok (), (s.cubKeys t).foldl (fun s k => s.delKey (.cub t k)) s') :=
    fun s' => run_forM' _ _ (fun k s => s.delKey (.cub t k)) (fun _ _ => rfl) s'
  cases hk : s.cubKeys t with
  | nil =>
    rw [hk] at hdel
    simp only [run_bind, run_listCub, hk, List.isEmpty_nil, Bool.not_true, Bool.false_eq_true, if_false, hdel,
      List.foldl_nil, run_ret, clearCub, List.not_mem_nil, and_false]
  | cons k0 ks =>
    rw [hk] at hdel
    simp only [run_bind, run_listCub, hk, List.isEmpty_cons, Bool.not_false, if_true, hdel, foldl_delCub,
      run_ret, clearCub]


theorem mem_insertBy (f : Nat → Nat) (x y : Nat) (l : List Nat) : y ∈ insertBy f x l ↔ y = x ∨ y ∈ l := by
  induction l with
  | nil => simp [insertBy]
  | cons z zs ih =>
    simp only [insertBy]
    split
    · simp
    · simp only [List.mem_cons, ih]
      constructor
      · rintro (h | h | h) <;> simp [h]
      · rintro (h | h | h) <;> simp [h]

theorem mem_sortBy (f : Nat → Nat) (y : Nat) (l : List Nat) : y ∈ sortBy f l ↔ y ∈ l := by
  induction l with
  | nil => simp [sortBy]
  | cons x xs ih => simp [sortBy, mem_insertBy, ih]

theorem mem_children (s : St) (p c : Nat) : c ∈ s.children p ↔ c < s.next ∧ s.par p c = true := by
  simp [St.children, mem_sortBy]

theorem mem_leasesOf (s : St) (t l : Nat) : l ∈ s.leasesOf t ↔ l < s.nextL ∧ s.tix t l = true := by
  simp [St.leasesOf, mem_sortBy]

theorem mem_cubKeys (s : St) (t : CubKey) (k : Nat) : k ∈ s.cubKeys t ↔ k < s.kmax ∧ s.cub t k = true := by
  simp [St.cubKeys]

theorem run_leasesByToken_go (t : Nat) (ls acc : List Nat) (s : St) (h : ∀ l ∈ ls, s.tix t l = true) :
    run (leasesByToken.go t ls acc) s = (.ok (acc.reverse ++ ls), s) := by
  induction ls generalizing acc with
  | nil => simp [leasesByToken.go]
  | cons l rest ih =>
    have hl : s.tix t l = true := h l (List.mem_cons_self ..)
    simp only [leasesByToken.go, bind_eq, run_bind, run_getKey, St.getKey, hl, if_true]
    rw [ih (l :: acc) fun l' hl' => h l' (List.mem_cons_of_mem _ hl')]
    simp

theorem run_leasesByToken (t : Nat) (s : St) : run (leasesByToken t) s = (.ok (s.leasesOf t), s) := by
  unfold leasesByToken
  simp only [bind_eq, run_bind, run_listTix]
  rw [run_leasesByToken_go t _ [] s fun l hl => ((mem_leasesOf s t l).mp hl).2]
  simp

/-- closed form of lazily revoking the leases `ls`: marked expired (= handed to the expiration workers) -/
def expireL (ls : List Nat) (s : St) : St :=
  { s with sl := fun l => if l ∈ ls then (s.sl l).map (fun q => (q.1, true)) else s.sl l }

theorem run_lazyRevoke (l : Nat) (s : St) :
    run (lazyRevoke l) s = (.ok (), { s with sl := fun x => if x = l then (s.sl x).map (fun q => (q.1, true)) else s.sl x }) := by
  unfold lazyRevoke
  simp only [bind_eq, pure_eq, run_bind, run_getKey, St.getKey]
  cases h : s.sl l with
  | none =>
    simp only [Option.map, run_ret]
    congr 1
    cases s
    simp only [St.mk.injEq, true_and, and_true] at h ⊢
    funext x
    by_cases hx : x = l
    · subst hx; simp [h]
    · simp [hx]
  | some q =>
    obtain ⟨t', e⟩ := q
    simp only [Option.map, run_putKey, St.putKey]
    congr 2
    funext x
    by_cases hx : x = l
    · subst hx; simp [h]
    · simp [hx]

theorem foldl_expire (ls : List Nat) (s : St) :
    ls.foldl (fun s l => { s with sl := fun x => if x = l then (s.sl x).map (fun q => (q.1, true)) else s.sl x }) s
      = expireL ls s := by
  induction ls generalizing s with
  | nil => simp [expireL]
  | cons l0 ls ih =>
    rw [List.foldl_cons, ih]
    simp only [expireL]
    congr 1
    funext l
    by_cases h1 : l = l0 <;> by_cases h2 : l ∈ ls <;> simp [h1, h2]
    all_goals
      intro _
      cases s.sl l0 <;> rfl

/-- closed form of `RevokeByToken` -/
def rbt (t : Nat) (s : St) : St :=
  { expireL (s.leasesOf t) s with
    tl := fun x => if x = t then none else s.tl x,
    cache := fun x => if x = t then none else s.cache x }

theorem run_revokeByToken (t : Nat) (s : St) (hc : s.tl t = none → s.cache t = none) :
    run (revokeByToken t) s = (.ok (), rbt t s) := by
  unfold revokeByToken
  simp only [bind_eq, pure_eq, run_bind, run_leasesByToken]
  rw [run_forM' _ _ _ run_lazyRevoke, foldl_expire]
  simp only [run_getTL]
  have htl : (expireL (s.leasesOf t) s).tl = s.tl := rfl
  rw [htl]
  cases h : s.tl t with
  | none =>
    simp only [run_ret, rbt]
    congr 1
    have hcache := hc h
    cases s
    simp only [expireL, St.mk.injEq, true_and, and_true] at h hcache ⊢
    constructor
    · funext x; by_cases hx : x = t
      · subst hx; simp [h]
      · simp [hx]
    · funext x; by_cases hx : x = t
      · subst hx; simp [hcache]
      · simp [hx]
  | some e =>
    simp only [run_bind, run_delKey, run_cacheSet, St.delKey, rbt, expireL]


/-- closed form of a completed `revokeInternal(x, skipOrphan = true)` on the stored entry `e` -/
def purge1 (x : Nat) (e : TokEntry) (s : St) : St :=
  { s with
    ids := fun y => if y = x then none else s.ids y,
    acc := fun y => if y = x then false else s.acc y,
    tl := fun y => if y = x then none else s.tl y,
    cache := fun y => if y = x then none else s.cache y,
    cub := fun y k => if y = ckey x e ∧ k ∈ s.cubKeys (ckey x e) then false else s.cub y k,
    sl := fun l => if l ∈ s.leasesOf x then (s.sl l).map (fun q => (q.1, true)) else s.sl l,
    par := fun p c => if some p = e.parent ∧ c = x then false else s.par p c,
    pend := fun k => if k = .salted x then none else s.pend k }

theorem run_pendLOS (k : PKey) (s : St) :
    run (pendLOS k) s = match s.pend k with
      | some b => (.ok (true, b), s)
      | none => (.ok (false, true), { s with pend := fun x => if x = k then some true else s.pend x }) := by
  unfold pendLOS
  simp only [run_io, exec]
  cases s.pend k <;> rfl

theorem run_riMark (x : Nat) (e : TokEntry) (s : St) :
    run (riMark x e) s = (.ok (), if e.marked then s else s.putKey (.id x) (.tok { e with marked := true })) := by
  unfold riMark
  cases hm : e.marked <;> simp [run_bindE]

theorem run_riBody_skip (x : Nat) (e : TokEntry) (ol : List Nat → Prog Unit) (s : St)
    (hc : s.tl x = none → s.cache x = none) (hdk : destroyKey x e = some (ckey x e)) :
    run (riBody x e true ol) s =
      (.ok (), ((match e.parent with
                 | some p => (rbt x (clearCub (ckey x e) s)).delKey (.par p x)
                 | none => rbt x (clearCub (ckey x e) s))).delKey (.acc x)) := by
  unfold riBody
  simp only [hdk, bind_eq, pure_eq, run_bind, run_cubDestroy]
  rw [run_revokeByToken x (clearCub (ckey x e) s) hc]
  cases e.parent <;> simp [run_bind]

theorem run_riFinish_ok (x : Nat) (s : St) :
    run (riFinish x (.ok ())) s =
      (.ok (), { s.delKey (.id x) with pend := fun k => if k = .salted x then none else s.pend k }) := by
  unfold riFinish
  simp [run_bindE, run_bind, St.delKey]

theorem St.ext' {a b : St} (h1 : a.next = b.next) (h2 : a.nextL = b.nextL) (h3 : a.kmax = b.kmax)
    (h4 : a.ids = b.ids) (h5 : a.acc = b.acc) (h6 : a.par = b.par) (h7 : a.tl = b.tl) (h8 : a.sl = b.sl)
    (h9 : a.tix = b.tix) (h10 : a.cub = b.cub) (h11 : a.cache = b.cache) (h12 : a.pend = b.pend)
    (h13 : a.skey = b.skey) (h14 : a.lkey = b.lkey) : a = b := by
  cases a; cases b; simp_all

/-- the part of `revokeInternal` after the `tokensPendingDeletion` check -/
theorem run_ri_tail (f x : Nat) (e : TokEntry) (s : St)
    (he : s.ids x = some e)
    (hcache : x ≠ 0 → s.cache x = some false)
    (htl : s.tl x = none → s.cache x = none)
    (hdk : destroyKey x e = some (ckey x e)) :
    run ((lookup (f+1) x true).bindE (riAfterLookup x true (orphanLoop (f+1)))) s
      = (.ok (), purge1 x e s) := by
  rw [run_bindE, run_lookup f x true s (fun _ _ h0 => hcache h0)]
  simp only [lkRes, he, Bool.not_true, Bool.and_false, Bool.false_eq_true, if_false, riAfterLookup, bind_eq,
    run_bind, run_riMark, run_bindE]
  cases hm : e.marked with
  | true =>
    simp only [if_true]
    rw [run_riBody_skip x e _ s htl hdk]
    simp only [run_riFinish_ok]
    congr 1
    cases hpar : e.parent <;>
      apply St.ext' <;>
      simp only [purge1, rbt, expireL, clearCub, St.delKey, St.leasesOf, St.cubKeys, hpar] <;>
      first | rfl | (funext a; simp) | (funext a b; simp)
    all_goals (try (funext a b; by_cases h1 : a = _ <;> by_cases h2 : b = x <;> simp [h1, h2]))
  | false =>
    simp only [Bool.false_eq_true, if_false]
    rw [run_riBody_skip x e _ _ (by simpa [St.putKey] using htl) hdk]
    simp only [run_riFinish_ok]
    congr 1
    cases hpar : e.parent <;>
      apply St.ext' <;>
      simp only [purge1, rbt, expireL, clearCub, St.delKey, St.putKey, St.leasesOf, St.cubKeys, hpar] <;>
      first | rfl | (funext a; simp) | (funext a b; simp) | (funext a; by_cases h1 : a = x <;> simp [h1])
    all_goals (try (funext a b; by_cases h1 : a = _ <;> by_cases h2 : b = x <;> simp [h1, h2]))

theorem run_revokeInternal_skip (f x : Nat) (e : TokEntry) (s : St)
    (he : s.ids x = some e)
    (hp : s.pend (.salted x) ≠ some true)
    (hcache : x ≠ 0 → s.cache x = some false)
    (htl : s.tl x = none → s.cache x = none)
    (hdk : destroyKey x e = some (ckey x e)) :
    run (revokeInternal (f+2) x true) s = (.ok (), purge1 x e s) := by
  unfold revokeInternal
  simp only [bind_eq, pure_eq]
  rw [run_bind, run_pendLOS]
  cases hpx : s.pend (.salted x) with
  | some b =>
    cases b with
    | true => exact absurd hpx hp
    | false =>
      simp only [Bool.true_and, Bool.false_eq_true, if_false]
      exact run_ri_tail f x e s he hcache htl hdk
  | none =>
    simp only [Bool.false_and, Bool.false_eq_true, if_false]
    refine (run_ri_tail f x e { s with pend := fun k => if k = PKey.salted x then some true else s.pend k }
      he hcache htl hdk).trans ?_
    congr 1
    apply St.ext' <;> simp only [purge1, St.leasesOf, St.cubKeys] <;> try rfl
    funext k
    by_cases hk : k = .salted x <;> simp [hk]

end Obao.Revoke
