import Obao.Model.RawAccess
/-! helper lemmas for the `sys/raw` storage selection (C01) -/
namespace Obao.RawAccess

theorem cutPrefix_eq {p l r : Path} (h : cutPrefix p l = some r) : l = p ++ r := by
  induction p generalizing l with
  | nil => simp [cutPrefix] at h; simp [h]
  | cons a ps ih =>
    cases l with
    | nil => simp [cutPrefix] at h
    | cons c cs =>
      simp only [cutPrefix] at h
      split at h
      · rename_i e; rw [e, ih h]; rfl
      · cases h

theorem cutSlash_eq {l a b : Path} (h : cutSlash l = some (a, b)) : l = a ++ '/' :: b ∧ '/' ∉ a := by
  induction l generalizing a b with
  | nil => simp [cutSlash] at h
  | cons c cs ih =>
    simp only [cutSlash] at h
    split at h
    · rename_i e
      simp only [Option.some.injEq, Prod.mk.injEq] at h
      obtain ⟨rfl, rfl⟩ := h
      simp [e]
    · rename_i e
      cases hc : cutSlash cs with
      | none => simp [hc] at h
      | some ab =>
        obtain ⟨a', b'⟩ := ab
        simp only [hc, Option.some.injEq, Prod.mk.injEq] at h
        obtain ⟨rfl, rfl⟩ := h
        obtain ⟨h1, h2⟩ := ih hc
        refine ⟨by rw [h1]; rfl, ?_⟩
        intro hm
        rcases List.mem_cons.mp hm with h3 | h3
        · exact e h3.symm
        · exact h2 h3

/-- the selection, given what `NamespaceByStoragePath` returned: direct access needs a fixed key that is also the FULL
path -/
theorem direct_cases {known : List Path} {path : Path} {w : Bool} (h : storageByPath known path = .direct w) :
    (nsByStoragePath known path).2 ∈ fixedKeys ∧ (nsByStoragePath known path).2 = path ∧
    (((nsByStoragePath known path).1 = .root ∧ w = true) ∨ ((nsByStoragePath known path).1 = .unknown ∧ w = false)) := by
  unfold storageByPath at h
  generalize nsByStoragePath known path = r at h ⊢
  obtain ⟨ns, rest⟩ := r
  simp only at h
  split at h
  · cases h
  · cases ns with
    | root =>
      simp only at h
      split at h
      · rename_i hs
        cases h
        refine ⟨?_, hs.2, Or.inl ⟨rfl, rfl⟩⟩
        rcases hs.1 with e | e <;> simp [fixedKeys, e]
      · cases h
    | unknown =>
      simp only at h
      split at h
      · rename_i hs
        cases h
        refine ⟨?_, hs.2, Or.inr ⟨rfl, rfl⟩⟩
        rcases hs.1 with e | e <;> simp [fixedKeys, e]
      · cases h
    | child u =>
      simp only at h
      split at h <;> cases h

/-- a path from which `NamespaceByStoragePath` stripped `namespaces/<uuid>/` is strictly longer than the remainder -/
theorem stripped_ne {known : List Path} {path rest uuid r0 : Path} (hp : cutPrefix nsPrefix path = some r0)
    (hc : cutSlash r0 = some (uuid, rest)) : rest ≠ path := by
  intro e
  have h1 := cutPrefix_eq hp
  have h2 := (cutSlash_eq hc).1
  have : path.length = (nsPrefix ++ (uuid ++ '/' :: rest)).length := by rw [h1, h2]
  rw [e] at this
  simp [nsPrefix] at this
  omega

end Obao.RawAccess
