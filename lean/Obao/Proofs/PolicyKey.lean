import Obao.Model.PolicyKey
/-! Helper lemmas for C12Gen: a '/'-separated concatenation is injective when the first part has no '/'. -/
namespace Obao.PolicyKey

theorem concat_slash_inj (u1 u2 n1 n2 : List Char) (h1 : '/' ∉ u1) (h2 : '/' ∉ u2)
    (h : u1 ++ '/' :: n1 = u2 ++ '/' :: n2) : u1 = u2 ∧ n1 = n2 := by
  induction u1 generalizing u2 with
  | nil =>
    cases u2 with
    | nil => simpa using h
    | cons b t =>
      simp only [List.nil_append, List.cons_append, List.cons.injEq] at h
      exact absurd (h.1 ▸ List.mem_cons_self) h2
  | cons a t ih =>
    cases u2 with
    | nil =>
      simp only [List.nil_append, List.cons_append, List.cons.injEq] at h
      exact absurd (h.1 ▸ List.mem_cons_self) h1
    | cons b t2 =>
      simp only [List.cons_append, List.cons.injEq] at h
      obtain ⟨hab, ht⟩ := h
      have := ih t2 (fun hm => h1 (List.mem_cons_of_mem _ hm)) (fun hm => h2 (List.mem_cons_of_mem _ hm)) ht
      exact ⟨by rw [hab, this.1], this.2⟩

theorem str_concat_slash_inj (u1 u2 n1 n2 : String) (h1 : '/' ∉ u1.toList) (h2 : '/' ∉ u2.toList)
    (h : (u1 ++ "/") ++ n1 = (u2 ++ "/") ++ n2) : u1 = u2 ∧ n1 = n2 := by
  have h' := congrArg String.toList h
  simp only [String.toList_append] at h'
  have hs : ("/" : String).toList = ['/'] := rfl
  rw [hs] at h'
  simp only [List.append_assoc, List.singleton_append] at h'
  have := concat_slash_inj _ _ _ _ h1 h2 h'
  exact ⟨String.toList_inj.mp this.1, String.toList_inj.mp this.2⟩

end Obao.PolicyKey
