import Obao.Model.KV2
/-! Helper lemmas for C14 (versioned KV).  Core Lean only. -/
namespace Obao.KV2

/-! ### window arithmetic of AddVersion -/

theorem effMax_pos (a b : Nat) : 1 ≤ effMax a b := by
  unfold effMax defaultMaxVersions; split <;> omega

/-- does AddVersion drop version `x` from the map -/
def pruned (m : Meta) (cfgMax : Nat) (x : Nat) : Prop :=
  m.current + 1 - m.oldest ≥ effMax m.maxVersions cfgMax ∧ m.oldest ≤ x ∧ x ≤ m.current + 1 - effMax m.maxVersions cfgMax

instance (m : Meta) (c x : Nat) : Decidable (pruned m c x) := by unfold pruned; infer_instance

theorem addVersion_current (m : Meta) (del : Del) (c : Nat) : (addVersion m del c).1.current = m.current + 1 := by
  unfold addVersion; simp only; split <;> rfl

theorem addVersion_fields (m : Meta) (del : Del) (c : Nat) :
    (addVersion m del c).1.maxVersions = m.maxVersions ∧ (addVersion m del c).1.casRequired = m.casRequired ∧
    (addVersion m del c).1.dva = m.dva ∧ (addVersion m del c).1.metaVersion = m.metaVersion := by
  unfold addVersion; simp only; split <;> simp

theorem addVersion_versions (m : Meta) (del : Del) (c : Nat) (x : Nat) :
    (addVersion m del c).1.versions x =
      if pruned m c x then none
      else if x = m.current + 1 then some { del := del, destroyed := false } else m.versions x := by
  unfold addVersion pruned; simp only
  split
  · rename_i h
    simp only
    by_cases hx : m.oldest ≤ x ∧ x < m.current + 1 - effMax m.maxVersions c + 1
    · have : m.oldest ≤ x ∧ x ≤ m.current + 1 - effMax m.maxVersions c := ⟨hx.1, by omega⟩
      simp [hx, h, this]
    · have : ¬ (m.oldest ≤ x ∧ x ≤ m.current + 1 - effMax m.maxVersions c) := by
        intro h2; exact hx ⟨h2.1, by omega⟩
      simp [hx, h, this]
  · rename_i h
    simp [h]

/-- versionToDelete is below the new oldest version, or 0 -/
theorem addVersion_vtd (m : Meta) (del : Del) (c : Nat) :
    (addVersion m del c).2 = 0 ∨ (addVersion m del c).2 + 1 = (addVersion m del c).1.oldest := by
  unfold addVersion; simp only; split
  · right; rfl
  · left; rfl

theorem addVersion_vtd_lt (m : Meta) (del : Del) (c : Nat) : (addVersion m del c).2 < m.current + 1 := by
  have := effMax_pos m.maxVersions c
  unfold addVersion; simp only; split <;> simp only <;> omega

theorem addVersion_oldest (m : Meta) (del : Del) (c : Nat) :
    (addVersion m del c).1.oldest =
      if m.current + 1 - m.oldest ≥ effMax m.maxVersions c then m.current + 1 - effMax m.maxVersions c + 1 else m.oldest := by
  unfold addVersion; simp only; split <;> simp_all

/-! ### well-formedness -/

structure MetaWF (m : Meta) : Prop where
  bound : ∀ w vm, m.versions w = some vm → 1 ≤ w ∧ m.oldest ≤ w ∧ w ≤ m.current
  old_le : m.oldest ≤ m.current

structure PathWF (ps : PathSt) : Prop where
  mwf : ∀ m, ps.md = some m → MetaWF m
  blob : ∀ m w vm, ps.md = some m → m.versions w = some vm → vm.destroyed = false → (ps.blobs w).isSome = true

def WF (s : State) : Prop := ∀ p, PathWF (s.paths p)

theorem freshMeta_wf : MetaWF freshMeta := ⟨by intro w vm h; simp [freshMeta] at h, by simp [freshMeta]⟩

theorem addVersion_wf (m : Meta) (del : Del) (c : Nat) (h : MetaWF m) : MetaWF (addVersion m del c).1 := by
  have hp := effMax_pos m.maxVersions c
  have ho := h.old_le
  constructor
  · intro w vm hv
    rw [addVersion_versions] at hv
    rw [addVersion_current, addVersion_oldest]
    by_cases hpr : pruned m c w
    · simp [hpr] at hv
    · simp only [hpr, if_false] at hv
      unfold pruned at hpr
      by_cases hw : w = m.current + 1
      · subst hw
        split <;> omega
      · simp only [hw, if_false] at hv
        have := h.bound w vm hv
        split <;> omega
  · rw [addVersion_current, addVersion_oldest]
    split <;> omega

/-- what survives AddVersion -/
theorem addVersion_present (m : Meta) (del : Del) (c : Nat) (h : MetaWF m) (x : Nat) :
    ((addVersion m del c).1.versions x).isSome = true ↔
      (x = m.current + 1 ∨ (m.versions x).isSome = true) ∧ m.current + 1 < x + effMax m.maxVersions c := by
  have hp := effMax_pos m.maxVersions c
  have ho := h.old_le
  rw [addVersion_versions]
  unfold pruned
  constructor
  · intro hx
    by_cases hpr : m.current + 1 - m.oldest ≥ effMax m.maxVersions c ∧ m.oldest ≤ x ∧ x ≤ m.current + 1 - effMax m.maxVersions c
    · simp [hpr] at hx
    · simp only [hpr, ↓reduceIte] at hx
      by_cases e : x = m.current + 1
      · subst e; exact ⟨Or.inl rfl, by omega⟩
      · simp only [e, ↓reduceIte] at hx
        obtain ⟨vm, hvm⟩ := Option.isSome_iff_exists.mp hx
        have hb := h.bound x vm hvm
        refine ⟨Or.inr hx, ?_⟩
        by_cases ht : m.current + 1 - m.oldest ≥ effMax m.maxVersions c
        · have : ¬ (x ≤ m.current + 1 - effMax m.maxVersions c) := fun h2 => hpr ⟨ht, hb.2.1, h2⟩
          omega
        · omega
  · intro ⟨hx, hlt⟩
    have hnp : ¬ (m.current + 1 - m.oldest ≥ effMax m.maxVersions c ∧ m.oldest ≤ x ∧ x ≤ m.current + 1 - effMax m.maxVersions c) := by
      intro ⟨a, _, b⟩; omega
    simp only [hnp, ↓reduceIte]
    rcases hx with e | hx
    · simp [e]
    · split
      · simp
      · exact hx

/-! ### cleanupOldVersions -/

theorem cleanupKeys_bound (blobs : Nat → Option Data) (n : Nat) : ∀ k ∈ cleanupKeys blobs n, 1 ≤ k ∧ k ≤ n := by
  induction n with
  | zero => intro k hk; simp [cleanupKeys] at hk
  | succ i ih =>
    intro k hk
    unfold cleanupKeys at hk
    split at hk
    · rcases List.mem_cons.mp hk with rfl | hk
      · omega
      · have := ih k hk; omega
    · simp at hk

theorem eraseBlobs_above (blobs : Nat → Option Data) (ks : List Nat) (n x : Nat) (hk : ∀ k ∈ ks, k ≤ n) (hx : n < x) :
    eraseBlobs blobs ks x = blobs x := by
  have hm : x ∉ ks := fun hc => by have := hk x hc; omega
  simp [eraseBlobs, hm]

/-! ### outcome of the common tail of write and patch -/

/-- the three things the tail of a write can do -/
def WriteOutcome (ps : PathSt) (m : Meta) (d : Data) (del : Del) (cfgMax : Nat) (ps' : PathSt) (r : Resp) : Prop :=
  (∃ w, r = .wrote (m.current + 1) del w ∧ ps'.md = some (addVersion m del cfgMax).1 ∧
      ps'.blobs (m.current + 1) = some d ∧
      ∀ x, (addVersion m del cfgMax).2 < x → x ≠ m.current + 1 → ps'.blobs x = ps.blobs x)
  ∨ (r = .err .storage ∧ ps'.md = ps.md ∧ ∀ x, x ≠ m.current + 1 → ps'.blobs x = ps.blobs x)

theorem commitWrite_outcome (ps : PathSt) (m : Meta) (d : Data) (del : Del) (c : Nat) (tx : Bool) (fault : Option Nat)
    (base : Nat) :
    WriteOutcome ps m d del c (commitWrite ps m d del c tx fault base).1 (commitWrite ps m d del c tx fault base).2.1 := by
  have hcur := addVersion_current m del c
  have hlt := addVersion_vtd_lt m del c
  -- facts about the blobs after a (partial) clean-up
  have key : ∀ ks : List Nat, (∀ k ∈ ks, k ≤ (addVersion m del c).2) →
      (eraseBlobs (setBlob ps.blobs (m.current + 1) (some d)) ks) (m.current + 1) = some d ∧
      ∀ x, (addVersion m del c).2 < x → x ≠ m.current + 1 →
        (eraseBlobs (setBlob ps.blobs (m.current + 1) (some d)) ks) x = ps.blobs x := by
    intro ks hks
    constructor
    · rw [eraseBlobs_above _ ks _ _ hks hlt]; simp [setBlob]
    · intro x hx hne
      rw [eraseBlobs_above _ ks _ _ hks hx]; simp [setBlob, hne]
  have hkeys : ∀ k ∈ cleanupKeys (setBlob ps.blobs (m.current + 1) (some d)) (addVersion m del c).2,
      k ≤ (addVersion m del c).2 := fun k hk => (cleanupKeys_bound _ _ k hk).2
  have full := key _ hkeys
  have none' := key [] (by simp)
  have part : ∀ j, ∀ k ∈ ((cleanupKeys (setBlob ps.blobs (m.current + 1) (some d)) (addVersion m del c).2).reverse.take j),
      k ≤ (addVersion m del c).2 := by
    intro j k hk
    exact hkeys k (List.mem_reverse.mp (List.mem_of_mem_take hk))
  have hset : ∀ x, x ≠ m.current + 1 → setBlob ps.blobs (m.current + 1) (some d) x = ps.blobs x := by
    intro x hx; simp [setBlob, hx]
  unfold commitWrite WriteOutcome
  simp only [hcur]
  cases fault with
  | none => exact Or.inl ⟨false, rfl, rfl, full.1, full.2⟩
  | some k =>
    simp only
    split
    · exact Or.inl ⟨false, rfl, rfl, full.1, full.2⟩
    split
    · exact Or.inr ⟨rfl, rfl, fun _ _ => rfl⟩
    split
    · refine Or.inr ⟨rfl, ?_, ?_⟩
      · split <;> rfl
      · intro x hx; split
        · rfl
        · exact hset x hx
    split
    · refine Or.inl ⟨true, rfl, rfl, ?_, ?_⟩
      · simp [setBlob]
      · intro x _ hx; exact hset x hx
    split
    · have := key _ (part (k - (base + 2 + cleanupGets (setBlob ps.blobs (m.current + 1) (some d)) (addVersion m del c).2)))
      exact Or.inl ⟨true, rfl, rfl, this.1, this.2⟩
    split
    · exact Or.inr ⟨rfl, rfl, fun _ _ => rfl⟩
    · exact Or.inl ⟨false, rfl, rfl, full.1, full.2⟩

end Obao.KV2
