import Obao.Model.Audit
import Obao.Model.AuditPipeline
/-! Helper lemmas for C11 (broker loop). -/
namespace Obao.Audit

theorem loop_panicked_iff (devs : List Outcome) (any : Bool) :
    loop devs any = .panicked ↔ ∃ o ∈ devs, o.isPanic = true := by
  induction devs generalizing any with
  | nil => simp [loop]
  | cons o rest ih =>
    cases o <;> simp [loop, ih, Outcome.isPanic]

theorem loop_completed (devs : List Outcome) (any b : Bool) (h : loop devs any = .completed b) :
    b = (any || devs.contains .ok) := by
  induction devs generalizing any with
  | nil => simp [loop] at h; simp [h]
  | cons o rest ih =>
    cases o <;> simp [loop] at h
    · have := ih _ h; simp [this]
    · have := ih _ h; simp [this]
    · have := ih _ h; simp [this]

theorem loop_no_panic (devs : List Outcome) (any : Bool) (h : ∀ o ∈ devs, o.isPanic = false) :
    loop devs any = .completed (any || devs.contains .ok) := by
  induction devs generalizing any with
  | nil => simp [loop]
  | cons o rest ih =>
    have hr : ∀ o ∈ rest, o.isPanic = false := fun o ho => h o (List.mem_cons_of_mem _ ho)
    have ho := h o (List.mem_cons_self)
    cases o <;> simp [loop, ih _ hr, Outcome.isPanic] at ho ⊢

/-- exact characterisation of the broker result -/
theorem brokerLog_eq (devs : List Outcome) :
    brokerLog devs =
      if devs.any Outcome.isPanic then .errPanic
      else if devs.isEmpty || devs.contains .ok then .ok else .errNoneLogged := by
  by_cases hp : ∃ o ∈ devs, o.isPanic = true
  · have h1 := (loop_panicked_iff devs false).2 hp
    have h2 : devs.any Outcome.isPanic = true := by simpa using hp
    simp [brokerLog, h1, h2]
  · have hn : ∀ o ∈ devs, o.isPanic = false := by
      intro o ho
      cases h : o.isPanic
      · rfl
      · exact absurd ⟨o, ho, h⟩ hp
    have h1 := loop_no_panic devs false hn
    have h2 : devs.any Outcome.isPanic = false := by
      simp only [List.any_eq_false]
      intro o ho; simp [hn o ho]
    simp only [brokerLog, h1, h2]
    cases devs with
    | nil => simp
    | cons a t =>
      cases hc : (a :: t).contains Outcome.ok <;> simp

theorem visited_no_panic (devs : List Outcome) (h : ∀ o ∈ devs, o.isPanic = false) : visited devs = devs := by
  induction devs with
  | nil => rfl
  | cons o rest ih =>
    have ho := h o List.mem_cons_self
    simp [visited, ho, ih (fun o h' => h o (List.mem_cons_of_mem _ h'))]

theorem visited_sublist_mem (devs : List Outcome) : ∀ o ∈ visited devs, o ∈ devs := by
  induction devs with
  | nil => simp [visited]
  | cons a rest ih =>
    intro o ho
    simp only [visited] at ho
    split at ho
    · simp at ho; simp [ho]
    · rcases List.mem_cons.mp ho with h | h
      · simp [h]
      · exact List.mem_cons_of_mem _ (ih o h)

end Obao.Audit

namespace Obao.AuditPipeline
open Obao.Audit

/-- the three shapes a run can have -/
theorem run_eq (i : PipeIn) :
    (trace i, result i) =
      match i.kind with
      | .authed false =>
        ([.checkToken false, .auditReq i.reqDevs, .auditResp i.respDevs,
          .ret (if brokerLog i.respDevs = .ok then { err := .denied, resp := .errorResp } else bareInternal)],
         if brokerLog i.respDevs = .ok then { err := .denied, resp := .errorResp } else bareInternal)
      | _ =>
        if brokerLog i.reqDevs = .ok then
          ([.checkToken true, .auditReq i.reqDevs, .route, .auditResp i.respDevs,
            .ret (if brokerLog i.respDevs = .ok then i.handler else bareInternal)],
           if brokerLog i.respDevs = .ok then i.handler else bareInternal)
        else
          ([.checkToken true, .auditReq i.reqDevs, .auditResp i.respDevs, .ret bareInternal], bareInternal) := by
  obtain ⟨kind, rq, rs, h⟩ := i
  cases kind with
  | authed ok =>
    cases ok <;> by_cases h1 : brokerLog rq = .ok <;> by_cases h2 : brokerLog rs = .ok <;>
      simp [trace, result, run, step, init, h1, h2]
  | login =>
    by_cases h1 : brokerLog rq = .ok <;> by_cases h2 : brokerLog rs = .ok <;>
      simp [trace, result, run, step, init, h1, h2]

end Obao.AuditPipeline
