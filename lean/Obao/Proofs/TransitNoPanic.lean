import Obao.Proofs.TransitSign
/-! No operation of a fault-free history panics: the archive index arithmetic of `handleArchiving` stays in range
and verification never meets a key entry without key material. -/
namespace Obao.Transit

theorem polOut_ne_panic (p : Policy) : polOut p ≠ .panic := by unfold polOut; intro h; cases h

theorem nopanic_new {st : St} (h : Inv st) (t : KType) (d c : Bool) : (newPolicy st t d c).2 ≠ .panic := by
  unfold newPolicy
  cases hp : st.pol with
  | some p => intro hc; cases hc
  | none =>
    simp only
    by_cases hb : badParams t d c = true
    · rw [if_pos hb]; intro hc; cases hc
    · rw [if_neg hb, h.noPol hp, h.noFault, persist_fresh]; exact polOut_ne_panic _

theorem nopanic_rotate {st : St} (h : Inv st) : (rotate st).2 ≠ .panic := by
  unfold rotate
  cases hp : st.pol with
  | none => intro hc; cases hc
  | some p =>
    have hi := h.pol p hp
    have := persist_rotate hi (p.latest + 1, st.nextKey)
    simp only [rotated] at this
    simp only [h.noFault, this]
    exact polOut_ne_panic _

theorem nopanic_config {st : St} (h : Inv st) (dec enc : Option Int) (del exp apb : Option Bool) :
    (config st dec enc del exp apb).2 ≠ .panic := by
  unfold config
  cases hp : st.pol with
  | none => intro hc; cases hc
  | some p =>
    have hi := h.pol p hp
    simp only
    cases ht : cfgTarget p dec enc del exp apb with
    | error c => intro hc; cases hc
    | ok r =>
      obtain ⟨q, pn⟩ := r
      obtain ⟨hu, hf, ht'⟩ := cfgTarget_spec hi ht
      cases pn with
      | false => exact polOut_ne_panic _
      | true =>
        obtain ⟨c1, c2, c3, c4, c5, c6⟩ := ht' rfl
        obtain ⟨ks, hks, hinv⟩ := persist_cfg hi hu.ring c1 c2 c3 c4 c5 c6
        simp only [h.noFault, hks]
        exact polOut_ne_panic _

theorem nopanic_trim {st : St} (h : Inv st) (n : Int) : (trim st n).2 ≠ .panic := by
  unfold trim
  cases hp : st.pol with
  | none => intro hc; cases hc
  | some p =>
    have hi := h.pol p hp
    simp only
    by_cases g1 : n < p.minAvail
    · rw [if_pos g1]; intro hc; cases hc
    rw [if_neg g1]
    by_cases g2 : p.minEnc = 0
    · rw [if_pos g2]; intro hc; cases hc
    rw [if_neg g2]
    by_cases g3 : p.minDec = 0
    · rw [if_pos g3]; intro hc; cases hc
    rw [if_neg g3]
    by_cases g4 : n > p.minEnc
    · rw [if_pos g4]; intro hc; cases hc
    rw [if_neg g4]
    by_cases g5 : n > p.minDec
    · rw [if_pos g5]; intro hc; cases hc
    rw [if_neg g5]
    by_cases g6 : n < 0
    · rw [if_pos g6]; intro hc; cases hc
    rw [if_neg g6]
    by_cases g7 : n = 0
    · rw [if_pos g7]; intro hc; cases hc
    rw [if_neg g7]
    have e1 : p.minAvail ≤ n.toNat := by omega
    have e2 : n.toNat ≤ p.minDec := by omega
    simp only [h.noFault, persist_trim hi n.toNat e1 e2]
    exact polOut_ne_panic _

theorem nopanic_backup {st : St} (h : Inv st) : (backup st).2 ≠ .panic := by
  unfold backup
  cases hp : st.pol with
  | none => intro hc; cases hc
  | some p =>
    have hi := h.pol p hp
    simp only
    by_cases g1 : (!p.exportable) = true
    · rw [if_pos g1]; intro hc; cases hc
    rw [if_neg g1]
    by_cases g2 : (!p.plainBackup) = true
    · rw [if_pos g2]; intro hc; cases hc
    rw [if_neg g2]
    simp only [h.noFault, persist_id hi]
    intro hc; cases hc

theorem nopanic_restore {st : St} (h : Inv st) (b : Nat) (force : Bool) : (restore st b force).2 ≠ .panic := by
  unfold restore restoreWith
  simp only
  by_cases g0 : b = 0
  · rw [if_pos g0]; intro hc; cases hc
  rw [if_neg g0]
  cases hb : st.backups[b - 1]? with
  | none => intro hc; cases hc
  | some bk =>
    obtain ⟨bp, ba⟩ := bk
    have hi : PInv bp ba := h.backups (bp, ba) (List.mem_of_getElem? hb)
    simp only
    by_cases g1 : st.pol.isSome = true ∧ (!force) = true
    · rw [if_pos g1]; intro hc; cases hc
    rw [if_neg g1, h.noFault]
    simp only [Nat.zero_ne_one, if_false, Nat.zero_sub, persist_id hi]
    exact polOut_ne_panic _

theorem nopanic_delete (st : St) : (delete st).2 ≠ .panic := by
  unfold delete
  repeat' split
  all_goals (intro hc; cases hc)

theorem nopanic_encrypt (st : St) (ver : Int) (ctx aad nonce plain : String) :
    (encrypt st ver ctx aad nonce plain).2 ≠ .panic := by
  unfold encrypt
  repeat' split
  all_goals (intro hc; cases hc)

theorem nopanic_decrypt (st : St) (h : Nat) (vm : VMut) (bm : BMut) (c a : String) :
    (decrypt st h vm bm c a).2 ≠ .panic := by
  unfold decrypt
  repeat' split
  all_goals (intro hc; cases hc)

theorem nopanic_rewrap (st : St) (h : Nat) (ver : Int) (c : String) : (rewrap st h ver c).2 ≠ .panic := by
  unfold rewrap
  split
  · intro hc; cases hc
  · split
    · intro hc; cases hc
    · split
      · intro hc; cases hc
      · exact nopanic_encrypt _ _ _ _ _ _

theorem nopanic_sign (st : St) (ver : Int) (ctx msg : String) : (sign st ver ctx msg).2 ≠ .panic := by
  unfold sign
  repeat' split
  all_goals (intro hc; cases hc)

theorem nopanic_hmac (st : St) (ver : Int) (msg : String) : (hmac st ver msg).2 ≠ .panic := by
  unfold hmac
  repeat' split
  all_goals (intro hc; cases hc)

theorem nopanic_hmacVerify (st : St) (h : Nat) (vm : VMut) (bm : BMut) (m : String) :
    (hmacVerify st h vm bm m).2 ≠ .panic := by
  unfold hmacVerify
  repeat' split
  all_goals (intro hc; cases hc)

/-- verification never reaches a key entry without key material -/
theorem verifyArt_ne_panic {p : Policy} {arch : List Key} (hi : PInv p arch) (a : Art) (vm : VMut) (bm : BMut)
    (ctx msg : String) : verifyArt p a vm bm ctx msg ≠ .error "PANIC" := by
  unfold verifyArt
  split
  · simp
  split
  · simp
  split
  · simp
  split
  · simp
  · rename_i ver _
    split
    · simp
    split
    · simp
    split
    · simp
    split
    · simp
    split
    · split
      · simp
      · split <;> simp
    · split
      · simp
      · split
        · simp
        · rename_i k hk
          split
          · rename_i he
            have := (hi.kget_ver hk).1
            have h4 := (hi.kget_ver hk).2.2.2
            rw [he] at this
            simp [emptyKey] at this
            omega
          · simp

theorem nopanic_verify {st : St} (h : Inv st) (hd : Nat) (vm : VMut) (bm : BMut) (ctx msg : String) :
    (verify st hd vm bm ctx msg).2 ≠ .panic := by
  unfold verify
  cases ha : artAt st hd .sig with
  | none => intro hc; cases hc
  | some a =>
    cases hp : st.pol with
    | none => intro hc; cases hc
    | some p =>
      simp only
      cases hv : verifyArt p a vm bm ctx msg with
      | ok b => intro hc; cases hc
      | error c =>
        simp only
        have := verifyArt_ne_panic (h.pol p hp) a vm bm ctx msg
        rw [hv] at this
        have hne : c ≠ "PANIC" := fun hc => this (by rw [hc])
        rw [if_neg hne]
        intro hc; cases hc

theorem nopanic_step {st : St} (h : Inv st) (o : Op) (hf : o.faultFree = true) : (step st o).2 ≠ .panic := by
  cases o with
  | new t d c => exact nopanic_new h t d c
  | rotate => exact nopanic_rotate h
  | config dec enc del exp apb => exact nopanic_config h dec enc del exp apb
  | trim n => exact nopanic_trim h n
  | backup => exact nopanic_backup h
  | restore b f => exact nopanic_restore h b f
  | delete => exact nopanic_delete st
  | encrypt v c a n p => exact nopanic_encrypt st v c a n p
  | decrypt hd vm bm c a => exact nopanic_decrypt st hd vm bm c a
  | rewrap hd v c => exact nopanic_rewrap st hd v c
  | sign v c m => exact nopanic_sign st v c m
  | verify hd vm bm c m => exact nopanic_verify h hd vm bm c m
  | hmac v m => exact nopanic_hmac st v m
  | hmacVerify hd vm bm m => exact nopanic_hmacVerify st hd vm bm m
  | failPut k => cases hf
  | rawConfig d e => cases hf
  | restoreRaw b f => cases hf

end Obao.Transit
