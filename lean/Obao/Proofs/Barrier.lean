import Obao.Model.Barrier
/-! Helper lemmas for C01: association-list store, keyring lookups, the reachable-state invariant `Inv` and its
preservation by every operation (barrier and adversary). -/
namespace Obao.Barrier

/-! ### store -/

theorem sget_sdel_eq {α : Type} (m : List (String × α)) (k : String) : sget (sdel m k) k = none := by
  induction m with
  | nil => rfl
  | cons x rest ih =>
    obtain ⟨k', v⟩ := x
    by_cases h : k' = k <;> simp [sdel, sget, h, ih]

theorem sget_sdel_ne {α : Type} (m : List (String × α)) (k k' : String) (h : k' ≠ k) :
    sget (sdel m k) k' = sget m k' := by
  induction m with
  | nil => rfl
  | cons x rest ih =>
    obtain ⟨k0, v⟩ := x
    by_cases h0 : k0 = k
    · subst h0
      have : ¬ k0 = k' := fun e => h e.symm
      simp [sdel, sget, this, ih]
    · by_cases h1 : k0 = k'
      · subst h1; simp [sdel, sget, h0]
      · simp [sdel, sget, h0, h1, ih]

theorem sget_sput_eq {α : Type} (m : List (String × α)) (k : String) (v : α) : sget (sput m k v) k = some v := by
  simp [sput, sget]

theorem sget_sput_ne {α : Type} (m : List (String × α)) (k k' : String) (v : α) (h : k' ≠ k) :
    sget (sput m k v) k' = sget m k' := by
  have : ¬ k = k' := fun e => h e.symm
  simp [sput, sget, this, sget_sdel_ne m k k' h]

theorem sget_sput {α : Type} (m : List (String × α)) (k k' : String) (v : α) :
    sget (sput m k v) k' = if k' = k then some v else sget m k' := by
  by_cases h : k' = k
  · subst h; simp [sget_sput_eq]
  · simp [h, sget_sput_ne m k k' v h]

theorem sget_sdel {α : Type} (m : List (String × α)) (k k' : String) :
    sget (sdel m k) k' = if k' = k then none else sget m k' := by
  by_cases h : k' = k
  · subst h; simp [sget_sdel_eq]
  · simp [h, sget_sdel_ne m k k' h]

/-! ### keyring -/

theorem termKey_cons (keys : List (Nat × KeyId)) (t t' : Nat) (kid : KeyId) :
    termKey ((t', kid) :: keys) t = if t' = t then some kid else termKey keys t := rfl

/-! ### AAD -/

theorem aadFor_two (p : String) : aadFor 2 p = if p = "" then none else some p := by simp [aadFor]

theorem aadFor_one (p : String) : aadFor 1 p = none := by simp [aadFor]

theorem aadFor_eq_some {v : Nat} {p q : String} (h : aadFor v p = some q) : v = 2 ∧ p = q ∧ p ≠ "" := by
  unfold aadFor at h
  by_cases hv : v = 2
  · by_cases hp : p = ""
    · simp [hv, hp] at h
    · simp [hv, hp] at h; exact ⟨hv, h, hp⟩
  · simp [hv] at h

theorem aadFor_eq_none {v : Nat} {p : String} (h : aadFor v p = none) : v ≠ 2 ∨ p = "" := by
  unfold aadFor at h
  by_cases hv : v = 2
  · by_cases hp : p = ""
    · exact Or.inr hp
    · simp [hv, hp] at h
  · exact Or.inl hv

/-- version-2 AAD is injective in the path (the empty path maps to "no AAD", every other path to itself) -/
theorem aadFor_two_inj {p q : String} (h : aadFor 2 p = aadFor 2 q) : p = q := by
  rw [aadFor_two, aadFor_two] at h
  by_cases hp : p = "" <;> by_cases hq : q = "" <;> simp [hp, hq] at h
  · rw [hp, hq]
  · exact h

/-! ### reads -/

theorem getPV_raw_err (keys : List (Nat × KeyId)) (k : String) (h : List Nat) (l : Nat) :
    ∃ e, getPV keys k (.Raw h l) = .err e := by
  simp only [getPV]
  repeat' split
  all_goals exact ⟨_, rfl⟩

/-- a read of a record returns a value exactly when the header's term has a key, the version byte is 1 or 2, and the
body was sealed under that key with the AAD the version prescribes for the REQUESTED path -/
theorem getPV_rec_ok {keys : List (Nat × KeyId)} {k : String} {t v : Nat} {b : Sealed} {p : Plain}
    (h : getPV keys k (.Rec t v b) = .ok p) :
    termKey keys t = some b.key ∧ p = b.plain ∧ ((v = 1 ∧ b.aad = none) ∨ (v = 2 ∧ b.aad = aadFor 2 k)) := by
  simp only [getPV] at h
  split at h
  · cases h
  · rename_i kid hk
    by_cases h1 : v = 1
    · simp only [h1, if_true] at h
      unfold openSealed at h
      by_cases hc : b.key = kid ∧ b.aad = none
      · simp only [hc, and_self, if_true] at h
        cases h
        exact ⟨by rw [hk, hc.1], rfl, Or.inl ⟨h1, hc.2⟩⟩
      · simp only [hc, if_false] at h; cases h
    · by_cases h2 : v = 2
      · simp only [h2, if_true] at h
        unfold openSealed at h
        by_cases hc : b.key = kid ∧ b.aad = aadFor 2 k
        · simp only [hc, and_self, if_true] at h
          cases h
          exact ⟨by rw [hk, hc.1], rfl, Or.inr ⟨h2, hc.2⟩⟩
        · simp only [hc, if_false] at h; cases h
      · simp only [h1, h2, if_false] at h; cases h

theorem getPV_rec_ok_of {keys : List (Nat × KeyId)} {k : String} {t v : Nat} {b : Sealed}
    (hk : termKey keys t = some b.key) (hv : (v = 1 ∧ b.aad = none) ∨ (v = 2 ∧ b.aad = aadFor 2 k)) :
    getPV keys k (.Rec t v b) = .ok b.plain := by
  simp only [getPV, hk]
  rcases hv with ⟨h1, ha⟩ | ⟨h2, ha⟩
  · simp [h1, openSealed, ha]
  · simp [h2, openSealed, ha]

theorem getPV_not_none (keys : List (Nat × KeyId)) (k : String) (pv : PVal) : getPV keys k pv ≠ .none := by
  cases pv with
  | Raw h l => obtain ⟨e, he⟩ := getPV_raw_err keys k h l; rw [he]; intro h; cases h
  | Rec t v b =>
    simp only [getPV]
    repeat' split
    all_goals (intro h; cases h)

/-- a read either errors or returns a value: an error unless the `ok` conditions hold -/
theorem getPV_rec_err_of_not {keys : List (Nat × KeyId)} {k : String} {t v : Nat} {b : Sealed}
    (h : ¬ (termKey keys t = some b.key ∧ ((v = 1 ∧ b.aad = none) ∨ (v = 2 ∧ b.aad = aadFor 2 k)))) :
    ∃ e, getPV keys k (.Rec t v b) = .err e := by
  cases hg : getPV keys k (.Rec t v b) with
  | none => exact absurd hg (getPV_not_none _ _ _)
  | ok p => have := getPV_rec_ok hg; exact absurd ⟨this.1, this.2.2⟩ h
  | err e => exact ⟨e, rfl⟩

/-! ### the invariant of reachable states -/

/-- how a written record came to be: the keyring record (sealed under the root key, fixed term 1) or a record
sealed under the key of the term in its header; the AAD is the one its version prescribes for its storage key -/
def WOrigin (keys : List (Nat × KeyId)) (w : WRec) : Prop :=
  (w.ver = 1 ∨ w.ver = 2) ∧ w.body.aad = aadFor w.ver w.key ∧
  ((w.body.key = rootKeyId ∧ w.term = 1 ∧ w.key = keyringPath) ∨ termKey keys w.term = some w.body.key)

/-- the sealed body of a physical value, if it has one -/
def PVal.body? : PVal → Option Sealed
  | .Rec _ _ b => some b
  | .Raw _ _ => none

structure Inv (s : St) : Prop where
  keysInj : ∀ t1 t2 kid, termKey s.keys t1 = some kid → termKey s.keys t2 = some kid → t1 = t2
  keysBound : ∀ t kid, termKey s.keys t = some kid → t ≤ s.active ∧ 1 ≤ kid ∧ kid < s.nextKey
  activeKey : ∃ kid, termKey s.keys s.active = some kid
  nextKeyPos : 1 ≤ s.nextKey
  storeSeen : ∀ k pv b, sget s.store k = some pv → pv.body? = some b → ∃ w ∈ s.written, w.body = b
  origin : ∀ w ∈ s.written, WOrigin s.keys w
  nonceLt : ∀ w ∈ s.written, w.body.nonce < s.nextNonce
  nonceInj : ∀ w1 ∈ s.written, ∀ w2 ∈ s.written, w1.body.nonce = w2.body.nonce → w1 = w2

theorem termKey_init (t : Nat) : termKey init.keys t = if 1 = t then some 1 else none := by
  simp [init, termKey]

theorem inv_init : Inv init := by
  refine ⟨?_, ?_, ?_, by simp [init], ?_, ?_, ?_, ?_⟩
  · intro t1 t2 kid h1 h2
    rw [termKey_init] at h1 h2
    split at h1 <;> split at h2 <;> first | omega | (cases h1; done) | (cases h2; done)
  · intro t kid h
    rw [termKey_init] at h
    split at h
    · cases h
      refine ⟨?_, ?_, ?_⟩ <;> (try simp [init]) <;> omega
    · cases h
  · exact ⟨1, by rw [termKey_init]; simp [init]⟩
  · intro k pv b h hb
    simp only [init, sget] at h
    by_cases a : rootKeyPath = k
    · simp only [a, if_true, Option.some.injEq] at h
      subst h
      exact ⟨initRootKeyRec, by simp [init], by simpa [WRec.pval, PVal.body?] using hb⟩
    · by_cases c : keyringPath = k
      · simp only [a, c, if_true, if_false, Option.some.injEq] at h
        subst h
        exact ⟨initKeyringRec, by simp [init], by simpa [WRec.pval, PVal.body?] using hb⟩
      · simp [a, c] at h
  · intro w hw
    simp only [init, List.mem_cons, List.mem_nil_iff, or_false] at hw
    rcases hw with rfl | rfl
    · refine ⟨Or.inr rfl, ?_, Or.inr ?_⟩
      · simp [initRootKeyRec, aadFor, rootKeyPath]
      · rw [termKey_init]; simp [initRootKeyRec]
    · refine ⟨Or.inr rfl, ?_, Or.inl ⟨rfl, rfl, rfl⟩⟩
      simp [initKeyringRec, aadFor, keyringPath]
  · intro w hw
    simp only [init, List.mem_cons, List.mem_nil_iff, or_false] at hw
    rcases hw with rfl | rfl <;> simp [initRootKeyRec, initKeyringRec, init]
  · intro w1 h1 w2 h2 hn
    simp only [init, List.mem_cons, List.mem_nil_iff, or_false] at h1 h2
    rcases h1 with rfl | rfl <;> rcases h2 with rfl | rfl <;> simp [initRootKeyRec, initKeyringRec] at hn ⊢

/-! ### preservation -/

/-- a state that differs only in the physical store (and version byte) keeps the invariant when the store's bodies
are still bodies the barrier produced -/
theorem inv_of_store {s s' : St} (hi : Inv s)
    (hk : s'.keys = s.keys) (ha : s'.active = s.active) (hnk : s'.nextKey = s.nextKey)
    (hnn : s'.nextNonce = s.nextNonce) (hw : s'.written = s.written)
    (hs : ∀ k pv b, sget s'.store k = some pv → pv.body? = some b → ∃ w ∈ s.written, w.body = b) : Inv s' := by
  refine ⟨?_, ?_, ?_, ?_, ?_, ?_, ?_, ?_⟩
  · rw [hk]; exact hi.keysInj
  · rw [hk, ha, hnk]; exact hi.keysBound
  · rw [hk, ha]; exact hi.activeKey
  · rw [hnk]; exact hi.nextKeyPos
  · rw [hw]; exact hs
  · rw [hw, hk]; exact hi.origin
  · rw [hw, hnn]; exact hi.nonceLt
  · rw [hw]; exact hi.nonceInj

theorem inv_advPut {s : St} (hi : Inv s) (k : String) (pv : PVal)
    (hpv : ∀ b, pv.body? = some b → ∃ w ∈ s.written, w.body = b) : Inv (advPut s k pv) := by
  apply inv_of_store (s' := advPut s k pv) hi rfl rfl rfl rfl rfl
  intro k' pv' b hg hb
  simp only [advPut, sget_sput] at hg
  split at hg
  · cases hg; exact hpv b hb
  · exact hi.storeSeen k' pv' b hg hb

theorem inv_sdel {s : St} (hi : Inv s) (k : String) : Inv { s with store := sdel s.store k } := by
  apply inv_of_store (s' := { s with store := sdel s.store k }) hi rfl rfl rfl rfl rfl
  intro k' pv' b hg hb
  simp only [sget_sdel] at hg
  split at hg
  · cases hg
  · exact hi.storeSeen k' pv' b hg hb

theorem withHdr_body (pv : PVal) (h : Hdr) : (pv.withHdr h).body? = pv.body? := by
  cases pv <;> rfl

theorem tamperFlip_body {pv pv' : PVal} {pos mask : Nat} (h : tamperFlip pv pos mask = some pv') :
    pv'.body? = none ∨ pv'.body? = pv.body? := by
  unfold tamperFlip at h
  split at h
  · cases h
  · cases pv with
    | Rec t v b =>
      simp only at h
      split at h
      · cases h; exact Or.inr rfl
      · split at h
        · split at h
          · cases h; exact Or.inl rfl
          · cases h
        · cases h
    | Raw hd l =>
      simp only at h
      split at h
      · cases h; exact Or.inl rfl
      · cases h

theorem tamperTrunc_body {pv pv' : PVal} {n : Nat} (h : tamperTrunc pv n = some pv') : pv'.body? = none := by
  unfold tamperTrunc at h
  cases pv with
  | Rec t v b =>
    simp only at h
    split at h
    · split at h
      · cases h; rfl
      · cases h
    · split at h
      · cases h; rfl
      · cases h
  | Raw hd l => cases h

theorem tamperExtend_body {pv pv' : PVal} {n : Nat} (h : tamperExtend pv n = some pv') : pv'.body? = none := by
  unfold tamperExtend at h
  cases pv with
  | Rec t v b =>
    simp only at h
    split at h
    · split at h
      · cases h; rfl
      · cases h
    · cases h
  | Raw hd l => cases h

theorem findBody_mem {s : St} {n : Nat} {b : Sealed} (h : findBody s n = some b) : ∃ w ∈ s.written, w.body = b := by
  have := List.mem_of_find?_eq_some h
  simp only [bodies, List.mem_map] at this
  exact this

theorem termKey_new {keys : List (Nat × KeyId)} {nt nk t : Nat} (h : t ≠ nt) :
    termKey ((nt, nk) :: keys) t = termKey keys t := by
  rw [termKey_cons]
  have : ¬ nt = t := fun e => h e.symm
  simp [this]

theorem inv_put {s : St} (hi : Inv s) (k : String) (v : Bytes) : Inv (step s (.put k v)).1 := by
  simp only [step]
  split
  · exact hi
  · rename_i kid hkid
    split
    · rename_i hver
      have hv : s.ver = 1 ∨ s.ver = 2 := by
        simp only [verOk, Bool.or_eq_true, beq_iff_eq] at hver; exact hver
      refine ⟨hi.keysInj, hi.keysBound, hi.activeKey, hi.nextKeyPos, ?_, ?_, ?_, ?_⟩
      · intro k' pv b hg hb
        simp only [sget_sput] at hg
        split at hg
        · cases hg
          refine ⟨_, List.mem_cons_self, ?_⟩
          simpa [WRec.pval, PVal.body?] using hb
        · obtain ⟨w, hw, hwb⟩ := hi.storeSeen k' pv b hg hb
          exact ⟨w, List.mem_cons_of_mem _ hw, hwb⟩
      · intro w hw
        rcases List.mem_cons.mp hw with rfl | hw
        · exact ⟨hv, rfl, Or.inr hkid⟩
        · exact hi.origin w hw
      · intro w hw
        rcases List.mem_cons.mp hw with rfl | hw
        · simp [sealFor]
        · have := hi.nonceLt w hw; simp only; omega
      · intro w1 h1 w2 h2 hn
        rcases List.mem_cons.mp h1 with rfl | h1 <;> rcases List.mem_cons.mp h2 with rfl | h2
        · rfl
        · have := hi.nonceLt w2 h2; simp only [sealFor] at hn; omega
        · have := hi.nonceLt w1 h1; simp only [sealFor] at hn; omega
        · exact hi.nonceInj w1 h1 w2 h2 hn
    · exact hi

theorem inv_rotate {s : St} (hi : Inv s) : Inv (step s .rotate).1 := by
  simp only [step]
  split
  · rename_i hver
    have hv : s.ver = 1 ∨ s.ver = 2 := by
      simp only [verOk, Bool.or_eq_true, beq_iff_eq] at hver; exact hver
    have hold : ∀ t kid, termKey s.keys t = some kid → t ≠ s.active + 1 := by
      intro t kid h; have := (hi.keysBound t kid h).1; omega
    refine ⟨?_, ?_, ?_, ?_, ?_, ?_, ?_, ?_⟩
    · intro t1 t2 kid h1 h2
      simp only [termKey_cons] at h1 h2
      split at h1 <;> split at h2
      · omega
      · cases h1; have := (hi.keysBound t2 _ h2).2.2; omega
      · cases h2; have := (hi.keysBound t1 _ h1).2.2; omega
      · exact hi.keysInj t1 t2 kid h1 h2
    · intro t kid h
      simp only [termKey_cons] at h
      split at h
      · cases h; have := hi.nextKeyPos; simp only; omega
      · have := hi.keysBound t kid h; simp only; omega
    · exact ⟨s.nextKey, by simp [termKey_cons]⟩
    · have := hi.nextKeyPos; simp only; omega
    · intro k' pv b hg hb
      simp only [sget_sdel, sget_sput] at hg
      split at hg
      · cases hg
      · split at hg
        · cases hg
          refine ⟨_, List.mem_cons_self, ?_⟩
          simpa [WRec.pval, PVal.body?] using hb
        · split at hg
          · cases hg
            refine ⟨_, List.mem_cons_of_mem _ List.mem_cons_self, ?_⟩
            simpa [WRec.pval, PVal.body?] using hb
          · obtain ⟨w, hw, hwb⟩ := hi.storeSeen k' pv b hg hb
            exact ⟨w, List.mem_cons_of_mem _ (List.mem_cons_of_mem _ hw), hwb⟩
    · intro w hw
      rcases List.mem_cons.mp hw with rfl | hw
      · exact ⟨hv, rfl, Or.inr (by simp [sealFor, termKey_cons])⟩
      · rcases List.mem_cons.mp hw with rfl | hw
        · exact ⟨hv, rfl, Or.inl ⟨rfl, rfl, rfl⟩⟩
        · obtain ⟨h1, h2, h3⟩ := hi.origin w hw
          refine ⟨h1, h2, ?_⟩
          rcases h3 with h3 | h3
          · exact Or.inl h3
          · exact Or.inr (by rw [termKey_new (hold _ _ h3)]; exact h3)
    · intro w hw
      rcases List.mem_cons.mp hw with rfl | hw
      · simp [sealFor]
      · rcases List.mem_cons.mp hw with rfl | hw
        · simp [sealFor]
        · have := hi.nonceLt w hw; simp only; omega
    · intro w1 h1 w2 h2 hn
      rcases List.mem_cons.mp h1 with rfl | h1 <;> rcases List.mem_cons.mp h2 with rfl | h2
      · rfl
      · rcases List.mem_cons.mp h2 with rfl | h2
        · simp [sealFor] at hn
        · have := hi.nonceLt w2 h2; simp only [sealFor] at hn; omega
      · rcases List.mem_cons.mp h1 with rfl | h1
        · simp [sealFor] at hn
        · have := hi.nonceLt w1 h1; simp only [sealFor] at hn; omega
      · rcases List.mem_cons.mp h1 with rfl | h1 <;> rcases List.mem_cons.mp h2 with rfl | h2
        · rfl
        · have := hi.nonceLt w2 h2; simp only [sealFor] at hn; omega
        · have := hi.nonceLt w1 h1; simp only [sealFor] at hn; omega
        · exact hi.nonceInj w1 h1 w2 h2 hn
  · exact hi

theorem inv_step {s : St} (hi : Inv s) (o : Op) : Inv (step s o).1 := by
  cases o with
  | put k v => exact inv_put hi k v
  | get k => simp only [step]; split <;> exact hi
  | dec k => simp only [step]; split <;> exact hi
  | delete k => exact inv_sdel hi k
  | rotate => exact inv_rotate hi
  | setver v =>
    simp only [step]
    split
    · exact inv_of_store (s' := { s with ver := _ }) hi rfl rfl rfl rfl rfl hi.storeSeen
    · exact hi
  | advRaw k hd l =>
    simp only [step]
    split
    · exact inv_advPut hi k _ (fun b hb => by cases hb)
    · exact hi
  | advRec k t v n =>
    simp only [step]
    split
    · exact hi
    · rename_i b hb
      split
      · apply inv_advPut hi
        intro b' hb'
        simp only [PVal.body?, Option.some.injEq] at hb'
        subst hb'
        exact findBody_mem hb
      · exact hi
  | advDel k => exact inv_sdel hi k
  | flip k pos mask =>
    simp only [step]
    split
    · exact hi
    · rename_i pv hpv
      split
      · rename_i pv' ht
        apply inv_advPut hi
        intro b hb
        rcases tamperFlip_body ht with h | h
        · rw [h] at hb; cases hb
        · rw [h] at hb; exact hi.storeSeen k pv b hpv hb
      · exact hi
  | trunc k n =>
    simp only [step]
    split
    · exact hi
    · split
      · rename_i pv' ht
        apply inv_advPut hi
        intro b hb; rw [tamperTrunc_body ht] at hb; cases hb
      · exact hi
  | extend k n =>
    simp only [step]
    split
    · exact hi
    · split
      · rename_i pv' ht
        apply inv_advPut hi
        intro b hb; rw [tamperExtend_body ht] at hb; cases hb
      · exact hi
  | transplant src dst =>
    simp only [step]
    split
    · exact hi
    · rename_i pv hpv
      exact inv_advPut hi dst pv (fun b hb => hi.storeSeen src pv b hpv hb)
  | hswap k1 k2 =>
    simp only [step]
    split
    · rename_i p1 p2 hp1 hp2
      split
      · split
        · exact hi
        · apply inv_advPut
          · apply inv_advPut hi
            intro b hb; rw [withHdr_body] at hb; exact hi.storeSeen k1 p1 b hp1 hb
          · intro b hb; rw [withHdr_body] at hb; exact hi.storeSeen k2 p2 b hp2 hb
      · exact hi
    · exact hi
  | replay k i =>
    simp only [step]
    split
    · exact hi
    · rename_i w hw
      apply inv_advPut hi
      intro b hb
      refine ⟨w, ?_, by simpa [WRec.pval, PVal.body?] using hb⟩
      have := List.mem_of_getElem? hw
      simpa using this

/-- the state after an arbitrary history (barrier operations and adversary steps interleaved at will) -/
abbrev after (ops : List Op) : St := run ops init

theorem inv_run (ops : List Op) {s : St} (hi : Inv s) : Inv (run ops s) := by
  induction ops generalizing s with
  | nil => exact hi
  | cons o rest ih => exact ih (inv_step hi o)

/-! ### provenance of written records -/

def Op.isBarrier : Op → Bool
  | .put _ _ | .get _ | .dec _ | .delete _ | .rotate | .setver _ => true
  | _ => false

/-- adversary steps touch nothing but the physical store -/
theorem step_adv_frame (s : St) {o : Op} (ho : o.isBarrier = false) :
    (step s o).1.written = s.written ∧ (step s o).1.ver = s.ver ∧ (step s o).1.keys = s.keys := by
  cases o with
  | put k v => cases ho
  | get k => cases ho
  | dec k => cases ho
  | delete k => cases ho
  | rotate => cases ho
  | setver v => cases ho
  | advDel k => exact ⟨rfl, rfl, rfl⟩
  | advRaw k hd l => simp only [step]; split <;> exact ⟨rfl, rfl, rfl⟩
  | advRec k t v n => simp only [step]; split <;> (try split) <;> exact ⟨rfl, rfl, rfl⟩
  | flip k pos mask => simp only [step]; split <;> (try split) <;> exact ⟨rfl, rfl, rfl⟩
  | trunc k n => simp only [step]; split <;> (try split) <;> exact ⟨rfl, rfl, rfl⟩
  | extend k n => simp only [step]; split <;> (try split) <;> exact ⟨rfl, rfl, rfl⟩
  | transplant a b => simp only [step]; split <;> exact ⟨rfl, rfl, rfl⟩
  | hswap a b => simp only [step]; split <;> (try split) <;> (try split) <;> exact ⟨rfl, rfl, rfl⟩
  | replay k i => simp only [step]; split <;> exact ⟨rfl, rfl, rfl⟩

theorem written_step {s : St} {o : Op} {w : WRec} (h : w ∈ (step s o).1.written) :
    w ∈ s.written ∨ (∃ v, o = .put w.key v ∧ w.body.plain = .user v) ∨
      (o = .rotate ∧ ∀ v, w.body.plain ≠ .user v) := by
  cases o with
  | put k v =>
    simp only [step] at h
    split at h
    · exact Or.inl h
    · split at h
      · rcases List.mem_cons.mp h with rfl | h
        · exact Or.inr (Or.inl ⟨v, rfl, rfl⟩)
        · exact Or.inl h
      · exact Or.inl h
  | rotate =>
    simp only [step] at h
    split at h
    · rcases List.mem_cons.mp h with rfl | h
      · exact Or.inr (Or.inr ⟨rfl, fun v hv => by simp [sealFor] at hv⟩)
      · rcases List.mem_cons.mp h with rfl | h
        · exact Or.inr (Or.inr ⟨rfl, fun v hv => by simp [sealFor] at hv⟩)
        · exact Or.inl h
    · exact Or.inl h
  | get k => simp only [step] at h; split at h <;> exact Or.inl h
  | dec k => simp only [step] at h; split at h <;> exact Or.inl h
  | delete k => exact Or.inl h
  | setver v => simp only [step] at h; split at h <;> exact Or.inl h
  | advRaw k hd l => rw [(step_adv_frame s rfl).1] at h; exact Or.inl h
  | advRec k t v n => rw [(step_adv_frame s rfl).1] at h; exact Or.inl h
  | advDel k => exact Or.inl h
  | flip k pos mask => rw [(step_adv_frame s rfl).1] at h; exact Or.inl h
  | trunc k n => rw [(step_adv_frame s rfl).1] at h; exact Or.inl h
  | extend k n => rw [(step_adv_frame s rfl).1] at h; exact Or.inl h
  | transplant a b => rw [(step_adv_frame s rfl).1] at h; exact Or.inl h
  | hswap a b => rw [(step_adv_frame s rfl).1] at h; exact Or.inl h
  | replay k i => rw [(step_adv_frame s rfl).1] at h; exact Or.inl h

theorem written_run (ops : List Op) {s : St} {w : WRec} (h : w ∈ (run ops s).written) :
    w ∈ s.written ∨ (∃ v, Op.put w.key v ∈ ops ∧ w.body.plain = .user v) ∨
      (Op.rotate ∈ ops ∧ ∀ v, w.body.plain ≠ .user v) := by
  induction ops generalizing s with
  | nil => exact Or.inl h
  | cons o rest ih =>
    have h' : w ∈ (run rest (step s o).1).written := h
    rcases ih h' with h1 | ⟨v, hv, hp⟩ | ⟨hr, hp⟩
    · rcases written_step h1 with h2 | ⟨v, rfl, hp⟩ | ⟨rfl, hp⟩
      · exact Or.inl h2
      · exact Or.inr (Or.inl ⟨v, List.mem_cons_self, hp⟩)
      · exact Or.inr (Or.inr ⟨List.mem_cons_self, hp⟩)
    · exact Or.inr (Or.inl ⟨v, List.mem_cons_of_mem _ hv, hp⟩)
    · exact Or.inr (Or.inr ⟨List.mem_cons_of_mem _ hr, hp⟩)

theorem init_written_not_user {w : WRec} (h : w ∈ init.written) : ∀ v, w.body.plain ≠ .user v := by
  simp only [init, List.mem_cons, List.mem_nil_iff, or_false] at h
  rcases h with rfl | rfl <;> (intro v hv; simp [initRootKeyRec, initKeyringRec] at hv)

/-! ### the version byte without `setver` -/

theorem ver_step {s : St} {o : Op} (ho : ∀ n, o ≠ .setver n) (hv : s.ver = 2) (hw : ∀ w ∈ s.written, w.ver = 2) :
    (step s o).1.ver = 2 ∧ ∀ w ∈ (step s o).1.written, w.ver = 2 := by
  cases o with
  | setver n => exact absurd rfl (ho n)
  | put k v =>
    simp only [step]
    split
    · exact ⟨hv, hw⟩
    · split
      · refine ⟨hv, fun w h => ?_⟩
        rcases List.mem_cons.mp h with rfl | h
        · exact hv
        · exact hw w h
      · exact ⟨hv, hw⟩
  | rotate =>
    simp only [step]
    split
    · refine ⟨hv, fun w h => ?_⟩
      rcases List.mem_cons.mp h with rfl | h
      · exact hv
      · rcases List.mem_cons.mp h with rfl | h
        · exact hv
        · exact hw w h
    · exact ⟨hv, hw⟩
  | get k => simp only [step]; split <;> exact ⟨hv, hw⟩
  | dec k => simp only [step]; split <;> exact ⟨hv, hw⟩
  | delete k => exact ⟨hv, hw⟩
  | advRaw k hd l => rw [(step_adv_frame s rfl).1, (step_adv_frame s rfl).2.1]; exact ⟨hv, hw⟩
  | advRec k t v n => rw [(step_adv_frame s rfl).1, (step_adv_frame s rfl).2.1]; exact ⟨hv, hw⟩
  | advDel k => exact ⟨hv, hw⟩
  | flip k pos mask => rw [(step_adv_frame s rfl).1, (step_adv_frame s rfl).2.1]; exact ⟨hv, hw⟩
  | trunc k n => rw [(step_adv_frame s rfl).1, (step_adv_frame s rfl).2.1]; exact ⟨hv, hw⟩
  | extend k n => rw [(step_adv_frame s rfl).1, (step_adv_frame s rfl).2.1]; exact ⟨hv, hw⟩
  | transplant a b => rw [(step_adv_frame s rfl).1, (step_adv_frame s rfl).2.1]; exact ⟨hv, hw⟩
  | hswap a b => rw [(step_adv_frame s rfl).1, (step_adv_frame s rfl).2.1]; exact ⟨hv, hw⟩
  | replay k i => rw [(step_adv_frame s rfl).1, (step_adv_frame s rfl).2.1]; exact ⟨hv, hw⟩

theorem ver_run (ops : List Op) {s : St} (ho : ∀ n, Op.setver n ∉ ops) (hv : s.ver = 2)
    (hw : ∀ w ∈ s.written, w.ver = 2) : (run ops s).ver = 2 ∧ ∀ w ∈ (run ops s).written, w.ver = 2 := by
  induction ops generalizing s with
  | nil => exact ⟨hv, hw⟩
  | cons o rest ih =>
    have h1 := ver_step (s := s) (o := o) (fun n e => ho n (by rw [e]; exact List.mem_cons_self)) hv hw
    exact ih (fun n hn => ho n (List.mem_cons_of_mem _ hn)) h1.1 h1.2

/-! ### refinement to a plain map when no adversary acts -/

/-- the paths the barrier itself writes on rotation -/
def metaPath (k : String) : Prop := k = keyringPath ∨ k = rootKeyPath ∨ k = legacyRootKeyPath

/-- the specification: a map from storage key to the last value put (plus the version byte, since `encrypt`
panics — writes nothing — on an unknown version) -/
structure Spec where
  ver : Nat
  m : List (String × Bytes)

def specStep (σ : Spec) : Op → Spec
  | .put k v => if verOk σ.ver then { σ with m := sput σ.m k v } else σ
  | .delete k => { σ with m := sdel σ.m k }
  | .setver v => if v < 256 then { σ with ver := v } else σ
  | _ => σ

def specRun (ops : List Op) (σ : Spec) : Spec := ops.foldl specStep σ

def specInit : Spec := { ver := 2, m := [] }

def Sim (s : St) (σ : Spec) : Prop :=
  s.ver = σ.ver ∧ ∀ k, ¬ metaPath k →
    (sget s.store k = none ∧ sget σ.m k = none) ∨
    (∃ w ∈ s.written, sget s.store k = some w.pval ∧ w.key = k ∧
       termKey s.keys w.term = some w.body.key ∧ ∃ x, w.body.plain = .user x ∧ sget σ.m k = some x)

theorem sim_init : Sim init specInit := by
  refine ⟨rfl, fun k hk => Or.inl ⟨?_, rfl⟩⟩
  simp only [metaPath, not_or] at hk
  have h1 : ¬ rootKeyPath = k := fun e => hk.2.1 e.symm
  have h2 : ¬ keyringPath = k := fun e => hk.1 e.symm
  simp [init, sget, h1, h2]

theorem sim_step {s : St} {σ : Spec} (hi : Inv s) (hs : Sim s σ) (o : Op) (ho : o.isBarrier = true) :
    Sim (step s o).1 (specStep σ o) := by
  obtain ⟨hver, hm⟩ := hs
  cases o with
  | put k v =>
    obtain ⟨kid, hkid⟩ := hi.activeKey
    simp only [step, specStep, hkid, ← hver]
    split
    · refine ⟨rfl, fun k' hk' => ?_⟩
      by_cases e : k' = k
      · subst e
        refine Or.inr ⟨_, List.mem_cons_self, ?_, rfl, hkid, v, rfl, ?_⟩
        · simp [sget_sput_eq]
        · simp [sget_sput_eq]
      · rcases hm k' hk' with ⟨h1, h2⟩ | ⟨w, hw, h1, h2, h3, x, h4, h5⟩
        · exact Or.inl ⟨by simp [sget_sput_ne _ _ _ _ e, h1], by simp [sget_sput_ne _ _ _ _ e, h2]⟩
        · exact Or.inr ⟨w, List.mem_cons_of_mem _ hw, by simp [sget_sput_ne _ _ _ _ e, h1], h2, h3, x, h4,
            by simp [sget_sput_ne _ _ _ _ e, h5]⟩
    · exact ⟨hver, hm⟩
  | get k => simp only [step, specStep]; split <;> exact ⟨hver, hm⟩
  | dec k => simp only [step, specStep]; split <;> exact ⟨hver, hm⟩
  | delete k =>
    simp only [step, specStep]
    refine ⟨hver, fun k' hk' => ?_⟩
    by_cases e : k' = k
    · subst e; exact Or.inl ⟨sget_sdel_eq _ _, sget_sdel_eq _ _⟩
    · rcases hm k' hk' with ⟨h1, h2⟩ | ⟨w, hw, h1, h2, h3, x, h4, h5⟩
      · exact Or.inl ⟨by simp [sget_sdel_ne _ _ _ e, h1], by simp [sget_sdel_ne _ _ _ e, h2]⟩
      · exact Or.inr ⟨w, hw, by simp [sget_sdel_ne _ _ _ e, h1], h2, h3, x, h4, by simp [sget_sdel_ne _ _ _ e, h5]⟩
  | rotate =>
    simp only [step, specStep]
    split
    · refine ⟨hver, fun k' hk' => ?_⟩
      have hk := hk'
      simp only [metaPath, not_or] at hk
      have hst : sget (sdel (sput (sput s.store keyringPath
            (sealFor s 1 rootKeyId keyringPath s.nextNonce (.keyring (((s.active + 1, s.nextKey) :: s.keys).map (·.1)))).pval)
            rootKeyPath (sealFor s (s.active + 1) s.nextKey rootKeyPath (s.nextNonce + 1) .rootkey).pval)
            legacyRootKeyPath) k' = sget s.store k' := by
        simp [sget_sdel, sget_sput, hk.1, hk.2.1, hk.2.2]
      rw [hst]
      rcases hm k' hk' with ⟨h1, h2⟩ | ⟨w, hw, h1, h2, h3, x, h4, h5⟩
      · exact Or.inl ⟨h1, h2⟩
      · refine Or.inr ⟨w, List.mem_cons_of_mem _ (List.mem_cons_of_mem _ hw), h1, h2, ?_, x, h4, h5⟩
        have := (hi.keysBound _ _ h3).1
        rw [termKey_new (by omega)]; exact h3
    · exact ⟨hver, hm⟩
  | setver v =>
    simp only [step, specStep]
    split
    · exact ⟨rfl, hm⟩
    · exact ⟨hver, hm⟩
  | advRaw k hd l => cases ho
  | advRec k t v n => cases ho
  | advDel k => cases ho
  | flip k pos mask => cases ho
  | trunc k n => cases ho
  | extend k n => cases ho
  | transplant a b => cases ho
  | hswap a b => cases ho
  | replay k i => cases ho

theorem sim_run (ops : List Op) {s : St} {σ : Spec} (hi : Inv s) (hs : Sim s σ)
    (ho : ∀ o ∈ ops, o.isBarrier = true) : Sim (run ops s) (specRun ops σ) := by
  induction ops generalizing s σ with
  | nil => exact hs
  | cons o rest ih =>
    exact ih (inv_step hi o) (sim_step hi hs o (ho o List.mem_cons_self))
      (fun o' h' => ho o' (List.mem_cons_of_mem _ h'))

end Obao.Barrier
