import Obao.Model.UseCount
/-! Invariant of the use-count model and its preservation by every micro-step (helper lemmas for C19 / C18). -/
namespace Obao.UseCount

/-! ### counting lemmas -/

theorem passedCount_set (l : List Pc) (t : Nat) (old new : Pc) (h : l[t]? = some old) :
    passedCount (l.set t new) + counted old = passedCount l + counted new := by
  induction l generalizing t with
  | nil => simp at h
  | cons x xs ih =>
    cases t with
    | zero =>
      simp at h; subst h
      simp [List.set, passedCount]; omega
    | succ k =>
      simp at h
      have := ih k h
      simp [List.set, passedCount]; omega

theorem counted_le_passedCount (l : List Pc) (t : Nat) (pc : Pc) (h : l[t]? = some pc) :
    counted pc ≤ passedCount l := by
  induction l generalizing t with
  | nil => simp at h
  | cons x xs ih =>
    cases t with
    | zero => simp at h; subst h; simp [passedCount]
    | succ k =>
      simp at h
      have := ih k h
      simp [passedCount]; omega

theorem counted_le_one (pc : Pc) : counted pc ≤ 1 := by
  unfold counted; split <;> omega

theorem obtained_le_one (pc : Pc) : obtained pc ≤ 1 := by
  unfold obtained; split <;> omega

/-! ### facts about the scripts (finite case analysis) -/

theorem uses_defer (k : Kind) (h : (scriptOf k).uses = true) : (scriptOf k).defer ≠ .none := by
  cases k <;> simp [scriptOf] at h ⊢

theorem sync_uses (k : Kind) (h : (scriptOf k).defer = .sync) : (scriptOf k).uses = true := by
  cases k <;> simp [scriptOf] at h ⊢

theorem nouse_body (k : Kind) (h : (scriptOf k).uses = false) (b : Body) (hb : b ∈ (scriptOf k).body) :
    b = .getInfo := by
  cases k <;> simp [scriptOf] at h hb ⊢ <;> exact hb

/-- the result with which a `pre` instruction may end the request -/
def stopOf : Pre → Option Res
  | .look _ (.stop r) => some r
  | .taint (.stop r) => some r
  | _ => none

theorem pre_stop_refused (k : Kind) (p : Pre) (r : Res) (hp : p ∈ (scriptOf k).pre) (hs : stopOf p = some r) :
    refusedRes r = true := by
  cases k <;> simp [scriptOf, plainPre] at hp <;> rcases hp with rfl | hp <;>
    (try rcases hp with rfl | hp) <;> (try rcases hp with rfl | hp) <;> (try rcases hp with rfl | hp) <;>
    simp_all [stopOf, refusedRes] <;> subst_vars <;> rfl

theorem nouse_defer (k : Kind) (h : (scriptOf k).uses = false) : (scriptOf k).defer = .none := by
  cases k <;> simp [scriptOf] at h ⊢

theorem refused_not_obtained (r : Res) (h : refusedRes r = true) (u : Option Bool) : obtained (.done u r) = 0 := by
  cases r <;> simp [refusedRes] at h <;> rfl

/-! ### the invariant -/

/-- the `u` component of a pc that is past the `pre` phase -/
def pcU : Pc → Option (Option Bool)
  | .release o => some o
  | .body _ u _ => some u
  | .dq u _ => some u
  | .rlook u _ => some u
  | .rmark u _ => some u
  | .rP u _ => some u
  | .rI u _ => some u
  | .rL u _ => some u
  | .rE u _ => some u
  | .done u _ => some u
  | _ => none

/-- pcs of a request that consumed the final use -/
def isLast (pc : Pc) : Bool := pcU pc == some (some true)

def isSyncPc : Pc → Bool
  | .rlook _ _ => true
  | .rmark _ _ => true
  | .rP _ _ => true
  | .rI _ _ => true
  | .rL _ _ => true
  | .rE _ _ => true
  | _ => false

def isDeferPc : Pc → Bool
  | .dq _ _ => true
  | pc => isSyncPc pc

/-- at or past the use step -/
def pastPre (pc : Pc) : Bool :=
  match pc with
  | .acquire => true
  | .reread => true
  | .store _ => true
  | .release _ => true
  | _ => counted pc == 1

def obtRes (r : Res) : Bool := r == .payload || r == .rewrapped

/-- per-thread part of the invariant -/
structure Local (n : Nat) (sh : Shared) (u : Nat) (pc : Pc) (k : Kind) : Prop where
  /-- lock discipline -/
  holder : holds pc = true ↔ sh.lock = some u
  /-- the value re-read under the lock is still the stored value -/
  fresh : ∀ v, pc = .store v → v = sh.numUses ∧ 1 ≤ v
  /-- a finished last use has queued the revocation (first party) or deleted the entry (third party) -/
  lastq : ∀ r, pc = .done (some true) r → sh.queued = true ∨ sh.gone = true
  /-- the last use leaves the pending marker -/
  lastp : isLast pc = true → sh.numUses = pending
  /-- requests are only refused once the token is exhausted -/
  refused : refusedPc pc = true → sh.numUses = pending
  sync : isSyncPc pc = true → (scriptOf k).defer = .sync
  lazyC : ∀ u r, pc = .dq u r → (scriptOf k).defer = .lazy
  /-- deferred functions only run for requests that went through the use step -/
  defU : isDeferPc pc = true → pcU pc ≠ some none
  unused : ∀ i r, pc = .body i none r → (scriptOf k).uses = false ∧ refusedRes r = false
  used : pastPre pc = true → (scriptOf k).uses = true
  /-- the payload is only obtained past the use step -/
  got : obtained pc = 1 → counted pc = 1
  dI : ∀ u r, pc = .rI u r → sh.payload = false
  dE : ∀ u r, (pc = .rL u r ∨ pc = .rE u r) → sh.payload = false ∧ sh.info = false
  /-- a finished third-party use has deleted the entry -/
  syncDone : ∀ l r, pc = .done (some l) r → (scriptOf k).defer = .sync → sh.gone = true
  /-- with a single use, every use is the last one -/
  one : n = 1 → pcU pc ≠ some (some false)

structure Inv (n : Nat) (s : St) : Prop where
  /-- accounting: remaining + granted = n, or pending and granted = n -/
  acct : (1 ≤ s.sh.numUses ∧ s.sh.numUses + passedCount s.pcs = n ∧ s.sh.queued = false ∧ s.sh.gone = false ∧
            s.sh.leaseGone = false) ∨
         (s.sh.numUses = pending ∧ passedCount s.pcs = n)
  chain : s.sh.swept = true → s.sh.queued = true
  sweptD : s.sh.swept = true → s.sh.payload = false ∧ s.sh.info = false
  goneD : s.sh.gone = true → s.sh.payload = false ∧ s.sh.info = false
  leases : (s.sh.swept = false → s.sh.revoked = 0 ∧ s.sh.late = 0) ∧
           (s.sh.swept = true → s.sh.revoked + s.sh.late = s.sh.issued)
  /-- third-party (synchronously revoking) kinds are only modelled for single-use tokens -/
  wf : n = 1 ∨ ∀ k ∈ s.kinds, (scriptOf k).defer ≠ .sync
  loc : ∀ (u : Nat) (pc : Pc) (k : Kind), s.pcs[u]? = some pc → s.kinds[u]? = some k → Local n s.sh u pc k

theorem passedCount_map_pre (kinds : List Kind) : passedCount (kinds.map fun _ => Pc.pre 0) = 0 := by
  induction kinds with
  | nil => rfl
  | cons k ks ih => simp [passedCount, counted, ih]

theorem init_inv (w : Bool) (n : Nat) (kinds : List Kind) (hn : 1 ≤ n)
    (hwf : n = 1 ∨ ∀ k ∈ kinds, (scriptOf k).defer ≠ .sync) : Inv n (initW w n kinds) := by
  refine ⟨?_, ?_, ?_, ?_, ?_, ?_, ?_⟩
  · left; simp [initW, passedCount_map_pre]; omega
  · simp [initW]
  · simp [initW]
  · simp [initW]
  · simp [initW]
  · simpa [initW] using hwf
  · intro u pc k h _
    simp [initW, List.getElem?_map] at h
    obtain ⟨_, _, rfl⟩ := h
    constructor <;> simp [holds, initW, isLast, refusedPc, isSyncPc, isDeferPc, pastPre, counted, obtained, pcU]

/-- hidden entry ⇒ the pending marker is stored (under the invariant) -/
theorem hidden_pending {n : Nat} {s : St} (inv : Inv n s) (h : s.sh.hidden = true) : s.sh.numUses = pending := by
  rcases inv.acct with a | a
  · exfalso
    simp [Shared.hidden, Shared.absent] at h
    rcases h with (h | h) | h
    · simp [a.2.2.2.1] at h
    · simp [a.2.2.2.2] at h
    · omega
  · exact a.1

theorem gone_pending {n : Nat} {s : St} (inv : Inv n s) (h : s.sh.gone = true) : s.sh.numUses = pending :=
  hidden_pending inv (by simp [Shared.hidden, Shared.absent, h])

theorem visible_pos {n : Nat} {s : St} (inv : Inv n s) (h : s.sh.hidden = false) : 1 ≤ s.sh.numUses := by
  rcases inv.acct with a | a
  · exact a.1
  · simp [Shared.hidden, a.1, pending] at h

theorem absent_hidden {sh : Shared} (h : sh.absent = true) : sh.hidden = true := by
  simp [Shared.hidden, h]

theorem numUses_ne_zero {n : Nat} {s : St} (inv : Inv n s) : s.sh.numUses ≠ 0 := by
  rcases inv.acct with a | a
  · omega
  · simp [a.1, pending]

/-- a `Local` fact survives changes of the shared state that keep lock and counter and only move the revocation
pipeline forward -/
theorem Local.mono {n : Nat} {sh sh' : Shared} {u : Nat} {pc : Pc} {k : Kind} (l : Local n sh u pc k)
    (h1 : sh'.lock = sh.lock) (h2 : sh'.numUses = sh.numUses)
    (h3 : sh.queued = true → sh'.queued = true) (h4 : sh.gone = true → sh'.gone = true)
    (h5 : sh.payload = false → sh'.payload = false) (h6 : sh.info = false → sh'.info = false) :
    Local n sh' u pc k where
  holder := by rw [h1]; exact l.holder
  fresh := by rw [h2]; exact l.fresh
  lastq := fun r h => (l.lastq r h).elim (fun q => Or.inl (h3 q)) (fun g => Or.inr (h4 g))
  lastp := by rw [h2]; exact l.lastp
  refused := by rw [h2]; exact l.refused
  sync := l.sync
  lazyC := l.lazyC
  defU := l.defU
  unused := l.unused
  used := l.used
  got := l.got
  dI := fun u r h => h5 (l.dI u r h)
  dE := fun u r h => ⟨h5 (l.dE u r h).1, h6 (l.dE u r h).2⟩
  syncDone := fun x r h hs => h4 (l.syncDone x r h hs)
  one := l.one

/-- generic re-establishment of the per-thread clauses after thread `t` moved to `new` -/
theorem loc_set {n : Nat} {sh sh' : Shared} {pcs : List Pc} {kinds : List Kind} {t : Nat} {new : Pc} {kt : Kind}
    (hlt : t < pcs.length) (hkt : kinds[t]? = some kt)
    (hall : ∀ (u : Nat) (pc : Pc) (k : Kind), pcs[u]? = some pc → kinds[u]? = some k → Local n sh u pc k)
    (hnew : Local n sh' t new kt)
    (hoth : ∀ (u : Nat) (pc : Pc) (k : Kind), u ≠ t → pcs[u]? = some pc → kinds[u]? = some k →
        Local n sh u pc k → Local n sh' u pc k) :
    ∀ (u : Nat) (pc : Pc) (k : Kind), (pcs.set t new)[u]? = some pc → kinds[u]? = some k → Local n sh' u pc k := by
  intro u pc k hu hk
  by_cases e : t = u
  · subst e
    simp [hlt] at hu
    subst hu
    rw [hkt] at hk; injection hk with hk; subst hk
    exact hnew
  · simp [e] at hu
    exact hoth u pc k (fun h => e h.symm) hu hk (hall u pc k hu hk)

theorem worker_inv {n : Nat} {s : St} {sh' : Shared} (inv : Inv n s) (h : workerStep s.sh = some sh') :
    Inv n { s with sh := sh' } := by
  unfold workerStep at h
  split at h
  · rename_i hc
    simp at hc
    simp at h; subst h
    refine ⟨?_, ?_, ?_, ?_, ?_, inv.wf, ?_⟩
    · simpa using inv.acct
    · simp [hc.1]
    · simp
    · simp
    · have := inv.leases.1 hc.2
      simp; omega
    · intro u pc k hu hk
      exact (inv.loc u pc k hu hk).mono rfl rfl (fun h => h) (fun h => h) (fun _ => rfl) (fun _ => rfl)
  · split at h
    · rename_i hc
      simp at hc
      simp at h; subst h
      have hq := inv.chain hc.1
      refine ⟨?_, ?_, ?_, ?_, ?_, inv.wf, ?_⟩
      · right
        rcases inv.acct with a | a
        · simp [a.2.2.1] at hq
        · exact a
      · simpa using inv.chain
      · simpa using inv.sweptD
      · simpa using inv.sweptD hc.1
      · simpa using inv.leases
      · intro u pc k hu hk
        exact (inv.loc u pc k hu hk).mono rfl rfl (fun h => h) (fun _ => rfl) (fun h => h) (fun h => h)
    · simp at h

/-! ### targets of the `pre` and `body` instructions -/

theorem pre_targets {locked : Bool} {sc : Script} {t i : Nat} {sh sh' : Shared} {pc' : Pc}
    (h : localStep locked sc t (.pre i) sh = some (pc', sh')) :
    sh' = sh ∧ (pc' = .pre (i + 1) ∨ (pc' = .acquire ∧ sc.uses = true) ∨
      (pc' = .body 0 none .ok ∧ (sc.uses = false ∨ sh.numUses = 0)) ∨
      (∃ r, pc' = .done none r ∧ sh.hidden = true ∧ ∃ p ∈ sc.pre, stopOf p = some r)) := by
  have hend : ∀ p, p = endPre sc sh → (p = .acquire ∧ sc.uses = true) ∨
      (p = .body 0 none .ok ∧ (sc.uses = false ∨ sh.numUses = 0)) := by
    intro p hp
    unfold endPre at hp
    by_cases hu : sc.uses = true
    · by_cases hz : sh.numUses = 0
      · right; simp [hu, hz] at hp; exact ⟨hp, Or.inr hz⟩
      · left; simp [hu, hz] at hp; exact ⟨hp, hu⟩
    · right; simp [hu] at hp; exact ⟨hp, Or.inl (by simpa using hu)⟩
  have hadv : ∀ p, p = advancePre sc i sh → p = .pre (i + 1) ∨ (p = .acquire ∧ sc.uses = true) ∨
      (p = .body 0 none .ok ∧ (sc.uses = false ∨ sh.numUses = 0)) := by
    intro p hp
    unfold advancePre at hp
    split at hp
    · exact Or.inl hp
    · exact Or.inr (hend p hp)
  simp only [localStep] at h
  split at h
  · simp at h
  · rename_i ff a hb
    have hmem := List.mem_of_getElem? hb
    split at h
    · rename_i hh
      cases a with
      | cont =>
        simp at h; obtain ⟨rfl, rfl⟩ := h
        refine ⟨rfl, ?_⟩
        rcases hadv _ rfl with x | x | x
        · exact Or.inl x
        · exact Or.inr (Or.inl x)
        · exact Or.inr (Or.inr (Or.inl x))
      | stop r =>
        simp at h; obtain ⟨rfl, rfl⟩ := h
        exact ⟨rfl, Or.inr (Or.inr (Or.inr ⟨r, rfl, hh, _, hmem, rfl⟩))⟩
    · split at h
      · simp at h; obtain ⟨rfl, rfl⟩ := h
        refine ⟨rfl, ?_⟩
        rcases hend _ rfl with x | x
        · exact Or.inr (Or.inl x)
        · exact Or.inr (Or.inr (Or.inl x))
      · simp at h; obtain ⟨rfl, rfl⟩ := h
        refine ⟨rfl, ?_⟩
        rcases hadv _ rfl with x | x | x
        · exact Or.inl x
        · exact Or.inr (Or.inl x)
        · exact Or.inr (Or.inr (Or.inl x))
  · rename_i a hb
    have hmem := List.mem_of_getElem? hb
    split at h
    · rename_i hg
      have hh : sh.hidden = true := absent_hidden hg
      cases a with
      | cont =>
        simp at h; obtain ⟨rfl, rfl⟩ := h
        refine ⟨rfl, ?_⟩
        rcases hadv _ rfl with x | x | x
        · exact Or.inl x
        · exact Or.inr (Or.inl x)
        · exact Or.inr (Or.inr (Or.inl x))
      | stop r =>
        simp at h; obtain ⟨rfl, rfl⟩ := h
        exact ⟨rfl, Or.inr (Or.inr (Or.inr ⟨r, rfl, hh, _, hmem, rfl⟩))⟩
    · simp at h; obtain ⟨rfl, rfl⟩ := h
      refine ⟨rfl, ?_⟩
      rcases hadv _ rfl with x | x | x
      · exact Or.inl x
      · exact Or.inr (Or.inl x)
      · exact Or.inr (Or.inr (Or.inl x))

/-- shapes a `body` step can lead to -/
theorem body_targets {locked : Bool} {k : Kind} {t i : Nat} {u : Option Bool} {r : Res} {sh sh' : Shared} {pc' : Pc}
    (h : localStep locked (scriptOf k) t (.body i u r) sh = some (pc', sh')) :
    (sh' = sh ∨ sh' = { sh with issued := sh.issued + 1, late := if sh.swept then sh.late + 1 else sh.late }) ∧
    ∃ r', (pc' = .body (i + 1) u r' ∨ pc' = toDefer (scriptOf k) u r') ∧
      (obtRes r' = true → obtRes r = true ∨ (scriptOf k).uses = true) ∧
      (refusedRes r' = true → refusedRes r = true ∨ (scriptOf k).uses = true) := by
  have hadv : ∀ r', advanceBody (scriptOf k) i u r' = .body (i + 1) u r' ∨
      advanceBody (scriptOf k) i u r' = toDefer (scriptOf k) u r' := by
    intro r'; unfold advanceBody; split <;> simp
  simp only [localStep] at h
  split at h
  · simp at h; obtain ⟨rfl, rfl⟩ := h
    exact ⟨Or.inl rfl, r, Or.inr rfl, fun h => Or.inl h, fun h => Or.inl h⟩
  all_goals rename_i hb
  all_goals have hmem := List.mem_of_getElem? hb
  · rename_i r'
    simp at h; obtain ⟨rfl, rfl⟩ := h
    refine ⟨Or.inl rfl, r', (hadv r').imp id id, ?_, ?_⟩
    all_goals
      intro _
      right
      cases hu : (scriptOf k).uses with
      | true => rfl
      | false => have := nouse_body k hu _ hmem; simp at this
  · simp at h; obtain ⟨rfl, rfl⟩ := h
    exact ⟨Or.inr rfl, .secret, (hadv _).imp id id, by simp [obtRes], by simp [refusedRes]⟩
  · simp at h; obtain ⟨rfl, rfl⟩ := h
    refine ⟨Or.inl rfl, _, (hadv _).imp id id, ?_, ?_⟩
    · split <;> simp [obtRes]
    · split <;> simp [refusedRes]
  · rename_i r'
    have hu : (scriptOf k).uses = true := by
      cases hu : (scriptOf k).uses with
      | true => rfl
      | false => have := nouse_body k hu _ hmem; simp at this
    split at h
    · simp at h; obtain ⟨rfl, rfl⟩ := h
      exact ⟨Or.inl rfl, r', Or.inr rfl, fun _ => Or.inr hu, fun _ => Or.inr hu⟩
    · simp at h; obtain ⟨rfl, rfl⟩ := h
      exact ⟨Or.inl rfl, r, (hadv _).imp id id, fun h => Or.inl h, fun h => Or.inl h⟩
  · split at h
    · simp at h; obtain ⟨rfl, rfl⟩ := h
      exact ⟨Or.inl rfl, .info, (hadv _).imp id id, by simp [obtRes], by simp [refusedRes]⟩
    · simp at h; obtain ⟨rfl, rfl⟩ := h
      exact ⟨Or.inl rfl, .noinfo, Or.inr rfl, by simp [obtRes], by simp [refusedRes]⟩
  · have hu : (scriptOf k).uses = true := by
      cases hu : (scriptOf k).uses with
      | true => rfl
      | false => have := nouse_body k hu _ hmem; simp at this
    split at h
    · simp at h; obtain ⟨rfl, rfl⟩ := h
      exact ⟨Or.inl rfl, .payload, (hadv _).imp id id, fun _ => Or.inr hu, by simp [refusedRes]⟩
    · simp at h; obtain ⟨rfl, rfl⟩ := h
      exact ⟨Or.inl rfl, .nopayload, Or.inr rfl, by simp [obtRes], by simp [refusedRes]⟩

/-- closes the clauses of `Local` that are vacuous for a given pc shape -/
macro "lc" : tactic =>
  `(tactic| simp [holds, isLast, refusedPc, isSyncPc, isDeferPc, pastPre, counted, obtained, pcU, refusedRes])

theorem obtained_body_eq (i j : Nat) (u u' : Option Bool) (r : Res) :
    obtained (.body i u r) = obtained (.body j u' r) := by cases r <;> rfl
theorem obtained_done_eq (i : Nat) (u u' : Option Bool) (r : Res) :
    obtained (.done u r) = obtained (.body i u' r) := by cases r <;> rfl
theorem obtained_dq_eq (i : Nat) (u u' : Option Bool) (r : Res) :
    obtained (.dq u r) = obtained (.body i u' r) := by cases r <;> rfl
theorem obtained_rlook_eq (i : Nat) (u u' : Option Bool) (r : Res) :
    obtained (.rlook u r) = obtained (.body i u' r) := by cases r <;> rfl
theorem obtained_rmark_eq (i : Nat) (u u' : Option Bool) (r : Res) :
    obtained (.rmark u r) = obtained (.body i u' r) := by cases r <;> rfl
theorem obtained_rP_eq (i : Nat) (u u' : Option Bool) (r : Res) :
    obtained (.rP u r) = obtained (.body i u' r) := by cases r <;> rfl
theorem obtained_rI_eq (i : Nat) (u u' : Option Bool) (r : Res) :
    obtained (.rI u r) = obtained (.body i u' r) := by cases r <;> rfl
theorem obtained_rL_eq (i : Nat) (u u' : Option Bool) (r : Res) :
    obtained (.rL u r) = obtained (.body i u' r) := by cases r <;> rfl
theorem obtained_rE_eq (i : Nat) (u u' : Option Bool) (r : Res) :
    obtained (.rE u r) = obtained (.body i u' r) := by cases r <;> rfl
theorem obtained_body_obtRes (i : Nat) (u : Option Bool) (r : Res) :
    obtained (.body i u r) = 1 ↔ obtRes r = true := by cases r <;> simp [obtained, obtRes]

/-- the step of a thread that leaves the shared state alone and does not change whether it is counted -/
theorem inv_same {n : Nat} {s : St} {t : Nat} {pc pc' : Pc} {k : Kind} (inv : Inv n s)
    (hpc : s.pcs[t]? = some pc) (hk : s.kinds[t]? = some k) (hcnt : counted pc' = counted pc)
    (hnew : Local n s.sh t pc' k) : Inv n { s with pcs := s.pcs.set t pc' } := by
  have hlt : t < s.pcs.length := by
    rcases Nat.lt_or_ge t s.pcs.length with h1 | h1
    · exact h1
    · simp [List.getElem?_eq_none h1] at hpc
  have hc := passedCount_set s.pcs t pc pc' hpc
  have he : passedCount (s.pcs.set t pc') = passedCount s.pcs := by omega
  refine ⟨by simpa [he] using inv.acct, inv.chain, inv.sweptD, inv.goneD, inv.leases, inv.wf, ?_⟩
  exact loc_set hlt hk inv.loc hnew (fun u q k' _ _ _ l => l)

theorem local_inv {n : Nat} {s : St} {t : Nat} {pc pc' : Pc} {k : Kind} {sh' : Shared}
    (inv : Inv n s) (hpc : s.pcs[t]? = some pc) (hk : s.kinds[t]? = some k)
    (h : localStep true (scriptOf k) t pc s.sh = some (pc', sh')) :
    Inv n { s with sh := sh', pcs := s.pcs.set t pc' } := by
  have hlt : t < s.pcs.length := by
    rcases Nat.lt_or_ge t s.pcs.length with h1 | h1
    · exact h1
    · simp [List.getElem?_eq_none h1] at hpc
  have hloc := inv.loc t pc k hpc hk
  have hc := passedCount_set s.pcs t pc pc' hpc
  have hcle := counted_le_passedCount s.pcs t pc hpc
  have hkmem : k ∈ s.kinds := List.mem_of_getElem? hk
  -- two threads inside the critical section are the same thread
  have uniq : ∀ (u : Nat) (q : Pc) (k' : Kind), s.pcs[u]? = some q → s.kinds[u]? = some k' →
      holds pc = true → holds q = true → u = t := by
    intro u q k' hu hk' hp hq
    have a := hloc.holder.1 hp
    have b := (inv.loc u q k' hu hk').holder.1 hq
    rw [a] at b; injection b with b; exact b.symm
  -- a counted thread of a synchronously revoking kind: the pending marker is already stored
  have sync_pending : counted pc = 1 → (scriptOf k).defer = .sync → s.sh.numUses = pending := by
    intro hcn hs
    rcases inv.wf with h1 | h1
    · rcases inv.acct with a | a
      · omega
      · exact a.1
    · exact absurd hs (h1 k hkmem)
  cases pc with
  | pre i =>
    obtain ⟨rfl, hshape⟩ := pre_targets h
    have hnz := numUses_ne_zero inv
    rcases hshape with rfl | ⟨rfl, hu⟩ | ⟨rfl, hu⟩ | ⟨r, rfl, hh, p, hp, hs⟩
    · refine inv_same inv hpc hk rfl ?_
      constructor <;> try (lc; done)
      · simpa [holds] using hloc.holder
    · refine inv_same inv hpc hk rfl ?_
      constructor <;> try (lc; done)
      · simpa [holds] using hloc.holder
      · exact fun _ => hu
    · refine inv_same inv hpc hk rfl ?_
      have hu' : (scriptOf k).uses = false := hu.resolve_right hnz
      constructor <;> try (lc; done)
      · simpa [holds] using hloc.holder
      · intro i r e; injection e with _ _ e; subst e; exact ⟨hu', rfl⟩
    · refine inv_same inv hpc hk rfl ?_
      have hr := pre_stop_refused k p r hp hs
      constructor <;> try (lc; done)
      · simpa [holds] using hloc.holder
      · exact fun _ => hidden_pending inv hh
      · intro ho; rw [refused_not_obtained r hr] at ho; simp at ho
  | acquire =>
    simp only [localStep] at h
    cases hl : s.sh.lock with
    | some _ => simp [hl] at h
    | none =>
      simp [hl] at h; obtain ⟨rfl, rfl⟩ := h
      simp [counted] at hc
      refine ⟨by simpa [hc] using inv.acct, by simpa using inv.chain, by simpa using inv.sweptD,
              by simpa using inv.goneD, by simpa using inv.leases, inv.wf, ?_⟩
      refine loc_set hlt hk inv.loc ?_ ?_
      · constructor <;> try (lc; done)
        · exact fun _ => hloc.used rfl
      · intro u q k' hne hu hk' l
        refine ⟨?_, l.fresh, l.lastq, l.lastp, l.refused, l.sync, l.lazyC, l.defU, l.unused, l.used, l.got,
                l.dI, l.dE, l.syncDone, l.one⟩
        have := l.holder
        simp [hl] at this
        simp [this]; exact fun h => hne h.symm
  | reread =>
    have hlock : s.sh.lock = some t := hloc.holder.1 rfl
    have huse := hloc.used rfl
    simp only [localStep] at h
    split at h
    · rename_i hh
      have hp := hidden_pending inv hh
      simp at h; obtain ⟨rfl, rfl⟩ := h
      refine inv_same inv hpc hk rfl ?_
      constructor <;> try (lc; done)
      · simp [holds, hlock]
      · exact fun _ => hp
      · exact fun _ => huse
    · rename_i hh
      have hpos := visible_pos inv (by simpa using hh)
      simp at h; obtain ⟨rfl, rfl⟩ := h
      refine inv_same inv hpc hk rfl ?_
      constructor <;> try (lc; done)
      · simp [holds, hlock]
      · intro v hv; simp at hv; subst hv; exact ⟨rfl, hpos⟩
      · exact fun _ => huse
  | store seen =>
    have hlock : s.sh.lock = some t := hloc.holder.1 rfl
    have huse := hloc.used rfl
    obtain ⟨hseen, hpos⟩ := hloc.fresh seen rfl
    simp only [localStep] at h
    simp at h; obtain ⟨rfl, rfl⟩ := h
    simp [counted] at hc
    have hacct : 1 ≤ s.sh.numUses ∧ s.sh.numUses + passedCount s.pcs = n ∧ s.sh.queued = false ∧
        s.sh.gone = false ∧ s.sh.leaseGone = false := by
      rcases inv.acct with a | a
      · exact a
      · exfalso; have := a.1; simp [pending] at this; omega
    have hnp : s.sh.numUses ≠ pending := by simp [pending]; omega
    refine ⟨?_, by simpa using inv.chain, by simpa using inv.sweptD, by simp, by simpa using inv.leases,
            inv.wf, ?_⟩
    · by_cases h1 : seen = 1
      · right; simp [h1] at hc ⊢; omega
      · left; simp [h1] at hc ⊢; refine ⟨by omega, by omega, hacct.2.2.1, hacct.2.2.2.2⟩
    · refine loc_set hlt hk inv.loc ?_ ?_
      · constructor <;> try (lc; done)
        · simp [holds, hlock]
        · intro hl
          by_cases h1 : seen = 1
          · simp [h1]
          · simp [isLast, pcU, h1] at hl
        · exact fun _ => huse
        · intro hn1
          have : seen = 1 := by omega
          simp [pcU, this]
      · intro u q k' hne hu hk' l
        refine ⟨by simpa using l.holder, ?_, ?_, ?_, ?_, l.sync, l.lazyC, l.defU, l.unused, l.used, l.got,
                by simpa using l.dI, by simpa using l.dE, ?_, l.one⟩
        · intro v hv
          subst hv
          exact absurd (uniq u _ k' hu hk' rfl rfl) hne
        · intro r hq
          have : isLast q = true := by subst hq; rfl
          exact absurd (l.lastp this) hnp
        · intro hq; exact absurd (l.lastp hq) hnp
        · intro hq; exact absurd (l.refused hq) hnp
        · intro x r hq hs
          have := l.syncDone x r hq hs
          simp [hacct.2.2.2.1] at this
  | release o =>
    have hlock : s.sh.lock = some t := hloc.holder.1 rfl
    have huse := hloc.used rfl
    have hoth : ∀ (sh2 : Shared), sh2 = { s.sh with lock := none } →
        ∀ (u : Nat) (q : Pc) (k' : Kind), u ≠ t → s.pcs[u]? = some q → s.kinds[u]? = some k' →
          Local n s.sh u q k' → Local n sh2 u q k' := by
      intro sh2 e u q k' hne hu hk' l
      subst e
      refine ⟨?_, l.fresh, l.lastq, l.lastp, l.refused, l.sync, l.lazyC, l.defU, l.unused, l.used, l.got,
              l.dI, l.dE, l.syncDone, l.one⟩
      have := l.holder
      simp [hlock] at this
      constructor
      · intro hq; exact absurd (this.1 hq).symm hne
      · intro hq; simp at hq
    simp only [localStep] at h
    cases o with
    | some last =>
      simp at h; obtain ⟨rfl, rfl⟩ := h
      simp [counted] at hc
      refine ⟨by simpa [hc] using inv.acct, by simpa using inv.chain, by simpa using inv.sweptD,
              by simpa using inv.goneD, by simpa using inv.leases, inv.wf, ?_⟩
      refine loc_set hlt hk inv.loc ?_ (hoth _ rfl)
      constructor <;> try (lc; done)
      · intro hl
        have : isLast (Pc.release (some last)) = true := by simpa [isLast, pcU] using hl
        exact hloc.lastp this
      · exact fun _ => huse
      · intro hn1; simpa [pcU] using hloc.one hn1
    | none =>
      simp at h; obtain ⟨rfl, rfl⟩ := h
      simp [counted] at hc
      refine ⟨by simpa [hc] using inv.acct, by simpa using inv.chain, by simpa using inv.sweptD,
              by simpa using inv.goneD, by simpa using inv.leases, inv.wf, ?_⟩
      refine loc_set hlt hk inv.loc ?_ (hoth _ rfl)
      constructor <;> try (lc; done)
      · exact fun _ => hloc.refused rfl
  | body i u r =>
    obtain ⟨hsh, r', hshape, hobt, href⟩ := body_targets h
    have hU := hloc.unused
    -- facts shared by all target shapes
    have hrf : u = none → refusedRes r' = false := by
      intro hu; subst hu
      obtain ⟨h1, h2⟩ := hU i r rfl
      cases hr : refusedRes r' with
      | false => rfl
      | true => rcases href hr with x | x <;> simp_all
    have hgot : obtRes r' = true → u ≠ none := by
      intro ho hu; subst hu
      obtain ⟨h1, h2⟩ := hU i r rfl
      rcases hobt ho with x | x
      · have := hloc.got ((obtained_body_obtRes i none r).2 x); simp [counted] at this
      · simp [h1] at x
    have huse : u ≠ none → (scriptOf k).uses = true := by
      intro hu; apply hloc.used
      cases u with
      | none => exact absurd rfl hu
      | some _ => rfl
    have hlast : u = some true → s.sh.numUses = pending := by
      intro hu; subst hu; exact hloc.lastp rfl
    have hone : n = 1 → u ≠ some false := by
      intro hn1 hu; subst hu; exact hloc.one hn1 rfl
    have hhold : ¬ s.sh.lock = some t := by
      intro hl; have := hloc.holder.2 hl; simp [holds] at this
    -- the new per-thread facts, against the OLD shared state
    have hnew : Local n s.sh t pc' k := by
      rcases hshape with rfl | rfl
      · constructor <;> try (lc; done)
        · simpa [holds] using hhold
        · intro hl; apply hlast; simpa [isLast, pcU] using hl
        · intro j rr e; injection e with _ e1 e2; subst e1; subst e2
          exact ⟨(hU i r rfl).1, hrf rfl⟩
        · intro hp
          cases u with
          | none => simp [pastPre, counted] at hp
          | some _ => exact huse (by simp)
        · intro ho
          have := hgot ((obtained_body_obtRes (i + 1) u r').1 ho)
          cases u with
          | none => exact absurd rfl this
          | some _ => rfl
        · intro hn1; simpa [pcU] using hone hn1
      · unfold toDefer
        cases hd : (scriptOf k).defer with
        | none =>
          simp only
          have hun : u = none := by
            cases u with
            | none => rfl
            | some _ => exact absurd hd (uses_defer k (huse (by simp)))
          subst hun
          constructor <;> try (lc; done)
          · simpa [holds] using hhold
          · intro hr; simp [refusedPc, hrf rfl] at hr
          · intro ho
            rw [obtained_done_eq 0 none none] at ho
            exact absurd rfl (hgot ((obtained_body_obtRes 0 none r').1 ho))
        | lazy =>
          simp only
          have hun : u ≠ none := by
            intro hu; subst hu
            have := nouse_defer k (hU i r rfl).1
            simp [hd] at this
          constructor <;> try (lc; done)
          · simpa [holds] using hhold
          · intro hl; apply hlast; simpa [isLast, pcU] using hl
          · intro _ _ _; exact hd
          · simpa [pcU, isDeferPc] using hun
          · intro _; exact huse hun
          · intro _
            cases u with
            | none => exact absurd rfl hun
            | some _ => rfl
          · intro hn1; simpa [pcU] using hone hn1
        | sync =>
          simp only
          have hun : u ≠ none := by
            intro hu; subst hu
            have := nouse_defer k (hU i r rfl).1
            simp [hd] at this
          constructor <;> try (lc; done)
          · simpa [holds] using hhold
          · intro hl; apply hlast; simpa [isLast, pcU] using hl
          · intro _; exact hd
          · simpa [pcU, isDeferPc, isSyncPc] using hun
          · intro _; exact huse hun
          · intro _
            cases u with
            | none => exact absurd rfl hun
            | some _ => rfl
          · intro hn1; simpa [pcU] using hone hn1
    have hcnt : counted pc' = counted (Pc.body i u r) := by
      rcases hshape with rfl | rfl
      · cases u <;> rfl
      · unfold toDefer; cases (scriptOf k).defer <;> cases u <;> rfl
    have he : passedCount (s.pcs.set t pc') = passedCount s.pcs := by omega
    rcases hsh with rfl | rfl
    · refine ⟨by simpa [he] using inv.acct, inv.chain, inv.sweptD, inv.goneD, inv.leases, inv.wf, ?_⟩
      exact loc_set hlt hk inv.loc hnew (fun u q k' _ _ _ l => l)
    · refine ⟨by simpa [he] using inv.acct, by simpa using inv.chain, by simpa using inv.sweptD,
              by simpa using inv.goneD, ?_, inv.wf, ?_⟩
      · constructor
        · intro hs
          simp at hs
          have := inv.leases.1 hs
          simp [hs]; exact this
        · intro hs
          simp at hs
          have := inv.leases.2 hs
          simp [hs]; omega
      · refine loc_set hlt hk inv.loc (hnew.mono rfl rfl id id id id) ?_
        intro u q k' _ _ _ l
        exact l.mono rfl rfl id id id id
  | dq u r =>
    have hd := hloc.lazyC u r rfl
    have hun : u ≠ none := by simpa [pcU, isDeferPc] using hloc.defU rfl
    have huse := hloc.used (by cases u with | none => exact absurd rfl hun | some _ => rfl)
    have hhold : ¬ s.sh.lock = some t := by
      intro hl; have := hloc.holder.2 hl; simp [holds] at this
    simp only [localStep] at h
    split at h
    · rename_i hu
      subst hu
      simp at h; obtain ⟨rfl, rfl⟩ := h
      have hp : s.sh.numUses = pending := hloc.lastp rfl
      simp [counted] at hc
      refine ⟨?_, by simp, by simpa using inv.sweptD, by simpa using inv.goneD, by simpa using inv.leases,
              inv.wf, ?_⟩
      · right
        rcases inv.acct with a | a
        · exfalso; have := a.1; simp [hp, pending] at this
        · simpa [hc] using a
      · refine loc_set hlt hk inv.loc ?_ ?_
        · constructor <;> try (lc; done)
          · simpa [holds] using hhold
          · exact fun _ => by simpa using hp
          · intro _; exact huse
          · intro _ _ _ hs; simp [hd] at hs
        · intro u q k' _ _ _ l
          exact l.mono rfl rfl (fun _ => rfl) id id id
    · rename_i hu
      simp at h; obtain ⟨rfl, rfl⟩ := h
      refine inv_same inv hpc hk (by cases u <;> rfl) ?_
      constructor <;> try (lc; done)
      · simpa [holds] using hhold
      · intro r' e; injection e with e _; exact absurd e hu
      · intro hl; apply hloc.lastp; simpa [isLast, pcU] using hl
      · intro hr
        cases u with
        | none => exact absurd rfl hun
        | some _ => simp [refusedPc] at hr
      · intro _; exact huse
      · intro _
        cases u with
        | none => exact absurd rfl hun
        | some _ => rfl
      · intro _ _ _ hs; simp [hd] at hs
      · intro hn1; simpa [pcU] using hloc.one hn1
  | rlook u r =>
    have hd := hloc.sync rfl
    have hun : u ≠ none := by simpa [pcU, isDeferPc, isSyncPc] using hloc.defU rfl
    have huse := hloc.used (by cases u with | none => exact absurd rfl hun | some _ => rfl)
    have hhold : ¬ s.sh.lock = some t := by
      intro hl; have := hloc.holder.2 hl; simp [holds] at this
    simp only [localStep] at h
    split at h
    · rename_i hg
      simp at h; obtain ⟨rfl, rfl⟩ := h
      refine inv_same inv hpc hk (by cases u <;> rfl) ?_
      constructor <;> try (lc; done)
      · simpa [holds] using hhold
      · exact fun _ _ => Or.inr hg
      · intro hl; apply hloc.lastp; simpa [isLast, pcU] using hl
      · intro hr
        cases u with
        | none => exact absurd rfl hun
        | some _ => simp [refusedPc] at hr
      · intro _; exact huse
      · intro _
        cases u with
        | none => exact absurd rfl hun
        | some _ => rfl
      · exact fun _ _ _ _ => hg
      · intro hn1; simpa [pcU] using hloc.one hn1
    · simp at h; obtain ⟨rfl, rfl⟩ := h
      refine inv_same inv hpc hk (by cases u <;> rfl) ?_
      constructor <;> try (lc; done)
      · simpa [holds] using hhold
      · intro hl; apply hloc.lastp; simpa [isLast, pcU] using hl
      · exact fun _ => hd
      · simpa [pcU, isDeferPc, isSyncPc] using hun
      · intro _; exact huse
      · intro _
        cases u with
        | none => exact absurd rfl hun
        | some _ => rfl
      · intro hn1; simpa [pcU] using hloc.one hn1
  | rmark u r =>
    have hd := hloc.sync rfl
    have hun : u ≠ none := by simpa [pcU, isDeferPc, isSyncPc] using hloc.defU rfl
    have hcn : counted (Pc.rmark u r) = 1 := by cases u with | none => exact absurd rfl hun | some _ => rfl
    have huse := hloc.used (by simp [pastPre, hcn])
    have hp := sync_pending hcn hd
    have hhold : ¬ s.sh.lock = some t := by
      intro hl; have := hloc.holder.2 hl; simp [holds] at this
    simp only [localStep] at h
    simp [hp] at h; obtain ⟨rfl, rfl⟩ := h
    refine inv_same inv hpc hk (by cases u <;> rfl) ?_
    constructor <;> try (lc; done)
    · simpa [holds] using hhold
    · intro hl; apply hloc.lastp; simpa [isLast, pcU] using hl
    · exact fun _ => hd
    · simpa [pcU, isDeferPc, isSyncPc] using hun
    · intro _; exact huse
    · intro _
      cases u with
      | none => exact absurd rfl hun
      | some _ => rfl
    · intro hn1; simpa [pcU] using hloc.one hn1
  | rP u r =>
    have hd := hloc.sync rfl
    have hun : u ≠ none := by simpa [pcU, isDeferPc, isSyncPc] using hloc.defU rfl
    have hcn : counted (Pc.rP u r) = 1 := by cases u with | none => exact absurd rfl hun | some _ => rfl
    have huse := hloc.used (by simp [pastPre, hcn])
    have hhold : ¬ s.sh.lock = some t := by
      intro hl; have := hloc.holder.2 hl; simp [holds] at this
    simp only [localStep] at h
    simp at h; obtain ⟨rfl, rfl⟩ := h
    have hcnt : counted (Pc.rI u r) = counted (Pc.rP u r) := by cases u <;> rfl
    have he : passedCount (s.pcs.set t (Pc.rI u r)) = passedCount s.pcs := by omega
    refine ⟨by simpa [he] using inv.acct, by simpa using inv.chain, ?_, ?_, by simpa using inv.leases,
            inv.wf, ?_⟩
    · intro hs; simpa using (inv.sweptD hs).2
    · intro hs; simpa using (inv.goneD hs).2
    · refine loc_set hlt hk inv.loc ?_ ?_
      · constructor <;> try (lc; done)
        · simpa [holds] using hhold
        · intro hl; apply hloc.lastp; simpa [isLast, pcU] using hl
        · exact fun _ => hd
        · simpa [pcU, isDeferPc, isSyncPc] using hun
        · intro _; exact huse
        · intro _; simpa [hcnt] using hcn
        · intro hn1; simpa [pcU] using hloc.one hn1
      · intro u q k' _ _ _ l
        exact l.mono rfl rfl id id (fun _ => rfl) id
  | rI u r =>
    have hd := hloc.sync rfl
    have hun : u ≠ none := by simpa [pcU, isDeferPc, isSyncPc] using hloc.defU rfl
    have hcn : counted (Pc.rI u r) = 1 := by cases u with | none => exact absurd rfl hun | some _ => rfl
    have huse := hloc.used (by simp [pastPre, hcn])
    have hpl := hloc.dI u r rfl
    have hhold : ¬ s.sh.lock = some t := by
      intro hl; have := hloc.holder.2 hl; simp [holds] at this
    simp only [localStep] at h
    simp at h; obtain ⟨rfl, rfl⟩ := h
    have hcnt : counted (Pc.rL u r) = counted (Pc.rI u r) := by cases u <;> rfl
    have he : passedCount (s.pcs.set t (Pc.rL u r)) = passedCount s.pcs := by omega
    refine ⟨by simpa [he] using inv.acct, by simpa using inv.chain, ?_, ?_, by simpa using inv.leases,
            inv.wf, ?_⟩
    · intro hs; simpa using (inv.sweptD hs).1
    · intro hs; simpa using (inv.goneD hs).1
    · refine loc_set hlt hk inv.loc ?_ ?_
      · constructor <;> try (lc; done)
        · simpa [holds] using hhold
        · intro hl; apply hloc.lastp; simpa [isLast, pcU] using hl
        · exact fun _ => hd
        · simpa [pcU, isDeferPc, isSyncPc] using hun
        · intro _; exact huse
        · intro _; simpa [hcnt] using hcn
        · intro _ _ _; simpa using hpl
        · intro hn1; simpa [pcU] using hloc.one hn1
      · intro u q k' _ _ _ l
        exact l.mono rfl rfl id id id (fun _ => rfl)
  | rL u r =>
    have hd := hloc.sync rfl
    have hun : u ≠ none := by simpa [pcU, isDeferPc, isSyncPc] using hloc.defU rfl
    have hcn : counted (Pc.rL u r) = 1 := by cases u with | none => exact absurd rfl hun | some _ => rfl
    have huse := hloc.used (by simp [pastPre, hcn])
    have hp := sync_pending hcn hd
    have hde := hloc.dE u r (Or.inl rfl)
    have hhold : ¬ s.sh.lock = some t := by
      intro hl; have := hloc.holder.2 hl; simp [holds] at this
    simp only [localStep] at h
    simp at h; obtain ⟨rfl, rfl⟩ := h
    have hcnt : counted (Pc.rE u r) = counted (Pc.rL u r) := by cases u <;> rfl
    have he : passedCount (s.pcs.set t (Pc.rE u r)) = passedCount s.pcs := by omega
    refine ⟨?_, by simpa using inv.chain, by simpa using inv.sweptD, by simpa using inv.goneD,
            by simpa using inv.leases, inv.wf, ?_⟩
    · right
      rcases inv.acct with a | a
      · exfalso; have := a.1; simp [hp, pending] at this
      · simpa [he] using a
    · refine loc_set hlt hk inv.loc ?_ ?_
      · constructor <;> try (lc; done)
        · simpa [holds] using hhold
        · intro hl; simpa using hloc.lastp (by simpa [isLast, pcU] using hl)
        · exact fun _ => hd
        · simpa [pcU, isDeferPc, isSyncPc] using hun
        · intro _; exact huse
        · intro _; simpa [hcnt] using hcn
        · intro _ _ _; simpa using hde
        · intro hn1; simpa [pcU] using hloc.one hn1
      · intro u q k' _ _ _ l
        exact l.mono rfl rfl id id id id
  | rE u r =>
    have hd := hloc.sync rfl
    have hun : u ≠ none := by simpa [pcU, isDeferPc, isSyncPc] using hloc.defU rfl
    have hcn : counted (Pc.rE u r) = 1 := by cases u with | none => exact absurd rfl hun | some _ => rfl
    have huse := hloc.used (by simp [pastPre, hcn])
    have hp := sync_pending hcn hd
    have hde := hloc.dE u r (Or.inr rfl)
    have hhold : ¬ s.sh.lock = some t := by
      intro hl; have := hloc.holder.2 hl; simp [holds] at this
    simp only [localStep] at h
    simp at h; obtain ⟨rfl, rfl⟩ := h
    have hcnt : counted (Pc.done u r) = counted (Pc.rE u r) := by cases u <;> rfl
    have he : passedCount (s.pcs.set t (Pc.done u r)) = passedCount s.pcs := by omega
    refine ⟨?_, by simpa using inv.chain, by simpa using inv.sweptD, by simpa using hde,
            by simpa using inv.leases, inv.wf, ?_⟩
    · right
      rcases inv.acct with a | a
      · exfalso; have := a.1; simp [hp, pending] at this
      · simpa [he] using a
    · refine loc_set hlt hk inv.loc ?_ ?_
      · constructor <;> try (lc; done)
        · simpa [holds] using hhold
        · intro hl; simpa using hloc.lastp (by simpa [isLast, pcU] using hl)
        · intro hr
          cases u with
          | none => exact absurd rfl hun
          | some _ => simp [refusedPc] at hr
        · intro _; exact huse
        · intro _; simpa [hcnt] using hcn
        · intro hn1; simpa [pcU] using hloc.one hn1
      · intro u q k' _ _ _ l
        exact l.mono rfl rfl id (fun _ => rfl) id id
  | done u r => simp [localStep] at h

theorem step_inv {n : Nat} {s s' : St} {t : Nat} (inv : Inv n s) (h : step s t = some s') : Inv n s' := by
  unfold step stepG at h
  split at h
  · cases hw : workerStep s.sh with
    | none => simp [hw] at h
    | some sh' =>
      simp [hw] at h; subst h
      exact worker_inv inv hw
  · split at h
    · rename_i pc k hpc hk
      cases hl : localStep true (scriptOf k) t pc s.sh with
      | none => simp [hl] at h
      | some r =>
        simp [hl] at h; subst h
        exact local_inv inv hpc hk (by rw [hl])
    · simp at h

theorem run_inv {n : Nat} (sched : List Nat) (s : St) (inv : Inv n s) : Inv n (run sched s) := by
  induction sched generalizing s with
  | nil => exact inv
  | cons t ts ih =>
    simp only [run, runG]
    cases h : stepG true s t with
    | none => exact ih s inv
    | some s' => exact ih s' (step_inv inv h)

/-- every reachable state satisfies the invariant -/
theorem reach_inv (w : Bool) (n : Nat) (hn : 1 ≤ n) (kinds : List Kind)
    (hwf : n = 1 ∨ ∀ k ∈ kinds, (scriptOf k).defer ≠ .sync) (sched : List Nat) :
    Inv n (run sched (initW w n kinds)) :=
  run_inv sched _ (init_inv w n kinds hn hwf)

theorem run_append (a b : List Nat) (s : St) : run (a ++ b) s = run b (run a s) := by
  induction a generalizing s with
  | nil => rfl
  | cons t ts ih =>
    simp only [List.cons_append, run, runG]
    cases stepG true s t with
    | none => exact ih s
    | some s' => exact ih s'

/-- finished requests that were granted are counted -/
theorem doneCount_le_passed (l : List Pc) (h : ∀ pc ∈ l, isDoneUse pc = true → counted pc = 1) :
    doneCount l ≤ passedCount l := by
  induction l with
  | nil => simp [doneCount, passedCount]
  | cons x xs ih =>
    have hx := h x (by simp)
    have := ih (fun pc hm => h pc (by simp [hm]))
    simp only [doneCount, passedCount]
    by_cases d : isDoneUse x = true
    · simp [d, hx d]; omega
    · simp [d]; omega

/-- the payload is only obtained by requests past the use step -/
theorem obtainedCount_le_passed (l : List Pc) (h : ∀ pc ∈ l, obtained pc = 1 → counted pc = 1) :
    obtainedCount l ≤ passedCount l := by
  induction l with
  | nil => simp [obtainedCount, passedCount]
  | cons x xs ih =>
    have hx := h x (by simp)
    have := ih (fun pc hm => h pc (by simp [hm]))
    have h1 := obtained_le_one x
    simp only [obtainedCount, passedCount]
    by_cases d : obtained x = 1
    · have := hx d; omega
    · omega

theorem local_counted_mono {locked : Bool} {k : Kind} {t : Nat} {pc pc' : Pc} {sh sh' : Shared}
    (h : localStep locked (scriptOf k) t pc sh = some (pc', sh')) : counted pc ≤ counted pc' := by
  cases pc with
  | pre i => simp [counted]
  | acquire => simp [counted]
  | reread => simp [counted]
  | store seen => simp [counted]
  | release o =>
    cases o <;> simp [localStep] at h <;> obtain ⟨rfl, _⟩ := h <;> simp [counted]
  | body i u r =>
    obtain ⟨_, r', hshape, _, _⟩ := body_targets h
    rcases hshape with rfl | rfl
    · cases u <;> simp [counted]
    · unfold toDefer; cases (scriptOf k).defer <;> cases u <;> simp [counted]
  | dq u r =>
    simp only [localStep] at h
    split at h <;> simp at h <;> obtain ⟨rfl, _⟩ := h <;> cases u <;> simp [counted]
  | rlook u r =>
    simp only [localStep] at h
    split at h <;> simp at h <;> obtain ⟨rfl, _⟩ := h <;> cases u <;> simp [counted]
  | rmark u r => simp [localStep] at h; obtain ⟨rfl, _⟩ := h; cases u <;> simp [counted]
  | rP u r => simp [localStep] at h; obtain ⟨rfl, _⟩ := h; cases u <;> simp [counted]
  | rI u r => simp [localStep] at h; obtain ⟨rfl, _⟩ := h; cases u <;> simp [counted]
  | rL u r => simp [localStep] at h; obtain ⟨rfl, _⟩ := h; cases u <;> simp [counted]
  | rE u r => simp [localStep] at h; obtain ⟨rfl, _⟩ := h; cases u <;> simp [counted]
  | done u r => simp [localStep] at h

/-- the number of requests past the use step never goes down -/
theorem step_passed_mono {s s' : St} {t : Nat} (h : step s t = some s') :
    passedCount s.pcs ≤ passedCount s'.pcs := by
  unfold step stepG at h
  split at h
  · cases hw : workerStep s.sh with
    | none => simp [hw] at h
    | some sh' => simp [hw] at h; subst h; simp
  · split at h
    · rename_i pc k hpc hk
      cases hl : localStep true (scriptOf k) t pc s.sh with
      | none => simp [hl] at h
      | some r =>
        simp [hl] at h; subst h
        have hc := passedCount_set s.pcs t pc r.1 hpc
        have hm := local_counted_mono (pc' := r.1) (sh' := r.2) (by rw [hl])
        simp only; omega
    · simp at h

theorem run_passed_mono (sched : List Nat) (s : St) : passedCount s.pcs ≤ passedCount (run sched s).pcs := by
  induction sched generalizing s with
  | nil => exact Nat.le_refl _
  | cons t ts ih =>
    simp only [run, runG]
    cases h : stepG true s t with
    | none => exact ih s
    | some s' => exact Nat.le_trans (step_passed_mono h) (ih s')

theorem step_length {locked : Bool} {s s' : St} {t : Nat} (h : stepG locked s t = some s') :
    s'.pcs.length = s.pcs.length := by
  unfold stepG at h
  split at h
  · cases hw : workerStep s.sh with
    | none => simp [hw] at h
    | some sh' => simp [hw] at h; subst h; rfl
  · split at h
    · rename_i pc k _ _
      cases hl : localStep locked (scriptOf k) t pc s.sh with
      | none => simp [hl] at h
      | some r => simp [hl] at h; subst h; simp
    · simp at h

theorem run_length (sched : List Nat) (s : St) : (run sched s).pcs.length = s.pcs.length := by
  induction sched generalizing s with
  | nil => rfl
  | cons t ts ih =>
    simp only [run, runG]
    cases h : stepG true s t with
    | none => exact ih s
    | some s' => exact (ih s').trans (step_length h)

theorem step_kinds {locked : Bool} {s s' : St} {t : Nat} (h : stepG locked s t = some s') :
    s'.kinds = s.kinds := by
  unfold stepG at h
  split at h
  · cases hw : workerStep s.sh with
    | none => simp [hw] at h
    | some sh' => simp [hw] at h; subst h; rfl
  · split at h
    · rename_i pc k _ _
      cases hl : localStep locked (scriptOf k) t pc s.sh with
      | none => simp [hl] at h
      | some r => simp [hl] at h; subst h; rfl
    · simp at h

theorem run_kinds (sched : List Nat) (s : St) : (run sched s).kinds = s.kinds := by
  induction sched generalizing s with
  | nil => rfl
  | cons t ts ih =>
    simp only [run, runG]
    cases h : stepG true s t with
    | none => exact ih s
    | some s' => exact (ih s').trans (step_kinds h)

/-- the kind of every thread of a reachable state -/
theorem kind_of_thread (w : Bool) (n : Nat) (kinds : List Kind) (sched : List Nat) (u : Nat) (pc : Pc)
    (hu : (run sched (initW w n kinds)).pcs[u]? = some pc) :
    ∃ k, (run sched (initW w n kinds)).kinds[u]? = some k := by
  have hl : u < (run sched (initW w n kinds)).pcs.length := by
    rcases Nat.lt_or_ge u (run sched (initW w n kinds)).pcs.length with h1 | h1
    · exact h1
    · simp [List.getElem?_eq_none h1] at hu
  rw [run_length] at hl
  rw [run_kinds]
  simp [initW] at hl ⊢
  exact ⟨kinds[u], List.getElem?_eq_getElem hl⟩

/-- two steps of the expiration worker complete a queued revocation -/
theorem worker_two (s : St) (hq : s.sh.queued = true) :
    (run [s.pcs.length, s.pcs.length] s).sh.gone = true := by
  have step_w : ∀ s' : St, s'.pcs.length = s.pcs.length →
      stepG true s' s.pcs.length = (workerStep s'.sh).map fun sh' => { s' with sh := sh' } := by
    intro s' hl; simp [stepG, hl]
  simp only [run, runG]
  rw [step_w s rfl]
  cases hs : s.sh.swept <;> cases hg : s.sh.gone <;> simp [workerStep, hq, hs, hg]
  all_goals (rw [step_w] <;> simp [workerStep])

/-- …also when the entry was already deleted by the request itself -/
theorem worker_two' (s : St) (hq : s.sh.queued = true ∨ s.sh.gone = true) :
    (run [s.pcs.length, s.pcs.length] s).sh.gone = true := by
  rcases hq with hq | hg
  · exact worker_two s hq
  · have step_w : ∀ s' : St, s'.pcs.length = s.pcs.length →
        stepG true s' s.pcs.length = (workerStep s'.sh).map fun sh' => { s' with sh := sh' } := by
      intro s' hl; simp [stepG, hl]
    simp only [run, runG]
    rw [step_w s rfl]
    cases hs : s.sh.swept <;> cases hq : s.sh.queued <;> simp [workerStep, hq, hs, hg]
    all_goals (try (rw [step_w] <;> simp [workerStep]))

/-- once `n` requests are past the use step the entry stays invisible and nobody else gets past it -/
theorem exhausted_stays {n : Nat} {s : St} (inv : Inv n s) (h : passedCount s.pcs = n) (more : List Nat) :
    (run more s).sh.hidden = true ∧ passedCount (run more s).pcs = n := by
  have inv' := run_inv more s inv
  have hmono := run_passed_mono more s
  rcases inv'.acct with a | a
  · omega
  · exact ⟨by simp [Shared.hidden, a.1, pending], a.2⟩

/-- the payload is only ever obtained by requests that are past the use step -/
theorem obtained_le_passed {n : Nat} {s : St} (inv : Inv n s) (hlen : s.kinds.length = s.pcs.length) :
    obtainedCount s.pcs ≤ passedCount s.pcs := by
  apply obtainedCount_le_passed
  intro pc hm ho
  obtain ⟨u, hu⟩ := List.mem_iff_getElem?.1 hm
  have hul : u < s.kinds.length := by
    rw [hlen]
    rcases Nat.lt_or_ge u s.pcs.length with h1 | h1
    · exact h1
    · simp [List.getElem?_eq_none h1] at hu
  exact (inv.loc u pc s.kinds[u] hu (List.getElem?_eq_getElem hul)).got ho

theorem run_kinds_length (w : Bool) (n : Nat) (kinds : List Kind) (sched : List Nat) :
    (run sched (initW w n kinds)).kinds.length = (run sched (initW w n kinds)).pcs.length := by
  rw [run_kinds, run_length]; simp [initW]

/-- hypothesis shared by the C19 theorems: every request presents the token as its client token -/
abbrev AllFirstParty (kinds : List Kind) : Prop := ∀ k ∈ kinds, firstParty k = true

theorem wf_of {n : Nat} {kinds : List Kind} (hk : AllFirstParty kinds) :
    n = 1 ∨ ∀ k ∈ kinds, (scriptOf k).defer ≠ .sync :=
  Or.inr fun k hm => by simpa [firstParty] using hk k hm

/-- a freshly wrapped response and `kinds.length` concurrent attempts (C18) -/
abbrev wrapInit (kinds : List Kind) : St := initW true 1 kinds

theorem wrap_inv (kinds : List Kind) (sched : List Nat) : Inv 1 (run sched (wrapInit kinds)) :=
  reach_inv true 1 (Nat.le_refl 1) kinds (Or.inl rfl) sched

end Obao.UseCount
