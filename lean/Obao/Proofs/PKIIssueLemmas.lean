import Obao.Model.PKIIssue
import Obao.Proofs.PKIHost
/-! Helper lemmas for C15: from an accepted request to the names in its certificate. -/
namespace Obao.PKIIssue
open Obao.PKI Obao.PKIValidity

theorem mem_insertSorted {α : Type} (le : α → α → Bool) (x y : α) (l : List α) :
    y ∈ insertSorted le x l → y = x ∨ y ∈ l := by
  induction l with
  | nil => intro h; simp [insertSorted] at h; exact Or.inl h
  | cons z zs ih =>
    intro h
    unfold insertSorted at h
    split at h
    · rcases List.mem_cons.mp h with h | h
      · exact Or.inl h
      · exact Or.inr h
    · rcases List.mem_cons.mp h with h | h
      · exact Or.inr (h ▸ List.mem_cons_self)
      · rcases ih h with h | h
        · exact Or.inl h
        · exact Or.inr (List.mem_cons_of_mem _ h)

theorem mem_sortBy {α : Type} (le : α → α → Bool) (y : α) (l : List α) : y ∈ sortBy le l → y ∈ l := by
  induction l with
  | nil => intro h; simp [sortBy] at h
  | cons x xs ih =>
    intro h
    have h' : y ∈ insertSorted le x (sortBy le xs) := by simpa [sortBy] using h
    rcases mem_insertSorted le x y _ h' with h | h
    · exact h ▸ List.mem_cons_self
    · exact List.mem_cons_of_mem _ (ih h)

theorem mem_dedupGo (seen l : List Str) (y : Str) : y ∈ dedupGo seen l → y ∈ l := by
  induction l generalizing seen with
  | nil => intro h; simp [dedupGo] at h
  | cons x xs ih =>
    intro h
    unfold dedupGo at h
    split at h
    · exact List.mem_cons_of_mem _ (ih _ h)
    · rcases List.mem_cons.mp h with h | h
      · exact h ▸ List.mem_cons_self
      · exact List.mem_cons_of_mem _ (ih _ h)

theorem mem_dedupStable (l : List Str) (y : Str) : y ∈ dedupStable l → y ∈ l := mem_dedupGo [] l y

theorem idnaToASCII_nonempty {s c : Str} (h : idnaToASCII s = some c) : c ≠ [] := by
  obtain ⟨e, _⟩ := idnaToASCII_some h
  subst e
  intro hc
  subst hc
  simp [idnaToASCII] at h

def AllNonEmpty (acc : List Str × List Str) : Prop := (∀ n ∈ acc.1, n ≠ []) ∧ (∀ n ∈ acc.2, n ≠ [])

theorem addName_nonempty {acc acc' : List Str × List Str} {v : Str} (ha : AllNonEmpty acc)
    (h : addName acc v = .ok acc') : AllNonEmpty acc' := by
  unfold addName at h
  split at h
  · rename_i hat
    injection h with h
    subst h
    refine ⟨ha.1, ?_⟩
    intro n hn
    simp only [List.mem_append, List.mem_singleton] at hn
    rcases hn with hn | hn
    · exact ha.2 n hn
    · subst hn
      intro hv
      subst hv
      simp [containsCh] at hat
  · split at h
    · cases h
    · rename_i c hc
      split at h
      · injection h with h
        subst h
        refine ⟨?_, ha.2⟩
        intro n hn
        simp only [List.mem_append, List.mem_singleton] at hn
        rcases hn with hn | hn
        · exact ha.1 n hn
        · subst hn
          exact idnaToASCII_nonempty hc
      · injection h with h
        subst h
        exact ha

theorem addNames_nonempty {acc acc' : List Str × List Str} {vs : List Str} (ha : AllNonEmpty acc)
    (h : addNames acc vs = .ok acc') : AllNonEmpty acc' := by
  induction vs generalizing acc with
  | nil =>
    unfold addNames at h
    injection h with h
    subst h
    exact ha
  | cons v vs ih =>
    unfold addNames at h
    split at h
    · cases h
    · rename_i acc1 h1
      exact ih (addName_nonempty ha h1) h

theorem seedSANs_nonempty {role : Role} {req : Req}
    (hcsr : ∀ cs, req.csr = some cs → (∀ n ∈ cs.dns, n ≠ []) ∧ (∀ n ∈ cs.emails, n ≠ [])) :
    AllNonEmpty (seedSANs role req) := by
  unfold seedSANs
  cases hc : req.csr with
  | none => exact ⟨by simp, by simp⟩
  | some cs =>
    simp only
    split
    · exact hcsr cs hc
    · exact ⟨by simp, by simp⟩

theorem collectNames_nonempty {role : Role} {req : Req} {acc : List Str × List Str}
    (hcsr : ∀ cs, req.csr = some cs → (∀ n ∈ cs.dns, n ≠ []) ∧ (∀ n ∈ cs.emails, n ≠ []))
    (h : collectNames role req = .ok acc) : AllNonEmpty acc := by
  have h0 := seedSANs_nonempty (role := role) hcsr
  unfold collectNames at h
  simp only at h
  split at h
  · cases h
  · rename_i acc1 h1
    have ha1 : AllNonEmpty acc1 := by
      split at h1
      · exact addName_nonempty h0 h1
      · injection h1 with h1; subst h1; exact h0
    split at h
    · exact addNames_nonempty ha1 h
    · injection h with h; subst h; exact ha1

/-- an accepted `buildNames`: both SAN lists were handed to `validateNames`, which reported nothing, and —
when the CSR carries no empty SAN entry — neither list contains an empty name -/
theorem buildNames_ok {role : Role} {req : Req} {nm : Names}
    (hcsr : ∀ cs, req.csr = some cs → (∀ n ∈ cs.dns, n ≠ []) ∧ (∀ n ∈ cs.emails, n ≠ []))
    (h : buildNames role req = .ok nm) :
    AllNonEmpty (nm.dns, nm.emails) ∧ validateNames role.names nm.dns = [] ∧ validateNames role.names nm.emails = [] := by
  unfold buildNames at h
  simp only at h
  split at h
  · cases h
  · split at h
    · cases h
    · rename_i dns emails hcol
      have ha := collectNames_nonempty hcsr hcol
      split at h
      · cases h
      · split at h
        · cases h
        · rename_i hd
          split at h
          · cases h
          · rename_i hem
            injection h with h
            subst h
            refine ⟨ha, ?_, ?_⟩
            · simpa [namesRefused] using hd
            · simpa [namesRefused] using hem

end Obao.PKIIssue
