import Obao.Model.PKIIssue
import Obao.Proofs.PKIHost
/-! Helper lemmas for C15: from an accepted request to the names in its certificate. -/
namespace Obao.PKIIssue
open Obao.PKI Obao.PKIValidity

theorem mem_insertSorted {α : Type} (le : α → α → Bool) (x y : α) (l : List α) :
    y ∈ insertSorted le x l → y = x ∨ y ∈ l := by
  induction l with
  | nil => intro h; simp [insertSorted] at h; exact Or.inl h
  | cons z zs ih =>
    intro h
    unfold insertSorted at h
    split at h
    · rcases List.mem_cons.mp h with h | h
      · exact Or.inl h
      · exact Or.inr h
    · rcases List.mem_cons.mp h with h | h
      · exact Or.inr (h ▸ List.mem_cons_self)
      · rcases ih h with h | h
        · exact Or.inl h
        · exact Or.inr (List.mem_cons_of_mem _ h)

theorem mem_sortBy {α : Type} (le : α → α → Bool) (y : α) (l : List α) : y ∈ sortBy le l → y ∈ l := by
  induction l with
  | nil => intro h; simp [sortBy] at h
  | cons x xs ih =>
    intro h
    have h' : y ∈ insertSorted le x (sortBy le xs) := by simpa [sortBy] using h
    rcases mem_insertSorted le x y _ h' with h | h
    · exact h ▸ List.mem_cons_self
    · exact List.mem_cons_of_mem _ (ih h)

theorem mem_dedupGo (seen l : List Str) (y : Str) : y ∈ dedupGo seen l → y ∈ l := by
  induction l generalizing seen with
  | nil => intro h; simp [dedupGo] at h
  | cons x xs ih =>
    intro h
    unfold dedupGo at h
    split at h
    · exact List.mem_cons_of_mem _ (ih _ h)
    · rcases List.mem_cons.mp h with h | h
      · exact h ▸ List.mem_cons_self
      · exact List.mem_cons_of_mem _ (ih _ h)

theorem mem_dedupStable (l : List Str) (y : Str) : y ∈ dedupStable l → y ∈ l := mem_dedupGo [] l y

/-- an accepted `buildNames`: both SAN lists were handed to `validateNames`, which reported nothing -/
theorem buildNames_ok {role : Role} {req : Req} {nm : Names} (h : buildNames role req = .ok nm) :
    validateNames role.names nm.dns = [] ∧ validateNames role.names nm.emails = [] := by
  unfold buildNames at h
  simp only at h
  split at h
  · cases h
  · split at h
    · cases h
    · split at h
      · cases h
      · split at h
        · cases h
        · rename_i hd
          split at h
          · cases h
          · rename_i hem
            injection h with h
            subst h
            exact ⟨by simpa [namesRefused] using hd, by simpa [namesRefused] using hem⟩

end Obao.PKIIssue
