import Obao.Model.PKIIssue
import Obao.Proofs.PKIHost
/-! Helper lemmas for C15: from an accepted request to the names in its certificate. -/
namespace Obao.PKIIssue
open Obao.PKI Obao.PKIValidity

theorem mem_insertSorted {α : Type} (le : α → α → Bool) (x y : α) (l : List α) :
    y ∈ insertSorted le x l → y = x ∨ y ∈ l := by
  induction l with
  | nil => intro h; simp [insertSorted] at h; exact Or.inl h
  | cons z zs ih =>
    intro h
    unfold insertSorted at h
    split at h
    · rcases List.mem_cons.mp h with h | h
      · exact Or.inl h
      · exact Or.inr h
    · rcases List.mem_cons.mp h with h | h
      · exact Or.inr (h ▸ List.mem_cons_self)
      · rcases ih h with h | h
        · exact Or.inl h
        · exact Or.inr (List.mem_cons_of_mem _ h)

theorem mem_sortBy {α : Type} (le : α → α → Bool) (y : α) (l : List α) : y ∈ sortBy le l → y ∈ l := by
  induction l with
  | nil => intro h; simp [sortBy] at h
  | cons x xs ih =>
    intro h
    have h' : y ∈ insertSorted le x (sortBy le xs) := by simpa [sortBy] using h
    rcases mem_insertSorted le x y _ h' with h | h
    · exact h ▸ List.mem_cons_self
    · exact List.mem_cons_of_mem _ (ih h)

theorem mem_dedupGo (seen l : List Str) (y : Str) : y ∈ dedupGo seen l → y ∈ l := by
  induction l generalizing seen with
  | nil => intro h; simp [dedupGo] at h
  | cons x xs ih =>
    intro h
    unfold dedupGo at h
    split at h
    · exact List.mem_cons_of_mem _ (ih _ h)
    · rcases List.mem_cons.mp h with h | h
      · exact h ▸ List.mem_cons_self
      · exact List.mem_cons_of_mem _ (ih _ h)

theorem mem_dedupStable (l : List Str) (y : Str) : y ∈ dedupStable l → y ∈ l := mem_dedupGo [] l y

/-- an accepted `buildNames`: both SAN lists were handed to `validateNames`, which reported nothing, and the Subject
serialNumber — from the request parameter or from the CSR — is empty or permitted by `allowed_serial_numbers` -/
theorem buildNames_ok {role : Role} {req : Req} {nm : Names} (h : buildNames role req = .ok nm) :
    validateNames role.names nm.dns = [] ∧ validateNames role.names nm.emails = [] ∧
    nm.serial = chosenSerial req ∧ (nm.serial ≠ [] → serialAllowed role nm.serial = true) := by
  unfold buildNames at h
  simp only at h
  split at h
  · cases h
  · split at h
    · cases h
    · split at h
      · cases h
      · split at h
        · cases h
        · rename_i hs
          split at h
          · cases h
          · rename_i hd
            split at h
            · cases h
            · rename_i hem
              injection h with h
              subst h
              refine ⟨by simpa [namesRefused] using hd, by simpa [namesRefused] using hem, rfl, ?_⟩
              intro hne
              cases ha : serialAllowed role (chosenSerial req) with
              | true => rfl
              | false =>
                exfalso; apply hs
                cases hc : chosenSerial req with
                | nil => exact absurd hc hne
                | cons _ _ => simp [hc] at ha ⊢; simpa [hc] using ha

/-- what an accepted IP SAN list satisfies -/
theorem buildIPs_ok {role : Role} {req : Req} {ips : List String} (h : buildIPs role req = .ok ips) :
    (ips ≠ [] → role.allowIPSANs = true) ∧
    (role.allowedIPCIDRs ≠ [] → ∀ ip ∈ ips, ipAllowed role.allowedIPCIDRs ip = true) := by
  unfold buildIPs at h
  simp only at h
  split at h
  · contradiction
  · rename_i ips' _
    split at h
    · contradiction
    · rename_i hA
      split at h
      · contradiction
      · rename_i hB
        simp only [Except.ok.injEq] at h
        subst h
        constructor
        · intro hne
          cases hi : role.allowIPSANs with
          | true => rfl
          | false =>
            exfalso; apply hA
            cases ips' with
            | nil => exact absurd rfl hne
            | cons a t => simp [hi]
        · intro hc ip hip
          cases hall : ipAllowed role.allowedIPCIDRs ip with
          | true => rfl
          | false =>
            exfalso; apply hB
            have hne : role.allowedIPCIDRs.isEmpty = false := by
              cases hl : role.allowedIPCIDRs with
              | nil => exact absurd hl hc
              | cons _ _ => rfl
            simp only [hne, Bool.not_false, Bool.true_and, List.any_eq_true, Bool.not_eq_true']
            exact ⟨ip, hip, hall⟩

end Obao.PKIIssue
