import Obao.Model.ACLSpec
/-! C03 helper lemmas: the priority comparator `less` is a strict order whose incomparable elements carry the same
pattern, so "sort and take the last" is well defined and independent of the iteration order. -/
namespace Obao.ACLProofs
open Obao.ACL Obao.ACLSpec

theorem lexLt_irrefl (a : Path) : lexLt a a = false := by
  induction a with
  | nil => rfl
  | cons x xs ih => simp [lexLt, ih]

theorem lexLt_trans {a b c : Path} (h1 : lexLt a b = true) (h2 : lexLt b c = true) : lexLt a c = true := by
  induction a generalizing b c with
  | nil =>
    cases b with
    | nil => simp [lexLt] at h1
    | cons y ys =>
      cases c with
      | nil => simp [lexLt] at h2
      | cons z zs => simp [lexLt]
  | cons x xs ih =>
    cases b with
    | nil => simp [lexLt] at h1
    | cons y ys =>
      cases c with
      | nil => simp [lexLt] at h2
      | cons z zs =>
        simp only [lexLt] at h1 h2 ⊢
        by_cases hxy : x < y
        · by_cases hyz : y < z
          · have : x < z := by omega
            simp [this]
          · simp only [hyz, if_false] at h2
            by_cases hzy : z < y
            · simp [hzy] at h2
            · have : x < z := by omega
              simp [this]
        · simp only [hxy, if_false] at h1
          by_cases hyx : y < x
          · simp [hyx] at h1
          · simp only [hyx, if_false] at h1
            have hxy' : x = y := by omega
            subst hxy'
            by_cases hxz : x < z
            · simp [hxz]
            · simp only [hxz, if_false] at h2 ⊢
              by_cases hzx : z < x
              · simp [hzx] at h2
              · simp only [hzx, if_false] at h2 ⊢
                exact ih h1 h2

theorem lexLt_connex {a b : Path} (h1 : lexLt a b = false) (h2 : lexLt b a = false) : a = b := by
  induction a generalizing b with
  | nil =>
    cases b with
    | nil => rfl
    | cons y ys => simp [lexLt] at h1
  | cons x xs ih =>
    cases b with
    | nil => simp [lexLt] at h2
    | cons y ys =>
      simp only [lexLt] at h1 h2
      by_cases hxy : x < y
      · simp [hxy] at h1
      · by_cases hyx : y < x
        · simp [hyx] at h2
        · simp only [hxy, hyx, if_false] at h1 h2
          have : x = y := by omega
          subst this
          rw [ih h1 h2]

/-- `0` for patterns ending in `*`, `1` otherwise -/
def pr (d : Descr) : Nat := if d.isPrefix then 0 else 1

/-- strictly lower priority by one of the first four documented criteria -/
def lessNum (a b : Descr) : Prop :=
  a.firstWC < b.firstWC ∨ (a.firstWC = b.firstWC ∧ (pr a < pr b ∨ (pr a = pr b ∧
    (b.wildcards < a.wildcards ∨ (a.wildcards = b.wildcards ∧ a.wcPath.length < b.wcPath.length)))))

def eqNum (a b : Descr) : Prop :=
  a.firstWC = b.firstWC ∧ pr a = pr b ∧ a.wildcards = b.wildcards ∧ a.wcPath.length = b.wcPath.length

theorem less_iff (a b : Descr) :
    less a b = true ↔ lessNum a b ∨ (eqNum a b ∧ lexLt a.wcPath b.wcPath = true) := by
  unfold less lessNum eqNum pr
  cases a.isPrefix <;> cases b.isPrefix <;> simp only [Bool.and_true, Bool.and_false, Bool.not_true, Bool.not_false,
    Bool.false_eq_true, if_false, if_true, Bool.true_and, Bool.false_and] <;>
  (repeat' split) <;> simp_all <;> omega

theorem less_irrefl (a : Descr) : less a a = false := by
  rw [Bool.eq_false_iff, Ne, less_iff]
  unfold lessNum eqNum
  rw [lexLt_irrefl]
  intro h
  rcases h with h | ⟨_, h⟩
  · omega
  · exact absurd h (by decide)

theorem less_trans {a b c : Descr} (h1 : less a b = true) (h2 : less b c = true) : less a c = true := by
  rw [less_iff] at h1 h2 ⊢
  unfold lessNum eqNum at *
  rcases h1 with h1 | ⟨h1, l1⟩
  · rcases h2 with h2 | ⟨h2, _⟩
    · left; omega
    · left; omega
  · rcases h2 with h2 | ⟨h2, l2⟩
    · left; omega
    · right; exact ⟨by omega, lexLt_trans l1 l2⟩

/-- two candidates neither of which has lower priority than the other are the same pattern -/
theorem less_incomparable {a b : Descr} (h1 : less a b = false) (h2 : less b a = false) :
    a.firstWC = b.firstWC ∧ a.isPrefix = b.isPrefix ∧ a.wildcards = b.wildcards ∧ a.wcPath = b.wcPath := by
  rw [Bool.eq_false_iff, Ne, less_iff] at h1 h2
  unfold lessNum eqNum at *
  have hnum : a.firstWC = b.firstWC ∧ pr a = pr b ∧ a.wildcards = b.wildcards ∧ a.wcPath.length = b.wcPath.length := by
    omega
  have hl1 : lexLt a.wcPath b.wcPath = false := by
    rw [Bool.eq_false_iff]; intro hc; exact h1 (Or.inr ⟨hnum, hc⟩)
  have hl2 : lexLt b.wcPath a.wcPath = false := by
    rw [Bool.eq_false_iff]; intro hc; exact h2 (Or.inr ⟨by omega, hc⟩)
  refine ⟨hnum.1, ?_, hnum.2.2.1, lexLt_connex hl1 hl2⟩
  have := hnum.2.1
  unfold pr at this
  cases ha : a.isPrefix <;> cases hb : b.isPrefix <;> simp_all

/-! ### "sort by `lt` and take the last" as a fold -/

def foldMaxStep {α : Type} (lt : α → α → Bool) (best : Option α) (d : α) : Option α :=
  match best with
  | none => some d
  | some b => if lt b d then some d else some b

def foldMax {α : Type} (lt : α → α → Bool) (l : List α) : Option α := l.foldl (foldMaxStep lt) none

theorem pickMax_eq_foldMax (ds : List Descr) : pickMax ds = foldMax less ds := by
  unfold pickMax foldMax
  congr
  funext best d
  cases best <;> rfl

theorem pickBest_eq_foldMax (cs : List (Descr × Kind × Path)) :
    pickBest cs = foldMax (fun b c => less b.1 c.1) cs := by
  unfold pickBest foldMax
  congr
  funext best d
  cases best <;> rfl

theorem foldMax_aux {α : Type} (lt : α → α → Bool) (hirr : ∀ a, lt a a = false)
    (htr : ∀ a b c, lt a b = true → lt b c = true → lt a c = true) (l : List α) (b : α) (seen : List α)
    (hb : b ∈ seen) (hmax : ∀ y ∈ seen, lt b y = false) :
    ∃ x, l.foldl (foldMaxStep lt) (some b) = some x ∧ x ∈ seen ++ l ∧ ∀ y ∈ seen ++ l, lt x y = false := by
  induction l generalizing b seen with
  | nil => exact ⟨b, rfl, by simpa using hb, by simpa using hmax⟩
  | cons d rest ih =>
    simp only [List.foldl_cons, foldMaxStep]
    by_cases hlt : lt b d = true
    · simp only [hlt, if_true]
      have := ih d (seen ++ [d]) (by simp) (by
        intro y hy
        rcases List.mem_append.mp hy with hy | hy
        · rw [Bool.eq_false_iff]; intro hc
          have := htr b d y hlt hc
          rw [hmax y hy] at this; exact absurd this (by decide)
        · simp at hy; subst hy; exact hirr _)
      simpa using this
    · have hlt' : lt b d = false := by simpa using hlt
      simp only [hlt', Bool.false_eq_true, if_false]
      have := ih b (seen ++ [d]) (by simp [hb]) (by
        intro y hy
        rcases List.mem_append.mp hy with hy | hy
        · exact hmax y hy
        · simp at hy; subst hy; exact hlt')
      simpa using this

theorem foldMax_spec {α : Type} (lt : α → α → Bool) (hirr : ∀ a, lt a a = false)
    (htr : ∀ a b c, lt a b = true → lt b c = true → lt a c = true) (l : List α) :
    (l = [] ∧ foldMax lt l = none) ∨ ∃ x, foldMax lt l = some x ∧ x ∈ l ∧ ∀ y ∈ l, lt x y = false := by
  cases l with
  | nil => left; exact ⟨rfl, rfl⟩
  | cons d rest =>
    right
    have := foldMax_aux lt hirr htr rest d [d] (by simp) (by intro y hy; simp at hy; subst hy; exact hirr _)
    simpa [foldMax, foldMaxStep] using this

end Obao.ACLProofs
