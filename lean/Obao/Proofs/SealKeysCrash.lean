import Obao.Proofs.SealKeysRun
/-! C10 — crash prefixes of `persistKeyring`, and the upgrade walk (`performKeyUpgrades`) of a standby / new leader. -/
namespace Obao.SealKeys

/-- the root-key entry holds the root key `r` (under whatever term) -/
def RootIs (p : Phys) (r : Key) : Prop := ∃ t ak, p.get .rootKey = some (.enc t ak .rootKey (.val (.keyrec 1 r)))

theorem Coherent.rootIs {p rk KR} (h : Coherent p rk KR) : RootIs p rk := by
  obtain ⟨ak, _, h2⟩ := h; exact ⟨_, ak, h2⟩

/-- the three writes of `persistKeyring nkr` -/
def persistWs (nkr : Keyring) (ak : Key) : List PWrite :=
  [.put .keyring (.enc 1 nkr.root .keyring (.keyring nkr)),
   .put .rootKey (.enc nkr.active ak .rootKey (.val (.keyrec 1 nkr.root))), .del .legacy]

theorem persist_eq (nkr : Keyring) (ak : Key) (hroot : nkr.root.aesOK = true) (hak : nkr.termKey nkr.active = some ak)
    (hok : ak.aesOK = true) : persist nkr = (persistWs nkr ak, .ok) := by
  simp [persist, persistWs, hroot, hak, hok]

/-- the writes of `persistKeyring nkr` on a barrier with `ns`: no legacy delete on a namespace barrier -/
def persistWsNs (ns : Bool) (nkr : Keyring) (ak : Key) : List PWrite :=
  .put .keyring (.enc 1 nkr.root .keyring (.keyring nkr)) ::
   .put .rootKey (.enc nkr.active ak .rootKey (.val (.keyrec 1 nkr.root))) :: legacyDel ns

theorem persistWsNs_false (nkr : Keyring) (ak : Key) : persistWsNs false nkr ak = persistWs nkr ak := rfl

theorem persistNs_ok (ns : Bool) (nkr : Keyring) (ak : Key) (hroot : nkr.root.aesOK = true)
    (hak : nkr.termKey nkr.active = some ak) (hok : ak.aesOK = true) :
    persistNs ns nkr = (persistWsNs ns nkr ak, .ok) := by
  simp [persistNs_eq, persistWsNs, hroot, hak, hok]

theorem legacyDel_take_succ (ns : Bool) (n : Nat) : (legacyDel ns).take (n + 1) = legacyDel ns := by
  cases ns <;> simp [legacyDel]

/-- Consistency after EVERY prefix of the writes of `persistKeyring nkr`, when `nkr` extends the stored keyring:
before the first write the old root key opens the store, after it the root key of `nkr` does; after the first
write and before the second the root-key entry still names the OLD root key. -/
theorem persist_prefix {p sh rk KR} (ns : Bool) (h : PInv p sh rk KR) (hc : Coherent p rk KR) (nkr : Keyring) (ak : Key)
    (hsub : KR.Sub nkr) (hwf : nkr.WF) (hroot : nkr.root.aesOK = true) (hak : nkr.termKey nkr.active = some ak) (k : Nat) :
    let p' := applyWrites p ((persistWsNs ns nkr ak).take k)
    (k = 0 → PInv p' sh rk KR ∧ RootIs p' rk) ∧
    (k = 1 → PInv p' sh nkr.root nkr ∧ RootIs p' rk) ∧
    (2 ≤ k → PInv p' sh nkr.root nkr ∧ Coherent p' nkr.root nkr) := by
  have h1 := h.put_keyring nkr.root nkr hsub rfl hroot hwf
  have h2 := h1.put_meta .rootKey nkr.active ak (.val (.keyrec 1 nkr.root)) (by simp) (by simp) hak
    (fun _ => ⟨_, rfl⟩) (by intro u hu; cases hu)
  have h3 := h2.legTail ns
  refine ⟨?_, ?_, ?_⟩
  · intro hk; subst hk; simp [persistWsNs, applyWrites]; exact ⟨h, hc.rootIs⟩
  · intro hk; subst hk
    simp [persistWsNs, applyWrites, applyWrite]
    refine ⟨h1, ?_⟩
    obtain ⟨t, ak0, hr⟩ := hc.rootIs
    exact ⟨t, ak0, by rw [get_put_other _ _ _ _ (by simp)]; exact hr⟩
  · intro hk
    match k, hk with
    | 2, _ =>
      simp [persistWsNs, applyWrites, applyWrite]
      exact ⟨h2, ak, hak, get_put_same _ _ _⟩
    | (n + 3), _ =>
      simp only [persistWsNs, List.take_succ_cons, legacyDel_take_succ, applyWrites, List.foldl_cons,
        foldl_legacyDel, applyWrite]
      exact ⟨h3, ak, hak, by rw [get_legTail_other _ _ _ (by simp), get_put_same]⟩

/-! ### the upgrade walk -/

theorem chk_absent {p : Phys} (ns : Bool) (fk : Key) (b : Barrier) (kr : Keyring) (hs : b.sealed = false)
    (hkr : b.keyring = some kr) (hg : p.get (.upgrade kr.active) = none) :
    step ns p b fk .chkupgrade = { bar := b, res := .okUp false 0 } := by
  simp [step, hs, hkr, readEntry, hg]

/-- a fresh barrier that holds the whole stored keyring finds no upgrade to walk -/
theorem chkLoop_full {p sh rk KR} (h : PInv p sh rk KR) (n : Nat) (b : Barrier) (hs : b.sealed = false)
    (hkr : b.keyring = some KR) : chkLoop p (n + 1) b = (b, .okUp false 0) := by
  have hg : p.get (.upgrade KR.active) = none := by
    cases hx : p.get (.upgrade KR.active) with
    | none => rfl
    | some e =>
      obtain ⟨_, k', _, hk'⟩ := h.ups _ _ hx
      have := (h.wf.2 _ _ hk').2.1; omega
  simp [chkLoop, chk_absent false (termKeyN 0) b KR hs hkr hg]

/-- `performKeyUpgrades` on a barrier holding the stored keyring, when the root-key entry names the root key `r`:
fine when `r` is the key the keyring is stored under, `ErrBarrierInvalidKey` (or a cipher error) otherwise. -/
theorem follow_full {p sh rk KR} (h : PInv p sh rk KR) (r : Key) (hr : RootIs p r) (n : Nat) (b : Barrier)
    (hs : b.sealed = false) (hkr : b.keyring = some KR) :
    (r = rk → (follow p (n + 1) b).2 = [.okUp false 0, .ok, .ok] ∧ (follow p (n + 1) b).1.keyring = some KR) ∧
    (r ≠ rk → (follow p (n + 1) b).2 = [.okUp false 0, .ok, if r.aesOK then .invalidKey else .cipher]) := by
  obtain ⟨t, ak, hre⟩ := hr
  obtain ⟨t', k', pl', he, hk'⟩ := h.dec .rootKey _ (by simp) (by simp) (by simp) hre
  cases he
  have hroot := h.root
  constructor
  · intro hrr; subst hrr
    simp [follow, chkLoop_full h n b hs hkr, step, hs, hkr, readEntry, hre, hk', hroot, h.rkOK, h.kr]
  · intro hne
    have hne' : ¬ KR.root = r := by rw [hroot]; exact fun x => hne x.symm
    by_cases hok : r.aesOK = true
    · simp [follow, chkLoop_full h n b hs hkr, step, hs, hkr, readEntry, hre, hk', hne', hok, h.kr, Ne.symm hne]
    · simp [follow, chkLoop_full h n b hs hkr, step, hs, hkr, readEntry, hre, hk', hne', hok]

theorem chk_present {p sh rk KR S} (h : PInv p sh rk KR) (ns : Bool) (fk : Key) (b : Barrier) (kr : Keyring)
    (hs : b.sealed = false) (hkr : b.keyring = some kr) (hsub : SubK S b KR) (e0 : PEntry)
    (hg : p.get (.upgrade kr.active) = some e0) :
    ∃ k', step ns p b fk .chkupgrade =
      { bar := { b with keyring := some { kr with keys := kr.keys ++ [(kr.active + 1, k')], active := kr.active + 1 } },
        res := .okUp true (kr.active + 1) } := by
  obtain ⟨h1, h2, ⟨ak, h3⟩, _⟩ := hsub kr hkr
  obtain ⟨k, k', he, _⟩ := h.ups _ _ hg
  obtain ⟨t2, k2, pl2, he2, hk2⟩ := h.dec _ _ (by simp) (by simp) (by simp) hg
  rw [he] at he2; cases he2
  have hkak : ak = k := by have := h1 _ _ h3; rw [hk2] at this; cases this; rfl
  subst hkak
  have hnone : kr.termKey (kr.active + 1) = none := by
    cases hx : kr.termKey (kr.active + 1) with
    | none => rfl
    | some k0 => have := h2 _ _ hx; omega
  subst he
  exact ⟨k', by simp [step, hs, hkr, readEntry, hg, h3, Keyring.addKey, hnone]⟩

theorem chkLoop_walk {p sh rk KR S} (h : PInv p sh rk KR) (hc : Coherent p rk KR) (hrk : rk ∈ S) :
    ∀ (d : Nat) (b : Barrier) (kr : Keyring), b.sealed = false → b.keyring = some kr → SealedIff b → SubK S b KR →
      KR.active - kr.active = d →
      (∀ t, kr.active ≤ t → t < KR.active → p.get (.upgrade t) ≠ none) →
      ∀ n, d ≤ n → ∃ b' kr', chkLoop p (n + 1) b = (b', .okUp false 0) ∧ b'.sealed = false ∧
        b'.keyring = some kr' ∧ kr'.active = KR.active ∧ SubK S b' KR := by
  intro d
  induction d with
  | zero =>
    intro b kr hs hkr _ hsub hd _ n _
    obtain ⟨h1, _, ⟨ak, h3⟩, _⟩ := hsub kr hkr
    have hle : kr.active ≤ KR.active := (h.wf.2 _ _ (h1 _ _ h3)).2.1
    have heq : kr.active = KR.active := by omega
    have hg : p.get (.upgrade kr.active) = none := by
      cases hx : p.get (.upgrade kr.active) with
      | none => rfl
      | some e =>
        obtain ⟨_, k', _, hk'⟩ := h.ups _ _ hx
        have := (h.wf.2 _ _ hk').2.1; omega
    exact ⟨b, kr, by simp [chkLoop, chk_absent false (termKeyN 0) b kr hs hkr hg], hs, hkr, heq, hsub⟩
  | succ d ih =>
    intro b kr hs hkr hsi hsub hd hup n hn
    have hlt : kr.active < KR.active := by omega
    cases hg : p.get (.upgrade kr.active) with
    | none => exact absurd hg (hup _ (Nat.le_refl _) hlt)
    | some e0 =>
      obtain ⟨k', hstep⟩ := chk_present h false (termKeyN 0) b kr hs hkr hsub e0 hg
      obtain ⟨_, _, g3, g4, _⟩ := step_chkupgrade false (termKeyN 0) b h hc hrk hsi hsub
      rw [hstep] at g3 g4
      simp only [applyWrites] at g3 g4
      obtain ⟨m, rfl⟩ : ∃ m, n = m + 1 := ⟨n - 1, by omega⟩
      have := ih _ _ (by simpa using hs) rfl g3 g4 (by simp; omega)
        (by intro t ht1 ht2; exact hup t (by simp at ht1; omega) ht2) m (by omega)
      obtain ⟨b', kr', e1, e2, e3, e4, e5⟩ := this
      refine ⟨b', kr', ?_, e2, e3, e4, e5⟩
      rw [chkLoop, hstep]
      simpa using e1

/-- the same walk, tracking WHICH keys the standby ends up with: it keeps every key it had and gains, for every term
from its own active term up to the stored active term, exactly the stored keyring's key of that term -/
theorem chkLoop_gain {p sh rk KR S} (h : PInv p sh rk KR) (hc : Coherent p rk KR) (hrk : rk ∈ S) :
    ∀ (d : Nat) (b : Barrier) (kr : Keyring), b.sealed = false → b.keyring = some kr → SealedIff b → SubK S b KR →
      KR.active - kr.active = d →
      (∀ t, kr.active ≤ t → t < KR.active → p.get (.upgrade t) ≠ none) →
      ∀ n, d ≤ n → ∃ b' kr', chkLoop p (n + 1) b = (b', .okUp false 0) ∧ b'.keyring = some kr' ∧ kr'.active = KR.active ∧
        (∀ t k, kr.termKey t = some k → kr'.termKey t = some k) ∧
        (∀ t, kr.active ≤ t → t ≤ KR.active → kr'.termKey t = KR.termKey t) := by
  intro d
  induction d with
  | zero =>
    intro b kr hs hkr _ hsub hd _ n _
    obtain ⟨h1, _, ⟨ak, h3⟩, _⟩ := hsub kr hkr
    have hle : kr.active ≤ KR.active := (h.wf.2 _ _ (h1 _ _ h3)).2.1
    have heq : kr.active = KR.active := by omega
    have hg : p.get (.upgrade kr.active) = none := by
      cases hx : p.get (.upgrade kr.active) with
      | none => rfl
      | some e =>
        obtain ⟨_, k', _, hk'⟩ := h.ups _ _ hx
        have := (h.wf.2 _ _ hk').2.1; omega
    refine ⟨b, kr, by simp [chkLoop, chk_absent false (termKeyN 0) b kr hs hkr hg], hkr, heq, fun _ _ x => x, ?_⟩
    intro t ht1 ht2
    have : t = kr.active := by omega
    subst this
    rw [h3, h1 _ _ h3]
  | succ d ih =>
    intro b kr hs hkr hsi hsub hd hup n hn
    have hlt : kr.active < KR.active := by omega
    obtain ⟨h1, h2, ⟨ak, h3⟩, _⟩ := hsub kr hkr
    have hnone : kr.termKey (kr.active + 1) = none := by
      cases hx : kr.termKey (kr.active + 1) with
      | none => rfl
      | some k0 => have := h2 _ _ hx; omega
    cases hg : p.get (.upgrade kr.active) with
    | none => exact absurd hg (hup _ (Nat.le_refl _) hlt)
    | some e0 =>
      obtain ⟨k', hstep⟩ := chk_present h false (termKeyN 0) b kr hs hkr hsub e0 hg
      obtain ⟨_, _, g3, g4, _⟩ := step_chkupgrade false (termKeyN 0) b h hc hrk hsi hsub
      rw [hstep] at g3 g4
      simp only [applyWrites] at g3 g4
      obtain ⟨m, rfl⟩ : ∃ m, n = m + 1 := ⟨n - 1, by omega⟩
      have := ih _ _ (by simpa using hs) rfl g3 g4 (by simp; omega)
        (by intro t ht1 ht2; exact hup t (by simp at ht1; omega) ht2) m (by omega)
      obtain ⟨b', kr', e1, e3, e4, e6, e7⟩ := this
      have hold : ∀ t k, kr.termKey t = some k →
          ({ kr with keys := kr.keys ++ [(kr.active + 1, k')], active := kr.active + 1 } : Keyring).termKey t = some k := by
        intro t k hk
        rw [termKey_append kr _ _ _ k' hnone]
        by_cases ht : t = kr.active + 1
        · subst ht; rw [hnone] at hk; cases hk
        · simp [ht, hk]
      refine ⟨b', kr', ?_, e3, e4, fun t k hk => e6 t k (hold t k hk), ?_⟩
      · rw [chkLoop, hstep]; simpa using e1
      · intro t ht1 ht2
        by_cases hta : t = kr.active
        · subst hta
          rw [e6 _ _ (hold _ _ h3), h1 _ _ h3]
        · exact e7 t (by simp; omega) ht2

/-- a standby that finds every upgrade it needs ends `performKeyUpgrades` with the stored keyring -/
theorem standby_walk {p sh rk KR S} (h : PInv p sh rk KR) (hc : Coherent p rk KR) (hrk : rk ∈ S)
    (b : Barrier) (kr : Keyring) (hs : b.sealed = false) (hkr : b.keyring = some kr) (hsi : SealedIff b)
    (hsub : SubK S b KR) (hup : ∀ t, kr.active ≤ t → t < KR.active → p.get (.upgrade t) ≠ none)
    (n : Nat) (hn : KR.active - kr.active ≤ n) :
    (follow p (n + 1) b).2 = [.okUp false 0, .ok, .ok] ∧ (follow p (n + 1) b).1.keyring = some KR ∧
    (follow p (n + 1) b).1.sealed = false := by
  obtain ⟨b', kr', e1, e2, e3, e4, e5⟩ := chkLoop_walk h hc hrk _ b kr hs hkr hsi hsub rfl hup n hn
  obtain ⟨h1, _, ⟨k0, h3⟩, _⟩ := e5 kr' e3
  obtain ⟨ak, hak, hre⟩ := hc
  rw [e4] at h3
  have : k0 = ak := by have := h1 _ _ h3; rw [hak] at this; cases this; rfl
  subst this
  by_cases hr : kr'.root = rk
  · simp [follow, e1, step, e2, e3, readEntry, hre, h3, hr, h.rkOK, h.kr]
  · simp [follow, e1, step, e2, e3, readEntry, hre, h3, hr, h.rkOK, h.kr]

/-- observable meaning of consistency: ANY sealed barrier over store `p` unseals with `rk` and then reads every
key of `sh` back with its last value (and nothing else) -/
def Readable (ns : Bool) (p : Phys) (sh : List (String × String)) (rk : Key) : Prop :=
  ∀ (fk : Key) (b : Barrier), b.sealed = true →
    (step ns p b fk (.unsealB rk)).res = .ok ∧ (step ns p b fk (.unsealB rk)).bar.sealed = false ∧
    ∀ s, (step ns p (step ns p b fk (.unsealB rk)).bar fk (.get (.data s))).res =
      match sh.lookup s with
      | some v => .okPayload (.val (.bytes v))
      | none => .absent

theorem readable_of_pinv {p sh rk KR} (h : PInv p sh rk KR) (ns : Bool) : Readable ns p sh rk := by
  intro fk b hs
  rw [unseal_ok h ns fk b hs]
  exact ⟨rfl, rfl, fun s => get_readable h ns fk _ rfl rfl s⟩

section prefixes
variable {p : Phys} {sh : List (String × String)} {rk : Key} {KR : Keyring} {S : List Key}
variable (ns : Bool) (fk : Key) (b : Barrier)
variable (h : PInv p sh rk KR) (hc : Coherent p rk KR) (hrk : rk ∈ S) (hsi : SealedIff b) (hsub : SubK S b KR)
variable (hsy : SyncK b KR)
include h hc hrk hsi hsub hsy

/-- every crash prefix of `Rotate` on the active node -/
theorem rotate_prefix (hfk : fk.aesOK = true) (k : Nat) :
    let p' := applyWrites p ((step ns p b fk .rotate).writes.take k)
    ∃ rk' KR', rk' ∈ S ∧ PInv p' sh rk' KR' ∧ ((∀ kr, b.keyring = some kr → kr.root = rk) → RootIs p' rk') := by
  have same : ∃ rk' KR', rk' ∈ S ∧ PInv p sh rk' KR' ∧ ((∀ kr, b.keyring = some kr → kr.root = rk) → RootIs p rk') :=
    ⟨rk, KR, hrk, h, fun _ => hc.rootIs⟩
  by_cases hs : b.sealed = true
  · have hw : (step ns p b fk .rotate).writes = [] := by simp [step, hs]
    rw [hw]; simp only [List.take_nil, applyWrites, List.foldl_nil]; exact same
  · obtain ⟨kr, hkr⟩ := unsealed_has_keyring hsi hs
    obtain ⟨hk, ha⟩ := hsy kr hkr
    obtain ⟨_, _, _, h4⟩ := hsub kr hkr
    have krwf : kr.WF := WF_congr hk ha h.wf
    have hnone : kr.termKey (kr.active + 1) = none := by
      cases hx : kr.termKey (kr.active + 1) with
      | none => rfl
      | some k0 => have := (krwf.2 _ _ hx).2.1; omega
    let nkr : Keyring := { kr with keys := kr.keys ++ [(kr.active + 1, fk)], active := kr.active + 1 }
    have hact : nkr.termKey nkr.active = some fk := by
      show nkr.termKey (kr.active + 1) = some fk
      rw [termKey_append kr _ _ _ fk hnone]; simp
    have hsubK : KR.Sub nkr := by
      intro t k0 hk0
      rw [← termKey_congr hk] at hk0
      exact sub_next kr krwf fk t k0 hk0
    by_cases hroot : kr.root.aesOK = true
    · have hw : (step ns p b fk .rotate).writes = persistWsNs ns nkr fk := by
        simp [step, hs, hkr, addKey_next kr krwf fk, persistNs_ok ns nkr fk hroot hact hfk, nkr]
      rw [hw]
      obtain ⟨c0, c1, c2⟩ := persist_prefix ns h hc nkr fk hsubK (wf_next kr krwf fk hfk) hroot hact k
      match k with
      | 0 => exact ⟨rk, KR, hrk, (c0 rfl).1, fun _ => (c0 rfl).2⟩
      | 1 => exact ⟨kr.root, nkr, h4, (c1 rfl).1, fun hr => by rw [hr kr hkr]; exact (c1 rfl).2⟩
      | (n + 2) => exact ⟨kr.root, nkr, h4, (c2 (by omega)).1, fun _ => (c2 (by omega)).2.rootIs⟩
    · have hw : (step ns p b fk .rotate).writes = [] := by
        simp [step, hs, hkr, addKey_next kr krwf fk, persistNs_eq, hroot]
      rw [hw]; simp only [List.take_nil, applyWrites, List.foldl_nil]; exact same

/-- every crash prefix of `RotateRootKey nk` on the active node: consistent under the old root key before the first
write and under `nk` after it; the root-key entry names the key the store opens with EXCEPT after exactly one write -/
theorem rotroot_prefix (nk : Key) (k : Nat) :
    let p' := applyWrites p ((step ns p b fk (.rotroot nk)).writes.take k)
    ∃ rk' KR', (rk' = rk ∨ rk' = nk) ∧ PInv p' sh rk' KR' ∧ (k ≠ 1 → RootIs p' rk') ∧
      (k = 1 → (step ns p b fk (.rotroot nk)).res = .ok → rk' = nk ∧ RootIs p' rk) := by
  have same : ∀ r : Res, r ≠ .ok → ∃ rk' KR', (rk' = rk ∨ rk' = nk) ∧ PInv p sh rk' KR' ∧ (k ≠ 1 → RootIs p rk') ∧
      (k = 1 → r = Res.ok → rk' = nk ∧ RootIs p rk) :=
    fun r hr => ⟨rk, KR, Or.inl rfl, h, fun _ => hc.rootIs, fun _ hh => absurd hh hr⟩
  by_cases hs : b.sealed = true
  · have hw : (step ns p b fk (.rotroot nk)).writes = [] := by simp [step, hs]
    have hr : (step ns p b fk (.rotroot nk)).res = .sealed := by simp [step, hs]
    rw [hw, hr]; simp only [List.take_nil, applyWrites, List.foldl_nil]; exact same _ (by simp)
  · by_cases hsz : nk.sizeOK = true
    · obtain ⟨kr, hkr⟩ := unsealed_has_keyring hsi hs
      obtain ⟨hk, ha⟩ := hsy kr hkr
      have krwf : kr.WF := WF_congr hk ha h.wf
      obtain ⟨ak, hak⟩ := krwf.1
      have hakok : ak.aesOK = true := (krwf.2 _ _ hak).1
      let nkr : Keyring := { kr with root := nk }
      have hsubK : KR.Sub nkr := by
        intro t k0 hk0
        rw [← termKey_congr hk] at hk0
        exact hk0
      have wf' : nkr.WF := WF_congr rfl rfl krwf
      have hak' : nkr.termKey nkr.active = some ak := hak
      by_cases hroot : nk.aesOK = true
      · have hw : (step ns p b fk (.rotroot nk)).writes = persistWsNs ns nkr ak := by
          simp [step, hs, hsz, hkr, persistNs_ok ns nkr ak hroot hak' hakok, nkr]
        have hr : (step ns p b fk (.rotroot nk)).res = .ok := by
          simp [step, hs, hsz, hkr, persistNs_ok ns nkr ak hroot hak' hakok, nkr]
        rw [hw, hr]
        obtain ⟨c0, c1, c2⟩ := persist_prefix ns h hc nkr ak hsubK wf' hroot hak' k
        match k with
        | 0 => exact ⟨rk, KR, Or.inl rfl, (c0 rfl).1, fun _ => (c0 rfl).2, fun hh => by cases hh⟩
        | 1 => exact ⟨nk, nkr, Or.inr rfl, (c1 rfl).1, fun hh => absurd rfl hh, fun _ _ => ⟨rfl, (c1 rfl).2⟩⟩
        | (n + 2) => exact ⟨nk, nkr, Or.inr rfl, (c2 (by omega)).1, fun _ => (c2 (by omega)).2.rootIs, fun hh => by omega⟩
      · have hw : (step ns p b fk (.rotroot nk)).writes = [] := by
          simp [step, hs, hsz, hkr, persistNs_eq, hroot]
        have hr : (step ns p b fk (.rotroot nk)).res = .cipher := by
          simp [step, hs, hsz, hkr, persistNs_eq, hroot]
        rw [hw, hr]; simp only [List.take_nil, applyWrites, List.foldl_nil]; exact same _ (by simp)
    · have hw : (step ns p b fk (.rotroot nk)).writes = [] := by simp [step, hs, hsz]
      have hr : (step ns p b fk (.rotroot nk)).res = .keySize := by simp [step, hs, hsz]
      rw [hw, hr]; simp only [List.take_nil, applyWrites, List.foldl_nil]; exact same _ (by simp)

end prefixes

end Obao.SealKeys
