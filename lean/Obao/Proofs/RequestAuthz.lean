import Obao.Model.RequestAuthz
/-!
Specification predicates and helper lemmas for C02 (`Obao/Props/C02.lean` holds only the property theorems).

`Live s r t`       — token `t` is the one the request presents and it is alive in state `s` for this connection;
`PolicyAllows s r t` — the policies attached to `t` in the CURRENT state allow the operation (sudo on root paths);
`Authorized s r`   — the disjunct "carries a live token and an allowing policy" of the property.
-/
namespace Obao.RequestAuthz

/-- the token the request carries exists, is unrevoked, within its use count, unexpired, matches its bound CIDRs and
belongs to an enabled entity -/
structure Live (s : State) (r : Request) (t : Token) : Prop where
  presented : r.tok = .valid t.label
  stored : s.findToken t.label = some t
  notRevoked : t.revoked = false
  withinUses : 0 ≤ t.numUses
  unexpired : t.rootTTL0 = true ∨ t.expired = false
  cidr : t.rootTTL0 = false → t.cidrBound = true → r.remote = .inCidr
  entityEnabled : ∀ e, t.entity = some e → s.disabled.contains e = false

/-- the ACL built from the policies `t` names, as they are in `s`, allows the request (and grants sudo when the path is
root-protected; `help` is exempt from the sudo requirement, as in `performPolicyChecks`) -/
def PolicyAllows (s : State) (r : Request) (t : Token) : Prop :=
  t.policies = ["root"] ∨
  ((aclAllowOperation (s.rulesOf t) (effOp r.op) (s.existAdjust r.op r.path)).allowed = true ∧
   (s.rootPath r.path = true → effOp r.op ≠ .help →
      (aclAllowOperation (s.rulesOf t) (effOp r.op) (s.existAdjust r.op r.path)).rootPrivs = true))

def Authorized (s : State) (r : Request) : Prop := ∃ t, Live s r t ∧ PolicyAllows s r t

/-- events that show a backend was reached or its storage touched -/
def Ev.isEffect : Ev → Bool
  | .route .. | .handler .. | .storePut .. | .storeDel .. => true
  | _ => false

/-! ### small facts -/

theorem findToken_label {s : State} {l : String} {t : Token} (h : s.findToken l = some t) : t.label = l := by
  unfold State.findToken at h
  have := List.find?_some h
  simpa using this

theorem lookupOk_iff (t : Token) :
    t.lookupOk = true ↔ t.revoked = false ∧ 0 ≤ t.numUses ∧ (t.rootTTL0 = true ∨ t.expired = false) := by
  unfold Token.lookupOk
  by_cases h1 : t.revoked = true <;> by_cases h2 : t.numUses < 0 <;> by_cases h3 : t.rootTTL0 = true <;>
    simp [h1, h2, h3] <;> omega

theorem cidrCheck_iff (t : Token) (rm : Remote) :
    cidrCheck t rm = true ↔ (t.rootTTL0 = false → t.cidrBound = true → rm = .inCidr) := by
  unfold cidrCheck
  by_cases h1 : t.rootTTL0 = true <;> by_cases h2 : t.cidrBound = true <;> simp [h1, h2]

theorem entOff_false_iff (s : State) (t : Token) :
    s.entOff t = false ↔ ∀ e, t.entity = some e → s.disabled.contains e = false := by
  unfold State.entOff
  cases h : t.entity <;> simp

theorem policyChecks_iff (s : State) (r : Request) (t : Token) :
    policyChecks t.isRootAcl (s.rulesOf t) (effOp r.op) (s.existAdjust r.op r.path) (s.rootPath r.path) = true
      ↔ PolicyAllows s r t := by
  unfold policyChecks PolicyAllows Token.isRootAcl
  by_cases hr : t.policies = ["root"]
  · simp [hr]
  · have : (t.policies == ["root"]) = false := by simpa using hr
    simp only [this, hr, false_or]
    generalize aclAllowOperation (s.rulesOf t) (effOp r.op) (s.existAdjust r.op r.path) = a
    cases ha : a.allowed <;> cases hp : a.rootPrivs <;> cases hq : s.rootPath r.path <;>
      by_cases hh : effOp r.op = .help <;> simp [hh]

/-- on an authenticated path `fetch` returns exactly the live-but-for-the-entity token -/
theorem fetch_false_some {s : State} {r : Request} {t : Token} (h : s.fetch r false = some t) :
    r.tok = .valid t.label ∧ s.findToken t.label = some t ∧ t.lookupOk = true ∧ cidrCheck t r.remote = true := by
  unfold State.fetch at h
  split at h
  · contradiction
  · split at h
    · contradiction
    · rename_i t' hres
      split at h
      · rename_i hc
        cases h
        unfold State.resolve at hres
        split at hres
        · rename_i l
          rw [Option.filter_eq_some_iff] at hres
          obtain ⟨hf, hl⟩ := hres
          have := findToken_label hf
          subst this
          exact ⟨by assumption, hf, hl, hc⟩
        · rename_i l
          split at hres <;> simp at hres
        · contradiction
      · contradiction

theorem fetch_false_of_live {s : State} {r : Request} {t : Token} (h : Live s r t) : s.fetch r false = some t := by
  unfold State.fetch
  have hp := h.presented
  simp only [hp]
  have hl : t.lookupOk = true := (lookupOk_iff t).2 ⟨h.notRevoked, h.withinUses, h.unexpired⟩
  have hc : cidrCheck t r.remote = true := (cidrCheck_iff t r.remote).2 h.cidr
  simp [State.resolve, h.stored, Option.filter, hl, hc]

/-- `checkOk` is exactly "entity enabled ∧ policies allow" -/
theorem checkOk_iff (s : State) (r : Request) (t : Token) :
    s.checkOk r t = true ↔ (∀ e, t.entity = some e → s.disabled.contains e = false) ∧ PolicyAllows s r t := by
  unfold State.checkOk
  rw [Bool.and_eq_true, policyChecks_iff, Bool.not_eq_true', entOff_false_iff]

theorem authorized_iff_fetch_check (s : State) (r : Request) :
    Authorized s r ↔ ∃ t, s.fetch r false = some t ∧ s.checkOk r t = true := by
  constructor
  · rintro ⟨t, hl, hp⟩
    exact ⟨t, fetch_false_of_live hl, (checkOk_iff s r t).2 ⟨hl.entityEnabled, hp⟩⟩
  · rintro ⟨t, hf, hc⟩
    obtain ⟨h1, h2, h3, h4⟩ := fetch_false_some hf
    obtain ⟨h5, h6, h7⟩ := (lookupOk_iff t).1 h3
    obtain ⟨h8, h9⟩ := (checkOk_iff s r t).1 hc
    exact ⟨t, ⟨h1, h2, h5, h6, h7, (cidrCheck_iff t r.remote).1 h4, h8⟩, h9⟩

/-! ### which events each stage can emit -/

theorem useToken_events (s : State) (t : Token) : ∀ e ∈ (s.useToken t).2, e.isEffect = false := by
  intro e he
  unfold State.useToken at he
  split at he
  · simp at he
  · simp only [List.mem_append, List.mem_singleton] at he
    rcases he with rfl | he
    · rfl
    · have key : ∀ (b : Bool) (x : Ev), x ∈ (if b = true then [Ev.lazyRevoke t.label] else []) →
          x = Ev.lazyRevoke t.label := by
        intro b x; cases b <;> simp
      rw [key _ _ he]; rfl

theorem useToken_preserves (s : State) (t : Token) :
    (s.useToken t).1.mounts = s.mounts ∧ (s.useToken t).1.policies = s.policies ∧
    (s.useToken t).1.disabled = s.disabled ∧ (s.useToken t).1.store = s.store := by
  unfold State.useToken
  split <;> simp

theorem backendDispatch_class_events (s : State) (m : Path) (op : Op) (rel : Path) :
    ((backendDispatch s m op rel).2.1 ≠ .ok → (backendDispatch s m op rel).1 = s ∧ (backendDispatch s m op rel).2.2 = []) := by
  unfold backendDispatch
  intro h
  split
  · simp_all
  · split
    · simp
    · split
      · simp
      · split <;> simp_all

theorem populate_ne_ok (s : State) (tf : TokForm) (login : Bool) : s.populate tf login ≠ some .ok := by
  unfold State.populate
  repeat' split
  all_goals simp

/-- the three ways a request leaves the pipeline: refused by a stage before token checking (no effect at all), handled
as a login-path request, handled as an authenticated request -/
theorem handle_cases (s : State) (r : Request) :
    (∃ c, c ≠ Class.ok ∧ s.handle r = (s, c, [])) ∨
    (s.loginPath r.path = true ∧ s.handle r = s.handleLogin r) ∨
    (s.loginPath r.path = false ∧ s.handle r = s.handleAuthed r) := by
  unfold State.handle
  split
  · exact Or.inl ⟨.relpath, by decide, rfl⟩
  · split
    · exact Or.inl ⟨.slashwrite, by decide, rfl⟩
    · split
      · exact Or.inl ⟨.internalop, by decide, rfl⟩
      · split
        · rename_i c hp
          refine Or.inl ⟨c, ?_, rfl⟩
          intro hc; subst hc
          exact populate_ne_ok _ _ _ hp
        · split
          · rename_i h; exact Or.inr (Or.inl ⟨h, rfl⟩)
          · rename_i h; exact Or.inr (Or.inr ⟨by simpa using h, rfl⟩)

theorem handleLogin_root (s : State) (r : Request) (hroot : s.rootPath r.path = true) :
    (s.handleLogin r).2.2 = [] := by
  unfold State.handleLogin
  simp only [hroot, ↓reduceIte]
  repeat' split
  all_goals rfl

/-! ### token table facts -/

theorem find_map_label (l : String) (f : Token → Token) (hf : ∀ u, (f u).label = u.label) (ts : List Token) :
    (ts.map f).find? (·.label == l) = (ts.find? (·.label == l)).map f := by
  induction ts with
  | nil => rfl
  | cons u us ih =>
    simp only [List.map_cons, List.find?_cons, hf]
    split
    · rfl
    · exact ih

theorem backendDispatch_tokens (s : State) (m : Path) (op : Op) (rel : Path) :
    (backendDispatch s m op rel).1.tokens = s.tokens := by
  unfold backendDispatch
  split
  · rfl
  · split
    · rfl
    · split
      · rfl
      · split <;> rfl

theorem route_tokens (s : State) (op : Op) (p : Path) : (s.route op p).1.tokens = s.tokens := by
  unfold State.route
  simp only
  split
  · rfl
  · exact backendDispatch_tokens _ _ _ _

/-- the token table after `useToken` is the old one with only `numUses` of the presented label rewritten -/
theorem useToken_tokens (s : State) (t : Token) :
    ∃ f : Token → Token, (∀ u, (f u).label = u.label ∧ (f u).revoked = u.revoked) ∧
      (s.useToken t).1.tokens = s.tokens.map f := by
  unfold State.useToken
  split
  · exact ⟨id, fun u => ⟨rfl, rfl⟩, by simp⟩
  · refine ⟨_, fun u => ?_, rfl⟩
    split <;> exact ⟨rfl, rfl⟩

theorem useToken_findToken (s : State) (t : Token) (hstored : s.findToken t.label = some t) (hn : t.numUses ≠ 0) :
    ∃ t', (s.useToken t).1.tokens.find? (·.label == t.label) = some t' ∧
      t'.numUses = (if t.numUses = 1 then -3 else t.numUses - 1) ∧ t'.revoked = t.revoked := by
  unfold State.useToken
  have h0 : (t.numUses == 0) = false := by simpa using hn
  simp only [h0, Bool.false_eq_true, ↓reduceIte]
  rw [find_map_label]
  · unfold State.findToken at hstored
    rw [hstored]
    refine ⟨_, rfl, ?_, ?_⟩
    · simp only [beq_self_eq_true, ↓reduceIte]
      by_cases h1 : t.numUses = 1 <;> simp [h1]
    · simp
  · intro u; split <;> rfl

theorem handleLogin_tokens (s : State) (r : Request) : (s.handleLogin r).1.tokens = s.tokens := by
  unfold State.handleLogin
  dsimp only
  repeat' split
  all_goals first | rfl | exact route_tokens _ _ _

theorem handle_tokens (s : State) (r : Request) :
    ∃ f : Token → Token, (∀ u, (f u).label = u.label ∧ (f u).revoked = u.revoked) ∧
      (s.handle r).1.tokens = s.tokens.map f := by
  have idf : ∃ f : Token → Token, (∀ u, (f u).label = u.label ∧ (f u).revoked = u.revoked) ∧
      s.tokens = s.tokens.map f := ⟨id, fun u => ⟨rfl, rfl⟩, by simp⟩
  unfold State.handle
  split
  · exact idf
  · split
    · exact idf
    · split
      · exact idf
      · split
        · exact idf
        · split
          · rw [handleLogin_tokens]; exact idf
          · unfold State.handleAuthed
            split
            · exact idf
            · rename_i t _
              split
              · exact useToken_tokens s t
              · simp only [route_tokens]; exact useToken_tokens s t

theorem step_keeps_revoked (s s' : State) (l : String) (c : Cmd) (cl : Class) (evs : List Ev)
    (hrev : ∃ t, s.findToken l = some t ∧ t.revoked = true) (hs : s.step c = some (s', cl, evs)) :
    ∃ t, s'.findToken l = some t ∧ t.revoked = true := by
  obtain ⟨t, hf, hr⟩ := hrev
  have viaMap : ∀ (f : Token → Token), (∀ u, (f u).label = u.label ∧ (f u).revoked = true ∨
        ((f u).label = u.label ∧ (f u).revoked = u.revoked)) →
      ∃ t', (s.tokens.map f).find? (·.label == l) = some t' ∧ t'.revoked = true := by
    intro f hfp
    rw [find_map_label l f (fun u => by rcases hfp u with h | h <;> exact h.1)]
    unfold State.findToken at hf
    rw [hf]
    refine ⟨f t, rfl, ?_⟩
    rcases hfp t with h | h
    · exact h.2
    · rw [h.2, hr]
  cases c with
  | mount m =>
    simp only [State.step] at hs
    split at hs
    · contradiction
    · cases hs; exact ⟨t, hf, hr⟩
  | polPut n rs => simp only [State.step] at hs; cases hs; exact ⟨t, hf, hr⟩
  | polDel n => simp only [State.step] at hs; cases hs; exact ⟨t, hf, hr⟩
  | entDisable e off => simp only [State.step] at hs; cases hs; exact ⟨t, hf, hr⟩
  | tokNew l' ps n k =>
    simp only [State.step] at hs
    split at hs
    · contradiction
    · cases hs
      refine ⟨t, ?_, hr⟩
      unfold State.findToken at hf ⊢
      simp only [List.find?_append, hf, Option.some_or]
  | tokRevoke l' =>
    simp only [State.step] at hs
    split at hs
    · split at hs
      · contradiction
      · cases hs
        exact viaMap _ (fun u => by
          by_cases h : (u.label == l') = true
          · left; simp [h]
          · right; simp [h])
    · contradiction
  | tokExpire l' =>
    simp only [State.step] at hs
    split at hs
    · split at hs
      · contradiction
      · cases hs
        exact viaMap _ (fun u => by right; split <;> exact ⟨rfl, rfl⟩)
    · contradiction
  | req r =>
    simp only [State.step, Option.some.injEq] at hs
    obtain ⟨f, hfp, hm⟩ := handle_tokens s r
    have : s' = (s.handle r).1 := by rw [hs]
    subst this
    unfold State.findToken
    rw [hm]
    exact viaMap f (fun u => Or.inr (hfp u))

theorem run_keeps_revoked (s : State) (l : String) (h : List Cmd)
    (hrev : ∃ t, s.findToken l = some t ∧ t.revoked = true) :
    ∃ t, (s.run h).findToken l = some t ∧ t.revoked = true := by
  induction h generalizing s with
  | nil => exact hrev
  | cons c cs ih =>
    simp only [State.run]
    split
    · rename_i s' cl evs hs
      exact ih s' (step_keeps_revoked s s' l c cl evs hrev hs)
    · exact ih s hrev

/-- the only way a request changes the token table: `UseToken` on the entry `fetch` returned -/
theorem handle_state_tokens (s : State) (r : Request) :
    (s.handle r).1.tokens = s.tokens ∨
    ∃ t, s.fetch r false = some t ∧ (s.handle r).1.tokens = (s.useToken t).1.tokens := by
  rcases handle_cases s r with ⟨c, -, hc⟩ | ⟨-, hc⟩ | ⟨-, hc⟩
  · rw [hc]; exact Or.inl rfl
  · rw [hc, handleLogin_tokens]; exact Or.inl rfl
  · rw [hc]
    unfold State.handleAuthed
    split
    · exact Or.inl rfl
    · rename_i t hf
      right
      refine ⟨t, hf, ?_⟩
      split
      · rfl
      · exact route_tokens _ _ _

theorem step_keeps_exhausted (s s' : State) (l : String) (c : Cmd) (cl : Class) (evs : List Ev)
    (hex : ∃ t, s.findToken l = some t ∧ t.numUses < 0) (hs : s.step c = some (s', cl, evs)) :
    ∃ t, s'.findToken l = some t ∧ t.numUses < 0 := by
  obtain ⟨t, hf, hr⟩ := hex
  have viaMap : ∀ (f : Token → Token), (∀ u, (f u).label = u.label ∧ (u.label = l → (f u).numUses = u.numUses)) →
      ∃ t', (s.tokens.map f).find? (·.label == l) = some t' ∧ t'.numUses < 0 := by
    intro f hfp
    rw [find_map_label l f (fun u => (hfp u).1)]
    have hl := findToken_label hf
    unfold State.findToken at hf
    rw [hf]
    exact ⟨f t, rfl, by rw [(hfp t).2 hl]; exact hr⟩
  cases c with
  | mount m =>
    simp only [State.step] at hs
    split at hs
    · contradiction
    · cases hs; exact ⟨t, hf, hr⟩
  | polPut n rs => simp only [State.step] at hs; cases hs; exact ⟨t, hf, hr⟩
  | polDel n => simp only [State.step] at hs; cases hs; exact ⟨t, hf, hr⟩
  | entDisable e off => simp only [State.step] at hs; cases hs; exact ⟨t, hf, hr⟩
  | tokNew l' ps n k =>
    simp only [State.step] at hs
    split at hs
    · contradiction
    · cases hs
      refine ⟨t, ?_, hr⟩
      unfold State.findToken at hf ⊢
      simp only [List.find?_append, hf, Option.some_or]
  | tokRevoke l' =>
    simp only [State.step] at hs
    split at hs
    · split at hs
      · contradiction
      · cases hs
        exact viaMap _ (fun u => by split <;> exact ⟨rfl, fun _ => rfl⟩)
    · contradiction
  | tokExpire l' =>
    simp only [State.step] at hs
    split at hs
    · split at hs
      · contradiction
      · cases hs
        exact viaMap _ (fun u => by split <;> exact ⟨rfl, fun _ => rfl⟩)
    · contradiction
  | req r =>
    simp only [State.step, Option.some.injEq] at hs
    have : s' = (s.handle r).1 := by rw [hs]
    subst this
    rcases handle_state_tokens s r with h | ⟨tu, hfu, h⟩
    · unfold State.findToken at hf ⊢
      rw [h]; exact ⟨t, hf, hr⟩
    · -- the used token is a live one, so it is not the exhausted entry of label `l`
      obtain ⟨-, hst, hlk, -⟩ := fetch_false_some hfu
      have hne : tu.label ≠ l := by
        intro heq
        rw [heq, hf] at hst
        cases hst
        have := ((lookupOk_iff t).1 hlk).2.1
        omega
      unfold State.findToken
      rw [h]
      unfold State.useToken
      split
      · unfold State.findToken at hf; exact ⟨t, hf, hr⟩
      · exact viaMap _ (fun u => by
          by_cases hu : (u.label == tu.label) = true
          · have hul' : u.label = tu.label := by simpa using hu
            rw [if_pos hu]
            exact ⟨rfl, fun hul => absurd (hul' ▸ hul) hne⟩
          · simp [hu])

theorem run_keeps_exhausted (s : State) (l : String) (h : List Cmd)
    (hex : ∃ t, s.findToken l = some t ∧ t.numUses < 0) :
    ∃ t, (s.run h).findToken l = some t ∧ t.numUses < 0 := by
  induction h generalizing s with
  | nil => exact hex
  | cons c cs ih =>
    simp only [State.run]
    split
    · rename_i s' cl evs hs
      exact ih s' (step_keeps_exhausted s s' l c cl evs hex hs)
    · exact ih s hex

/-! ### radix `LongestPrefix` and the special-path matching of `Router.RootPath` / `LoginPath` -/

/-- specification of the fold: with a starting candidate `b0`, the result is a longest prefix-key among `b0` and `keys` -/
theorem longestPrefix_fold_spec (keys : List Path) (p : Path) (b0 : Option Path)
    (hb0 : ∀ b, b0 = some b → b <+: p) :
    let res := keys.foldl (fun best k =>
      if k.isPrefixOf p then
        match best with
        | Option.none => some k
        | some b => if b.length < k.length then some k else some b
      else best) b0
    (∀ k, res = some k → (k ∈ keys ∨ b0 = some k) ∧ k <+: p ∧
        (∀ k' ∈ keys, k' <+: p → k'.length ≤ k.length) ∧ (∀ b, b0 = some b → b.length ≤ k.length)) ∧
    (res = Option.none → b0 = Option.none ∧ ∀ k' ∈ keys, ¬ k' <+: p) := by
  induction keys generalizing b0 with
  | nil =>
    simp only [List.foldl_nil]
    refine ⟨fun k hk => ⟨Or.inr hk, hb0 k hk, by simp, fun b hb => by rw [hk] at hb; cases hb; exact Nat.le_refl _⟩,
      fun h => ⟨h, by simp⟩⟩
  | cons k0 ks ih =>
    simp only [List.foldl_cons]
    by_cases hk0 : k0.isPrefixOf p = true
    · have hk0p : k0 <+: p := List.isPrefixOf_iff_prefix.mp hk0
      simp only [hk0, ↓reduceIte]
      cases hb : b0 with
      | none =>
        simp only
        have := ih (some k0) (fun b hb' => by cases hb'; exact hk0p)
        simp only at this
        obtain ⟨h1, h2⟩ := this
        refine ⟨fun k hk => ?_, fun hnone => ?_⟩
        · obtain ⟨hm, hp, hlong, hb0'⟩ := h1 k hk
          refine ⟨?_, hp, ?_, by simp⟩
          · rcases hm with hm | hm
            · exact Or.inl (List.mem_cons_of_mem _ hm)
            · cases hm; exact Or.inl (List.mem_cons_self)
          · intro k' hk' hk'p
            rcases List.mem_cons.mp hk' with rfl | hk'
            · exact hb0' _ rfl
            · exact hlong k' hk' hk'p
        · exact absurd (h2 hnone).1 (by simp)
      | some b =>
        simp only
        have hbp : b <+: p := hb0 b hb
        by_cases hlt : b.length < k0.length
        · simp only [hlt, ↓reduceIte]
          have := ih (some k0) (fun b' hb' => by cases hb'; exact hk0p)
          simp only at this
          obtain ⟨h1, h2⟩ := this
          refine ⟨fun k hk => ?_, fun hnone => absurd (h2 hnone).1 (by simp)⟩
          obtain ⟨hm, hp, hlong, hb0'⟩ := h1 k hk
          refine ⟨?_, hp, ?_, ?_⟩
          · rcases hm with hm | hm
            · exact Or.inl (List.mem_cons_of_mem _ hm)
            · cases hm; exact Or.inl (List.mem_cons_self)
          · intro k' hk' hk'p
            rcases List.mem_cons.mp hk' with rfl | hk'
            · exact hb0' _ rfl
            · exact hlong k' hk' hk'p
          · intro b' hb'; cases hb'
            exact Nat.le_trans (Nat.le_of_lt hlt) (hb0' _ rfl)
        · simp only [hlt, ↓reduceIte]
          have := ih (some b) (fun b' hb' => by cases hb'; exact hbp)
          simp only at this
          obtain ⟨h1, h2⟩ := this
          refine ⟨fun k hk => ?_, fun hnone => absurd (h2 hnone).1 (by simp)⟩
          obtain ⟨hm, hp, hlong, hb0'⟩ := h1 k hk
          refine ⟨?_, hp, ?_, ?_⟩
          · rcases hm with hm | hm
            · exact Or.inl (List.mem_cons_of_mem _ hm)
            · exact Or.inr hm
          · intro k' hk' hk'p
            rcases List.mem_cons.mp hk' with rfl | hk'
            · exact Nat.le_trans (Nat.le_of_not_lt hlt) (hb0' _ rfl)
            · exact hlong k' hk' hk'p
          · intro b' hb'; cases hb'; exact hb0' _ rfl
    · have hk0' : k0.isPrefixOf p = false := Bool.eq_false_iff.mpr hk0
      have hk0p : ¬ k0 <+: p := fun h => hk0 (List.isPrefixOf_iff_prefix.mpr h)
      simp only [hk0', Bool.false_eq_true, ↓reduceIte]
      have := ih b0 hb0
      simp only at this
      obtain ⟨h1, h2⟩ := this
      refine ⟨fun k hk => ?_, fun hnone => ?_⟩
      · obtain ⟨hm, hp, hlong, hb0'⟩ := h1 k hk
        refine ⟨?_, hp, ?_, hb0'⟩
        · rcases hm with hm | hm
          · exact Or.inl (List.mem_cons_of_mem _ hm)
          · exact Or.inr hm
        · intro k' hk' hk'p
          rcases List.mem_cons.mp hk' with rfl | hk'
          · exact absurd hk'p hk0p
          · exact hlong k' hk' hk'p
      · obtain ⟨hn1, hn2⟩ := h2 hnone
        refine ⟨hn1, fun k' hk' => ?_⟩
        rcases List.mem_cons.mp hk' with rfl | hk'
        · exact hk0p
        · exact hn2 k' hk'

theorem longestPrefix_some {keys : List Path} {p k : Path} (h : longestPrefix keys p = some k) :
    k ∈ keys ∧ k <+: p ∧ ∀ k' ∈ keys, k' <+: p → k'.length ≤ k.length := by
  have := (longestPrefix_fold_spec keys p Option.none (by simp)).1 k h
  obtain ⟨hm, hp, hl, -⟩ := this
  exact ⟨by simpa using hm, hp, hl⟩

theorem longestPrefix_none {keys : List Path} {p : Path} (h : longestPrefix keys p = Option.none) :
    ∀ k' ∈ keys, ¬ k' <+: p :=
  ((longestPrefix_fold_spec keys p Option.none (by simp)).2 h).2

theorem flagAt_mem (t : SpecialTable) (k : Path) (b : Bool) (h : t.flagAt k = some b) : (k, b) ∈ t := by
  unfold SpecialTable.flagAt at h
  have gen : ∀ (acc : Option Bool), (∀ b', acc = some b' → (k, b') ∈ t ∨ False) →
      ∀ (l : List (Path × Bool)), (∀ e ∈ l, e ∈ t) →
      l.foldl (fun acc e => if e.1 == k then some e.2 else acc) acc = some b → (k, b) ∈ t := by
    intro acc hacc l
    induction l generalizing acc with
    | nil => intro _ h; simp only [List.foldl_nil] at h; rcases hacc b h with h | h; exact h; exact h.elim
    | cons e es ih =>
      intro hl h
      simp only [List.foldl_cons] at h
      refine ih _ ?_ (fun e' he' => hl e' (List.mem_cons_of_mem _ he')) h
      intro b' hb'
      split at hb'
      · rename_i heq
        cases hb'
        have : e.1 = k := by simpa using heq
        left
        have hm := hl e List.mem_cons_self
        rw [← this]; exact hm
      · exact hacc b' hb'
  exact gen Option.none (by simp) t (fun e he => he) h

theorem flagAt_isSome_of_mem (t : SpecialTable) (k : Path) (b : Bool) (h : (k, b) ∈ t) : ∃ b', t.flagAt k = some b' := by
  unfold SpecialTable.flagAt
  have gen : ∀ (l : List (Path × Bool)) (acc : Option Bool), ((k, b) ∈ l ∨ acc.isSome = true) →
      ∃ b', l.foldl (fun acc e => if e.1 == k then some e.2 else acc) acc = some b' := by
    intro l
    induction l with
    | nil =>
      intro acc h
      rcases h with h | h
      · simp at h
      · cases acc with
        | none => simp at h
        | some x => exact ⟨x, rfl⟩
    | cons e es ih =>
      intro acc h
      simp only [List.foldl_cons]
      apply ih
      rcases h with h | h
      · rcases List.mem_cons.mp h with h | h
        · right; subst h; simp
        · left; exact h
      · right; split <;> simp [h]
  exact gen t Option.none (Or.inl h)

/-- soundness of the matching for every table -/
theorem matches_sound (t : SpecialTable) (remain : Path) (h : t.matches remain = true) :
    ∃ e ∈ t, (e.2 = true ∧ e.1 <+: remain) ∨ (e.2 = false ∧ e.1 = remain) := by
  unfold SpecialTable.matches at h
  split at h
  · contradiction
  · rename_i k hk
    split at h
    · rename_i hf
      exact ⟨(k, true), flagAt_mem t k true hf, Or.inl ⟨rfl, List.isPrefixOf_iff_prefix.mp h⟩⟩
    · rename_i hf
      exact ⟨(k, false), flagAt_mem t k false hf, Or.inr ⟨rfl, by simpa using h⟩⟩
    · contradiction

/-- completeness under the no-shadowing hypothesis -/
theorem matches_iff_decl (t : SpecialTable)
    (hu : ∀ p e, (p, true) ∈ t → (e, false) ∈ t → ¬ p <+: e) (remain : Path) :
    t.matches remain = true ↔ ∃ e ∈ t, (e.2 = true ∧ e.1 <+: remain) ∨ (e.2 = false ∧ e.1 = remain) := by
  refine ⟨matches_sound t remain, ?_⟩
  rintro ⟨⟨ek, eb⟩, hmem, hmatch⟩
  have hpre : ek <+: remain := by
    rcases hmatch with ⟨-, h⟩ | ⟨-, h⟩
    · exact h
    · simp only at h; subst h; exact List.prefix_refl _
  have hkeys : ek ∈ t.map (·.1) := List.mem_map.mpr ⟨(ek, eb), hmem, rfl⟩
  unfold SpecialTable.matches
  cases hlp : longestPrefix (t.map (·.1)) remain with
  | none => exact absurd hpre (longestPrefix_none hlp ek hkeys)
  | some k =>
    obtain ⟨hkm, hkp, hlong⟩ := longestPrefix_some hlp
    obtain ⟨⟨k', kb⟩, hk'm, hk'e⟩ := List.mem_map.mp hkm
    simp only at hk'e; subst hk'e
    obtain ⟨b', hb'⟩ := flagAt_isSome_of_mem t k' kb hk'm
    have hb'm := flagAt_mem t k' b' hb'
    simp only [hb']
    cases b' with
    | true => exact List.isPrefixOf_iff_prefix.mpr hkp
    | false =>
      -- the longest key is an exact entry: it must be the whole remainder, otherwise it would shadow a prefix entry
      simp only [beq_iff_eq]
      have hlen := hlong ek hkeys hpre
      have hek : ek <+: k' := List.prefix_of_prefix_length_le hpre hkp hlen
      rcases hmatch with ⟨hb, -⟩ | ⟨-, h⟩
      · simp only at hb; subst hb
        exact absurd hek (hu ek k' hmem hb'm)
      · simp only at h; subst h
        exact List.IsPrefix.eq_of_length_le hkp hek.length_le

/-! ### declarative reading of a special-path table, and the example state used by the non-vacuity examples -/

/-- what a backend author means by a special-path table: the path matches SOME declared pattern -/
def declMatches (t : SpecialTable) (remain : Path) : Prop :=
  ∃ e ∈ t, (e.2 = true ∧ e.1 <+: remain) ∨ (e.2 = false ∧ e.1 = remain)

/-- no exact entry extends (or equals) a prefix entry -/
def Unshadowed (t : SpecialTable) : Prop :=
  ∀ p e, (p, true) ∈ t → (e, false) ∈ t → ¬ p <+: e

def exMount : Mount :=
  { path := cs "rec/", unauth := SpecialTable.parse [cs "unauth/*"], root := SpecialTable.parse [cs "root/*"] }

def exState : State :=
  { State.init with
    mounts := [exMount],
    policies := [("p1", [Rule.parse (cs "rec/data/*") { Caps.none with read := true },
                         Rule.parse (cs "rec/root/*") { Caps.none with read := true, sudo := true }])],
    tokens := State.init.tokens ++ [mkToken "t1" ["p1"] 2 .service, mkToken "t2" ["p1"] 0 .cidr] }

def exReq (tok : TokForm) (op : Op) (p : String) (rm : Remote := .inCidr) : Request :=
  { tok, op, path := cs p, remote := rm }

end Obao.RequestAuthz
