import Obao.Proofs.ScanProofs3
/-! Final assembly: the scan terminates and calls back exactly the keys, each once. Core Lean only. -/
namespace Obao.Listing
open Obao.KV

theorem scanFrom_snoc (ks : List Key) (ps : Int) (hps : ps ≥ 2) (fuel : Nat) (fr : List Key) (d : Key) (cb : List Key)
    (hf : (children ks d).length < fuel) :
    scanFrom (specLister ks) ps (fuel + 1) (fr ++ [d]) cb
      = scanFrom (specLister ks) ps fuel (fr ++ folderPart d (children ks d)) (cb ++ leafPart d (children ks d)) := by
  conv => lhs; unfold scanFrom
  have h1 : (fr ++ [d]).getLast? = some d := by simp
  have h2 : (fr ++ [d]).dropLast = fr := by simp
  simp only [h1, h2]
  rw [scanDir_spec ks d ps hps fuel [] fr cb (by rw [spec0_nil]; exact hf), spec0_nil]

theorem scanFrom_total (ks : List Key) (ps : Int) (hps : ps ≥ 2) :
    ∀ (fuel : Nat) (fr cb : List Key), ScanInv ks fr cb → fuel ≥ mu ks fr + ks.length + 1 →
      ∃ l, scanFrom (specLister ks) ps fuel fr cb = some (.ok l) ∧ l.Nodup ∧ ∀ k, k ∈ l ↔ k ∈ ks := by
  intro fuel
  induction fuel with
  | zero => intro fr cb _ h; omega
  | succ f ih =>
    intro fr cb hinv hfuel
    rcases List.eq_nil_or_concat fr with h | ⟨fr', d, h⟩
    · subst h
      refine ⟨cb, by simp [scanFrom], hinv.cb_nodup, fun k => ⟨hinv.cb_sub k, fun hk => ?_⟩⟩
      rcases hinv.cover k hk with m | ⟨d, hd, _⟩
      · exact m
      · simp at hd
    · rw [List.concat_eq_append] at h
      subst h
      obtain ⟨hinv', hmu⟩ := scanInv_step ks fr' cb d hinv
      have hmu1 : mu ks (fr' ++ [d]) ≥ 1 := by omega
      have hlen := children_length_le ks d
      rw [scanFrom_snoc ks ps hps f fr' d cb (by omega)]
      exact ih _ _ hinv' (by omega)

theorem scanInv_init (ks : List Key) : ScanInv ks [[]] [] where
  cb_sub := by simp
  cb_nodup := by simp
  fr_dirs := by intro d hd; simp at hd; subst hd; exact mem_allDirs.mpr (.inl rfl)
  fr_incomp := by simp
  cb_out := by simp
  cover := by intro k _; exact .inr ⟨[], by simp, hasPrefix_iff.mpr ⟨k, by simp⟩⟩

/-- **scan**: for every key list and every page size ≥ 2 the scan terminates (some fuel suffices) and its callback
sequence contains every key exactly once and nothing else -/
theorem scanView_visits_exactly (ks : List Key) (ps : Int) (hps : ps ≥ 2) :
    ∃ fuel l, scanView (specLister ks) ps fuel = some (.ok l) ∧ l.Nodup ∧ ∀ k, k ∈ l ↔ k ∈ ks := by
  obtain ⟨l, h1, h2, h3⟩ := scanFrom_total ks ps hps (mu ks [[]] + ks.length + 1) [[]] [] (scanInv_init ks) (Nat.le_refl _)
  exact ⟨_, l, h1, h2, h3⟩

/-- the inmem backend's own lister is the specification's lister (for sorted key lists) -/
theorem inmem_lister_eq (ks : List Key) (hs : Sorted ks) :
    (fun p after limit => Except.ok (inmemList ks p after limit) : Lister) = specLister ks := by
  funext p after limit
  simp [specLister, inmemList_eq_listPage ks hs]

/-- since the repair of the seek the raft listers are the specification's lister too (plain and in-transaction) -/
theorem raft_lister_eq (ks : List Key) (hs : Sorted ks) :
    (fun p after limit => Except.ok (raftList ks p after limit) : Lister) = specLister ks ∧
    (fun p after limit => Except.ok (raftTxnList ks [] p after limit) : Lister) = specLister ks := by
  constructor
  · funext p after limit
    simp [specLister, raftList, raftListFrom_eq_listPage ks hs _ p after limit (raftSeek_safe p after)]
  · funext p after limit
    simp [specLister, raftTxnList_nil_eq_listPage ks hs p after limit (raftSeek_safe p after)]

end Obao.Listing
