import Obao.Model.GF256
import Obao.Gen.Shamir
/-!
The regenerated translation of `mult`/`inverse`/`add` (Obao/Gen/Shamir.lean, produced from the Go AST on every
run) coincides with the hand-written model on all bytes. If shamir.go's arithmetic is edited, the generated
definitions change and these proofs stop checking.
-/
namespace Obao.GF256Gen
open Obao.GF256 Obao.Gen.Shamir

theorem and255 (a : Nat) (h : a < 256) : 255 &&& a = a := by
  have : 255 &&& a = a % 2 ^ 8 := by
    rw [Nat.and_comm]; exact Nat.and_two_pow_sub_one_eq_mod a 8
  rw [this]; exact Nat.mod_eq_of_lt h

theorem negbit_and (x a : Nat) (h : a < 256) : ((256 - (x &&& 1)) % 256) &&& a = (x % 2) * a := by
  rw [Nat.and_one_is_mod]
  rcases Nat.mod_two_eq_zero_or_one x with h0 | h1
  · rw [h0]; simp
  · rw [h1]; simp [and255 a h]

theorem neghi_and (r : Nat) (h : r < 256) : ((256 - (r >>> 7)) % 256) &&& 27 = (r / 128) * 27 := by
  rw [Nat.shiftRight_eq_div_pow]
  have : r / 2 ^ 7 = 0 ∨ r / 2 ^ 7 = 1 := by omega
  have e : r / 128 = r / 2 ^ 7 := by rfl
  rw [e]
  rcases this with h0 | h1
  · rw [h0]; simp
  · rw [h1]; decide

theorem roundGen_eq (a b r i : Nat) (ha : a < 256) (hr : r < 256) : roundGen a b r i = round a b r i := by
  unfold roundGen round
  -- robust against harmless operand reorderings of the Go expression: rewrite the two masks wherever they
  -- occur, then compare modulo associativity/commutativity of xor
  simp only [negbit_and _ a ha, neghi_and r hr]
  all_goals ac_rfl

theorem round_lt (a b r i : Nat) (ha : a < 256) (hr : r < 256) : round a b r i < 256 := by
  unfold round
  have h1 : ((b >>> i) % 2) * a < 2 ^ 8 := by
    rcases Nat.mod_two_eq_zero_or_one (b >>> i) with h | h <;> rw [h] <;> simp <;> omega
  have h2 : (r / 128) * 27 < 2 ^ 8 := by
    have : r / 128 ≤ 1 := by omega
    have : (r / 128) * 27 ≤ 27 := by
      calc (r / 128) * 27 ≤ 1 * 27 := Nat.mul_le_mul_right 27 this
        _ = 27 := by simp
    omega
  have h3 : (r + r) % 256 < 2 ^ 8 := by omega
  exact Nat.xor_lt_two_pow (Nat.xor_lt_two_pow h1 h2) h3

theorem multGen_eq (a b : Nat) (ha : a < 256) : multGen a b = mult a b := by
  unfold multGen mult iInit rInit
  simp only [multLoop]
  have r7 := round_lt a b 0 7 ha (by decide)
  have r6 := round_lt a b _ 6 ha r7
  have r5 := round_lt a b _ 5 ha r6
  have r4 := round_lt a b _ 4 ha r5
  have r3 := round_lt a b _ 3 ha r4
  have r2 := round_lt a b _ 2 ha r3
  have r1 := round_lt a b _ 1 ha r2
  rw [roundGen_eq a b 0 7 ha (by decide)]
  rw [roundGen_eq a b _ 6 ha r7]
  rw [roundGen_eq a b _ 5 ha r6]
  rw [roundGen_eq a b _ 4 ha r5]
  rw [roundGen_eq a b _ 3 ha r4]
  rw [roundGen_eq a b _ 2 ha r3]
  rw [roundGen_eq a b _ 1 ha r2]
  rw [roundGen_eq a b _ 0 ha r1]

end Obao.GF256Gen
