import Obao.Proofs.ScanProofs4
/-! `RaftTransaction.ListPage` WITH pending writes: the merge of pending puts and the hiding of pending deletes
produce the listing of the store the transaction will commit. Part 1: the cursor loop. Core Lean only. -/
namespace Obao.Listing
open Obao.KV

/-- `lastKey` of the Go code: the last emitted key, or "" -/
def lastOf (out : List Key) : Key := match out with | [] => [] | x :: _ => x

/-- the listing before the final trim, reversed (as `out` is) -/
def txnFinish0 (st : TxnLoopSt) : List Key := (st.updates.filter (fun u => lastOf st.out < u)).reverse ++ st.out

/-- invariant of the merge loop -/
structure TInv (p : Key) (ks out U : List Key) : Prop where
  oinv : OutInv p ks out
  usorted : Sorted U
  unonempty : ([] : Key) ∉ U
  uabove : ∀ u ∈ U, ∀ x ∈ out, x < u

theorem lastOf_lt_of_above {out U : List Key} (hne : ([] : Key) ∉ U) (h : ∀ u ∈ U, ∀ x ∈ out, x < u) :
    ∀ u ∈ U, lastOf out < u := by
  intro u hu
  cases out with
  | nil =>
    simp only [lastOf]
    cases u with
    | nil => exact absurd hu hne
    | cons a as => exact List.nil_lt_cons a as
  | cons x xs => exact h u hu x (List.mem_cons_self ..)

theorem filter_and_above {out U : List Key} {e : Key} (hne : ([] : Key) ∉ U) (h : ∀ u ∈ U, ∀ x ∈ out, x < u) :
    U.filter (fun u => decide (u < e ∧ lastOf out < u)) = U.filter (fun u => decide (u < e)) ∧
    U.filter (fun u => !decide (u < e ∧ lastOf out < u)) = U.filter (fun u => !decide (u < e)) := by
  have hl := lastOf_lt_of_above hne h
  constructor
  · apply List.filter_congr
    intro u hu
    simp [hl u hu]
  · apply List.filter_congr
    intro u hu
    simp [hl u hu]

theorem desc_append {a b : List Key} (ha : Desc a) (hb : Desc b) (h : ∀ x ∈ a, ∀ y ∈ b, y < x) : Desc (a ++ b) := by
  unfold Desc at *
  rw [List.pairwise_append]
  exact ⟨ha, hb, h⟩

theorem sorted_reverse_desc {l : List Key} (h : Sorted l) : Desc l.reverse := by
  unfold Desc Sorted at *
  rw [List.pairwise_reverse]
  exact h

/-- merging the pending entries below `e` keeps the output invariant -/
theorem outInv_merge {p k : Key} {ks out U : List Key} {e : Key} (he : e = child p k)
    (hs : Sorted (k :: ks)) (hp : ∀ k' ∈ k :: ks, hasPrefix p k' = true)
    (h : TInv p (k :: ks) out U) :
    OutInv p (k :: ks) ((U.filter (fun u => decide (u < e))).reverse ++ out) := by
  have hM : Sorted (U.filter (fun u => decide (u < e))) := sorted_filter _ h.usorted
  refine ⟨desc_append (sorted_reverse_desc hM) h.oinv.1 ?_, ?_⟩
  · intro x hx y hy
    have := List.mem_filter.mp (List.mem_reverse.mp hx)
    exact h.uabove x this.1 y hy
  · intro x hx k' hk'
    rcases List.mem_append.mp hx with m | m
    · have hm := List.mem_filter.mp (List.mem_reverse.mp m)
      have hxe : x < e := by simpa using hm.2
      have hek' : e ≤ child p k' := by
        rcases List.mem_cons.mp hk' with e1 | m'
        · subst e1; rw [he]; exact kle_refl _
        · rw [he]
          exact child_mono (hp k (List.mem_cons_self ..)) (hp k' hk') ((List.pairwise_cons.mp hs).1 k' m')
      have hlt := klt_of_lt_of_le hxe hek'
      exact ⟨kle_of_lt hlt, fun heq => absurd (heq ▸ hlt) (klt_irrefl _)⟩
    · exact h.oinv.2 x m k' hk'

end Obao.Listing
