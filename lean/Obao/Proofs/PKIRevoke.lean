import Obao.Model.PKIRevoke
/-! Helper lemmas for `Obao/Props/C16.lean` (core Lean only). -/
namespace Obao.PKIRevoke

/-! ### association lists -/

theorem lookup_filter_ne {β : Type} (l : List (Nat × β)) (i j : Nat) (h : j ≠ i) :
    (l.filter (fun p => p.1 != i)).lookup j = l.lookup j := by
  induction l with
  | nil => rfl
  | cons p l ih =>
    obtain ⟨a, b⟩ := p
    by_cases ha : a = i
    · subst ha
      have h1 : (j == a) = false := by simp [h]
      rw [List.filter_cons_of_neg (by simp), List.lookup_cons, h1, ih]
    · rw [List.filter_cons_of_pos (by simp [ha]), List.lookup_cons, List.lookup_cons, ih]

theorem lookup_filter_self {β : Type} (l : List (Nat × β)) (i : Nat) :
    (l.filter (fun p => p.1 != i)).lookup i = none := by
  induction l with
  | nil => rfl
  | cons p l ih =>
    obtain ⟨a, b⟩ := p
    by_cases ha : a = i
    · subst ha
      rw [List.filter_cons_of_neg (by simp), ih]
    · have h1 : (i == a) = false := by simp; exact fun h => ha h.symm
      rw [List.filter_cons_of_pos (by simp [ha]), List.lookup_cons, h1, ih]

theorem lookup_setAssoc_ne {β : Type} (l : List (Nat × β)) (i j : Nat) (v : β) (h : j ≠ i) :
    (setAssoc l i v).lookup j = l.lookup j := by
  have : (j == i) = false := by simp [h]
  simp [setAssoc, List.lookup, this, lookup_filter_ne l i j h]

theorem lookup_setAssoc_self {β : Type} (l : List (Nat × β)) (i : Nat) (v : β) :
    (setAssoc l i v).lookup i = some v := by
  simp [setAssoc]

theorem mem_keys_of_lookup {β : Type} (l : List (Nat × β)) (k : Nat) (v : β) (h : l.lookup k = some v) :
    k ∈ l.map Prod.fst := by
  induction l with
  | nil => simp [List.lookup] at h
  | cons p l ih =>
    obtain ⟨a, b⟩ := p
    by_cases ha : k = a
    · subst ha; simp
    · have : (k == a) = false := by simp [ha]
      simp [List.lookup, this] at h
      simp [ih h]

theorem isRevoked_of_lookup (s : St) (k t : Nat) (h : s.revoked.lookup k = some t) : isRevoked s k = true := by
  have := mem_keys_of_lookup _ _ _ h
  simp only [List.mem_map] at this
  obtain ⟨p, hp, hk⟩ := this
  simp only [isRevoked, List.any_eq_true]
  exact ⟨p, hp, by simp [hk]⟩

/-! ### the invariant behind `revoked_everywhere` -/

/-- the certificate followed through a history: its ordinal, its (immutable) data, its revocation stamp -/
structure Tgt where
  k : Nat
  c : Cert
  t : Nat

/-- a write is harmless for the target, judged at the time `n` the request started -/
def Safe (g : Tgt) (n : Nat) : Step → Prop
  | .delRevoked k' => k' = g.k → ¬ n ≤ g.c.notAfter
  | .delCert k' => k' = g.k → ¬ n ≤ g.c.notAfter
  | .putRevoked k' t' => k' = g.k → n ≤ g.c.notAfter → t' = g.t
  | .putCRL i _ ser dis => i = g.c.issuer → dis = false → n ≤ g.c.notAfter → g.k ∈ ser
  | _ => True

def Inv (g : Tgt) (st0 : Bool) (s : St) : Prop :=
  s.certs[g.k]? = some g.c ∧
  (s.now ≤ g.c.notAfter → s.revoked.lookup g.k = some g.t ∧ (st0 = true → g.k ∈ s.stored))

/-- what the property demands of a CRL written to storage -/
def GoodEv (g : Tgt) (e : Ev) : Prop :=
  e.issuer = g.c.issuer → e.delta = false → e.disabled = false → e.now ≤ g.c.notAfter → g.k ∈ e.serials

def LogInv (g : Tgt) (base : List Ev) (s : St) : Prop := ∀ e ∈ s.log, e ∈ base ∨ GoodEv g e

def isTick : Step → Bool
  | .tick _ => true
  | _ => false

theorem now_step (s : St) (st : Step) : s.now ≤ (applyStep s st).now := by
  cases st <;> simp [applyStep]

theorem now_step_eq (s : St) (st : Step) (h : isTick st = false) : (applyStep s st).now = s.now := by
  cases st <;> simp_all [applyStep, isTick]

theorem certs_step_eq (s : St) (st : Step) (h : ∀ c b, st ≠ .addCert c b) : (applyStep s st).certs = s.certs := by
  cases st <;> simp_all [applyStep]

theorem inv_step (g : Tgt) (st0 : Bool) (n : Nat) (s : St) (st : Step) (hn : n ≤ s.now)
    (hi : Inv g st0 s) (hs : Safe g n st) : Inv g st0 (applyStep s st) := by
  obtain ⟨hc, hr⟩ := hi
  have hlt : g.k < s.certs.length := by
    have := List.getElem?_eq_some_iff.mp hc
    exact this.1
  cases st with
  | addCert c b =>
    refine ⟨?_, fun h => ?_⟩
    · simp [applyStep, List.getElem?_append_left hlt, hc]
    · obtain ⟨h1, h2⟩ := hr (by simpa [applyStep] using h)
      refine ⟨by simpa [applyStep] using h1, fun h0 => ?_⟩
      simp only [applyStep]
      split
      · exact List.mem_cons_of_mem _ (h2 h0)
      · exact h2 h0
  | tick d =>
    refine ⟨by simpa [applyStep] using hc, fun h => ?_⟩
    have : s.now ≤ g.c.notAfter := by simp [applyStep] at h; omega
    simpa [applyStep] using hr this
  | putCert k' =>
    refine ⟨by simpa [applyStep] using hc, fun h => ?_⟩
    obtain ⟨h1, h2⟩ := hr (by simpa [applyStep] using h)
    refine ⟨by simpa [applyStep] using h1, fun h0 => ?_⟩
    simp only [applyStep]
    split
    · exact h2 h0
    · exact List.mem_cons_of_mem _ (h2 h0)
  | delCert k' =>
    refine ⟨by simpa [applyStep] using hc, fun h => ?_⟩
    have hnow : s.now ≤ g.c.notAfter := by simpa [applyStep] using h
    obtain ⟨h1, h2⟩ := hr hnow
    refine ⟨by simpa [applyStep] using h1, fun h0 => ?_⟩
    have hne : g.k ≠ k' := fun e => hs e.symm (by omega)
    simp only [applyStep, List.mem_filter]
    exact ⟨h2 h0, by simp [hne]⟩
  | putRevoked k' t' =>
    refine ⟨by simpa [applyStep] using hc, fun h => ?_⟩
    have hnow : s.now ≤ g.c.notAfter := by simpa [applyStep] using h
    obtain ⟨h1, h2⟩ := hr hnow
    refine ⟨?_, by simpa [applyStep] using h2⟩
    simp only [applyStep]
    by_cases hk : k' = g.k
    · have := hs hk (by omega)
      subst hk; subst this
      exact lookup_setAssoc_self _ _ _
    · rw [lookup_setAssoc_ne _ _ _ _ (fun e => hk e.symm)]; exact h1
  | delRevoked k' =>
    refine ⟨by simpa [applyStep] using hc, fun h => ?_⟩
    have hnow : s.now ≤ g.c.notAfter := by simpa [applyStep] using h
    obtain ⟨h1, h2⟩ := hr hnow
    refine ⟨?_, by simpa [applyStep] using h2⟩
    have hne : g.k ≠ k' := fun e => hs e.symm (by omega)
    simp only [applyStep]
    rw [lookup_filter_ne _ _ _ hne]; exact h1
  | addIssuer i => exact ⟨by simpa [applyStep] using hc, by simpa [applyStep] using hr⟩
  | delIssuer i => exact ⟨by simpa [applyStep] using hc, by simpa [applyStep] using hr⟩
  | noteSerial i k => exact ⟨by simpa [applyStep] using hc, by simpa [applyStep] using hr⟩
  | putCRL i num ser dis => exact ⟨by simpa [applyStep] using hc, by simpa [applyStep] using hr⟩
  | putDelta i num => exact ⟨by simpa [applyStep] using hc, by simpa [applyStep] using hr⟩
  | delCRL i => exact ⟨by simpa [applyStep] using hc, by simpa [applyStep] using hr⟩
  | delDelta i => exact ⟨by simpa [applyStep] using hc, by simpa [applyStep] using hr⟩
  | putCounters cs => exact ⟨by simpa [applyStep] using hc, by simpa [applyStep] using hr⟩
  | putCfg c => exact ⟨by simpa [applyStep] using hc, by simpa [applyStep] using hr⟩

theorem log_step (g : Tgt) (base : List Ev) (n : Nat) (s : St) (st : Step) (hn : n ≤ s.now)
    (hl : LogInv g base s) (hs : Safe g n st) : LogInv g base (applyStep s st) := by
  cases st with
  | putCRL i num ser dis =>
    intro e he
    simp only [applyStep, List.mem_cons] at he
    rcases he with rfl | he
    · right
      intro h1 _ h3 h4
      exact hs h1 h3 (by simp at h4; omega)
    · exact hl e he
  | putDelta i num =>
    intro e he
    simp only [applyStep, List.mem_cons] at he
    rcases he with rfl | he
    · right; intro _ h2; simp at h2
    · exact hl e he
  | _ => simpa [LogInv, applyStep] using hl

theorem inv_steps (g : Tgt) (st0 : Bool) (base : List Ev) (n : Nat) (l : List Step) :
    ∀ s, n ≤ s.now → Inv g st0 s → LogInv g base s → (∀ st ∈ l, Safe g n st) →
      Inv g st0 (applySteps s l) ∧ LogInv g base (applySteps s l) ∧ n ≤ (applySteps s l).now := by
  induction l with
  | nil => intro s hn hi hl _; exact ⟨hi, hl, hn⟩
  | cons a l ih =>
    intro s hn hi hl hs
    have ha := hs a (List.mem_cons_self ..)
    exact ih (applyStep s a) (Nat.le_trans hn (now_step s a)) (inv_step g st0 n s a hn hi ha)
      (log_step g base n s a hn hl ha) (fun st h => hs st (List.mem_cons_of_mem _ h))

theorem now_steps_eq (l : List Step) : ∀ s, (∀ st ∈ l, isTick st = false) → (applySteps s l).now = s.now := by
  induction l with
  | nil => intro s _; rfl
  | cons a l ih =>
    intro s h
    have := ih (applyStep s a) (fun st hst => h st (List.mem_cons_of_mem _ hst))
    simp only [applySteps, List.foldl_cons] at this ⊢
    rw [this, now_step_eq s a (h a (List.mem_cons_self ..))]

/-! ### every write of every request program is harmless for an unexpired revoked certificate -/

theorem mem_crlSerials (s : St) (g : Tgt) (hc : s.certs[g.k]? = some g.c) (hl : s.revoked.lookup g.k = some g.t)
    (hi : g.c.issuer ∈ s.issuers) : g.k ∈ crlSerials s g.c.issuer := by
  simp only [crlSerials, List.mem_filter]
  refine ⟨mem_keys_of_lookup _ _ _ hl, ?_⟩
  simp [assigned, hc, hi]

theorem staleDeletes_kind (s : St) (st : Step) (h : st ∈ staleDeletes s) :
    (∃ i, st = .delCRL i) ∨ (∃ i, st = .delDelta i) := by
  simp only [staleDeletes, List.mem_flatMap, List.mem_append] at h
  obtain ⟨i, _, h | h⟩ := h
  · split at h
    · left; exact ⟨i, by simpa using h⟩
    · simp at h
  · split at h
    · right; exact ⟨i, by simpa using h⟩
    · simp at h

theorem mem_phaseSteps (mk : Nat → Step) (kOf : List Nat → Step) : ∀ (L done : List Nat) (st : Step),
    st ∈ phaseSteps mk kOf done L → (∃ d, st = kOf d) ∨ (∃ a ∈ L, st = mk a) := by
  intro L
  induction L with
  | nil => intro done st h; simp [phaseSteps] at h
  | cons a L ih =>
    intro done st h
    simp only [phaseSteps, List.mem_cons] at h
    rcases h with rfl | rfl | h
    · exact Or.inl ⟨_, rfl⟩
    · exact Or.inr ⟨a, List.mem_cons_self .., rfl⟩
    · rcases ih _ st h with h | ⟨b, hb, rfl⟩
      · exact Or.inl h
      · exact Or.inr ⟨b, List.mem_cons_of_mem _ hb, rfl⟩

/-- what a rebuild writes -/
theorem rebuild_mem (s : St) (f : Bool) (o1 o2 : List Nat) (st : Step) (h : st ∈ rebuildSteps s f o1 o2) :
    (∃ i, i ∈ o1 ∧ i ∈ s.issuers ∧
      st = .putCRL i (counter s i) (if s.cfg.disable then [] else crlSerials s i) s.cfg.disable) ∨
    st ∈ staleDeletes s ∨ (∃ cs, st = .putCounters cs) ∨ (∃ i n, st = .putDelta i n) := by
  unfold rebuildSteps at h
  split at h
  · simp at h
  · simp only [List.mem_append, List.mem_singleton] at h
    rcases h with (((h | h) | rfl) | h) | rfl
    · rcases mem_phaseSteps _ _ _ _ _ h with ⟨d, rfl⟩ | ⟨i, hi, rfl⟩
      · exact Or.inr (Or.inr (Or.inl ⟨_, rfl⟩))
      · have := List.mem_filter.mp hi
        exact Or.inl ⟨i, this.1, by simpa using this.2, rfl⟩
    · exact Or.inr (Or.inl h)
    · exact Or.inr (Or.inr (Or.inl ⟨_, rfl⟩))
    · rcases mem_phaseSteps _ _ _ _ _ h with ⟨d, rfl⟩ | ⟨i, hi, rfl⟩
      · exact Or.inr (Or.inr (Or.inl ⟨_, rfl⟩))
      · exact Or.inr (Or.inr (Or.inr ⟨_, _, rfl⟩))
    · exact Or.inr (Or.inr (Or.inl ⟨_, rfl⟩))

theorem rebuild_safe (g : Tgt) (n : Nat) (s : St) (f : Bool) (o1 o2 : List Nat)
    (hc : s.certs[g.k]? = some g.c) (hl : n ≤ g.c.notAfter → s.revoked.lookup g.k = some g.t) :
    ∀ st ∈ rebuildSteps s f o1 o2, Safe g n st := by
  intro st hst
  rcases rebuild_mem s f o1 o2 st hst with ⟨i, _, hi, rfl⟩ | h | ⟨_, rfl⟩ | ⟨_, _, rfl⟩
  · intro h1 h2 h3
    subst h1
    simp only [h2]
    exact mem_crlSerials s g hc (hl h3) hi
  · rcases staleDeletes_kind s st h with ⟨i, rfl⟩ | ⟨i, rfl⟩ <;> trivial
  · trivial
  · trivial

theorem rebuild_noTick (s : St) (f : Bool) (o1 o2 : List Nat) : ∀ st ∈ rebuildSteps s f o1 o2, isTick st = false := by
  intro st hst
  rcases rebuild_mem s f o1 o2 st hst with ⟨i, _, _, rfl⟩ | h | ⟨_, rfl⟩ | ⟨_, _, rfl⟩
  · rfl
  · rcases staleDeletes_kind s st h with ⟨i, rfl⟩ | ⟨i, rfl⟩ <;> rfl
  · rfl
  · rfl

/-- what the two tidy passes can contain -/
theorem tidyPass_kind (s : St) (cs rc assoc : Bool) (st : Step)
    (h : st ∈ tidyPass1 s cs rc ++ tidyPass2 s cs rc assoc) :
    (∃ k, st = .delCert k ∧ tidyExpired s k = true) ∨ (∃ k, st = .delRevoked k ∧ tidyExpired s k = true) ∨
    (∃ k t, st = .putRevoked k t ∧ s.revoked.lookup k = some t) := by
  rw [List.mem_append] at h
  rcases h with h | h
  · unfold tidyPass1 at h
    split at h
    · simp only [List.mem_flatMap] at h
      obtain ⟨k, _, hk⟩ := h
      split at hk
      · rename_i he
        simp only [List.mem_append, List.mem_singleton] at hk
        rcases hk with rfl | hk
        · left; exact ⟨k, rfl, he⟩
        · split at hk
          · right; left; exact ⟨k, by simpa using hk, he⟩
          · simp at hk
      · simp at hk
    · simp at h
  · unfold tidyPass2 at h
    split at h
    · simp only [List.mem_flatMap] at h
      obtain ⟨k, _, hk⟩ := h
      split at hk
      · rename_i he
        have he' : tidyExpired s k = true := by
          simp only [Bool.and_eq_true] at he; exact he.2
        split at hk
        · simp at hk
        · simp only [List.mem_append, List.mem_singleton] at hk
          rcases hk with rfl | hk
          · right; left; exact ⟨k, rfl, he'⟩
          · split at hk
            · left; exact ⟨k, by simpa using hk, he'⟩
            · simp at hk
      · split at hk
        · split at hk
          · rename_i t ht
            right; right; exact ⟨k, t, by simpa using hk, ht⟩
          · simp at hk
        · simp at hk
    · simp at h

theorem tidyPass_safe (g : Tgt) (st0 : Bool) (s : St) (cs rc assoc : Bool) (hi : Inv g st0 s) :
    ∀ st ∈ tidyPass1 s cs rc ++ tidyPass2 s cs rc assoc, Safe g s.now st ∧ isTick st = false := by
  intro st hst
  obtain ⟨hc, hr⟩ := hi
  rcases tidyPass_kind s cs rc assoc st hst with ⟨k, rfl, he⟩ | ⟨k, rfl, he⟩ | ⟨k, t, rfl, ht⟩
  · refine ⟨fun hk hn => ?_, rfl⟩
    subst hk
    unfold tidyExpired at he
    rw [hc] at he
    have he := of_decide_eq_true he
    simp only [tidyBuffer] at he
    omega
  · refine ⟨fun hk hn => ?_, rfl⟩
    subst hk
    unfold tidyExpired at he
    rw [hc] at he
    have he := of_decide_eq_true he
    simp only [tidyBuffer] at he
    omega
  · refine ⟨fun hk hn => ?_, rfl⟩
    subst hk
    have := (hr hn).1
    rw [this] at ht
    exact (Option.some.inj ht).symm

theorem tidy_safe (g : Tgt) (st0 : Bool) (s : St) (cs rc assoc : Bool) (o1 o2 : List Nat) (hi : Inv g st0 s) :
    ∀ st ∈ tidyProg s cs rc assoc o1 o2, Safe g s.now st := by
  intro st hst
  simp only [tidyProg, List.mem_append] at hst
  rcases hst with h | h
  · exact (tidyPass_safe g st0 s cs rc assoc hi st (List.mem_append.mpr h)).1
  · split at h
    · have hp := tidyPass_safe g st0 s cs rc assoc hi
      have h2 := inv_steps g st0 s.log s.now _ s (Nat.le_refl _) hi (fun e he => Or.inl he) (fun st h => (hp st h).1)
      have hnow := now_steps_eq _ s (fun st h => (hp st h).2)
      refine rebuild_safe g s.now _ false o1 o2 h2.1.1 (fun hn => ?_) st h
      exact (h2.1.2 (by rw [hnow]; exact hn)).1
    · simp at h

theorem revokePre_kind (s : St) (k : Nat) (byCert : Bool) (st : Step) (h : st ∈ revokePre s k byCert) :
    st = .putCert k := by
  unfold revokePre at h
  split at h
  · simpa using h
  · simp at h

theorem revoke_safe (g : Tgt) (st0 : Bool) (s : St) (k : Nat) (byCert : Bool) (o1 o2 : List Nat) (hi : Inv g st0 s) :
    ∀ st ∈ (revokeProg s k byCert o1 o2).1, Safe g s.now st := by
  intro st hst
  have hpre : ∀ st ∈ revokePre s k byCert, Safe g s.now st ∧ isTick st = false := by
    intro st h; rw [revokePre_kind s k byCert st h]; exact ⟨trivial, rfl⟩
  unfold revokeProg at hst
  split at hst
  · simp at hst
  · rename_i c hck
    split at hst
    · simp at hst
    · split at hst
      · simp at hst
      · simp only at hst
        by_cases hcol : collides s k = true
        · simp only [hcol, ↓reduceIte] at hst; exact (hpre st hst).1
        simp only [hcol, Bool.false_eq_true, ↓reduceIte] at hst
        split at hst
        · split at hst
          · exact (hpre st hst).1
          · simp only [List.mem_append] at hst
            rcases hst with h | h
            · exact (hpre st h).1
            · have h2 := inv_steps g st0 s.log s.now _ s (Nat.le_refl _) hi (fun e he => Or.inl he)
                (fun st h => (hpre st h).1)
              have hnow := now_steps_eq _ s (fun st h => (hpre st h).2)
              refine rebuild_safe g s.now _ false o1 o2 h2.1.1 (fun hn => ?_) st h
              exact (h2.1.2 (by rw [hnow]; exact hn)).1
        · rename_i hnone
          have hrec : ∀ st ∈ revokePre s k byCert ++ [Step.putRevoked k (s.stamps + 1)],
              Safe g s.now st ∧ isTick st = false := by
            intro st h
            rw [List.mem_append] at h
            rcases h with h | h
            · exact hpre st h
            · simp only [List.mem_singleton] at h; subst h
              refine ⟨fun hk hn => ?_, rfl⟩
              subst hk
              rw [(hi.2 hn).1] at hnone
              cases hnone
          split at hst
          · exact (hpre st hst).1
          · split at hst
            · exact (hrec st hst).1
            · simp only [List.mem_append] at hst
              rcases hst with h | h
              · exact (hrec st (List.mem_append.mpr h)).1
              · have h2 := inv_steps g st0 s.log s.now _ s (Nat.le_refl _) hi (fun e he => Or.inl he)
                  (fun st h => (hrec st h).1)
                have hnow := now_steps_eq _ s (fun st h => (hrec st h).2)
                refine rebuild_safe g s.now _ false o1 o2 h2.1.1 (fun hn => ?_) st h
                exact (h2.1.2 (by rw [hnow]; exact hn)).1

theorem addIssuer_safe (g : Tgt) (st0 : Bool) (s : St) (o1 o2 : List Nat) (hi : Inv g st0 s) :
    ∀ st ∈ (addIssuerProg s o1 o2).1, Safe g s.now st := by
  intro st hst
  simp only [addIssuerProg, List.mem_append, List.mem_singleton] at hst
  rcases hst with (rfl | h) | h
  · trivial
  · split at h
    · simp only [List.mem_singleton] at h; subst h; trivial
    · simp at h
  · refine rebuild_safe g s.now _ true o1 o2 ?_ (fun hn => ?_) st h
    · split <;> simpa [applySteps, applyStep] using hi.1
    · split <;> simpa [applySteps, applyStep] using (hi.2 hn).1

theorem prog_safe (g : Tgt) (st0 : Bool) (s : St) (o1 o2 : List Nat) (op : Op) (hi : Inv g st0 s) :
    ∀ st ∈ (prog s o1 o2 op).1, Safe g s.now st := by
  have hrb : ∀ f, ∀ st ∈ rebuildSteps s f o1 o2, Safe g s.now st :=
    fun f => rebuild_safe g s.now s f o1 o2 hi.1 (fun hn => (hi.2 hn).1)
  cases op with
  | addIssuer => exact addIssuer_safe g st0 s o1 o2 hi
  | importIssuer col =>
    intro st hst
    cases col with
    | none => exact addIssuer_safe g st0 s o1 o2 hi st hst
    | some k =>
      simp only [prog, importIssuerProg] at hst
      split at hst
      · simp at hst
      · rcases List.mem_cons.mp hst with rfl | h
        · trivial
        · exact addIssuer_safe g st0 _ o1 o2
            (inv_step g st0 s.now s (Step.noteSerial (s.nIssuers + 1) k) (Nat.le_refl _) hi trivial) st h
  | delIssuer i =>
    intro st hst
    simp only [prog, delIssuerProg] at hst
    split at hst
    · simp at hst
    · simp only [List.mem_append, List.mem_singleton] at hst
      rcases hst with rfl | h
      · trivial
      · exact rebuild_safe g s.now _ true o1 o2 (by simpa [applyStep] using hi.1)
          (fun hn => by simpa [applyStep] using (hi.2 hn).1) st h
  | issue i ttl =>
    intro st hst
    simp only [prog, issueProg] at hst
    split at hst
    · simp at hst
    · simp only [List.mem_singleton] at hst; subst hst; trivial
  | craft i v =>
    intro st hst
    simp only [prog, craftProg] at hst
    split at hst
    · simp at hst
    · simp only [List.mem_singleton] at hst; subst hst; trivial
  | revoke k byCert => exact revoke_safe g st0 s k byCert o1 o2 hi
  | rotate => exact hrb false
  | tidy cs rc assoc => exact tidy_safe g st0 s cs rc assoc o1 o2 hi
  | config a d x =>
    intro st hst
    simp only [prog, configProg, List.mem_append, List.mem_singleton] at hst
    rcases hst with rfl | h
    · trivial
    · split at h
      · exact rebuild_safe g s.now _ true o1 o2 (by simpa [applyStep] using hi.1)
          (fun hn => by simpa [applyStep] using (hi.2 hn).1) st h
      · simp at h
  | restart => intro st hst; simp [prog] at hst
  | tick d => intro st hst; simp only [prog, List.mem_singleton] at hst; subst hst; trivial

theorem cutSteps_sub (p : List Step) (c : Option Nat) : ∀ st ∈ cutSteps p c, st ∈ p := by
  intro st h
  cases c with
  | none => exact h
  | some j => exact List.mem_of_mem_take h

theorem inv_exec (g : Tgt) (st0 : Bool) (base : List Ev) (s : St) (r : Run) (hi : Inv g st0 s) (hl : LogInv g base s) :
    Inv g st0 (exec s r) ∧ LogInv g base (exec s r) := by
  have h := inv_steps g st0 base s.now (cutSteps (prog s r.o1 r.o2 r.op).1 r.cut) s (Nat.le_refl _) hi hl
    (fun st hst => prog_safe g st0 s r.o1 r.o2 r.op hi st (cutSteps_sub _ _ st hst))
  exact ⟨h.1, h.2.1⟩

theorem inv_run (g : Tgt) (st0 : Bool) (base : List Ev) (h : List Run) :
    ∀ s, Inv g st0 s → LogInv g base s → Inv g st0 (run s h) ∧ LogInv g base (run s h) := by
  induction h with
  | nil => intro s hi hl; exact ⟨hi, hl⟩
  | cons r h ih =>
    intro s hi hl
    have := inv_exec g st0 base s r hi hl
    exact ih (exec s r) this.1 this.2

/-- shape of a revoke that answers success -/
theorem revokeProg_revoked (s : St) (k : Nat) (b : Bool) (o1 o2 : List Nat) (t : Nat)
    (h : (revokeProg s k b o1 o2).2 = .revoked t) :
    (s.revoked.lookup k = some t ∧ (revokeProg s k b o1 o2).1 = revokePre s k b ++
        (if s.cfg.autoRebuild then [] else rebuildSteps (applySteps s (revokePre s k b)) false o1 o2)) ∨
    (s.revoked.lookup k = none ∧ t = s.stamps + 1 ∧
      (revokeProg s k b o1 o2).1 = (revokePre s k b ++ [Step.putRevoked k t]) ++
        (if s.cfg.autoRebuild then [] else rebuildSteps (applySteps s (revokePre s k b ++ [Step.putRevoked k t])) false o1 o2)) := by
  unfold revokeProg at h ⊢
  cases hc : s.certs[k]? with
  | none => simp [hc] at h
  | some c =>
    simp only [hc] at h ⊢
    split
    · rename_i h1; simp [h1] at h
    · rename_i h1
      simp only [h1] at h
      split
      · rename_i h2; simp [h2] at h
      · rename_i h2
        simp only [h2] at h
        simp only [Bool.false_eq_true, ↓reduceIte] at h ⊢
        by_cases hcol : collides s k = true
        · simp [hcol] at h
        simp only [hcol, Bool.false_eq_true, ↓reduceIte] at h ⊢
        cases hl : s.revoked.lookup k with
        | some t' =>
          simp only [hl] at h ⊢
          left
          split
          · rename_i h4
            simp only [h4, ↓reduceIte, Res.revoked.injEq] at h
            subst h; simp
          · rename_i h4
            simp only [h4, Bool.false_eq_true, ↓reduceIte, Res.revoked.injEq] at h
            subst h; simp
        | none =>
          simp only [hl] at h ⊢
          split
          · rename_i h3; simp [h3] at h
          · rename_i h3
            simp only [h3, Bool.false_eq_true, ↓reduceIte] at h
            right
            split
            · rename_i h4
              simp only [h4, ↓reduceIte, Res.revoked.injEq] at h
              subst h
              simp
            · rename_i h4
              simp only [h4, Bool.false_eq_true, ↓reduceIte, Res.revoked.injEq] at h
              subst h
              simp

/-! ### revocation entries are only ever removed by tidy, and only when expired -/

theorem applySteps_append (s : St) (a b : List Step) : applySteps s (a ++ b) = applySteps (applySteps s a) b := by
  simp [applySteps, List.foldl_append]

theorem applySteps_cons (s : St) (a : Step) (l : List Step) : applySteps s (a :: l) = applySteps (applyStep s a) l := rfl

theorem rebuild_kind (s : St) (f : Bool) (o1 o2 : List Nat) (st : Step) (h : st ∈ rebuildSteps s f o1 o2) :
    (∃ i n ser d, st = .putCRL i n ser d) ∨ (∃ i, st = .delCRL i) ∨ (∃ i, st = .delDelta i) ∨
    (∃ cs, st = .putCounters cs) ∨ (∃ i n, st = .putDelta i n) := by
  rcases rebuild_mem s f o1 o2 st h with ⟨i, _, _, rfl⟩ | h | ⟨_, rfl⟩ | ⟨_, _, rfl⟩
  · exact Or.inl ⟨_, _, _, _, rfl⟩
  · rcases staleDeletes_kind s st h with ⟨i, rfl⟩ | ⟨i, rfl⟩
    · exact Or.inr (Or.inl ⟨i, rfl⟩)
    · exact Or.inr (Or.inr (Or.inl ⟨i, rfl⟩))
  · exact Or.inr (Or.inr (Or.inr (Or.inl ⟨_, rfl⟩)))
  · exact Or.inr (Or.inr (Or.inr (Or.inr ⟨_, _, rfl⟩)))

/-- a write leaves the revocation entry `(k', t')` alone -/
def Keeps (k' t' : Nat) : Step → Prop
  | .delRevoked k'' => k'' ≠ k'
  | .putRevoked k'' t'' => k'' = k' → t'' = t'
  | _ => True

theorem keeps_step (k' t' : Nat) (s : St) (st : Step) (hl : s.revoked.lookup k' = some t') (hk : Keeps k' t' st) :
    (applyStep s st).revoked.lookup k' = some t' := by
  cases st with
  | delRevoked k'' =>
    simp only [applyStep]; rw [lookup_filter_ne _ _ _ (fun e => hk e.symm)]; exact hl
  | putRevoked k'' t'' =>
    simp only [applyStep]
    by_cases h : k'' = k'
    · have := hk h; subst h; subst this; exact lookup_setAssoc_self _ _ _
    · rw [lookup_setAssoc_ne _ _ _ _ (fun e => h e.symm)]; exact hl
  | _ => simpa [applyStep] using hl

theorem keeps_steps (k' t' : Nat) (l : List Step) : ∀ s, s.revoked.lookup k' = some t' → (∀ st ∈ l, Keeps k' t' st) →
    (applySteps s l).revoked.lookup k' = some t' := by
  induction l with
  | nil => intro s h _; exact h
  | cons a l ih =>
    intro s h hk
    exact ih _ (keeps_step k' t' s a h (hk a (List.mem_cons_self ..))) (fun st hst => hk st (List.mem_cons_of_mem _ hst))

theorem rebuild_keeps (k' t' : Nat) (s : St) (f : Bool) (o1 o2 : List Nat) : ∀ st ∈ rebuildSteps s f o1 o2, Keeps k' t' st := by
  intro st h
  rcases rebuild_kind s f o1 o2 st h with ⟨_, _, _, _, rfl⟩ | ⟨_, rfl⟩ | ⟨_, rfl⟩ | ⟨_, rfl⟩ | ⟨_, _, rfl⟩ <;> trivial

def isTidy : Op → Bool
  | .tidy .. => true
  | _ => false

theorem addIssuer_keeps (k' t' : Nat) (s : St) (o1 o2 : List Nat) : ∀ st ∈ (addIssuerProg s o1 o2).1, Keeps k' t' st := by
  intro st hst
  simp only [addIssuerProg, List.mem_append, List.mem_singleton] at hst
  rcases hst with (rfl | h) | h
  · trivial
  · split at h
    · simp only [List.mem_singleton] at h; subst h; trivial
    · simp at h
  · exact rebuild_keeps k' t' _ _ _ _ st h

theorem prog_keeps (k' t' : Nat) (s : St) (o1 o2 : List Nat) (op : Op) (hl : s.revoked.lookup k' = some t')
    (hx : ¬ (isTidy op = true ∧ tidyExpired s k' = true)) : ∀ st ∈ (prog s o1 o2 op).1, Keeps k' t' st := by
  cases op with
  | addIssuer => exact addIssuer_keeps k' t' s o1 o2
  | importIssuer col =>
    intro st hst
    cases col with
    | none => exact addIssuer_keeps k' t' s o1 o2 st hst
    | some k =>
      simp only [prog, importIssuerProg] at hst
      split at hst
      · simp at hst
      · rcases List.mem_cons.mp hst with rfl | h
        · trivial
        · exact addIssuer_keeps k' t' _ o1 o2 st h
  | delIssuer i =>
    intro st hst
    simp only [prog, delIssuerProg] at hst
    split at hst
    · simp at hst
    · simp only [List.mem_append, List.mem_singleton] at hst
      rcases hst with rfl | h
      · trivial
      · exact rebuild_keeps k' t' _ _ _ _ st h
  | issue i ttl =>
    intro st hst
    simp only [prog, issueProg] at hst
    split at hst
    · simp at hst
    · simp only [List.mem_singleton] at hst; subst hst; trivial
  | craft i v =>
    intro st hst
    simp only [prog, craftProg] at hst
    split at hst
    · simp at hst
    · simp only [List.mem_singleton] at hst; subst hst; trivial
  | revoke k byCert =>
    intro st hst
    simp only [prog] at hst
    unfold revokeProg at hst
    split at hst
    · simp at hst
    · split at hst
      · simp at hst
      · split at hst
        · simp at hst
        · simp only at hst
          have hpre : ∀ st ∈ revokePre s k byCert, Keeps k' t' st := by
            intro st h; rw [revokePre_kind s k byCert st h]; trivial
          by_cases hcol : collides s k = true
          · simp only [hcol, ↓reduceIte] at hst; exact hpre st hst
          simp only [hcol, Bool.false_eq_true, ↓reduceIte] at hst
          split at hst
          · split at hst
            · exact hpre st hst
            · simp only [List.mem_append] at hst
              rcases hst with h | h
              · exact hpre st h
              · exact rebuild_keeps k' t' _ _ _ _ st h
          · rename_i hnone
            have hrec : ∀ st ∈ revokePre s k byCert ++ [Step.putRevoked k (s.stamps + 1)], Keeps k' t' st := by
              intro st h
              rw [List.mem_append] at h
              rcases h with h | h
              · exact hpre st h
              · simp only [List.mem_singleton] at h; subst h
                intro hk; subst hk; rw [hl] at hnone; cases hnone
            split at hst
            · exact hpre st hst
            · split at hst
              · exact hrec st hst
              · simp only [List.mem_append] at hst
                rcases hst with h | h
                · exact hrec st (List.mem_append.mpr h)
                · exact rebuild_keeps k' t' _ _ _ _ st h
  | rotate => exact rebuild_keeps k' t' _ _ _ _
  | tidy cs rc assoc =>
    intro st hst
    simp only [prog, tidyProg, List.mem_append] at hst
    rcases hst with h | h
    · rcases tidyPass_kind s cs rc assoc st (List.mem_append.mpr h) with ⟨k, rfl, _⟩ | ⟨k, rfl, he⟩ | ⟨k, t, rfl, ht⟩
      · trivial
      · intro hk; subst hk; exact hx ⟨rfl, he⟩
      · intro hk; subst hk; rw [hl] at ht; exact (Option.some.inj ht).symm
    · split at h
      · exact rebuild_keeps k' t' _ _ _ _ st h
      · simp at h
  | config a d x =>
    intro st hst
    simp only [prog, configProg, List.mem_append, List.mem_singleton] at hst
    rcases hst with rfl | h
    · trivial
    · split at h
      · exact rebuild_keeps k' t' _ _ _ _ st h
      · simp at h
  | restart => intro st hst; simp [prog] at hst
  | tick d => intro st hst; simp only [prog, List.mem_singleton] at hst; subst hst; trivial

/-- writes that touch neither the revocation store nor the certificate table -/
def frameRevoked : Step → Bool
  | .putRevoked .. => false
  | .delRevoked _ => false
  | .addCert .. => false
  | _ => true

theorem frameRevoked_step (s : St) (st : Step) (h : frameRevoked st = true) :
    (applyStep s st).revoked = s.revoked ∧ (applyStep s st).certs = s.certs := by
  cases st <;> simp_all [applyStep, frameRevoked]

theorem rebuild_frameRevoked (s : St) (f : Bool) (o1 o2 : List Nat) : ∀ st ∈ rebuildSteps s f o1 o2, frameRevoked st = true := by
  intro st h
  rcases rebuild_kind s f o1 o2 st h with ⟨_, _, _, _, rfl⟩ | ⟨_, rfl⟩ | ⟨_, rfl⟩ | ⟨_, rfl⟩ | ⟨_, _, rfl⟩ <;> rfl

/-! ### what a complete rebuild serves -/

/-- a write does not change which CRL is served for issuer `i` -/
def KeepsServed (i : Nat) : Step → Prop
  | .putCRL j .. => j ≠ i
  | .delCRL j => j ≠ i
  | .addIssuer _ => False
  | .delIssuer _ => False
  | _ => True

theorem keepsServed_step (i : Nat) (s : St) (st : Step) (h : KeepsServed i st) : served (applyStep s st) i = served s i := by
  cases st with
  | putCRL j n ser d =>
    simp only [served, applyStep]
    rw [lookup_setAssoc_ne _ _ _ _ (fun e => h e.symm)]
    rfl
  | delCRL j =>
    simp only [served, applyStep]
    rw [lookup_filter_ne _ _ _ (fun e => h e.symm)]
    rfl
  | addIssuer j => exact absurd h id
  | delIssuer j => exact absurd h id
  | _ => rfl

theorem keepsServed_steps (i : Nat) (l : List Step) : ∀ s, (∀ st ∈ l, KeepsServed i st) → served (applySteps s l) i = served s i := by
  induction l with
  | nil => intro s _; rfl
  | cons a l ih =>
    intro s h
    rw [applySteps_cons, ih _ (fun st hst => h st (List.mem_cons_of_mem _ hst)),
      keepsServed_step i s a (h a (List.mem_cons_self ..))]

theorem putCRLs_served (i : Nat) (f : Nat → Nat) (g : Nat → List Nat) (d : Bool) (kOf : List Nat → Step)
    (hk : ∀ dn, KeepsServed i (kOf dn)) (L : List Nat) :
    ∀ s done, i ∈ s.issuers → (served s i = some (f i, g i) ∨ i ∈ L) →
      served (applySteps s (phaseSteps (fun j => Step.putCRL j (f j) (g j) d) kOf done L)) i = some (f i, g i) := by
  induction L with
  | nil =>
    intro s done _ h
    rcases h with h | h
    · exact h
    · simp at h
  | cons a L ih =>
    intro s done hi h
    simp only [phaseSteps]
    rw [applySteps_cons, applySteps_cons]
    have hs1 : served (applyStep s (kOf (a :: done))) i = served s i := keepsServed_step i s _ (hk _)
    have hi1 : i ∈ (applyStep s (kOf (a :: done))).issuers := by
      have := hk (a :: done)
      cases hkk : kOf (a :: done) <;> simp_all [applyStep, KeepsServed]
    have hi' : i ∈ (applyStep (applyStep s (kOf (a :: done))) (Step.putCRL a (f a) (g a) d)).issuers := by
      simpa [applyStep] using hi1
    by_cases ha : a = i
    · subst ha
      refine ih _ _ hi' (Or.inl ?_)
      generalize applyStep s (kOf (a :: done)) = S at hi1
      simp [served, applyStep, hi1, lookup_setAssoc_self]
    · refine ih _ _ hi' ?_
      rcases h with h | h
      · left
        rw [keepsServed_step i _ _ (by simpa [KeepsServed] using ha), hs1]
        exact h
      · right
        rcases List.mem_cons.mp h with h | h
        · exact absurd h.symm ha
        · exact h

theorem staleDeletes_kind' (s : St) (st : Step) (h : st ∈ staleDeletes s) :
    (∃ i, st = .delCRL i ∧ i ∉ s.issuers) ∨ (∃ i, st = .delDelta i) := by
  simp only [staleDeletes, List.mem_flatMap, List.mem_append, List.mem_filter] at h
  obtain ⟨i, ⟨_, hi⟩, h | h⟩ := h
  · split at h
    · left; exact ⟨i, by simpa using h, by simpa using hi⟩
    · simp at h
  · split at h
    · right; exact ⟨i, by simpa using h⟩
    · simp at h

theorem rebuild_serves (s : St) (f : Bool) (o1 o2 : List Nat) (i : Nat) (hi : i ∈ s.issuers) (ho : i ∈ o1)
    (hnd : (s.cfg.disable && !f) = false) :
    served (applySteps s (rebuildSteps s f o1 o2)) i =
      some (counter s i, if s.cfg.disable then [] else crlSerials s i) := by
  unfold rebuildSteps
  rw [hnd]
  simp only [Bool.false_eq_true, ↓reduceIte]
  rw [applySteps_append, applySteps_append, applySteps_append, applySteps_append]
  rw [keepsServed_steps, keepsServed_steps, keepsServed_steps, keepsServed_steps]
  · exact putCRLs_served i (counter s) (fun j => if s.cfg.disable then [] else crlSerials s j) s.cfg.disable
      (fun done => Step.putCounters (countersAt s 0 done true)) (fun _ => trivial) _ s [] hi
      (Or.inr (List.mem_filter.mpr ⟨ho, by simpa using hi⟩))
  · intro st hst
    rcases staleDeletes_kind' s st hst with ⟨j, rfl, hj⟩ | ⟨j, rfl⟩
    · exact fun e => hj (e ▸ hi)
    · trivial
  · intro st hst; simp only [List.mem_singleton] at hst; subst hst; trivial
  · intro st hst
    rcases mem_phaseSteps _ _ _ _ _ hst with ⟨dn, rfl⟩ | ⟨j, _, rfl⟩ <;> trivial
  · intro st hst; simp only [List.mem_singleton] at hst; subst hst; trivial

/-- the state right after the revocation record has been written -/
theorem rec1_state (s : St) (k t : Nat) (b : Bool) :
    let s1 := applySteps s (revokePre s k b ++ [Step.putRevoked k t])
    s1.certs = s.certs ∧ s1.issuers = s.issuers ∧ s1.cfg = s.cfg ∧ s1.revoked.lookup k = some t := by
  unfold revokePre
  split <;> simp [applySteps, applyStep, lookup_setAssoc_self]

theorem pre_state (s : St) (k : Nat) (b : Bool) :
    let s1 := applySteps s (revokePre s k b)
    s1.certs = s.certs ∧ s1.issuers = s.issuers ∧ s1.cfg = s.cfg ∧ s1.revoked = s.revoked := by
  unfold revokePre
  split <;> simp [applySteps, applyStep]

theorem frameRevoked_steps (l : List Step) : ∀ s, (∀ st ∈ l, frameRevoked st = true) →
    (applySteps s l).revoked = s.revoked ∧ (applySteps s l).certs = s.certs := by
  induction l with
  | nil => intro s _; exact ⟨rfl, rfl⟩
  | cons a l ih =>
    intro s h
    obtain ⟨a1, a2⟩ := frameRevoked_step s a (h a (List.mem_cons_self ..))
    obtain ⟨b1, b2⟩ := ih (applyStep s a) (fun st hst => h st (List.mem_cons_of_mem _ hst))
    rw [applySteps_cons]
    exact ⟨b1.trans a1, b2.trans a2⟩

/-- writes that leave the certificate table, the issuers and the CRL configuration alone -/
def frameCI : Step → Bool
  | .addCert .. => false
  | .addIssuer _ => false
  | .delIssuer _ => false
  | .putCfg _ => false
  | _ => true

theorem frameCI_step (s : St) (st : Step) (h : frameCI st = true) :
    (applyStep s st).certs = s.certs ∧ (applyStep s st).issuers = s.issuers ∧ (applyStep s st).cfg = s.cfg := by
  cases st <;> simp_all [applyStep, frameCI]

theorem frameCI_steps (l : List Step) : ∀ s, (∀ st ∈ l, frameCI st = true) →
    (applySteps s l).certs = s.certs ∧ (applySteps s l).issuers = s.issuers ∧ (applySteps s l).cfg = s.cfg := by
  induction l with
  | nil => intro s _; exact ⟨rfl, rfl, rfl⟩
  | cons a l ih =>
    intro s h
    obtain ⟨a1, a2, a3⟩ := frameCI_step s a (h a (List.mem_cons_self ..))
    obtain ⟨b1, b2, b3⟩ := ih (applyStep s a) (fun st hst => h st (List.mem_cons_of_mem _ hst))
    rw [applySteps_cons]
    exact ⟨b1.trans a1, b2.trans a2, b3.trans a3⟩

theorem rebuild_frameCI (s : St) (f : Bool) (o1 o2 : List Nat) : ∀ st ∈ rebuildSteps s f o1 o2, frameCI st = true := by
  intro st h
  rcases rebuild_kind s f o1 o2 st h with ⟨_, _, _, _, rfl⟩ | ⟨_, rfl⟩ | ⟨_, rfl⟩ | ⟨_, rfl⟩ | ⟨_, _, rfl⟩ <;> rfl

/-- every write of a revoke is: the presented certificate, the revocation record, or a write of a CRL rebuild -/
theorem revoke_step_kind (s : St) (k : Nat) (b : Bool) (o1 o2 : List Nat) (st : Step)
    (h : st ∈ (revokeProg s k b o1 o2).1) :
    st = .putCert k ∨ st = .putRevoked k (s.stamps + 1) ∨ ∃ s' f, st ∈ rebuildSteps s' f o1 o2 := by
  have hpre := revokePre_kind s k b
  unfold revokeProg at h
  split at h
  · simp at h
  · split at h
    · simp at h
    · split at h
      · simp at h
      · simp only at h
        by_cases hcol : collides s k = true
        · simp only [hcol, ↓reduceIte] at h; exact Or.inl (hpre st h)
        simp only [hcol, Bool.false_eq_true, ↓reduceIte] at h
        split at h
        · split at h
          · exact Or.inl (hpre st h)
          · rcases List.mem_append.mp h with h | h
            · exact Or.inl (hpre st h)
            · exact Or.inr (Or.inr ⟨_, _, h⟩)
        · split at h
          · exact Or.inl (hpre st h)
          · split at h
            · rcases List.mem_append.mp h with h | h
              · exact Or.inl (hpre st h)
              · simp only [List.mem_singleton] at h; exact Or.inr (Or.inl h)
            · rcases List.mem_append.mp h with h | h
              · rcases List.mem_append.mp h with h | h
                · exact Or.inl (hpre st h)
                · simp only [List.mem_singleton] at h; exact Or.inr (Or.inl h)
              · exact Or.inr (Or.inr ⟨_, _, h⟩)

theorem revoke_frameCI (s : St) (k : Nat) (b : Bool) (o1 o2 : List Nat) :
    ∀ st ∈ (revokeProg s k b o1 o2).1, frameCI st = true := by
  intro st h
  rcases revoke_step_kind s k b o1 o2 st h with rfl | rfl | ⟨s', f, h⟩
  · rfl
  · rfl
  · exact rebuild_frameCI s' f o1 o2 st h

end Obao.PKIRevoke
