import Obao.Proofs.KV2Bisim
/-! C14 helper lemmas, part 5: the per-key-lock schedule model.  Invariant of `cstep`, preserved along every schedule:
lock discipline, freshness of the local copies taken under the lock, and the ghost linearization log reproduces the
shared storage and every answer by sequential execution. -/
namespace Obao.KV2

def holds : Pc → Bool
  | .locked | .loaded _ | .unlocking _ => true
  | _ => false

/-- the thread has produced its answer `r` -/
def answered (pc : Pc) (r : Resp) : Prop := pc = .unlocking r ∨ pc = .done r

theorem seqRun_append (s : State) (l : List Op) (o : Op) :
    seqRun s (l ++ [o]) = ((step (seqRun s l).1 o).1, (seqRun s l).2 ++ [(step (seqRun s l).1 o).2]) := by
  induction l generalizing s with
  | nil => simp [seqRun]
  | cons a rest ih => simp [seqRun, ih]

theorem seqRun_length (s : State) (l : List Op) : (seqRun s l).2.length = l.length := by
  induction l generalizing s with
  | nil => rfl
  | cons a rest ih => simp [seqRun, ih]

/-- a request changes nothing but its own path -/
theorem step_only_path (s : State) (op : Op) (p : String) (h : op.path? = some p) :
    (step s op).1 = setPath s p ((step s op).1.paths p) := by
  have hs : ∀ (ps : PathSt), setPath s p ps = setPath s p ((setPath s p ps).paths p) := by
    intro ps; rw [setPath_same]
  have hself : s = setPath s p (s.paths p) := (setPath_self s p).symm
  cases op <;> simp only [Op.path?, Option.some.injEq, reduceCtorEq] at h
  all_goals first
    | (subst h; simp only [step, stepF]; first | exact hs _ | exact hself | (split <;> first | exact hs _ | exact hself))

theorem step_nonexclusive (s : State) (op : Op) (p : String) (h : op.path? = some p) (he : op.exclusive = false) :
    (step s op).1 = s := by
  cases op <;> simp only [Op.path?, Op.exclusive, reduceCtorEq] at h he <;> rfl

structure CInv (s0 : State) (ops : List Op) (c : CState) : Prop where
  ops_eq : c.threads.map (·.op) = ops
  lock : ∀ (p : String) (t : Nat), c.lock p = some t ↔
    ∃ th : Thread, c.threads[t]? = some th ∧ th.op.path? = some p ∧ th.op.exclusive = true ∧ holds th.pc = true
  fresh : ∀ (t : Nat) (th : Thread) (snap : PathSt) (p : String), c.threads[t]? = some th → th.pc = .loaded snap →
    th.op.path? = some p → snap = c.st.paths p
  st : (seqRun s0 (c.log.map (·.2))).1 = c.st
  resp : ∀ (i t : Nat) (o : Op), c.log[i]? = some (t, o) →
    ∃ (th : Thread) (r : Resp), c.threads[t]? = some th ∧ th.op = o ∧ answered th.pc r ∧
      (seqRun s0 (c.log.map (·.2))).2[i]? = some r
  complete : ∀ (t : Nat) (th : Thread) (r : Resp), c.threads[t]? = some th → answered th.pc r → ∃ o, (t, o) ∈ c.log
  nodup : (c.log.map (·.1)).Nodup
  nonex : ∀ (t : Nat) (th : Thread), c.threads[t]? = some th → holds th.pc = true → th.op.exclusive = true

theorem cinit_inv (s0 : State) (ops : List Op) : CInv s0 ops (cinit s0 ops) := by
  have hidle : ∀ (t : Nat) (th : Thread), (cinit s0 ops).threads[t]? = some th → th.pc = .idle := by
    intro t th h
    simp only [cinit, List.getElem?_map] at h
    cases ho : ops[t]? with
    | none => simp [ho] at h
    | some o => simp [ho] at h; rw [← h]
  refine ⟨?_, ?_, ?_, rfl, ?_, ?_, ?_, ?_⟩
  · simp [cinit, Function.comp_def]
  · intro p t
    simp only [cinit, reduceCtorEq, false_iff]
    rintro ⟨th, hth, _, _, hh⟩
    rw [hidle t th hth] at hh; simp [holds] at hh
  · intro t th snap p hth hpc
    rw [hidle t th hth] at hpc; cases hpc
  · intro i t o h; simp [cinit] at h
  · intro t th r hth ha
    rw [hidle t th hth] at ha
    rcases ha with h | h <;> cases h
  · simp [cinit]
  · intro t th hth hh
    rw [hidle t th hth] at hh; simp [holds] at hh

theorem get_set (l : List Thread) (t u : Nat) (th : Thread) (ht : t < l.length) :
    (l.set t th)[u]? = if t = u then some th else l[u]? := by
  by_cases e : t = u
  · subst e; simp [List.getElem?_set, ht]
  · simp [List.getElem?_set, e]

theorem ops_set (l : List Thread) (t : Nat) (th : Thread) (pc : Pc) (h : l[t]? = some th) :
    (l.set t { th with pc := pc }).map (·.op) = l.map (·.op) := by
  apply List.ext_getElem?
  intro u
  have ht : t < l.length := by
    rcases Nat.lt_or_ge t l.length with h1 | h1
    · exact h1
    · simp [List.getElem?_eq_none h1] at h
  simp only [List.getElem?_map, get_set l t u _ ht]
  by_cases e : t = u
  · subst e; simp [h]
  · simp [e]

/-- a step that neither touches the storage nor the log, and does not change whether/what the thread answered -/
theorem inv_quiet (s0 : State) (ops : List Op) (c : CState) (t : Nat) (th : Thread) (pc' : Pc) (lock' : String → Option Nat)
    (inv : CInv s0 ops c) (hth : c.threads[t]? = some th) (hans : ∀ r, answered th.pc r ↔ answered pc' r)
    (hlock : ∀ p u, lock' p = some u ↔
      ∃ th', (c.threads.set t { th with pc := pc' })[u]? = some th' ∧ th'.op.path? = some p ∧ th'.op.exclusive = true ∧
        holds th'.pc = true)
    (hfresh : ∀ snap p, pc' = .loaded snap → th.op.path? = some p → snap = c.st.paths p)
    (hnx : holds pc' = true → th.op.exclusive = true) :
    CInv s0 ops { c with lock := lock', threads := c.threads.set t { th with pc := pc' } } := by
  have ht : t < c.threads.length := by
    rcases Nat.lt_or_ge t c.threads.length with h1 | h1
    · exact h1
    · simp [List.getElem?_eq_none h1] at hth
  refine ⟨?_, hlock, ?_, inv.st, ?_, ?_, inv.nodup, ?_⟩
  · simp only; rw [ops_set _ t th pc' hth]; exact inv.ops_eq
  · intro u thu snap p hu hpc hp
    simp only at hu ⊢
    rw [get_set _ t u _ ht] at hu
    by_cases e : t = u
    · subst e; simp only [↓reduceIte, Option.some.injEq] at hu; subst hu
      exact hfresh snap p hpc hp
    · simp only [e, ↓reduceIte] at hu; exact inv.fresh u thu snap p hu hpc hp
  · intro i u o hi
    obtain ⟨thu, r, hu, ho, ha, hr⟩ := inv.resp i u o hi
    simp only
    rw [get_set _ t u _ ht]
    by_cases e : t = u
    · subst e
      rw [hth] at hu; cases hu
      exact ⟨{ th with pc := pc' }, r, by simp, ho, (hans r).mp ha, hr⟩
    · exact ⟨thu, r, by simp [e, hu], ho, ha, hr⟩
  · intro u thu r hu ha
    simp only at hu ⊢
    rw [get_set _ t u _ ht] at hu
    by_cases e : t = u
    · subst e; simp only [↓reduceIte, Option.some.injEq] at hu; subst hu
      exact inv.complete t th r hth ((hans r).mpr ha)
    · simp only [e, ↓reduceIte] at hu; exact inv.complete u thu r hu ha
  · intro u thu hu hh
    simp only at hu
    rw [get_set _ t u _ ht] at hu
    by_cases e : t = u
    · subst e; simp only [↓reduceIte, Option.some.injEq] at hu; subst hu
      exact hnx hh
    · simp only [e, ↓reduceIte] at hu; exact inv.nonex u thu hu hh

/-- the linearization step: the thread's request is appended to the log, the storage becomes what the sequential
    step gives, the thread now carries that step's answer -/
theorem inv_append (s0 : State) (ops : List Op) (c : CState) (t : Nat) (th : Thread) (pc' : Pc)
    (inv : CInv s0 ops c) (hth : c.threads[t]? = some th) (hnot : ∀ r, ¬ answered th.pc r)
    (hans : answered pc' (step c.st th.op).2) (hnl : ∀ snap, pc' ≠ .loaded snap)
    (hholds : holds pc' = holds th.pc ∨ th.op.exclusive = false)
    (hp : ∃ p, th.op.path? = some p) (hnx : holds pc' = true → th.op.exclusive = true)
    (hothers : ∀ u thu snap q, u ≠ t → c.threads[u]? = some thu → thu.pc = .loaded snap → thu.op.path? = some q →
      (step c.st th.op).1.paths q = c.st.paths q) :
    CInv s0 ops { c with st := (step c.st th.op).1, log := c.log ++ [(t, th.op)],
                         threads := c.threads.set t { th with pc := pc' } } := by
  have ht : t < c.threads.length := by
    rcases Nat.lt_or_ge t c.threads.length with h1 | h1
    · exact h1
    · simp [List.getElem?_eq_none h1] at hth
  have hnotin : ∀ o, (t, o) ∉ c.log := by
    intro o hmem
    obtain ⟨i, hi⟩ := List.getElem?_of_mem hmem
    obtain ⟨th', r, h1, _, ha, _⟩ := inv.resp i t o hi
    rw [hth] at h1; cases h1
    exact hnot r ha
  have hseq : seqRun s0 ((c.log ++ [(t, th.op)]).map (·.2)) =
      ((step c.st th.op).1, (seqRun s0 (c.log.map (·.2))).2 ++ [(step c.st th.op).2]) := by
    rw [List.map_append, List.map_singleton, seqRun_append, inv.st]
  have hlen : (seqRun s0 (c.log.map (·.2))).2.length = c.log.length := by rw [seqRun_length, List.length_map]
  refine ⟨?_, ?_, ?_, ?_, ?_, ?_, ?_, ?_⟩
  · simp only; rw [ops_set _ t th pc' hth]; exact inv.ops_eq
  · intro p u
    simp only
    rw [inv.lock p u, get_set _ t u _ ht]
    by_cases e : t = u
    · subst e
      simp only [↓reduceIte, Option.some.injEq, hth]
      constructor
      · rintro ⟨th', rfl, h1, h2, h3⟩
        refine ⟨_, rfl, h1, h2, ?_⟩
        rcases hholds with hh | hh
        · simp only; rw [hh]; exact h3
        · rw [hh] at h2; cases h2
      · rintro ⟨th', rfl, h1, h2, h3⟩
        refine ⟨_, rfl, h1, h2, ?_⟩
        rcases hholds with hh | hh
        · simp only at h3; rw [hh] at h3; exact h3
        · simp only at h2; rw [hh] at h2; cases h2
    · simp [e]
  · intro u thu snap q hu hpc hq
    simp only at hu ⊢
    rw [get_set _ t u _ ht] at hu
    by_cases e : t = u
    · subst e; simp only [↓reduceIte, Option.some.injEq] at hu; subst hu
      exact absurd hpc (hnl snap)
    · simp only [e, ↓reduceIte] at hu
      rw [hothers u thu snap q (fun h => e h.symm) hu hpc hq]
      exact inv.fresh u thu snap q hu hpc hq
  · simp only; rw [hseq]
  · intro i u o hi
    simp only at hi ⊢
    rw [hseq]
    simp only
    rcases Nat.lt_trichotomy i c.log.length with hlt | heq | hgt
    · rw [List.getElem?_append_left hlt] at hi
      obtain ⟨thu, r, hu, ho, ha, hr⟩ := inv.resp i u o hi
      have hne : t ≠ u := by
        rintro rfl
        rw [hth] at hu; cases hu
        exact hnot r ha
      refine ⟨thu, r, by rw [get_set _ t u _ ht]; simp [hne, hu], ho, ha, ?_⟩
      rw [List.getElem?_append_left (by omega)]; exact hr
    · subst heq
      simp only [List.getElem?_concat_length, Option.some.injEq, Prod.mk.injEq] at hi
      obtain ⟨rfl, rfl⟩ := hi
      refine ⟨{ th with pc := pc' }, (step c.st th.op).2, by rw [get_set _ t t _ ht]; simp, rfl, hans, ?_⟩
      rw [← hlen, List.getElem?_concat_length]
    · rw [List.getElem?_eq_none (by simp; omega)] at hi; cases hi
  · intro u thu r hu ha
    simp only at hu ⊢
    rw [get_set _ t u _ ht] at hu
    by_cases e : t = u
    · subst e; exact ⟨th.op, by simp⟩
    · simp only [e, ↓reduceIte] at hu
      obtain ⟨o, ho⟩ := inv.complete u thu r hu ha
      exact ⟨o, by simp [ho]⟩
  · simp only [List.map_append, List.map_singleton]
    rw [List.nodup_append]
    refine ⟨inv.nodup, by simp, ?_⟩
    intro a ha b hb
    simp only [List.mem_singleton] at hb
    subst hb
    rintro rfl
    obtain ⟨⟨t', o⟩, hmem, rfl⟩ := List.mem_map.mp ha
    exact hnotin o hmem
  · intro u thu hu hh
    simp only at hu
    rw [get_set _ t u _ ht] at hu
    by_cases e : t = u
    · subst e; simp only [↓reduceIte, Option.some.injEq] at hu; subst hu
      exact hnx hh
    · simp only [e, ↓reduceIte] at hu; exact inv.nonex u thu hu hh

theorem cstep_inv (s0 : State) (ops : List Op) (c c' : CState) (t : Nat) (inv : CInv s0 ops c)
    (h : cstep c t = some c') : CInv s0 ops c' := by
  unfold cstep at h
  cases hth : c.threads[t]? with
  | none => simp [hth] at h
  | some th =>
    simp only [hth] at h
    have ht : t < c.threads.length := by
      rcases Nat.lt_or_ge t c.threads.length with h1 | h1
      · exact h1
      · simp [List.getElem?_eq_none h1] at hth
    cases hp : th.op.path? with
    | none => simp [hp] at h
    | some p =>
      simp only [hp] at h
      -- generic: how the lock table relates to the holders after thread t's pc changed
      have lockStep : ∀ (pc' : Pc) (lock' : String → Option Nat),
          (∀ q, q ≠ p → lock' q = c.lock q) →
          (th.op.exclusive = true → holds pc' = true → lock' p = some t) →
          (th.op.exclusive = true → holds pc' = false → lock' p = none ∧ (holds th.pc = true ∨ c.lock p = none)) →
          (th.op.exclusive = true → holds pc' = true → holds th.pc = true ∨ c.lock p = none) →
          (th.op.exclusive = false → lock' p = c.lock p) →
          ∀ q u, lock' q = some u ↔
            ∃ th', (c.threads.set t { th with pc := pc' })[u]? = some th' ∧ th'.op.path? = some q ∧ th'.op.exclusive = true ∧
              holds th'.pc = true := by
        intro pc' lock' hother hset hclr hkeep hnex q u
        rw [get_set _ t u _ ht]
        by_cases e : t = u
        · subst e
          simp only [↓reduceIte, Option.some.injEq]
          constructor
          · intro hl
            by_cases hq : q = p
            · subst hq
              cases hex : th.op.exclusive with
              | false =>
                rw [hnex hex] at hl
                obtain ⟨th', h1, _, h3, _⟩ := (inv.lock q t).mp hl
                rw [hth] at h1; cases h1; rw [hex] at h3; cases h3
              | true =>
                cases hh : holds pc' with
                | true => exact ⟨_, rfl, hp, hex, hh⟩
                | false => rw [(hclr hex hh).1] at hl; cases hl
            · rw [hother q hq] at hl
              obtain ⟨th', h1, h2, _⟩ := (inv.lock q t).mp hl
              rw [hth] at h1; cases h1; rw [hp] at h2; cases h2; exact absurd rfl hq
          · rintro ⟨th', rfl, h1, h2, h3⟩
            simp only at h1 h2 h3
            rw [hp] at h1; cases h1
            exact hset h2 h3
        · simp only [e, ↓reduceIte]
          by_cases hq : q = p
          · subst hq
            cases hex : th.op.exclusive with
            | false => rw [hnex hex]; exact inv.lock q u
            | true =>
              cases hh : holds pc' with
              | true =>
                rw [hset hex hh]
                constructor
                · intro hl; cases hl; exact absurd rfl e
                · intro hu
                  have := (inv.lock q u).mpr hu
                  rcases hkeep hex hh with hold | hnone
                  · have ht' := (inv.lock q t).mpr ⟨th, hth, hp, hex, hold⟩
                    rw [this] at ht'; cases ht'; exact absurd rfl e
                  · rw [hnone] at this; cases this
              | false =>
                rw [(hclr hex hh).1]
                constructor
                · intro hl; cases hl
                · intro hu
                  have := (inv.lock q u).mpr hu
                  rcases (hclr hex hh).2 with hold | hnone
                  · have ht' := (inv.lock q t).mpr ⟨th, hth, hp, hex, hold⟩
                    rw [this] at ht'; cases ht'; exact absurd rfl e
                  · rw [hnone] at this; cases this
          · rw [hother q hq]; exact inv.lock q u
      cases hex : th.op.exclusive with
      | true =>
        simp only [hex, ↓reduceIte] at h
        cases hpc : th.pc with
        | idle =>
          simp only [hpc] at h
          cases hl : c.lock p with
          | some _ => simp [hl] at h
          | none =>
            simp only [hl, Option.some.injEq] at h
            subst h
            apply inv_quiet s0 ops c t th .locked _ inv hth
            · intro r; simp [answered, hpc]
            · apply lockStep
              · intro q hq; simp [hq]
              · intro _ _; simp
              · intro _ hh; simp [holds] at hh
              · intro _ _; exact Or.inr hl
              · intro hne; rw [hex] at hne; cases hne
            · intro snap q hc; cases hc
            · intro _; exact hex
        | locked =>
          simp only [hpc, Option.some.injEq] at h
          subst h
          have := inv_quiet s0 ops c t th (.loaded (c.st.paths p)) c.lock inv hth
            (by intro r; simp [answered, hpc])
            (by
              apply lockStep
              · intro q _; rfl
              · intro _ _; exact (inv.lock p t).mpr ⟨th, hth, hp, hex, by rw [hpc]; rfl⟩
              · intro _ hh; simp [holds] at hh
              · intro _ _; left; rw [hpc]; rfl
              · intro hne; simp [hex] at hne)
            (by
              intro snap q hc hq
              rw [hp] at hq; cases hq; cases hc; rfl)
            (fun _ => hex)
          exact this
        | loaded snap =>
          simp only [hpc, Option.some.injEq] at h
          subst h
          have hsnap : snap = c.st.paths p := inv.fresh t th snap p hth hpc hp
          have hstep : setPath c.st p ((step (setPath c.st p snap) th.op).1.paths p) = (step c.st th.op).1 := by
            rw [hsnap, setPath_self]; exact (step_only_path c.st th.op p hp).symm
          have hresp : (step (setPath c.st p snap) th.op).2 = (step c.st th.op).2 := by
            rw [hsnap, setPath_self]
          rw [hstep, hresp]
          have hlockt : c.lock p = some t := (inv.lock p t).mpr ⟨th, hth, hp, hex, by rw [hpc]; rfl⟩
          have := inv_append s0 ops c t th (.unlocking (step c.st th.op).2) inv hth
            (by intro r; simp [answered, hpc]) (Or.inl rfl) (by intro s; simp)
            (Or.inl (by rw [hpc]; rfl)) ⟨p, hp⟩ (fun _ => hex)
            (by
              intro u thu snap' q hne hu hpcu hq
              by_cases hqp : q = p
              · subst hqp
                -- another thread with a local copy of the same path would hold the same lock
                have hexu : thu.op.exclusive = true := inv.nonex u thu hu (by rw [hpcu]; rfl)
                have := (inv.lock q u).mpr ⟨thu, hu, hq, hexu, by rw [hpcu]; rfl⟩
                rw [hlockt] at this; cases this; exact absurd rfl hne
              · rw [step_only_path c.st th.op p hp, setPath_other _ _ _ _ hqp])
          exact this
        | unlocking r =>
          simp only [hpc, Option.some.injEq] at h
          subst h
          apply inv_quiet s0 ops c t th (.done r) _ inv hth
          · intro r'; simp [answered, hpc]
          · apply lockStep
            · intro q hq; simp [hq]
            · intro _ hh; simp [holds] at hh
            · intro _ _; exact ⟨by simp, Or.inl (by rw [hpc]; rfl)⟩
            · intro _ hh; simp [holds] at hh
            · intro hne; rw [hex] at hne; cases hne
          · intro snap q hc; cases hc
          · intro hh; simp [holds] at hh
        | done r => simp [hpc] at h
      | false =>
        simp only [hex, Bool.false_eq_true, ↓reduceIte] at h
        cases hpc : th.pc with
        | idle =>
          simp only [hpc] at h
          have hst : (step c.st th.op).1 = c.st := step_nonexclusive c.st th.op p hp hex
          have key : CInv s0 ops { c with log := c.log ++ [(t, th.op)], threads := c.threads.set t { th with pc := .done (step c.st th.op).2 } } := by
            have := inv_append s0 ops c t th (.done (step c.st th.op).2) inv hth
              (by intro r; simp [answered, hpc]) (Or.inr rfl) (by intro s; simp) (Or.inr hex) ⟨p, hp⟩ (by intro hh; simp [holds] at hh)
              (by intro u thu snap' q _ _ _ _; rw [hst])
            rw [hst] at this
            exact this
          split at h
          · cases h
          · cases h; exact key
        | locked => simp [hpc] at h
        | loaded snap => simp [hpc] at h
        | unlocking r => simp [hpc] at h
        | done r => simp [hpc] at h

theorem crun_inv (s0 : State) (ops : List Op) (sched : List Nat) (c : CState) (inv : CInv s0 ops c) :
    CInv s0 ops (crun sched c) := by
  induction sched generalizing c with
  | nil => exact inv
  | cons t ts ih =>
    simp only [crun]
    cases h : cstep c t with
    | none => exact ih c inv
    | some c' => exact ih c' (cstep_inv s0 ops c c' t inv h)

theorem crun_append (a b : List Nat) (c : CState) : crun (a ++ b) c = crun b (crun a c) := by
  induction a generalizing c with
  | nil => rfl
  | cons t ts ih =>
    simp only [List.cons_append, crun]
    cases cstep c t <;> exact ih _

/-- the linearization log only grows -/
theorem cstep_log_prefix (c c' : CState) (t : Nat) (h : cstep c t = some c') : ∃ ext, c'.log = c.log ++ ext := by
  unfold cstep at h
  repeat' split at h
  all_goals first
    | (cases h; exact ⟨[], (List.append_nil _).symm⟩)
    | (cases h; exact ⟨[_], rfl⟩)
    | cases h

theorem crun_log_prefix (sched : List Nat) (c : CState) : ∃ ext, (crun sched c).log = c.log ++ ext := by
  induction sched generalizing c with
  | nil => exact ⟨[], by simp [crun]⟩
  | cons t ts ih =>
    simp only [crun]
    cases h : cstep c t with
    | none => exact ih c
    | some c' =>
      obtain ⟨e1, h1⟩ := cstep_log_prefix c c' t h
      obtain ⟨e2, h2⟩ := ih c'
      exact ⟨e1 ++ e2, by rw [h2, h1, List.append_assoc]⟩

theorem answered_unique (pc : Pc) (r r' : Resp) (h : answered pc r) (h' : answered pc r') : r = r' := by
  rcases h with h | h <;> rcases h' with h' | h' <;> rw [h] at h' <;> cases h' <;> rfl

/-! ### sequential core of "one winner": along any sequence of requests without a metadata delete of the key, the
current version never decreases, so at most one write presenting the same cas value can succeed -/

/-- a write on `p` presenting the cas value `c` -/
def isCasWrite (p : String) (c : Int) : Op → Prop
  | .write q (.val c') _ => q = p ∧ c' = c
  | _ => False

theorem step_curVer_mono (s : State) (op : Op) (p : String) (h : op ≠ .metaDelete p) :
    curVer s p ≤ curVer (step s op).1 p := by
  have := stepF_curVer false none s op p
  simp only [step]
  rw [this]
  split
  · omega
  · cases op <;> simp only <;> try omega
    rename_i q
    split
    · rename_i e; subst e; exact absurd rfl h
    · omega

theorem casWrite_wrote (s : State) (p : String) (c : Int) (o : Op) (v : Nat) (del : Del) (w : Bool)
    (ho : isCasWrite p c o) (h : (step s o).2 = .wrote v del w) :
    uint64 c = curVer s p ∧ curVer (step s o).1 p = curVer s p + 1 := by
  cases o <;> simp only [isCasWrite] at ho
  rename_i q cas d
  cases cas <;> simp only at ho
  rename_i c'
  obtain ⟨rfl, rfl⟩ := ho
  -- exact check-and-set (restated here; the property theorem `cas_exact` is the same fact)
  unfold curVer
  by_cases hc : uint64 c' = (metaOr (s.paths q)).current
  · have hcc : casCheck (.val c') s.cfg (metaOr (s.paths q)) = none := by simp [casCheck, hc]
    refine ⟨hc, ?_⟩
    simp only [step, stepF, writePath, Bool.false_eq_true, false_and, reduceCtorEq, ↓reduceIte, hcc, commitWrite, setPath_same]
    rw [metaOr_some _ _ rfl, addVersion_current]
  · have hcc : casCheck (.val c') s.cfg (metaOr (s.paths q)) = some .casMismatch := by simp [casCheck, hc]
    simp [step, stepF, writePath, hcc] at h

theorem seq_no_winner_after (p : String) (c : Int) (ops : List Op) (hnd : ∀ o ∈ ops, o ≠ .metaDelete p) (s : State)
    (hgt : uint64 c < curVer s p) (j : Nat) (oj : Op) (v : Nat) (del : Del) (w : Bool)
    (hj : ops[j]? = some oj) (hc : isCasWrite p c oj) : (seqRun s ops).2[j]? ≠ some (.wrote v del w) := by
  induction ops generalizing s j with
  | nil => simp at hj
  | cons o rest ih =>
    have hmono := step_curVer_mono s o p (hnd o (List.mem_cons_self ..))
    cases j with
    | zero =>
      simp only [List.getElem?_cons_zero, Option.some.injEq] at hj; subst hj
      simp only [seqRun, List.getElem?_cons_zero, ne_eq, Option.some.injEq]
      intro h
      have := (casWrite_wrote s p c o v del w hc h).1
      omega
    | succ j' =>
      simp only [List.getElem?_cons_succ] at hj
      simp only [seqRun, List.getElem?_cons_succ]
      exact ih (fun o' ho' => hnd o' (List.mem_cons_of_mem _ ho')) _ (by omega) j' hj

theorem seq_at_most_one (p : String) (c : Int) (ops : List Op) (hnd : ∀ o ∈ ops, o ≠ .metaDelete p) (s : State)
    (i j : Nat) (hij : i < j) (oi oj : Op) (vi vj : Nat) (di dj : Del) (wi wj : Bool)
    (hi : ops[i]? = some oi) (hci : isCasWrite p c oi) (hri : (seqRun s ops).2[i]? = some (.wrote vi di wi))
    (hj : ops[j]? = some oj) (hcj : isCasWrite p c oj) : (seqRun s ops).2[j]? ≠ some (.wrote vj dj wj) := by
  induction ops generalizing s i j with
  | nil => simp at hi
  | cons o rest ih =>
    have hrest : ∀ o' ∈ rest, o' ≠ .metaDelete p := fun o' ho' => hnd o' (List.mem_cons_of_mem _ ho')
    cases j with
    | zero => omega
    | succ j' =>
      simp only [List.getElem?_cons_succ] at hj
      simp only [seqRun, List.getElem?_cons_succ]
      cases i with
      | zero =>
        simp only [List.getElem?_cons_zero, Option.some.injEq] at hi; subst hi
        simp only [seqRun, List.getElem?_cons_zero, Option.some.injEq] at hri
        have := casWrite_wrote s p c o vi di wi hci hri
        exact seq_no_winner_after p c rest hrest _ (by omega) j' oj vj dj wj hj hcj
      | succ i' =>
        simp only [List.getElem?_cons_succ] at hi
        simp only [seqRun, List.getElem?_cons_succ] at hri
        exact ih hrest _ i' j' (by omega) hi hri hj

end Obao.KV2
