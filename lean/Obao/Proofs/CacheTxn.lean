import Obao.Model.CacheTxn
import Obao.Proofs.InmemTxn
/-! Helper lemmas for C08 (cache layer): the caches stay coherent with the layer below. -/
namespace Obao.CacheTxn
open Obao.SerialTxn Obao.InmemTxn

def isWriteOp (o : InmemOp) : Bool := o.opType == .put || o.opType == .delete

/-- every key the wrapped transaction has logged a write for is in the cache transaction's `modified` set -/
def WritesCovered (s : CSys) : Prop :=
  ∀ id c t, s.ctxns.lookup id = some c → s.inner.txns.lookup id = some t →
    ∀ o ∈ t.operations, isWriteOp o = true → o.argKey ∈ c.modified

theorem lookup_lruSet_same (c : Lru) (k : Key) (e : Option Val) : (lruSet c k e).lookup k = some e := by
  simp [lruSet, List.lookup]

theorem lookup_filter_ne (c : Lru) (k k' : Key) (h : k' ≠ k) :
    (c.filter (fun x => x.1 != k)).lookup k' = c.lookup k' := by
  induction c with
  | nil => rfl
  | cons x r ih =>
    obtain ⟨a, b⟩ := x
    by_cases ha : a = k
    · subst ha
      have : (k' == a) = false := by simpa using h
      simp [List.filter_cons, List.lookup, this, ih]
    · have : (a != k) = true := by simpa using ha
      simp only [List.filter_cons, this, if_true, List.lookup]
      split <;> simp [ih]

theorem lookup_filter_same (c : Lru) (k : Key) : (c.filter (fun x => x.1 != k)).lookup k = none := by
  induction c with
  | nil => rfl
  | cons x r ih =>
    obtain ⟨a, b⟩ := x
    by_cases ha : a = k
    · subst ha; simp [List.filter_cons, ih]
    · have h1 : (a != k) = true := by simpa using ha
      have h2 : (k == a) = false := by simpa using (fun h : k = a => ha h.symm)
      simp [List.filter_cons, h1, List.lookup, h2, ih]

theorem lookup_lruSet_other (c : Lru) (k k' : Key) (e : Option Val) (h : k' ≠ k) :
    (lruSet c k e).lookup k' = c.lookup k' := by
  have : (k' == k) = false := by simpa using h
  simp [lruSet, List.lookup, this, lookup_filter_ne c k k' h]

theorem lookup_lruRemove_same (c : Lru) (k : Key) : (lruRemove c k).lookup k = none := lookup_filter_same c k

theorem lookup_lruRemove_other (c : Lru) (k k' : Key) (h : k' ≠ k) : (lruRemove c k).lookup k' = c.lookup k' :=
  lookup_filter_ne c k k' h

theorem lookup_foldl_remove (ks : List Key) (c : Lru) (k : Key) (e : Option Val)
    (h : (ks.foldl lruRemove c).lookup k = some e) : k ∉ ks ∧ c.lookup k = some e := by
  induction ks generalizing c with
  | nil => exact ⟨by simp, h⟩
  | cons a r ih =>
    simp only [List.foldl] at h
    obtain ⟨h1, h2⟩ := ih _ h
    by_cases hk : k = a
    · subst hk; rw [lookup_lruRemove_same] at h2; cases h2
    · rw [lookup_lruRemove_other _ _ _ hk] at h2
      exact ⟨by simp [hk, h1], h2⟩

theorem lookup_setTxn_same (l : List (Nat × Txn)) (id : Nat) (t : Txn) : (setTxn l id t).lookup id = some t := by
  induction l with
  | nil => simp [setTxn, List.lookup]
  | cons x r ih =>
    obtain ⟨i, t'⟩ := x
    unfold setTxn
    split
    · simp [List.lookup]
    · rename_i h
      have : (id == i) = false := by simpa using (fun h' : id = i => h h'.symm)
      simp [List.lookup, this, ih]

theorem lookup_setTxn_other (l : List (Nat × Txn)) (id id' : Nat) (t : Txn) (h : id' ≠ id) :
    (setTxn l id t).lookup id' = l.lookup id' := by
  induction l with
  | nil =>
    have : (id' == id) = false := by simpa using h
    simp [setTxn, List.lookup, this]
  | cons x r ih =>
    obtain ⟨i, t'⟩ := x
    unfold setTxn
    split
    · rename_i hi
      subst hi
      have : (id' == i) = false := by simpa using h
      simp [List.lookup, this]
    · simp only [List.lookup]
      split <;> simp [ih]

theorem lookup_setC_same (l : List (Nat × CTxn)) (id : Nat) (t : CTxn) : (setC l id t).lookup id = some t := by
  induction l with
  | nil => simp [setC, List.lookup]
  | cons x r ih =>
    obtain ⟨i, t'⟩ := x
    unfold setC
    split
    · simp [List.lookup]
    · rename_i h
      have : (id == i) = false := by simpa using (fun h' : id = i => h h'.symm)
      simp [List.lookup, this, ih]

theorem lookup_setC_other (l : List (Nat × CTxn)) (id id' : Nat) (t : CTxn) (h : id' ≠ id) :
    (setC l id t).lookup id' = l.lookup id' := by
  induction l with
  | nil =>
    have : (id' == id) = false := by simpa using h
    simp [setC, List.lookup, this]
  | cons x r ih =>
    obtain ⟨i, t'⟩ := x
    unfold setC
    split
    · rename_i hi
      subst hi
      have : (id' == i) = false := by simpa using h
      simp [List.lookup, this]
    · simp only [List.lookup]
      split <;> simp [ih]

/-- the replay of a log only changes keys the log writes -/
theorem replay_other (p p' : Store) (ops : List InmemOp) (k : Key) (h : replay p ops = some p')
    (hk : ∀ o ∈ ops, isWriteOp o = true → o.argKey ≠ k) : sget p' k = sget p k := by
  induction ops generalizing p with
  | nil => simp [replay] at h; rw [h]
  | cons o r ih =>
    simp only [replay] at h
    cases hr : replayOp p o with
    | none => rw [hr] at h; cases h
    | some p1 =>
      rw [hr] at h
      have h1 := ih p1 h (fun o' ho' => hk o' (List.mem_cons_of_mem _ ho'))
      rw [h1]
      have hko := hk o (List.mem_cons_self ..)
      unfold replayOp at hr
      cases ht : o.opType <;> simp only [ht] at hr
      · split at hr
        · cases hr
          exact sget_sput_other _ _ _ _ (Ne.symm (hko (by simp [isWriteOp, ht])))
        · cases hr
      · split at hr
        · cases hr
          exact sget_sdel_other _ _ _ (Ne.symm (hko (by simp [isWriteOp, ht])))
        · cases hr
      · split at hr
        · cases hr; rfl
        · cases hr
      · split at hr
        · cases hr; rfl
        · cases hr
      · split at hr
        · cases hr; rfl
        · cases hr

end Obao.CacheTxn

namespace Obao.CacheTxn
open Obao.SerialTxn Obao.InmemTxn

/-! characterisation of the wrapped backend's steps -/

theorem inner_begin (s : Sys) (id : Nat) (w : Bool) (i' : Sys) (r : Res) (h : s.step (.begin id w) = some (i', r)) :
    s.txns.lookup id = none ∧ r = .ok ∧
    i' = { s with txns := setTxn s.txns id (if w then beginTx s.parent else beginReadOnlyTx s.parent) } := by
  simp only [Sys.step] at h
  split at h
  · cases h
  · rename_i hl; cases h; exact ⟨hl, rfl, rfl⟩

theorem inner_op (s : Sys) (id : Nat) (o : Op) (i' : Sys) (r : Res) (h : s.step (.op id o) = some (i', r)) :
    ∃ t, s.txns.lookup id = some t ∧ i' = { s with txns := setTxn s.txns id (t.apply o).1 } ∧ r = (t.apply o).2 := by
  simp only [Sys.step] at h
  split at h
  · cases h
  · rename_i t hl; cases h; exact ⟨t, hl, rfl, rfl⟩

theorem inner_commit (s : Sys) (id : Nat) (i' : Sys) (r : Res) (h : s.step (.commit id) = some (i', r)) :
    ∃ t, s.txns.lookup id = some t ∧
      i' = { parent := (t.commit s.parent).1, txns := setTxn s.txns id (t.commit s.parent).2.1 } ∧
      r = (t.commit s.parent).2.2 := by
  simp only [Sys.step] at h
  split at h
  · cases h
  · rename_i t hl; cases h; exact ⟨t, hl, rfl, rfl⟩

theorem inner_rollback (s : Sys) (id : Nat) (i' : Sys) (r : Res) (h : s.step (.rollback id) = some (i', r)) :
    ∃ t, s.txns.lookup id = some t ∧ i' = { s with txns := setTxn s.txns id t.rollback.1 } ∧ r = t.rollback.2 := by
  simp only [Sys.step] at h
  split at h
  · cases h
  · rename_i t hl; cases h; exact ⟨t, hl, rfl, rfl⟩

theorem inner_plain (s : Sys) (o : Op) (i' : Sys) (r : Res) (h : s.step (.plain o) = some (i', r)) :
    i' = { s with parent := (SerialTxn.step s.parent o).2 } ∧ r = plainRes s.parent o := by
  simp only [Sys.step] at h
  cases h; exact ⟨rfl, rfl⟩

/-! what one transaction operation does, in the shape the cache proofs need -/

theorem get_facts (t : Txn) (k : Key) :
    (t.finished = true ∧ (t.get k).2 = .err .finished ∧ (t.get k).1 = t) ∨
    (t.finished = false ∧ (t.get k).2 = .val (sget t.root k) ∧ (t.get k).1.root = t.root ∧
      (t.get k).1.finished = false ∧
      ∃ e, (t.get k).1.operations = t.operations ++ [e] ∧ isWriteOp e = false) := by
  unfold Txn.get
  by_cases hf : t.finished = true
  · left; simp [hf]
  · right
    have hf' : t.finished = false := by simpa using hf
    simp [hf', isWriteOp]

theorem put_facts (t : Txn) (k : Key) (v : Val) :
    ((t.put k v).2 ≠ .ok ∧ (t.put k v).1 = t) ∨
    ((t.put k v).2 = .ok ∧ t.finished = false ∧ (t.put k v).1.root = sput t.root k v ∧
      (t.put k v).1.finished = false ∧
      ∃ e, (t.put k v).1.operations = t.operations ++ [e] ∧ e.argKey = k) := by
  unfold Txn.put
  by_cases hw : t.writable = true
  · by_cases hf : t.finished = true
    · left; simp [hw, hf]
    · right
      have hf' : t.finished = false := by simpa using hf
      simp [hw, hf']
  · left
    have hw' : t.writable = false := by simpa using hw
    simp [hw']

theorem delete_facts (t : Txn) (k : Key) :
    ((t.delete k).2 ≠ .ok ∧ (t.delete k).1 = t) ∨
    ((t.delete k).2 = .ok ∧ t.finished = false ∧ (t.delete k).1.root = sdel t.root k ∧
      (t.delete k).1.finished = false ∧
      ∃ e, (t.delete k).1.operations = t.operations ++ [e] ∧ e.argKey = k) := by
  unfold Txn.delete
  by_cases hw : t.writable = true
  · by_cases hf : t.finished = true
    · left; simp [hw, hf]
    · right
      have hf' : t.finished = false := by simpa using hf
      simp [hw, hf']
  · left
    have hw' : t.writable = false := by simpa using hw
    simp [hw']

theorem list_facts (t : Txn) (p a : String) (l : Int) :
    (t.apply (.list p a l)).1.root = t.root ∧ (t.apply (.list p a l)).1.finished = t.finished ∧
    ((t.apply (.list p a l)).1 = t ∨
      ∃ e, (t.apply (.list p a l)).1.operations = t.operations ++ [e] ∧ isWriteOp e = false) := by
  simp only [Txn.apply]
  split
  · unfold Txn.list
    split
    · exact ⟨rfl, rfl, Or.inl rfl⟩
    · exact ⟨rfl, rfl, Or.inr ⟨_, rfl, by simp [isWriteOp]⟩⟩
  · unfold Txn.listPage
    split
    · exact ⟨rfl, rfl, Or.inl rfl⟩
    · exact ⟨rfl, rfl, Or.inr ⟨_, rfl, by simp [isWriteOp]⟩⟩

theorem commit_facts (t : Txn) (parent : Store) :
    (t.commit parent).2.1.operations = t.operations ∧
    ((t.commit parent).2.2 = .ok → (t.commit parent).2.1.finished = true ∧
        ((t.commit parent).1 = parent ∨ replay parent t.operations = some (t.commit parent).1)) ∧
    ((t.commit parent).2.2 ≠ .ok → (t.commit parent).1 = parent) ∧
    ((t.commit parent).2.1.finished = false → False) := by
  unfold Txn.commit
  by_cases hf : t.finished = true
  · simp [hf]
  · have hf' : t.finished = false := by simpa using hf
    simp only [hf', Bool.false_eq_true, if_false]
    split
    · simp
    · split
      · simp
      · rename_i p hp; simp [hp]

end Obao.CacheTxn

namespace Obao.CacheTxn
open Obao.SerialTxn Obao.InmemTxn

def Inv (s : CSys) : Prop := ParentCoherent s ∧ TxnCoherent s ∧ WritesCovered s

/-- frame rule: a step that touches at most transaction `id` -/
theorem inv_frame (s s' : CSys) (id : Nat) (t' : Txn) (c' : CTxn) (hi : Inv s)
    (hc' : s'.ctxns.lookup id = some c') (ht' : s'.inner.txns.lookup id = some t')
    (hco : ∀ id', id' ≠ id → s'.ctxns.lookup id' = s.ctxns.lookup id')
    (hto : ∀ id', id' ≠ id → s'.inner.txns.lookup id' = s.inner.txns.lookup id')
    (hpc : ∀ k e, s'.lru.lookup k = some e → e = sget s'.inner.parent k)
    (htc : t'.finished = false → ∀ k e, c'.lru.lookup k = some e → e = sget t'.root k)
    (hwc : ∀ o ∈ t'.operations, isWriteOp o = true → o.argKey ∈ c'.modified) : Inv s' := by
  obtain ⟨_, tc, wc⟩ := hi
  refine ⟨hpc, ?_, ?_⟩
  · intro id' c t hc ht hf k e hl
    by_cases hid : id' = id
    · subst hid
      rw [hc'] at hc; rw [ht'] at ht; cases hc; cases ht
      exact htc hf k e hl
    · rw [hco id' hid] at hc; rw [hto id' hid] at ht
      exact tc id' c t hc ht hf k e hl
  · intro id' c t hc ht o ho hw
    by_cases hid : id' = id
    · subst hid
      rw [hc'] at hc; rw [ht'] at ht; cases hc; cases ht
      exact hwc o ho hw
    · rw [hco id' hid] at hc; rw [hto id' hid] at ht
      exact wc id' c t hc ht o ho hw

/-- frame rule: a step that touches no transaction -/
theorem inv_frame_plain (s s' : CSys) (hi : Inv s) (hc : s'.ctxns = s.ctxns) (ht : s'.inner.txns = s.inner.txns)
    (hpc : ∀ k e, s'.lru.lookup k = some e → e = sget s'.inner.parent k) : Inv s' := by
  obtain ⟨_, tc, wc⟩ := hi
  refine ⟨hpc, ?_, ?_⟩
  · intro id' c t hc' ht'; rw [hc] at hc'; rw [ht] at ht'; exact tc id' c t hc' ht'
  · intro id' c t hc' ht'; rw [hc] at hc'; rw [ht] at ht'; exact wc id' c t hc' ht'

theorem inv_begin (s s' : CSys) (id : Nat) (w : Bool) (r : Res) (h : s.step (.begin id w) = some (s', r))
    (hi : Inv s) : Inv s' := by
  simp only [CSys.step] at h
  split at h
  · cases h
  · rename_i i' r' hin
    cases h
    obtain ⟨_, _, rfl⟩ := inner_begin _ _ _ _ _ hin
    apply inv_frame s _ id _ _ hi (lookup_setC_same ..) (lookup_setTxn_same ..)
      (fun id' h' => lookup_setC_other _ _ _ _ h') (fun id' h' => lookup_setTxn_other _ _ _ _ h')
    · exact hi.1
    · intro _ k e hl; simp [List.lookup] at hl
    · intro o ho; cases w <;> simp [beginTx, beginReadOnlyTx] at ho

end Obao.CacheTxn

namespace Obao.CacheTxn
open Obao.SerialTxn Obao.InmemTxn

/-- a step that replaces transaction `id` of the wrapped backend by an identical copy changes nothing -/
theorem inv_same_txn (s : CSys) (id : Nat) (t : Txn) (hi : Inv s) (ht : s.inner.txns.lookup id = some t) :
    Inv { s with inner := { s.inner with txns := setTxn s.inner.txns id t } } := by
  obtain ⟨pc, tc, wc⟩ := hi
  refine ⟨pc, ?_, ?_⟩
  · intro id' c t' hc ht' hf k e hl
    by_cases hid : id' = id
    · subst hid
      simp only [lookup_setTxn_same] at ht'; cases ht'
      exact tc id' c t hc ht hf k e hl
    · simp only [lookup_setTxn_other _ _ _ _ hid] at ht'
      exact tc id' c t' hc ht' hf k e hl
  · intro id' c t' hc ht' o ho hw
    by_cases hid : id' = id
    · subst hid
      simp only [lookup_setTxn_same] at ht'; cases ht'
      exact wc id' c t hc ht o ho hw
    · simp only [lookup_setTxn_other _ _ _ _ hid] at ht'
      exact wc id' c t' hc ht' o ho hw

theorem inv_op (s s' : CSys) (id : Nat) (o : Op) (r : Res) (h : s.step (.op id o) = some (s', r))
    (hi : Inv s) : Inv s' := by
  simp only [CSys.step] at h
  cases hc : s.ctxns.lookup id with
  | none => simp [hc] at h
  | some c =>
    simp only [hc] at h
    have tcOld := hi.2.1
    have wcOld := hi.2.2
    cases o with
    | get k =>
      simp only at h
      by_cases hfin : c.finished = true
      · -- finished: the read is handed to the wrapped transaction, nothing is cached
        simp only [hfin, if_true] at h
        cases hin : s.inner.step (.op id (.get k)) with
        | none => simp [hin] at h
        | some ir =>
          obtain ⟨i', r'⟩ := ir
          obtain ⟨t, ht, rfl, rfl⟩ := inner_op _ _ _ _ _ hin
          simp only [hin] at h; cases h
          rcases get_facts t k with ⟨hf, hres, hsame⟩ | ⟨hf, hres, hroot, hf', e, hops, hnw⟩
          · show Inv { s with inner := { s.inner with txns := setTxn s.inner.txns id (t.get k).1 } }
            rw [hsame]; exact inv_same_txn s id t hi ht
          · have hcs : ({ s with inner := { s.inner with txns := setTxn s.inner.txns id (t.apply (.get k)).1 } } : CSys).ctxns.lookup id = some c := hc
            apply inv_frame s _ id _ c hi hcs (lookup_setTxn_same ..)
              (fun id' _ => rfl) (fun id' h' => lookup_setTxn_other _ _ _ _ h')
            · exact hi.1
            · intro _ k' e' hl'
              show e' = sget (t.get k).1.root k'
              rw [hroot]
              exact tcOld id c t hc ht hf k' e' hl'
            · intro o' ho' hw
              have ho'' : o' ∈ (t.get k).1.operations := ho'
              simp only [hops, List.mem_append, List.mem_singleton] at ho''
              rcases ho'' with ho'' | rfl
              · exact wcOld id c t hc ht o' ho'' hw
              · rw [hnw] at hw; cases hw
      · have hfin' : c.finished = false := by simpa using hfin
        simp only [hfin', Bool.false_eq_true, if_false] at h
        cases hl : c.lru.lookup k with
        | some e => simp only [hl] at h; cases h; exact hi
        | none =>
        simp only [hl] at h
        cases hin : s.inner.step (.op id (.get k)) with
        | none => simp [hin] at h
        | some ir =>
          obtain ⟨i', r'⟩ := ir
          obtain ⟨t, ht, rfl, rfl⟩ := inner_op _ _ _ _ _ hin
          simp only [hin, Txn.apply] at h
          rcases get_facts t k with ⟨hf, hres, hsame⟩ | ⟨hf, hres, hroot, hf', e, hops, hnw⟩
          · rw [hres] at h; simp only at h; cases h
            rw [hsame]; exact inv_same_txn s id t hi ht
          · rw [hres] at h; simp only at h; cases h
            apply inv_frame s _ id _ _ hi (lookup_setC_same ..) (lookup_setTxn_same ..)
              (fun id' h' => lookup_setC_other _ _ _ _ h') (fun id' h' => lookup_setTxn_other _ _ _ _ h')
            · exact hi.1
            · intro _ k' e' hl'
              simp only [Txn.apply, hroot]
              by_cases hk : k' = k
              · subst hk; simp only [lookup_lruSet_same] at hl'; cases hl'; rfl
              · simp only [lookup_lruSet_other _ _ _ _ hk] at hl'
                exact tcOld id c t hc ht hf k' e' hl'
            · intro o' ho' hw
              simp only [Txn.apply, hops, List.mem_append, List.mem_singleton] at ho'
              rcases ho' with ho' | rfl
              · exact wcOld id c t hc ht o' ho' hw
              · rw [hnw] at hw; cases hw
    | put k v =>
      simp only at h
      cases hin : s.inner.step (.op id (.put k v)) with
      | none => simp [hin] at h
      | some ir =>
        obtain ⟨i', r'⟩ := ir
        obtain ⟨t, ht, rfl, rfl⟩ := inner_op _ _ _ _ _ hin
        simp only [hin, Txn.apply] at h
        rcases put_facts t k v with ⟨hres, hsame⟩ | ⟨hres, hf, hroot, hf', e, hops, hkey⟩
        · have : s' = { s with inner := { s.inner with txns := setTxn s.inner.txns id (t.put k v).1 } } := by
            cases hr : (t.put k v).2 <;> simp only [hr] at h hres <;> first | (cases h; rfl) | exact absurd rfl hres
          rw [this, hsame]; exact inv_same_txn s id t hi ht
        · rw [hres] at h; simp only at h; cases h
          apply inv_frame s _ id _ _ hi (lookup_setC_same ..) (lookup_setTxn_same ..)
            (fun id' h' => lookup_setC_other _ _ _ _ h') (fun id' h' => lookup_setTxn_other _ _ _ _ h')
          · exact hi.1
          · intro _ k' e' hl'
            simp only [Txn.apply, hroot]
            by_cases hk : k' = k
            · subst hk; simp only [lookup_lruSet_same] at hl'; cases hl'
              exact (sget_sput_same _ _ _).symm
            · simp only [lookup_lruSet_other _ _ _ _ hk] at hl'
              rw [sget_sput_other _ _ _ _ hk]
              exact tcOld id c t hc ht hf k' e' hl'
          · intro o' ho' hw
            simp only [Txn.apply, hops, List.mem_append, List.mem_singleton] at ho'
            rcases ho' with ho' | rfl
            · exact List.mem_cons_of_mem _ (wcOld id c t hc ht o' ho' hw)
            · rw [hkey]; exact List.mem_cons_self ..
    | del k =>
      simp only at h
      cases hin : s.inner.step (.op id (.del k)) with
      | none => simp [hin] at h
      | some ir =>
        obtain ⟨i', r'⟩ := ir
        obtain ⟨t, ht, rfl, rfl⟩ := inner_op _ _ _ _ _ hin
        simp only [hin, Txn.apply] at h
        rcases delete_facts t k with ⟨hres, hsame⟩ | ⟨hres, hf, hroot, hf', e, hops, hkey⟩
        · have : s' = { s with inner := { s.inner with txns := setTxn s.inner.txns id (t.delete k).1 } } := by
            cases hr : (t.delete k).2 <;> simp only [hr] at h hres <;> first | (cases h; rfl) | exact absurd rfl hres
          rw [this, hsame]; exact inv_same_txn s id t hi ht
        · rw [hres] at h; simp only at h; cases h
          apply inv_frame s _ id _ _ hi (lookup_setC_same ..) (lookup_setTxn_same ..)
            (fun id' h' => lookup_setC_other _ _ _ _ h') (fun id' h' => lookup_setTxn_other _ _ _ _ h')
          · exact hi.1
          · intro _ k' e' hl'
            simp only [Txn.apply, hroot]
            by_cases hk : k' = k
            · subst hk; simp only [lookup_lruRemove_same] at hl'; cases hl'
            · simp only [lookup_lruRemove_other _ _ _ hk] at hl'
              rw [sget_sdel_other _ _ _ hk]
              exact tcOld id c t hc ht hf k' e' hl'
          · intro o' ho' hw
            simp only [Txn.apply, hops, List.mem_append, List.mem_singleton] at ho'
            rcases ho' with ho' | rfl
            · exact List.mem_cons_of_mem _ (wcOld id c t hc ht o' ho' hw)
            · rw [hkey]; exact List.mem_cons_self ..
    | list p a l =>
      simp only at h
      cases hin : s.inner.step (.op id (.list p a l)) with
      | none => simp [hin] at h
      | some ir =>
        obtain ⟨i', r'⟩ := ir
        obtain ⟨t, ht, rfl, rfl⟩ := inner_op _ _ _ _ _ hin
        simp only [hin] at h; cases h
        obtain ⟨hroot, hfin, hops⟩ := list_facts t p a l
        have hcs : ({ s with inner := { s.inner with txns := setTxn s.inner.txns id (t.apply (.list p a l)).1 } } : CSys).ctxns.lookup id = some c := hc
        apply inv_frame s _ id _ c hi hcs (lookup_setTxn_same ..)
          (fun id' _ => rfl) (fun id' h' => lookup_setTxn_other _ _ _ _ h')
        · exact hi.1
        · intro hf k' e' hl'
          rw [hroot]; rw [hfin] at hf
          exact tcOld id c t hc ht hf k' e' hl'
        · intro o' ho' hw
          rcases hops with hsame | ⟨e, hops, hnw⟩
          · rw [hsame] at ho'; exact wcOld id c t hc ht o' ho' hw
          · simp only [hops, List.mem_append, List.mem_singleton] at ho'
            rcases ho' with ho' | rfl
            · exact wcOld id c t hc ht o' ho' hw
            · rw [hnw] at hw; cases hw

end Obao.CacheTxn

namespace Obao.CacheTxn
open Obao.SerialTxn Obao.InmemTxn

theorem inv_commit (s s' : CSys) (id : Nat) (r : Res) (h : s.step (.commit id) = some (s', r))
    (hi : Inv s) : Inv s' := by
  simp only [CSys.step] at h
  cases hc : s.ctxns.lookup id with
  | none => simp [hc] at h
  | some c =>
    simp only [hc] at h
    cases hin : s.inner.step (.commit id) with
    | none => simp [hin] at h
    | some ir =>
      obtain ⟨i', r'⟩ := ir
      obtain ⟨t, ht, rfl, rfl⟩ := inner_commit _ _ _ _ hin
      simp only [hin] at h
      obtain ⟨hops, hok, hnok, hfin⟩ := commit_facts t s.inner.parent
      have pcOld := hi.1
      have wcOld := hi.2.2
      have hwc : ∀ o ∈ (t.commit s.inner.parent).2.1.operations, isWriteOp o = true → o.argKey ∈ c.modified := by
        intro o ho hw; rw [hops] at ho; exact wcOld id c t hc ht o ho hw
      by_cases hr : (t.commit s.inner.parent).2.2 = .ok
      · rw [hr] at h; simp only at h; cases h
        apply inv_frame s _ id _ { c with finished := true } hi (lookup_setC_same ..) (lookup_setTxn_same ..)
          (fun id' h' => lookup_setC_other _ _ _ _ h') (fun id' h' => lookup_setTxn_other _ _ _ _ h')
        · intro k e hl
          obtain ⟨hnm, hl0⟩ := lookup_foldl_remove _ _ _ _ hl
          have := pcOld k e hl0
          rw [this]
          rcases (hok hr).2 with hp | hp
          · show sget s.inner.parent k = sget (t.commit s.inner.parent).1 k
            rw [hp]
          · show sget s.inner.parent k = sget (t.commit s.inner.parent).1 k
            symm
            apply replay_other _ _ _ _ hp
            intro o ho hw hk
            exact hnm (hk ▸ wcOld id c t hc ht o ho hw)
        · intro hf; exact absurd hf (by intro hf; exact hfin hf)
        · exact hwc
      · have hs' : s' = { s with inner := { parent := (t.commit s.inner.parent).1, txns := setTxn s.inner.txns id (t.commit s.inner.parent).2.1 },
                                  ctxns := setC s.ctxns id { c with finished := true } } := by
          cases hrr : (t.commit s.inner.parent).2.2 <;> simp only [hrr] at h hr <;> first | (cases h; rfl) | exact absurd rfl hr | exact absurd trivial hr | contradiction
        rw [hs']
        apply inv_frame s _ id _ { c with finished := true } hi (lookup_setC_same ..) (lookup_setTxn_same ..)
          (fun id' h' => lookup_setC_other _ _ _ _ h') (fun id' h' => lookup_setTxn_other _ _ _ _ h')
        · intro k e hl
          show e = sget (t.commit s.inner.parent).1 k
          rw [hnok hr]; exact pcOld k e hl
        · intro hf; exact absurd hf (by intro hf; exact hfin hf)
        · exact hwc

theorem rollback_facts (t : Txn) :
    t.rollback.1.operations = t.operations ∧ t.rollback.1.root = t.root ∧
    (t.rollback.1.finished = false → False) := by
  unfold Txn.rollback
  by_cases hf : t.finished = true
  · simp [hf]
  · have hf' : t.finished = false := by simpa using hf
    simp [hf']

theorem inv_rollback (s s' : CSys) (id : Nat) (r : Res) (h : s.step (.rollback id) = some (s', r))
    (hi : Inv s) : Inv s' := by
  simp only [CSys.step] at h
  cases hc : s.ctxns.lookup id with
  | none => simp [hc] at h
  | some c =>
    simp only [hc] at h
    cases hin : s.inner.step (.rollback id) with
    | none => simp [hin] at h
    | some ir =>
      obtain ⟨i', r'⟩ := ir
      obtain ⟨t, ht, rfl, rfl⟩ := inner_rollback _ _ _ _ hin
      simp only [hin] at h; cases h
      obtain ⟨hops, hroot, hfin⟩ := rollback_facts t
      apply inv_frame s _ id _ { c with finished := true } hi (lookup_setC_same ..) (lookup_setTxn_same ..)
        (fun id' h' => lookup_setC_other _ _ _ _ h') (fun id' h' => lookup_setTxn_other _ _ _ _ h')
      · exact hi.1
      · intro hf; exact absurd hf (by intro hf; exact hfin hf)
      · intro o ho hw
        rw [hops] at ho
        exact hi.2.2 id c t hc ht o ho hw

theorem inv_plain (s s' : CSys) (o : Op) (r : Res) (h : s.step (.plain o) = some (s', r))
    (hi : Inv s) : Inv s' := by
  simp only [CSys.step] at h
  have pcOld := hi.1
  cases o with
  | get k =>
    simp only at h
    cases hl : s.lru.lookup k with
    | some e => simp only [hl] at h; cases h; exact hi
    | none =>
      simp only [hl] at h
      cases hin : s.inner.step (.plain (.get k)) with
      | none => simp [hin] at h
      | some ir =>
        obtain ⟨i', r'⟩ := ir
        obtain ⟨rfl, rfl⟩ := inner_plain _ _ _ _ hin
        simp only [hin, plainRes] at h; cases h
        refine inv_frame_plain s _ hi rfl rfl ?_
        intro k' e' hl'
        show e' = sget (SerialTxn.step s.inner.parent (.get k)).2 k'
        simp only [SerialTxn.step]
        by_cases hk : k' = k
        · subst hk; simp only [lookup_lruSet_same] at hl'; cases hl'; rfl
        · simp only [lookup_lruSet_other _ _ _ _ hk] at hl'; exact pcOld k' e' hl'
  | put k v =>
    simp only at h
    cases hin : s.inner.step (.plain (.put k v)) with
    | none => simp [hin] at h
    | some ir =>
      obtain ⟨i', r'⟩ := ir
      obtain ⟨rfl, rfl⟩ := inner_plain _ _ _ _ hin
      simp only [hin] at h; cases h
      refine inv_frame_plain s _ hi rfl rfl ?_
      intro k' e' hl'
      show e' = sget (SerialTxn.step s.inner.parent (.put k v)).2 k'
      simp only [SerialTxn.step]
      by_cases hk : k' = k
      · subst hk; simp only [lookup_lruSet_same] at hl'; cases hl'
        exact (sget_sput_same _ _ _).symm
      · simp only [lookup_lruSet_other _ _ _ _ hk] at hl'
        rw [sget_sput_other _ _ _ _ hk]; exact pcOld k' e' hl'
  | del k =>
    simp only at h
    cases hin : s.inner.step (.plain (.del k)) with
    | none => simp [hin] at h
    | some ir =>
      obtain ⟨i', r'⟩ := ir
      obtain ⟨rfl, rfl⟩ := inner_plain _ _ _ _ hin
      simp only [hin] at h; cases h
      refine inv_frame_plain s _ hi rfl rfl ?_
      intro k' e' hl'
      show e' = sget (SerialTxn.step s.inner.parent (.del k)).2 k'
      simp only [SerialTxn.step]
      by_cases hk : k' = k
      · subst hk; simp only [lookup_lruRemove_same] at hl'; cases hl'
      · simp only [lookup_lruRemove_other _ _ _ hk] at hl'
        rw [sget_sdel_other _ _ _ hk]; exact pcOld k' e' hl'
  | list p a l =>
    simp only at h
    cases hin : s.inner.step (.plain (.list p a l)) with
    | none => simp [hin] at h
    | some ir =>
      obtain ⟨i', r'⟩ := ir
      obtain ⟨rfl, rfl⟩ := inner_plain _ _ _ _ hin
      simp only [hin] at h; cases h
      refine inv_frame_plain s _ hi rfl rfl ?_
      intro k' e' hl'
      exact pcOld k' e' hl'

theorem inv_step (s s' : CSys) (e : Event) (r : Res) (h : s.step e = some (s', r)) (hi : Inv s) : Inv s' := by
  cases e with
  | begin id w => exact inv_begin s s' id w r h hi
  | op id o => exact inv_op s s' id o r h hi
  | commit id => exact inv_commit s s' id r h hi
  | rollback id => exact inv_rollback s s' id r h hi
  | plain o => exact inv_plain s s' o r h hi

theorem inv_run (s : CSys) (es : List Event) (hi : Inv s) : Inv (s.run es) := by
  induction es generalizing s with
  | nil => exact hi
  | cons e es ih =>
    simp only [CSys.run]
    cases hs : s.step e with
    | none => exact ih s hi
    | some sr => obtain ⟨s', r⟩ := sr; exact ih s' (inv_step s s' e r hs hi)

theorem inv_init (s0 : Store) : Inv (CSys.init s0) := by
  refine ⟨?_, ?_, ?_⟩
  · intro k e h; simp [CSys.init, List.lookup] at h
  · intro id c t h; simp [CSys.init, List.lookup] at h
  · intro id c t h; simp [CSys.init, List.lookup] at h

end Obao.CacheTxn

namespace Obao.CacheTxn
open Obao.SerialTxn Obao.InmemTxn

/-! ### the commit window (micro-steps in code order with concurrent readers) -/

/-- the two invariants that do not mention the parent cache -/
def TW (s : CSys) : Prop := TxnCoherent s ∧ WritesCovered s

theorem tw_congr (s s' : CSys) (h : TW s) (hc : s'.ctxns = s.ctxns) (ht : s'.inner.txns = s.inner.txns) : TW s' := by
  obtain ⟨tc, wc⟩ := h
  refine ⟨?_, ?_⟩
  · intro id' c t hc' ht'; rw [hc] at hc'; rw [ht] at ht'; exact tc id' c t hc' ht'
  · intro id' c t hc' ht'; rw [hc] at hc'; rw [ht] at ht'; exact wc id' c t hc' ht'

theorem tw_frame (s s' : CSys) (id : Nat) (t' : Txn) (c' : CTxn) (hi : TW s)
    (hc' : s'.ctxns.lookup id = some c') (ht' : s'.inner.txns.lookup id = some t')
    (hco : ∀ id', id' ≠ id → s'.ctxns.lookup id' = s.ctxns.lookup id')
    (hto : ∀ id', id' ≠ id → s'.inner.txns.lookup id' = s.inner.txns.lookup id')
    (htc : t'.finished = false → ∀ k e, c'.lru.lookup k = some e → e = sget t'.root k)
    (hwc : ∀ o ∈ t'.operations, isWriteOp o = true → o.argKey ∈ c'.modified) : TW s' := by
  obtain ⟨tc, wc⟩ := hi
  refine ⟨?_, ?_⟩
  · intro id' c t hc ht hf k e hl
    by_cases hid : id' = id
    · subst hid
      rw [hc'] at hc; rw [ht'] at ht; cases hc; cases ht
      exact htc hf k e hl
    · rw [hco id' hid] at hc; rw [hto id' hid] at ht
      exact tc id' c t hc ht hf k e hl
  · intro id' c t hc ht o ho hw
    by_cases hid : id' = id
    · subst hid
      rw [hc'] at hc; rw [ht'] at ht; cases hc; cases ht
      exact hwc o ho hw
    · rw [hco id' hid] at hc; rw [hto id' hid] at ht
      exact wc id' c t hc ht o ho hw

/-- entries of the parent cache are current, except possibly for keys still waiting to be evicted -/
def StaleOnly (s : CSys) (pending : List Key) : Prop :=
  ∀ k e, s.lru.lookup k = some e → e = sget s.inner.parent k ∨ k ∈ pending

def WinInv (w : Win) : Prop :=
  TW w.sys ∧
  match w.phase with
  | .before => ParentCoherent w.sys ∧ (∃ c, w.sys.ctxns.lookup w.id = some c) ∧ (∃ t, w.sys.inner.txns.lookup w.id = some t)
  | .invalidating pending => StaleOnly w.sys pending
  | .done => ParentCoherent w.sys

/-- a plain reader step: only the parent cache changes, and only by a CURRENT entry -/
theorem reader_facts (s : CSys) (k : Key) :
    ∃ s' r, s.step (.plain (.get k)) = some (s', r) ∧ s'.ctxns = s.ctxns ∧ s'.inner = s.inner ∧
      (s'.lru = s.lru ∨ s'.lru = lruSet s.lru k (sget s.inner.parent k)) := by
  simp only [CSys.step]
  cases hl : s.lru.lookup k with
  | some e => exact ⟨s, .val e, rfl, rfl, rfl, Or.inl rfl⟩
  | none =>
    simp only [Sys.step, plainRes, SerialTxn.step]
    exact ⟨_, _, rfl, rfl, rfl, Or.inr rfl⟩

theorem staleOnly_reader (s s' : CSys) (k : Key) (pending : List Key) (h : StaleOnly s pending)
    (hin : s'.inner = s.inner) (hl : s'.lru = s.lru ∨ s'.lru = lruSet s.lru k (sget s.inner.parent k)) :
    StaleOnly s' pending := by
  intro k' e' hk'
  rw [hin]
  rcases hl with hl | hl
  · rw [hl] at hk'; exact h k' e' hk'
  · rw [hl] at hk'
    by_cases hk : k' = k
    · subst hk; simp only [lookup_lruSet_same] at hk'; cases hk'; exact Or.inl rfl
    · simp only [lookup_lruSet_other _ _ _ _ hk] at hk'; exact h k' e' hk'

theorem winInv_reader (w : Win) (k : Key) (h : WinInv w) : WinInv (w.reader k).1 := by
  obtain ⟨s', r, hs, hc, hin, hl⟩ := reader_facts w.sys k
  unfold Win.reader
  rw [hs]
  obtain ⟨tw, hp⟩ := h
  have tw' : TW s' := tw_congr w.sys s' tw hc (by rw [hin])
  refine ⟨tw', ?_⟩
  have pc_of : ParentCoherent w.sys → ParentCoherent s' := by
    intro pc
    have : StaleOnly s' [] := staleOnly_reader w.sys s' k [] (fun k e hk => Or.inl (pc k e hk)) hin hl
    intro k' e' hk'
    rcases this k' e' hk' with h1 | h1
    · exact h1
    · cases h1
  cases hph : w.phase with
  | before =>
    simp only [hph] at hp ⊢
    obtain ⟨pc, hc1, ht1⟩ := hp
    exact ⟨pc_of pc, by rw [hc]; exact hc1, by rw [hin]; exact ht1⟩
  | invalidating pending =>
    simp only [hph] at hp ⊢
    exact staleOnly_reader w.sys s' k pending hp hin hl
  | done =>
    simp only [hph] at hp ⊢
    exact pc_of hp

theorem winInv_tick (w : Win) (h : WinInv w) : WinInv w.tick := by
  obtain ⟨tw, hp⟩ := h
  unfold Win.tick
  cases hph : w.phase with
  | done => simp only; exact ⟨tw, by simpa [hph] using hp⟩
  | invalidating pending =>
    simp only [hph] at hp
    cases pending with
    | nil =>
      simp only
      refine ⟨tw, ?_⟩
      simp only
      intro k e hk
      rcases hp k e hk with h1 | h1
      · exact h1
      · cases h1
    | cons k rest =>
      simp only
      refine ⟨tw_congr w.sys _ tw rfl rfl, ?_⟩
      simp only
      intro k' e' hk'
      by_cases hkk : k' = k
      · subst hkk; simp only [lookup_lruRemove_same] at hk'; cases hk'
      · simp only [lookup_lruRemove_other _ _ _ hkk] at hk'
        rcases hp k' e' hk' with h1 | h1
        · exact Or.inl h1
        · rcases List.mem_cons.mp h1 with h2 | h2
          · exact absurd h2 hkk
          · exact Or.inr h2
  | before =>
    simp only [hph] at hp
    obtain ⟨pc, ⟨c, hc⟩, _⟩ := hp
    simp only [hc]
    cases hin : w.sys.inner.step (.commit w.id) with
    | none => simp only; exact ⟨tw, by simp only [hph]; exact ⟨pc, ⟨c, hc⟩, by assumption⟩⟩
    | some ir =>
      obtain ⟨i', r⟩ := ir
      obtain ⟨t, ht, hi', hr'⟩ := inner_commit _ _ _ _ hin
      obtain ⟨hops, hok, hnok, hfin⟩ := commit_facts t w.sys.inner.parent
      have hpar : i'.parent = (t.commit w.sys.inner.parent).1 := by rw [hi']
      have htx : i'.txns = setTxn w.sys.inner.txns w.id (t.commit w.sys.inner.parent).2.1 := by rw [hi']
      have wcOld := tw.2
      have hwc : ∀ o ∈ (t.commit w.sys.inner.parent).2.1.operations, isWriteOp o = true → o.argKey ∈ c.modified := by
        intro o ho hw; rw [hops] at ho; exact wcOld w.id c t hc ht o ho hw
      -- the two invariants that ignore the parent cache, for the state right after the underlying commit
      have tw' : TW { w.sys with inner := i', ctxns := setC w.sys.ctxns w.id { c with finished := true } } := by
        have hts : ({ w.sys with inner := i', ctxns := setC w.sys.ctxns w.id { c with finished := true } } : CSys).inner.txns.lookup w.id
            = some (t.commit w.sys.inner.parent).2.1 := by
          show i'.txns.lookup w.id = _
          rw [htx]; exact lookup_setTxn_same ..
        refine tw_frame w.sys _ w.id _ { c with finished := true } tw (lookup_setC_same ..) hts
          (fun id' h' => lookup_setC_other _ _ _ _ h') ?_
          (fun hf => absurd hf (by intro hf; exact hfin hf)) hwc
        intro id' h'
        show i'.txns.lookup id' = _
        rw [htx]; exact lookup_setTxn_other _ _ _ _ h'
      by_cases hr : r = .ok
      · subst hr
        simp only
        refine ⟨tw', ?_⟩
        simp only
        intro k e hl
        by_cases hm : k ∈ c.modified
        · exact Or.inr hm
        · left
          have := pc k e hl
          rw [this]
          show sget w.sys.inner.parent k = sget i'.parent k
          rw [hpar]
          rcases (hok hr'.symm).2 with hp' | hp'
          · rw [hp']
          · symm
            apply replay_other _ _ _ _ hp'
            intro o ho hw hk
            exact hm (hk ▸ wcOld w.id c t hc ht o ho hw)
      · have hgoal : WinInv { w with sys := { w.sys with inner := i', ctxns := setC w.sys.ctxns w.id { c with finished := true } }, phase := .done, res := r } := by
          refine ⟨tw', ?_⟩
          simp only
          intro k e hl
          show e = sget i'.parent k
          rw [hpar, hnok (by rw [← hr']; exact hr)]; exact pc k e hl
        cases r <;> first | exact hgoal | exact absurd rfl hr

theorem winInv_step (w : Win) (st : WStep) (h : WinInv w) : WinInv (w.step st) := by
  cases st with
  | reader k => exact winInv_reader w k h
  | tick => exact winInv_tick w h

theorem winInv_run (w : Win) (sched : List WStep) (h : WinInv w) : WinInv (w.run sched) := by
  induction sched generalizing w with
  | nil => exact h
  | cons st r ih => exact ih _ (winInv_step w st h)

theorem winInv_drain (w : Win) (h : WinInv w) (hb : w.phase ≠ .before) : WinInv w.drain ∧ w.drain.phase = .done := by
  obtain ⟨tw, hp⟩ := h
  unfold Win.drain
  cases hph : w.phase with
  | before => exact absurd hph hb
  | done => simp only; exact ⟨⟨tw, by simpa [hph] using hp⟩, hph⟩
  | invalidating pending =>
    simp only [hph] at hp ⊢
    refine ⟨⟨tw_congr w.sys _ tw rfl rfl, ?_⟩, trivial⟩
    simp only
    intro k e hk
    obtain ⟨hnm, hl0⟩ := lookup_foldl_remove _ _ _ _ hk
    rcases hp k e hl0 with h1 | h1
    · exact h1
    · exact absurd h1 hnm

theorem tick_leaves_before (w : Win) (h : WinInv w) (hb : w.phase = .before) : w.tick.phase ≠ .before := by
  obtain ⟨_, hp⟩ := h
  simp only [hb] at hp
  obtain ⟨_, ⟨c, hc⟩, ⟨t, ht⟩⟩ := hp
  unfold Win.tick
  simp only [hb, hc, Sys.step, ht]
  cases (t.commit w.sys.inner.parent).2.2 <;> simp

theorem winInv_finish (w : Win) (h : WinInv w) : WinInv w.finish ∧ w.finish.phase = .done := by
  unfold Win.finish
  cases hph : w.phase with
  | before => exact winInv_drain _ (winInv_tick w h) (tick_leaves_before w h hph)
  | invalidating p => exact winInv_drain w h (by rw [hph]; simp)
  | done => exact winInv_drain w h (by rw [hph]; simp)

theorem inv_of_winInv_done (w : Win) (h : WinInv w) (hd : w.phase = .done) : Inv w.sys := by
  obtain ⟨tw, hp⟩ := h
  simp only [hd] at hp
  exact ⟨hp, tw.1, tw.2⟩

theorem winInv_start (s : CSys) (id : Nat) (w : Win) (hi : Inv s) (h : Win.start s id = some w) : WinInv w := by
  unfold Win.start at h
  cases hc : s.ctxns.lookup id with
  | none => simp [hc] at h
  | some c =>
    cases ht : s.inner.txns.lookup id with
    | none => simp [hc, ht] at h
    | some t =>
      simp only [hc, ht] at h; cases h
      exact ⟨⟨hi.2.1, hi.2.2⟩, hi.1, ⟨c, hc⟩, ⟨t, ht⟩⟩

theorem inv_runM (s : CSys) (ms : List MEvent) (hi : Inv s) : Inv (s.runM ms) := by
  induction ms generalizing s with
  | nil => exact hi
  | cons m r ih =>
    cases m with
    | ev e =>
      simp only [CSys.runM]
      cases hs : s.step e with
      | none => exact ih s hi
      | some sr => obtain ⟨s', res⟩ := sr; exact ih s' (inv_step s s' e res hs hi)
    | window id sched =>
      simp only [CSys.runM]
      cases hw : Win.start s id with
      | none => exact ih s hi
      | some w =>
        have h1 := winInv_run w sched (winInv_start s id w hi hw)
        obtain ⟨h2, h3⟩ := winInv_finish _ h1
        exact ih _ (inv_of_winInv_done _ h2 h3)

/-- with no reader in the window the micro-step commit is the atomic commit step of the operation-granular model -/
theorem window_no_readers (s : CSys) (id : Nat) (w : Win) (h : Win.start s id = some w) :
    s.step (.commit id) = some (w.finish.sys, w.finish.res) := by
  unfold Win.start at h
  cases hc : s.ctxns.lookup id with
  | none => simp [hc] at h
  | some c =>
    cases ht : s.inner.txns.lookup id with
    | none => simp [hc, ht] at h
    | some t =>
      simp only [hc, ht] at h; cases h
      simp only [CSys.step, hc, Win.finish, Win.tick, Sys.step, ht]
      cases hr : (t.commit s.inner.parent).2.2 <;> simp [Win.drain]

end Obao.CacheTxn

namespace Obao.CacheTxn
open Obao.SerialTxn Obao.InmemTxn

/-! ### a finished wrapped transaction is known to be finished by the cache layer (repair of F22) -/

/-- frame rule for `FlagInv` -/
theorem flag_frame (s s' : CSys) (id : Nat) (t' : Txn) (c' : CTxn) (hi : FlagInv s)
    (hc' : s'.ctxns.lookup id = some c') (ht' : s'.inner.txns.lookup id = some t')
    (hco : ∀ id', id' ≠ id → s'.ctxns.lookup id' = s.ctxns.lookup id')
    (hto : ∀ id', id' ≠ id → s'.inner.txns.lookup id' = s.inner.txns.lookup id')
    (hfl : t'.finished = true → c'.finished = true) : FlagInv s' := by
  intro id' c t hc ht hf
  by_cases hid : id' = id
  · subst hid
    rw [hc'] at hc; rw [ht'] at ht; cases hc; cases ht
    exact hfl hf
  · rw [hco id' hid] at hc; rw [hto id' hid] at ht
    exact hi id' c t hc ht hf

theorem flag_congr (s s' : CSys) (h : FlagInv s) (hc : s'.ctxns = s.ctxns) (ht : s'.inner.txns = s.inner.txns) :
    FlagInv s' := by
  intro id' c t hc' ht'; rw [hc] at hc'; rw [ht] at ht'; exact h id' c t hc' ht'

theorem flag_step (s s' : CSys) (e : Event) (r : Res) (h : s.step e = some (s', r)) (hi : FlagInv s) : FlagInv s' := by
  cases e with
  | begin id w =>
    simp only [CSys.step] at h
    split at h
    · cases h
    · rename_i i' r' hin
      cases h
      obtain ⟨_, _, rfl⟩ := inner_begin _ _ _ _ _ hin
      apply flag_frame s _ id _ _ hi (lookup_setC_same ..) (lookup_setTxn_same ..)
        (fun id' h' => lookup_setC_other _ _ _ _ h') (fun id' h' => lookup_setTxn_other _ _ _ _ h')
      intro hf; cases w <;> simp [beginTx, beginReadOnlyTx] at hf
  | op id o =>
    simp only [CSys.step] at h
    cases hc : s.ctxns.lookup id with
    | none => simp [hc] at h
    | some c =>
      simp only [hc] at h
      -- whatever the branch: the wrapped transaction becomes `(t.apply o).1` or stays, the flag is not touched
      have key : ∀ (i' : Sys) (r' : Res) (c' : CTxn), s.inner.step (.op id o) = some (i', r') → c'.finished = c.finished →
          FlagInv { s with inner := i', ctxns := setC s.ctxns id c' } := by
        intro i' r' c' hin hcf
        obtain ⟨t, ht, rfl, rfl⟩ := inner_op _ _ _ _ _ hin
        apply flag_frame s _ id _ c' hi (lookup_setC_same ..) (lookup_setTxn_same ..)
          (fun id' h' => lookup_setC_other _ _ _ _ h') (fun id' h' => lookup_setTxn_other _ _ _ _ h')
        intro hf
        rw [(apply_flags t o).2] at hf
        rw [hcf]; exact hi id c t hc ht hf
      have key0 : ∀ (i' : Sys) (r' : Res), s.inner.step (.op id o) = some (i', r') → FlagInv { s with inner := i' } := by
        intro i' r' hin
        obtain ⟨t, ht, rfl, rfl⟩ := inner_op _ _ _ _ _ hin
        have hcs : ({ s with inner := { s.inner with txns := setTxn s.inner.txns id (t.apply o).1 } } : CSys).ctxns.lookup id = some c := hc
        apply flag_frame s _ id _ c hi hcs (lookup_setTxn_same ..)
          (fun id' _ => rfl) (fun id' h' => lookup_setTxn_other _ _ _ _ h')
        intro hf
        rw [(apply_flags t o).2] at hf
        exact hi id c t hc ht hf
      cases o with
      | get k =>
        simp only at h
        by_cases hfin : c.finished = true
        · simp only [hfin, if_true] at h
          cases hin : s.inner.step (.op id (.get k)) with
          | none => simp [hin] at h
          | some ir => obtain ⟨i', r'⟩ := ir; simp only [hin] at h; cases h; exact key0 i' _ hin
        · have hfin' : c.finished = false := by simpa using hfin
          simp only [hfin', Bool.false_eq_true, if_false] at h
          cases hl : c.lru.lookup k with
          | some e => simp only [hl] at h; cases h; exact hi
          | none =>
            simp only [hl] at h
            cases hin : s.inner.step (.op id (.get k)) with
            | none => simp [hin] at h
            | some ir =>
              obtain ⟨i', r'⟩ := ir
              simp only [hin] at h
              cases r' <;> simp only at h <;> cases h <;>
                first | exact key0 i' _ hin | exact key i' _ _ hin rfl | exact key i' _ _ hin (by simp [hfin'])
      | put k v =>
        simp only at h
        cases hin : s.inner.step (.op id (.put k v)) with
        | none => simp [hin] at h
        | some ir =>
          obtain ⟨i', r'⟩ := ir
          simp only [hin] at h
          cases r' <;> simp only at h <;> cases h <;> first | exact key0 i' _ hin | exact key i' _ _ hin rfl
      | del k =>
        simp only at h
        cases hin : s.inner.step (.op id (.del k)) with
        | none => simp [hin] at h
        | some ir =>
          obtain ⟨i', r'⟩ := ir
          simp only [hin] at h
          cases r' <;> simp only at h <;> cases h <;> first | exact key0 i' _ hin | exact key i' _ _ hin rfl
      | list p a l =>
        simp only at h
        cases hin : s.inner.step (.op id (.list p a l)) with
        | none => simp [hin] at h
        | some ir => obtain ⟨i', r'⟩ := ir; simp only [hin] at h; cases h; exact key0 i' _ hin
  | commit id =>
    simp only [CSys.step] at h
    cases hc : s.ctxns.lookup id with
    | none => simp [hc] at h
    | some c =>
      simp only [hc] at h
      cases hin : s.inner.step (.commit id) with
      | none => simp [hin] at h
      | some ir =>
        obtain ⟨i', r'⟩ := ir
        obtain ⟨t, ht, rfl, rfl⟩ := inner_commit _ _ _ _ hin
        simp only [hin] at h
        have key : ∀ lru', FlagInv { inner := { parent := (t.commit s.inner.parent).1, txns := setTxn s.inner.txns id (t.commit s.inner.parent).2.1 }, lru := lru', ctxns := setC s.ctxns id { c with finished := true } } := by
          intro lru'
          apply flag_frame s _ id _ { c with finished := true } hi (lookup_setC_same ..) (lookup_setTxn_same ..)
            (fun id' h' => lookup_setC_other _ _ _ _ h') (fun id' h' => lookup_setTxn_other _ _ _ _ h')
          intro _; rfl
        cases hrr : (t.commit s.inner.parent).2.2 <;> simp only [hrr] at h <;> cases h <;> exact key _
  | rollback id =>
    simp only [CSys.step] at h
    cases hc : s.ctxns.lookup id with
    | none => simp [hc] at h
    | some c =>
      simp only [hc] at h
      cases hin : s.inner.step (.rollback id) with
      | none => simp [hin] at h
      | some ir =>
        obtain ⟨i', r'⟩ := ir
        obtain ⟨t, ht, rfl, rfl⟩ := inner_rollback _ _ _ _ hin
        simp only [hin] at h; cases h
        apply flag_frame s _ id _ { c with finished := true } hi (lookup_setC_same ..) (lookup_setTxn_same ..)
          (fun id' h' => lookup_setC_other _ _ _ _ h') (fun id' h' => lookup_setTxn_other _ _ _ _ h')
        intro _; rfl
  | plain o =>
    cases o with
    | get k =>
      obtain ⟨s1, r1, hs, hc, hin, _⟩ := reader_facts s k
      rw [hs] at h; cases h
      exact flag_congr s s' hi hc (by rw [hin])
    | put k v =>
      simp only [CSys.step, Sys.step] at h; cases h
      exact flag_congr s _ hi rfl rfl
    | del k =>
      simp only [CSys.step, Sys.step] at h; cases h
      exact flag_congr s _ hi rfl rfl
    | list p a l =>
      simp only [CSys.step, Sys.step] at h; cases h
      exact flag_congr s _ hi rfl rfl

theorem flag_run (s : CSys) (es : List Event) (hi : FlagInv s) : FlagInv (s.run es) := by
  induction es generalizing s with
  | nil => exact hi
  | cons e es ih =>
    simp only [CSys.run]
    cases hs : s.step e with
    | none => exact ih s hi
    | some sr => obtain ⟨s', r⟩ := sr; exact ih s' (flag_step s s' e r hs hi)

theorem flag_init (s0 : Store) : FlagInv (CSys.init s0) := by
  intro id c t h; simp [CSys.init] at h

/-- behind the cache layer a finished transaction refuses every operation, `Get` included -/
theorem finished_refused (s s' : CSys) (hi : FlagInv s) (id : Nat) (t : Txn) (ht : s.inner.txns.lookup id = some t)
    (hf : t.finished = true) (o : Op) (r : Res) (h : s.step (.op id o) = some (s', r)) : r.isErr = true := by
  simp only [CSys.step] at h
  cases hc : s.ctxns.lookup id with
  | none => simp [hc] at h
  | some c =>
    simp only [hc] at h
    have hcf : c.finished = true := hi id c t hc ht hf
    have inner_err : ∀ i' r', s.inner.step (.op id o) = some (i', r') → r'.isErr = true := by
      intro i' r' hin
      obtain ⟨t', ht', _, rfl⟩ := inner_op _ _ _ _ _ hin
      rw [ht] at ht'; cases ht'
      rcases apply_cases t o with ⟨he, _⟩ | ⟨e, _, _, _, _, _, _, hnf⟩
      · exact he
      · rw [hf] at hnf; cases hnf
    cases o with
    | get k =>
      simp only [hcf, if_true] at h
      cases hin : s.inner.step (.op id (.get k)) with
      | none => simp [hin] at h
      | some ir => obtain ⟨i', r'⟩ := ir; simp only [hin] at h; cases h; exact inner_err i' r hin
    | put k v =>
      simp only at h
      cases hin : s.inner.step (.op id (.put k v)) with
      | none => simp [hin] at h
      | some ir =>
        obtain ⟨i', r'⟩ := ir
        have := inner_err i' r' hin
        simp only [hin] at h
        cases r' <;> simp only at h <;> cases h <;> first | exact this | simp [Res.isErr] at this
    | del k =>
      simp only at h
      cases hin : s.inner.step (.op id (.del k)) with
      | none => simp [hin] at h
      | some ir =>
        obtain ⟨i', r'⟩ := ir
        have := inner_err i' r' hin
        simp only [hin] at h
        cases r' <;> simp only at h <;> cases h <;> first | exact this | simp [Res.isErr] at this
    | list p a l =>
      simp only at h
      cases hin : s.inner.step (.op id (.list p a l)) with
      | none => simp [hin] at h
      | some ir => obtain ⟨i', r'⟩ := ir; simp only [hin] at h; cases h; exact inner_err i' r hin

end Obao.CacheTxn

namespace Obao.CacheTxn
open Obao.SerialTxn Obao.InmemTxn

/-! ### the commit window at lock granularity -/

def pendingOf : Phase → List Key
  | .invalidating p => p
  | _ => []

theorem tick_inval_cons (w : Win) (k : Key) (rest : List Key) (h : w.phase = .invalidating (k :: rest)) :
    w.tick = { w with sys := { w.sys with lru := lruRemove w.sys.lru k }, phase := .invalidating rest } := by
  unfold Win.tick; simp only [h]

theorem tick_inval_nil (w : Win) (h : w.phase = .invalidating []) : w.tick = { w with phase := .done } := by
  unfold Win.tick; simp only [h]

/-- the underlying commit changes the backend only on keys that are then pending eviction -/
theorem tick_before_parent (w : Win) (h : WinInv w) (hph : w.phase = .before) (k : Key) :
    sget w.tick.sys.inner.parent k = sget w.sys.inner.parent k ∨ k ∈ pendingOf w.tick.phase := by
  obtain ⟨tw, hp⟩ := h
  simp only [hph] at hp
  obtain ⟨_, ⟨c, hc⟩, ⟨t, ht⟩⟩ := hp
  have wcOld := tw.2
  obtain ⟨hops, hok, hnok, hfin⟩ := commit_facts t w.sys.inner.parent
  unfold Win.tick
  simp only [hph, hc, Sys.step, ht]
  by_cases hr : (t.commit w.sys.inner.parent).2.2 = .ok
  · simp only [hr, pendingOf]
    by_cases hm : k ∈ c.modified
    · exact Or.inr hm
    · left
      rcases (hok hr).2 with hp' | hp'
      · rw [hp']
      · apply replay_other _ _ _ _ hp'
        intro o ho hw hk
        exact hm (hk ▸ wcOld w.id c t hc ht o ho hw)
  · left
    cases hrr : (t.commit w.sys.inner.parent).2.2 <;> simp only [hrr] at hr ⊢ <;>
      first | exact absurd rfl hr | exact absurd trivial hr | (rw [← hrr] at hr; rw [hnok hr])

theorem winInv_fill (w : Win) (k : Key) (e : Option Val) (h : WinInv w)
    (he : e = sget w.sys.inner.parent k ∨ k ∈ pendingOf w.phase) :
    WinInv { w with sys := { w.sys with lru := lruSet w.sys.lru k e } } := by
  obtain ⟨tw, hp⟩ := h
  refine ⟨tw_congr w.sys _ tw rfl rfl, ?_⟩
  have fillPC : (e = sget w.sys.inner.parent k) → ParentCoherent w.sys →
      ParentCoherent { w.sys with lru := lruSet w.sys.lru k e } := by
    intro he' pc k' e' hk'
    by_cases hk : k' = k
    · subst hk; simp only [lookup_lruSet_same] at hk'; cases hk'; exact he'
    · simp only [lookup_lruSet_other _ _ _ _ hk] at hk'; exact pc k' e' hk'
  cases hph : w.phase with
  | before =>
    simp only [hph, pendingOf] at hp he ⊢
    have he' : e = sget w.sys.inner.parent k := by
      rcases he with h1 | h1
      · exact h1
      · cases h1
    exact ⟨fillPC he' hp.1, hp.2.1, hp.2.2⟩
  | done =>
    simp only [hph, pendingOf] at hp he ⊢
    have he' : e = sget w.sys.inner.parent k := by
      rcases he with h1 | h1
      · exact h1
      · cases h1
    exact fillPC he' hp
  | invalidating pending =>
    simp only [hph, pendingOf] at hp he ⊢
    intro k' e' hk'
    by_cases hk : k' = k
    · subst hk; simp only [lookup_lruSet_same] at hk'; cases hk'; exact he
    · simp only [lookup_lruSet_other _ _ _ _ hk] at hk'; exact hp k' e' hk'

theorem set_same {α : Type} (l : List α) (i : Nat) (r : α) (h : l[i]? = some r) : l.set i r = l := by
  induction l generalizing i with
  | nil => rfl
  | cons x xs ih =>
    cases i with
    | zero => simp at h; simp [h]
    | succ n => simp at h; simp [ih n h]

def MInv (stripe : Key → Nat) (m : MWin) : Prop :=
  WinInv m.w ∧ m.locking = true ∧
  (∀ r ∈ m.readers, ∀ e, r.pc = .fetched e → e = sget m.w.sys.inner.parent r.key ∨ r.key ∈ pendingOf m.w.phase) ∧
  (∀ k, (m.lock = .held k ∨ m.lock = .removed k) → ∀ r ∈ m.readers, stripe r.key = stripe k → r.pc.holds = false) ∧
  (∀ k, m.lock = .held k → ∃ rest, m.w.phase = .invalidating (k :: rest))

theorem minv_start (stripe : Key → Nat) (s : CSys) (id : Nat) (m : MWin) (hi : Inv s) (h : MWin.start s id true = some m) :
    MInv stripe m := by
  unfold MWin.start at h
  cases hw : Win.start s id with
  | none => simp [hw] at h
  | some w =>
    simp only [hw, Option.map_some, Option.some.injEq] at h
    subst h
    refine ⟨winInv_start s id w hi hw, rfl, ?_, ?_, ?_⟩
    · intro r hr; simp at hr
    · intro k hk; rcases hk with hk | hk <;> cases hk
    · intro k hk; cases hk

theorem minv_reader (stripe : Key → Nat) (m : MWin) (i : Nat) (h : MInv stripe m) :
    MInv stripe (m.step stripe (.reader i)) := by
  simp only [MWin.step]
  cases hri : m.readers[i]? with
  | none => exact h
  | some r =>
    have hrm : r ∈ m.readers := List.mem_of_getElem? hri
    obtain ⟨hw, hl, hb, hc, hd⟩ := h
    simp only
    -- a generic closing argument: the commit side is untouched, reader `i` becomes `r'` with the same key
    have close : ∀ (m' : MWin) (r' : Reader), m'.lock = m.lock → m'.locking = m.locking → m'.readers = m.readers →
        m'.w.phase = m.w.phase → m'.w.sys.inner = m.w.sys.inner → WinInv m'.w → r'.key = r.key →
        (∀ e, r'.pc = .fetched e → e = sget m.w.sys.inner.parent r.key ∨ r.key ∈ pendingOf m.w.phase) →
        (r'.pc.holds = true → r.pc.holds = true ∨ m.writerHolds stripe r.key = false) →
        MInv stripe { m' with readers := m'.readers.set i r' } := by
      intro m' r' hlock hlocking hreaders hphase hinner hw' hkey hfetch hholds
      refine ⟨hw', by rw [hlocking]; exact hl, ?_, ?_, ?_⟩
      · intro r'' hr'' e he
        simp only [hreaders] at hr''
        rw [hphase, hinner]
        rcases List.mem_or_eq_of_mem_set hr'' with h1 | h1
        · exact hb r'' h1 e he
        · subst h1; rw [hkey]; exact hfetch e he
      · intro k hk r'' hr'' hs
        simp only [hreaders] at hr''
        rw [hlock] at hk
        rcases List.mem_or_eq_of_mem_set hr'' with h1 | h1
        · exact hc k hk r'' h1 hs
        · subst h1
          rw [hkey] at hs
          cases hh : r''.pc.holds with
          | false => rfl
          | true =>
            rcases hholds hh with h2 | h2
            · have := hc k hk r hrm hs; rw [this] at h2; cases h2
            · unfold MWin.writerHolds at h2
              rcases hk with hk | hk <;> simp only [hk, hl, Bool.true_and, beq_eq_false_iff_ne, ne_eq] at h2 <;>
                exact absurd hs.symm h2
      · intro k hk
        rw [hlock] at hk; rw [hphase]; exact hd k hk
    unfold MWin.readerStep
    cases hpc : r.pc with
    | start =>
      simp only
      by_cases hwh : m.writerHolds stripe r.key = true
      · simp only [hwh, if_true]
        have : m.readers.set i r = m.readers := set_same _ _ _ hri
        rw [this]; exact ⟨hw, hl, hb, hc, hd⟩
      · have hwh' : m.writerHolds stripe r.key = false := by simpa using hwh
        simp only [hwh', Bool.false_eq_true, if_false]
        exact close m _ rfl rfl rfl rfl rfl hw rfl (by intro e he; cases he) (fun _ => Or.inr hwh')
    | locked =>
      simp only
      cases m.w.sys.lru.lookup r.key with
      | some e => exact close m _ rfl rfl rfl rfl rfl hw rfl (by intro e' he; cases he) (fun _ => Or.inl (by rw [hpc]; rfl))
      | none => exact close m _ rfl rfl rfl rfl rfl hw rfl (by intro e' he; cases he) (fun _ => Or.inl (by rw [hpc]; rfl))
    | hit e =>
      exact close m _ rfl rfl rfl rfl rfl hw rfl (by intro e' he; cases he) (fun hh => by simp [RPc.holds] at hh)
    | missed =>
      refine close m _ rfl rfl rfl rfl rfl hw rfl ?_ (fun _ => Or.inl (by rw [hpc]; rfl))
      intro e he; simp only [RPc.fetched.injEq] at he; exact Or.inl he.symm
    | fetched e =>
      have hfe := hb r hrm e hpc
      refine close (m.setLru (lruSet m.w.sys.lru r.key e)) _ rfl rfl rfl rfl rfl ?_ rfl (by intro e' he; cases he)
        (fun _ => Or.inl (by rw [hpc]; rfl))
      exact winInv_fill m.w r.key e hw hfe
    | filled e =>
      exact close m _ rfl rfl rfl rfl rfl hw rfl (by intro e' he; cases he) (fun hh => by simp [RPc.holds] at hh)
    | done e =>
      simp only
      have : m.readers.set i r = m.readers := set_same _ _ _ hri
      rw [this]; exact ⟨hw, hl, hb, hc, hd⟩

end Obao.CacheTxn

namespace Obao.CacheTxn
open Obao.SerialTxn Obao.InmemTxn

theorem minv_spawn (stripe : Key → Nat) (m : MWin) (k : Key) (h : MInv stripe m) :
    MInv stripe (m.step stripe (.spawn k)) := by
  obtain ⟨hw, hl, hb, hc, hd⟩ := h
  refine ⟨hw, hl, ?_, ?_, hd⟩
  · intro r hr e he
    simp only [MWin.step, List.mem_append, List.mem_singleton] at hr
    rcases hr with hr | rfl
    · exact hb r hr e he
    · cases he
  · intro k' hk r hr hs
    simp only [MWin.step, List.mem_append, List.mem_singleton] at hr
    rcases hr with hr | rfl
    · exact hc k' hk r hr hs
    · rfl

theorem minv_commit (stripe : Key → Nat) (m : MWin) (h : MInv stripe m) : MInv stripe (m.commitStep stripe) := by
  obtain ⟨hw, hl, hb, hc, hd⟩ := h
  unfold MWin.commitStep
  cases hph : m.w.phase with
  | done => simp only; exact ⟨hw, hl, hb, hc, hd⟩
  | before =>
    simp only
    refine ⟨winInv_tick m.w hw, hl, ?_, hc, ?_⟩
    · intro r hr e he
      have := hb r hr e he
      simp only [hph, pendingOf] at this
      have hcur : e = sget m.w.sys.inner.parent r.key := by
        rcases this with h1 | h1
        · exact h1
        · cases h1
      rcases tick_before_parent m.w hw hph r.key with h1 | h1
      · left; rw [hcur, h1]
      · exact Or.inr h1
    · intro k hk
      obtain ⟨rest, hrest⟩ := hd k hk
      rw [hph] at hrest; cases hrest
  | invalidating pending =>
    cases pending with
    | nil =>
      cases hlk : m.lock with
      | removed k0 =>
        simp only
        refine ⟨hw, hl, hb, ?_, ?_⟩
        · intro k' hk'; rcases hk' with h1 | h1 <;> simp at h1
        · intro k' hk'; simp at hk'
      | held k0 =>
        obtain ⟨rest0, hrest0⟩ := hd k0 hlk
        rw [hph] at hrest0; cases hrest0
      | free =>
      simp only
      rw [tick_inval_nil m.w hph]
      have hc : ∀ k, (WLock.free = WLock.held k ∨ WLock.free = WLock.removed k) → ∀ r ∈ m.readers, stripe r.key = stripe k → r.pc.holds = false := by
        intro k hk; rcases hk with h1 | h1 <;> cases h1
      have hd : ∀ k, WLock.free = WLock.held k → ∃ rest, m.w.phase = Phase.invalidating (k :: rest) := by
        intro k hk; cases hk
      refine ⟨?_, hl, ?_, hc, ?_⟩
      · have := winInv_tick m.w hw; rw [tick_inval_nil m.w hph] at this; exact this
      · intro r hr e he
        have := hb r hr e he
        simp only [hph, pendingOf] at this ⊢
        exact this
      · intro k hk
        obtain ⟨rest, hrest⟩ := hd k hk
        rw [hph] at hrest; cases hrest
    | cons k rest =>
      cases hlk : m.lock with
      | free =>
        simp only
        by_cases hbl : (m.locking && m.readerHolds stripe k) = true
        · simp only [hbl, if_true]; exact ⟨hw, hl, hb, hc, hd⟩
        · have hbl' : m.readerHolds stripe k = false := by
            rw [hl] at hbl; simpa using hbl
          simp only [hl, hbl', Bool.and_false, Bool.false_eq_true, if_false]
          refine ⟨hw, rfl, hb, ?_, ?_⟩
          · intro k' hk' r hr hs
            have hk'' : k' = k := by
              rcases hk' with h1 | h1 <;> simp at h1
              exact h1.symm
            subst hk''
            unfold MWin.readerHolds at hbl'
            have := (List.any_eq_false.mp hbl') r hr
            cases hh : r.pc.holds with
            | false => rfl
            | true => simp [hh, hs] at this
          · intro k' hk'
            simp at hk'; subst hk'
            exact ⟨rest, hph⟩
      | held k0 =>
        simp only
        obtain ⟨rest0, hrest0⟩ := hd k0 hlk
        rw [hph] at hrest0
        have hk0 : k0 = k := by cases hrest0; rfl
        subst hk0
        rw [tick_inval_cons m.w k0 rest hph]
        refine ⟨?_, hl, ?_, ?_, ?_⟩
        · have := winInv_tick m.w hw; rw [tick_inval_cons m.w k0 rest hph] at this; exact this
        · intro r hr e he
          have := hb r hr e he
          simp only [hph, pendingOf] at this ⊢
          rcases this with h1 | h1
          · exact Or.inl h1
          · rcases List.mem_cons.mp h1 with h2 | h2
            · -- the reader holds the read lock of the stripe whose write lock the committer holds: impossible
              have hno := hc k0 (Or.inl hlk) r hr (by rw [h2])
              rw [he] at hno; simp [RPc.holds] at hno
            · exact Or.inr h2
        · intro k' hk' r hr hs
          have hk'' : k' = k0 := by
            rcases hk' with h1 | h1 <;> simp at h1
            exact h1.symm
          subst hk''
          exact hc k' (Or.inl hlk) r hr hs
        · intro k' hk'; simp at hk'
      | removed k0 =>
        simp only
        refine ⟨hw, hl, hb, ?_, ?_⟩
        · intro k' hk'; rcases hk' with h1 | h1 <;> simp at h1
        · intro k' hk'; simp at hk'

theorem minv_step (stripe : Key → Nat) (m : MWin) (st : MStep) (h : MInv stripe m) : MInv stripe (m.step stripe st) := by
  cases st with
  | spawn k => exact minv_spawn stripe m k h
  | reader i => exact minv_reader stripe m i h
  | commit => exact minv_commit stripe m h

theorem minv_run (stripe : Key → Nat) (m : MWin) (sched : List MStep) (h : MInv stripe m) : MInv stripe (m.run stripe sched) := by
  induction sched generalizing m with
  | nil => exact h
  | cons st r ih => exact ih _ (minv_step stripe m st h)

theorem inv_runL (stripe : Key → Nat) (s : CSys) (ls : List LEvent) (hi : Inv s) : Inv (CSys.runL stripe s ls) := by
  induction ls generalizing s with
  | nil => exact hi
  | cons l r ih =>
    cases l with
    | ev e =>
      simp only [CSys.runL]
      cases hs : s.step e with
      | none => exact ih s hi
      | some sr => obtain ⟨s', res⟩ := sr; exact ih s' (inv_step s s' e res hs hi)
    | window id sched =>
      simp only [CSys.runL]
      cases hm : MWin.start s id true with
      | none => exact ih s hi
      | some m =>
        have h1 := (minv_run stripe m sched (minv_start stripe s id m hi hm)).1
        obtain ⟨h2, h3⟩ := winInv_finish _ h1
        exact ih _ (inv_of_winInv_done _ h2 h3)

/-- when everything has returned nothing is left to finish -/
theorem quiescent_finish (m : MWin) (h : m.quiescent = true) : m.w.finish = m.w := by
  unfold MWin.quiescent at h
  simp only [Bool.and_eq_true, beq_iff_eq] at h
  unfold Win.finish Win.drain
  simp [h.1.1]

end Obao.CacheTxn
