import Obao.Proofs.RevokeHist
/-!
`auth/token/revoke-orphan`: `revokeInternal(skipOrphan = false)` — the token is purged, its children keep
their entries with `parent := none` (and, as in the code, their parent-index entries stay behind).
-/
namespace Obao.Revoke

def orphanE (e : TokEntry) : TokEntry := { e with parent := none }

/-- closed form of the orphaning loop over `cs` -/
def orphanL (cs : List Nat) (σ : St) : St :=
  { σ with ids := fun y => if y ∈ cs then (σ.ids y).map orphanE else σ.ids y }

theorem run_orphanLoop (cs : List Nat) : ∀ (g : Nat) (σ : St), cs.length + 1 ≤ g →
    (∀ c ∈ cs, (σ.ids c).isSome ∧ (c ≠ 0 → σ.cache c = some false)) →
    run (orphanLoop g cs) σ = (.ok (), orphanL cs σ) := by
  induction cs with
  | nil =>
    intro g σ hg _
    obtain ⟨g', rfl⟩ : ∃ g', g = g' + 1 := ⟨g - 1, by simp at hg; omega⟩
    unfold orphanLoop
    simp only [pure_eq, run_ret, orphanL, List.not_mem_nil, if_false]
  | cons c cs ih =>
    intro g σ hg hl
    obtain ⟨g', rfl⟩ : ∃ g', g = g' + 2 := ⟨g - 2, by simp at hg; omega⟩
    obtain ⟨hc1, hc2⟩ := hl c (List.mem_cons_self ..)
    obtain ⟨ce, hce⟩ := Option.isSome_iff_exists.mp hc1
    unfold orphanLoop
    simp only [bind_eq, pure_eq]
    rw [run_bind, run_lookup g' c true σ (fun _ _ h0 => hc2 h0)]
    simp only [lkRes, hce, Bool.not_true, Bool.and_false, Bool.false_eq_true, if_false]
    rw [run_bind, run_lookup g' c true σ (fun _ _ h0 => hc2 h0)]
    simp only [lkRes, hce, Bool.not_true, Bool.and_false, Bool.false_eq_true, if_false]
    rw [run_bind, run_putKey]; simp only
    rw [run_bind, run_delKey]; simp only [St.delKey, St.putKey]
    rw [ih (g'+1) _ (by simp at hg ⊢; omega) (by
      intro c' hc'
      obtain ⟨h1, h2⟩ := hl c' (List.mem_cons_of_mem _ hc')
      refine ⟨?_, h2⟩
      show ((if c' = c then some _ else σ.ids c')).isSome = true
      split
      · rfl
      · exact h1)]
    congr 1
    apply St.ext' <;> try rfl
    funext y
    simp only [orphanL, List.mem_cons]
    by_cases hyc : y = c
    · subst hyc
      simp only [true_or, if_true, hce, Option.map]
      split <;> rfl
    · simp only [hyc, false_or, if_false]

theorem length_insertBy (f : Nat → Nat) (x : Nat) (l : List Nat) : (insertBy f x l).length = l.length + 1 := by
  induction l with
  | nil => rfl
  | cons y ys ih => simp only [insertBy]; split <;> simp [ih]

theorem length_sortBy (f : Nat → Nat) (l : List Nat) : (sortBy f l).length = l.length := by
  induction l with
  | nil => rfl
  | cons x xs ih => simp [sortBy, length_insertBy, ih]

theorem length_children_le (s : St) (p : Nat) : (s.children p).length ≤ s.next := by
  unfold St.children
  rw [length_sortBy]
  have := List.length_filter_le (s.par p) (List.range s.next)
  simpa using this


/-- closed form of a completed `revokeInternal(x, skipOrphan = false)` -/
def orphanSt (x : Nat) (e : TokEntry) (s : St) : St := orphanL (s.children x) (purge1 x e s)

theorem children_congr {s σ : St} (h1 : σ.next = s.next) (h2 : σ.skey = s.skey) (x : Nat)
    (h3 : ∀ c, σ.par x c = s.par x c) : σ.children x = s.children x := by
  unfold St.children
  rw [h1, h2]
  congr 1
  apply List.filter_congr
  intro c _
  exact h3 c

theorem run_riBody_orphan (x : Nat) (e : TokEntry) (g : Nat) (s : St)
    (hc : s.tl x = none → s.cache x = none)
    (hpx : ∀ p, e.parent = some p → p ≠ x)
    (hg : s.next + 1 ≤ g)
    (hl : ∀ c ∈ s.children x, (s.ids c).isSome ∧ c ≠ x ∧ (c ≠ 0 → s.cache c = some false))
    (hdk : destroyKey x e = some (ckey x e)) :
    run (riBody x e false (orphanLoop g)) s =
      (.ok (), orphanL (s.children x) (St.delKey (match e.parent with
                 | some p => (rbt x (clearCub (ckey x e) s)).delKey (.par p x)
                 | none => rbt x (clearCub (ckey x e) s)) (.acc x))) := by
  unfold riBody
  simp only [hdk, bind_eq, pure_eq, run_bind, run_cubDestroy]
  rw [run_revokeByToken x (clearCub (ckey x e) s) hc]
  have hlen := length_children_le s x
  cases hpar : e.parent with
  | none =>
    simp only [run_bind, run_ret, run_delKey, Bool.not_false, if_true, run_listPar]
    have hch : ((rbt x (clearCub (ckey x e) s)).delKey (.acc x)).children x = s.children x :=
      children_congr (σ := (rbt x (clearCub (ckey x e) s)).delKey (.acc x)) (s := s) rfl rfl x (fun _ => rfl)
    rw [hch]
    rw [run_orphanLoop _ g _ (by omega) (by
      intro c hcm
      obtain ⟨h1, h2, h3⟩ := hl c hcm
      refine ⟨h1, fun h0 => ?_⟩
      show (if c = x then none else s.cache c) = some false
      simp [h2, h3 h0])]
  | some p =>
    simp only [run_bind, run_ret, run_delKey, Bool.not_false, if_true, run_listPar]
    have hch : (((rbt x (clearCub (ckey x e) s)).delKey (.par p x)).delKey (.acc x)).children x = s.children x := by
      refine children_congr (σ := ((rbt x (clearCub (ckey x e) s)).delKey (.par p x)).delKey (.acc x)) (s := s) rfl rfl x
        (fun c => ?_)
      show (if x = p ∧ c = x then false else s.par x c) = s.par x c
      have := hpx p hpar
      simp [Ne.symm this]
    rw [hch]
    rw [run_orphanLoop _ g _ (by omega) (by
      intro c hcm
      obtain ⟨h1, h2, h3⟩ := hl c hcm
      refine ⟨h1, fun h0 => ?_⟩
      show (if c = x then none else s.cache c) = some false
      simp [h2, h3 h0])]

/-- the part of `revokeInternal(skipOrphan = false)` after the `tokensPendingDeletion` check -/
theorem run_ri_tail_orphan (f x : Nat) (e : TokEntry) (s : St)
    (he : s.ids x = some e)
    (hm : e.marked = false)
    (hcache : x ≠ 0 → s.cache x = some false)
    (htl : s.tl x = none → s.cache x = none)
    (hpx : ∀ p, e.parent = some p → p ≠ x)
    (hg : s.next + 1 ≤ f + 1)
    (hl : ∀ c ∈ s.children x, (s.ids c).isSome ∧ c ≠ x ∧ (c ≠ 0 → s.cache c = some false))
    (hdk : destroyKey x e = some (ckey x e)) :
    run ((lookup (f+1) x true).bindE (riAfterLookup x false (orphanLoop (f+1)))) s = (.ok (), orphanSt x e s) := by
  rw [run_bindE, run_lookup f x true s (fun _ _ h0 => hcache h0)]
  simp only [lkRes, he, Bool.not_true, Bool.and_false, Bool.false_eq_true, if_false, riAfterLookup, bind_eq]
  rw [run_bind, run_riMark]
  simp only [hm, Bool.false_eq_true, if_false]
  rw [run_bindE]
  have hchild0 : (St.putKey s (Key.id x) (Payload.tok { e with marked := true })).children x = s.children x :=
    children_congr (s := s) rfl rfl x (fun _ => rfl)
  have hbody := run_riBody_orphan x e (f+1)
    (St.putKey s (Key.id x) (Payload.tok { e with marked := true }))
    (by simpa [St.putKey] using htl) hpx hg (by
      intro c hc
      rw [hchild0] at hc
      obtain ⟨h1, h2, h3⟩ := hl c hc
      refine ⟨?_, h2, h3⟩
      show ((if c = x then some _ else s.ids c)).isSome = true
      simp [h2, h1]) hdk
  rw [hbody]
  simp only [run_riFinish_ok]
  congr 1
  rw [hchild0]
  have hxch : x ∉ s.children x := fun h => (hl x h).2.1 rfl
  cases hpar : e.parent <;>
    apply St.ext' <;>
    simp only [orphanSt, orphanL, purge1, rbt, expireL, clearCub, St.delKey, St.putKey, St.leasesOf, St.cubKeys, hpar] <;>
    first | rfl | (funext a; simp) | (funext a b; simp) | skip
  all_goals first
    | (funext a
       by_cases h1 : a = x
       · subst h1; simp [hxch]
       · simp [h1])
    | (funext a b; by_cases h1 : a = _ <;> by_cases h2 : b = x <;> simp [h1, h2])
    | (funext k; by_cases hk : k = PKey.salted x <;> simp [hk])

theorem run_revokeInternal_orphan (f x : Nat) (e : TokEntry) (s : St)
    (he : s.ids x = some e)
    (hm : e.marked = false)
    (hp : s.pend (.salted x) ≠ some true)
    (hcache : x ≠ 0 → s.cache x = some false)
    (htl : s.tl x = none → s.cache x = none)
    (hpx : ∀ p, e.parent = some p → p ≠ x)
    (hg : s.next + 1 ≤ f + 1)
    (hl : ∀ c ∈ s.children x, (s.ids c).isSome ∧ c ≠ x ∧ (c ≠ 0 → s.cache c = some false))
    (hdk : destroyKey x e = some (ckey x e)) :
    run (revokeInternal (f+2) x false) s = (.ok (), orphanSt x e s) := by
  unfold revokeInternal
  simp only [bind_eq, pure_eq]
  rw [run_bind, run_pendLOS]
  cases hpx' : s.pend (.salted x) with
  | some b =>
    cases b with
    | true => exact absurd hpx' hp
    | false =>
      simp only [Bool.true_and, Bool.false_eq_true, if_false]
      exact run_ri_tail_orphan f x e s he hm hcache htl hpx hg hl hdk
  | none =>
    simp only [Bool.false_and, Bool.false_eq_true, if_false]
    refine (run_ri_tail_orphan f x e { s with pend := fun k => if k = PKey.salted x then some true else s.pend k }
      he hm hcache htl hpx hg (by
        have : ({ s with pend := fun k => if k = PKey.salted x then some true else s.pend k } : St).children x
            = s.children x := children_congr (s := s) rfl rfl x (fun _ => rfl)
        rw [this]; exact hl) hdk).trans ?_
    congr 1
    have hch : ({ s with pend := fun k => if k = PKey.salted x then some true else s.pend k } : St).children x
        = s.children x := children_congr (s := s) rfl rfl x (fun _ => rfl)
    apply St.ext' <;> simp only [orphanSt, orphanL, purge1, St.leasesOf, St.cubKeys, hch] <;> try rfl
    funext k
    by_cases hk : k = PKey.salted x <;> simp [hk]

theorem Inv.child_facts {s : St} (hI : Inv s) {t : Nat} (ht : (s.ids t).isSome) :
    ∀ c ∈ s.children t, (∃ ec, s.ids c = some ec ∧ ec.parent = some t) ∧ t < c := by
  intro c hc
  have hp := ((mem_children s t c).mp hc).2
  exact ⟨hI.fi.edge_live t c hp ht, (hI.fi.edge_lt t c hp).1⟩

theorem run_revokeOrphan {s : St} (hI : Inv s) (g : Nat) (hg : s.next + 1 ≤ g + 1) (r t : Nat) :
    run ((Req.revokeOrphan r t).prog (g+2)) s =
      if (s.ids r).isSome then
        match s.ids t with
        | none => (.error .invalid, s)
        | some e => (.ok (), orphanSt t e s)
      else (.error .denied, s) := by
  unfold Req.prog
  simp only [bind_eq, pure_eq]
  rw [run_bind, hI.run_auth]
  cases hr : (s.ids r).isSome with
  | false => rfl
  | true =>
    simp only [if_true]
    rw [run_bind, hI.run_sudoCheck, hr]
    simp only [Bool.not_true, Bool.false_eq_true, if_false]
    rw [run_bind, hI.run_lookup]
    cases ht : s.ids t with
    | none => rfl
    | some e =>
      simp only
      have hts : (s.ids t).isSome := by simp [ht]
      have hok := hI.fi.tok t e ht
      have hpend : s.pend (.salted t) ≠ some true := hI.pendClean _
      rw [run_bindE, run_revokeInternal_orphan g t e s ht (hI.unmarked t e ht) hpend hok.cache hok.tlc
        (by
          intro p hp hpt
          subst hpt
          have := hI.fi.edge_lt p p (hI.fi.entry_edge p e p ht hp)
          omega)
        hg
        (by
          intro c hc
          obtain ⟨⟨ec, hec, _⟩, hlt⟩ := hI.child_facts hts c hc
          refine ⟨by simp [hec], by omega, fun h0 => ?_⟩
          rw [hI.cacheEq, hI.lease c ec hec h0])
        (by have := destroyKey_eq_routerKey t e (hI.fi.entryWf t e ht); rw [this.1, this.2])]
      rfl


theorem inv_orphanSt {s : St} (hI : Inv s) {t : Nat} {e : TokEntry} (ht : s.ids t = some e) :
    Inv (orphanSt t e s) := by
  have hts : (s.ids t).isSome := by simp [ht]
  have hσ := purge1_finv hI.fi ht
  have F1 := hI.child_facts hts
  have F2 : ∀ c ec, s.ids c = some ec → ec.parent = some t → c ∈ s.children t := by
    intro c ec h1 h2
    have hp := hI.fi.entry_edge c ec t h1 h2
    exact (mem_children s t c).mpr ⟨(hI.fi.edge_lt t c hp).2, hp⟩
  have htcs : t ∉ s.children t := fun h => by have := (F1 t h).2; omega
  have hids : ∀ y, (orphanSt t e s).ids y =
      if y = t then none else if y ∈ s.children t then (s.ids y).map orphanE else s.ids y := by
    intro y
    show (if y ∈ s.children t then ((purge1 t e s).ids y).map orphanE else (purge1 t e s).ids y) = _
    simp only [purge1_ids]
    by_cases hyt : y = t
    · subst hyt; simp [htcs]
    · simp [hyt]
  have hlive : ∀ y, ((orphanSt t e s).ids y).isSome = true → y ≠ t ∧ (s.ids y).isSome = true := by
    intro y hy
    rw [hids] at hy
    split at hy
    · cases hy
    · rename_i hyt
      refine ⟨hyt, ?_⟩
      split at hy
      · simpa using hy
      · exact hy
  have hlive' : ∀ y, y ≠ t → (s.ids y).isSome = true → ((orphanSt t e s).ids y).isSome = true := by
    intro y hyt hy
    rw [hids]; simp only [hyt, if_false]
    split
    · simpa using hy
    · exact hy
  refine ⟨⟨hσ.edge_lt, ?_, ?_, ?_, ?_, hσ.cubB, ?_, ?_, hσ.tixB, hσ.slIx⟩, ?_, ?_, ?_, ?_, ?_, ?_, ?_⟩
  · intro p c h hp
    obtain ⟨hpt, hps⟩ := hlive p hp
    have hpσ : ((purge1 t e s).ids p).isSome := by simp [hpt, hps]
    obtain ⟨e', he', hpe⟩ := hσ.edge_live p c h hpσ
    have hct : c ≠ t := by intro h'; subst h'; simp at he'
    have hcs : s.ids c = some e' := by simpa [hct] using he'
    have hcn : c ∉ s.children t := by
      intro hc
      obtain ⟨⟨ec, hec, hpc⟩, _⟩ := F1 c hc
      rw [hcs] at hec; cases hec
      rw [hpe] at hpc; cases hpc
      exact hpt rfl
    exact ⟨e', by rw [hids]; simp [hct, hcn, hcs], hpe⟩
  · intro c e' p h hpe
    rw [hids] at h
    split at h
    · cases h
    · rename_i hct
      split at h
      · cases hq : s.ids c with
        | none => rw [hq] at h; cases h
        | some q => rw [hq] at h; cases h; simp [orphanE] at hpe
      · exact hσ.entry_edge c e' p (by simp [hct, h]) hpe
  · intro x hx
    exact hI.fi.idsB x (hlive x hx).2
  · intro x e' h
    obtain ⟨hxt, hxs⟩ := hlive x (by rw [h]; rfl)
    obtain ⟨ex, hex⟩ := Option.isSome_iff_exists.mp hxs
    have := hσ.tok x ex (by simp [hxt, hex])
    exact ⟨this.pend, this.cache, this.tlc⟩
  · intro c k h
    obtain ⟨y, ey, hy, hry⟩ := hσ.cubOwn c k h
    have hyt : y ≠ t := by intro h'; subst h'; simp at hy
    have hys : s.ids y = some ey := by simpa [hyt] using hy
    by_cases hyc : y ∈ s.children t
    · refine ⟨y, orphanE ey, by rw [hids]; simp [hyt, hyc, hys], ?_⟩
      exact hry
    · exact ⟨y, ey, by rw [hids]; simp [hyt, hyc, hys], hry⟩
  · intro x e' h
    rw [hids] at h
    split at h
    · cases h
    · split at h
      · cases hq : s.ids x with
        | none => rw [hq] at h; cases h
        | some q => rw [hq] at h; cases h; exact hI.fi.entryWf x q hq
      · exact hI.fi.entryWf x e' h
  · intro x e' h
    rw [hids] at h
    split at h
    · cases h
    · split at h
      · cases hq : s.ids x with
        | none => rw [hq] at h; cases h
        | some q => rw [hq] at h; cases h; exact hI.unmarked x q hq
      · exact hI.unmarked x e' h
  · intro x e' h h0
    obtain ⟨hxt, hxs⟩ := hlive x (by rw [h]; rfl)
    obtain ⟨ex, hex⟩ := Option.isSome_iff_exists.mp hxs
    show (purge1 t e s).tl x = some false
    simp only [purge1_tl, hxt, if_false]
    exact hI.lease x ex hex h0
  · intro x e' h
    obtain ⟨hxt, hxs⟩ := hlive x (by rw [h]; rfl)
    obtain ⟨ex, hex⟩ := Option.isSome_iff_exists.mp hxs
    show (purge1 t e s).acc x = true
    simp only [purge1_acc, hxt, if_false]
    exact hI.acc x ex hex
  · intro x
    show (purge1 t e s).cache x = (purge1 t e s).tl x
    simp only [purge1_cache, purge1_tl]
    split
    · rfl
    · exact hI.cacheEq x
  · intro x hx
    have hdσ : Dead (purge1 t e s) x := by
      by_cases hxt : x = t
      · subst hxt; exact purge1_dead hI.fi ht
      · refine purge1_keeps_dead (hI.deadClean x ?_)
        rw [hids] at hx
        simp only [hxt, if_false] at hx
        split at hx
        · cases hq : s.ids x with
          | none => rfl
          | some q => rw [hq] at hx; cases hx
        · exact hx
    exact ⟨hx, hdσ.noLease, hdσ.noAcc, hdσ.noCub, hdσ.leases⟩
  · intro c e' p h hpe
    rw [hids] at h
    split at h
    · cases h
    · rename_i hct
      split at h
      · cases hq : s.ids c with
        | none => rw [hq] at h; cases h
        | some q => rw [hq] at h; cases h; simp [orphanE] at hpe
      · rename_i hcn
        have hps := hI.parentLive c e' p h hpe
        have hpt : p ≠ t := by
          intro h'; subst h'
          exact hcn (F2 c e' h hpe)
        exact hlive' p hpt hps
  · intro k
    show (purge1 t e s).pend k ≠ some true
    simp only [purge1_pend]
    split
    · intro h; cases h
    · exact hI.pendClean k

end Obao.Revoke
