import Obao.Proofs.ScanProofs2
/-! Invariant of the frontier loop, its preservation, and the final scan theorem. Core Lean only. -/
namespace Obao.Listing
open Obao.KV

structure ScanInv (ks frontier cb : List Key) : Prop where
  cb_sub : ∀ x ∈ cb, x ∈ ks
  cb_nodup : cb.Nodup
  fr_dirs : ∀ d ∈ frontier, d ∈ allDirs ks
  fr_incomp : frontier.Pairwise (fun a b => hasPrefix a b = false ∧ hasPrefix b a = false)
  cb_out : ∀ x ∈ cb, ∀ d ∈ frontier, hasPrefix d x = false
  cover : ∀ k ∈ ks, k ∈ cb ∨ ∃ d ∈ frontier, hasPrefix d k = true

theorem mem_folderPart {d x : Key} {l : List Key} : x ∈ folderPart d l ↔ ∃ c ∈ l, endsWithSlash c = true ∧ x = d ++ c := by
  unfold folderPart
  simp only [List.mem_map, List.mem_filter]
  constructor
  · rintro ⟨c, ⟨h1, h2⟩, rfl⟩; exact ⟨c, h1, h2, rfl⟩
  · rintro ⟨c, h1, h2, rfl⟩; exact ⟨c, ⟨h1, h2⟩, rfl⟩

theorem mem_leafPart {d x : Key} {l : List Key} : x ∈ leafPart d l ↔ ∃ c ∈ l, endsWithSlash c = false ∧ x = d ++ c := by
  unfold leafPart
  simp only [List.mem_map, List.mem_filter, Bool.not_eq_true']
  constructor
  · rintro ⟨c, ⟨h1, h2⟩, rfl⟩; exact ⟨c, h1, h2, rfl⟩
  · rintro ⟨c, h1, h2, rfl⟩; exact ⟨c, ⟨h1, h2⟩, rfl⟩

theorem bool_false_of_not_true {b : Bool} (h : ¬ b = true) : b = false := Bool.eq_false_iff.mpr h

theorem hasPrefix_refl (d : Key) : hasPrefix d d = true := hasPrefix_iff.mpr ⟨[], by simp⟩

theorem not_hasPrefix_longer {d c : Key} (hc : c ≠ []) : hasPrefix (d ++ c) d = false := by
  apply bool_false_of_not_true
  intro h
  obtain ⟨t, ht⟩ := hasPrefix_iff.mp h
  have := congrArg List.length ht
  rw [List.length_append, List.length_append] at this
  have h0 : c.length = 0 := by omega
  exact hc (List.length_eq_zero_iff.mp h0)

/-- facts about a folder child `c` of directory `d` -/
theorem folder_child_facts {ks : List Key} {d c : Key} (hc : c ∈ children ks d) (he : endsWithSlash c = true) :
    ∃ k ∈ ks, hasPrefix (d ++ c) k = true ∧ ∃ s, c = s ++ [slash] ∧ slash ∉ s := by
  obtain ⟨k, hk, hpk, hck⟩ := children_mem'.mp hc
  rcases child_cases hpk with ⟨h1, _, _⟩ | ⟨_, h2, s, h3, h4⟩
  · rw [hck] at h1; rw [h1] at he; exact absurd he (by simp)
  · rw [hck] at h2 h3; exact ⟨k, hk, h2, s, h3, h4⟩

theorem leaf_child_facts {ks : List Key} {d c : Key} (hc : c ∈ children ks d) (he : endsWithSlash c = false) :
    d ++ c ∈ ks ∧ slash ∉ c := by
  obtain ⟨k, hk, hpk, hck⟩ := children_mem'.mp hc
  rcases child_cases hpk with ⟨_, h2, h3⟩ | ⟨h1, _, _⟩
  · rw [hck] at h2 h3; exact ⟨h3 ▸ hk, h2⟩
  · rw [hck] at h1; rw [h1] at he; exact absurd he (by simp)

theorem scanInv_step (ks fr cb : List Key) (d : Key) (h : ScanInv ks (fr ++ [d]) cb) :
    ScanInv ks (fr ++ folderPart d (children ks d)) (cb ++ leafPart d (children ks d)) ∧
    mu ks (fr ++ folderPart d (children ks d)) < mu ks (fr ++ [d]) := by
  have hC := children_sorted' ks d
  have hinc := List.pairwise_append.mp h.fr_incomp
  have hd_fr : ∀ r ∈ fr, hasPrefix r d = false ∧ hasPrefix d r = false := fun r hr => hinc.2.2 r hr d (by simp)
  have hcb_d : ∀ x ∈ cb, hasPrefix d x = false := fun x hx => h.cb_out x hx d (by simp)
  have hcb_fr : ∀ x ∈ cb, ∀ r ∈ fr, hasPrefix r x = false := fun x hx r hr => h.cb_out x hx r (by simp [hr])
  -- a frontier directory r and an extension of d cannot be prefix-related
  have hcross : ∀ r ∈ fr, ∀ c : Key, hasPrefix r (d ++ c) = false ∧ hasPrefix (d ++ c) r = false := by
    intro r hr c
    constructor
    · apply bool_false_of_not_true
      intro hp
      rcases hasPrefix_comparable hp (hasPrefix_self_append d c) with h1 | h1
      · rw [(hd_fr r hr).1] at h1; exact absurd h1 (by simp)
      · rw [(hd_fr r hr).2] at h1; exact absurd h1 (by simp)
    · apply bool_false_of_not_true
      intro hp
      have := hasPrefix_trans (hasPrefix_self_append d c) hp
      rw [(hd_fr r hr).2] at this; exact absurd this (by simp)
  refine ⟨⟨?_, ?_, ?_, ?_, ?_, ?_⟩, ?_⟩
  · -- cb_sub
    intro x hx
    rcases List.mem_append.mp hx with m | m
    · exact h.cb_sub x m
    · obtain ⟨c, hc, he, rfl⟩ := mem_leafPart.mp m
      exact (leaf_child_facts hc he).1
  · -- cb_nodup
    rw [List.nodup_append]
    refine ⟨h.cb_nodup, ?_, ?_⟩
    · unfold leafPart
      have hs : Sorted ((children ks d).filter (fun c => !endsWithSlash c)) := sorted_filter _ hC
      have : (((children ks d).filter (fun c => !endsWithSlash c)).map (d ++ ·)).Pairwise (· ≠ ·) := by
        rw [List.pairwise_map]
        exact List.Pairwise.imp (fun {a b} hab e => klt_ne hab (List.append_cancel_left e)) hs
      exact this
    · intro x hx y hy e
      subst e
      obtain ⟨c, _, _, rfl⟩ := mem_leafPart.mp hy
      have := hcb_d _ hx
      rw [hasPrefix_self_append] at this; exact absurd this (by simp)
  · -- fr_dirs
    intro x hx
    rcases List.mem_append.mp hx with m | m
    · exact h.fr_dirs x (by simp [m])
    · obtain ⟨c, hc, he, rfl⟩ := mem_folderPart.mp m
      obtain ⟨k, hk, hpk, s, hs, _⟩ := folder_child_facts hc he
      refine mem_allDirs.mpr (.inr ⟨endsWithSlash_iff.mpr ⟨d ++ s, by simp [hs]⟩, k, hk, hpk⟩)
  · -- fr_incomp
    rw [List.pairwise_append]
    refine ⟨hinc.1, ?_, ?_⟩
    · unfold folderPart
      rw [List.pairwise_map]
      have hs : Sorted ((children ks d).filter endsWithSlash) := sorted_filter _ hC
      apply List.Pairwise.imp_of_mem _ hs
      intro a b ha hb hab
      have ha' := List.mem_filter.mp ha
      have hb' := List.mem_filter.mp hb
      obtain ⟨_, _, _, sa, hsa, hna⟩ := folder_child_facts ha'.1 ha'.2
      obtain ⟨_, _, _, sb, hsb, hnb⟩ := folder_child_facts hb'.1 hb'.2
      constructor
      · apply bool_false_of_not_true
        intro hp
        exact klt_ne hab (folder_children_incomparable hsa hsb hna hnb hp)
      · apply bool_false_of_not_true
        intro hp
        exact klt_ne hab (folder_children_incomparable hsb hsa hnb hna hp).symm
    · intro r hr x hx
      obtain ⟨c, _, _, rfl⟩ := mem_folderPart.mp hx
      exact hcross r hr c
  · -- cb_out
    intro x hx d' hd'
    rcases List.mem_append.mp hx with mx | mx
    · rcases List.mem_append.mp hd' with md | md
      · exact hcb_fr x mx d' md
      · obtain ⟨c, _, _, rfl⟩ := mem_folderPart.mp md
        apply bool_false_of_not_true
        intro hp
        have := hasPrefix_trans (hasPrefix_self_append d c) hp
        rw [hcb_d x mx] at this; exact absurd this (by simp)
    · obtain ⟨l, hl, hel, rfl⟩ := mem_leafPart.mp mx
      rcases List.mem_append.mp hd' with md | md
      · exact (hcross d' md l).1
      · obtain ⟨c, hc, hec, rfl⟩ := mem_folderPart.mp md
        obtain ⟨_, _, _, s, hs, _⟩ := folder_child_facts hc hec
        apply bool_false_of_not_true
        intro hp
        rw [hasPrefix_append_left_iff] at hp
        obtain ⟨t, ht⟩ := hasPrefix_iff.mp hp
        apply (leaf_child_facts hl hel).2
        rw [ht, hs]; simp
  · -- cover
    intro k hk
    rcases h.cover k hk with m | ⟨d', hd', hp⟩
    · exact .inl (List.mem_append_left _ m)
    · rcases List.mem_append.mp hd' with md | md
      · exact .inr ⟨d', List.mem_append_left _ md, hp⟩
      · simp at md; subst md
        have hcmem : child d' k ∈ children ks d' := children_mem'.mpr ⟨k, hk, hp, rfl⟩
        rcases child_cases hp with ⟨h1, _, h3⟩ | ⟨h1, h2, _⟩
        · left
          apply List.mem_append_right
          exact mem_leafPart.mpr ⟨child d' k, hcmem, h1, h3⟩
        · right
          exact ⟨d' ++ child d' k, List.mem_append_right _ (mem_folderPart.mpr ⟨_, hcmem, h1, rfl⟩), h2⟩
  · -- the measure decreases: d itself is no longer under the frontier
    unfold mu
    apply length_filter_lt _ _ _ ?_ d (h.fr_dirs d (by simp)) ?_ ?_
    · intro x hx
      unfold underAny at hx ⊢
      rw [List.any_eq_true] at hx ⊢
      obtain ⟨d', hd', hp⟩ := hx
      rcases List.mem_append.mp hd' with md | md
      · exact ⟨d', List.mem_append_left _ md, hp⟩
      · obtain ⟨c, _, _, rfl⟩ := mem_folderPart.mp md
        exact ⟨d, by simp, hasPrefix_trans (hasPrefix_self_append d c) hp⟩
    · unfold underAny
      rw [List.any_eq_true]
      exact ⟨d, by simp, hasPrefix_refl d⟩
    · unfold underAny
      apply bool_false_of_not_true
      rw [List.any_eq_true]
      rintro ⟨d', hd', hp⟩
      rcases List.mem_append.mp hd' with md | md
      · rw [(hd_fr d' md).1] at hp; exact absurd hp (by simp)
      · obtain ⟨c, hc, hec, rfl⟩ := mem_folderPart.mp md
        obtain ⟨_, _, _, s, hs, _⟩ := folder_child_facts hc hec
        rw [not_hasPrefix_longer (by rw [hs]; simp)] at hp
        exact absurd hp (by simp)

end Obao.Listing
