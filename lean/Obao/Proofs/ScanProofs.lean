import Obao.Proofs.PagingProofs
/-! `scanViewPaginated` visits exactly the keys under the view, each once, and terminates, for every page size ≥ 2.
Core Lean only. -/
namespace Obao.Listing
open Obao.KV

/-- the lister the specification provides -/
def specLister (ks : List Key) : Lister := fun p after limit => .ok (listPage ks p after limit)

def folderPart (d : Key) (l : List Key) : List Key := (l.filter endsWithSlash).map (d ++ ·)
def leafPart (d : Key) (l : List Key) : List Key := (l.filter (fun c => !endsWithSlash c)).map (d ++ ·)

theorem folderPart_append (d : Key) (a b : List Key) : folderPart d (a ++ b) = folderPart d a ++ folderPart d b := by
  simp [folderPart]
theorem leafPart_append (d : Key) (a b : List Key) : leafPart d (a ++ b) = leafPart d a ++ leafPart d b := by
  simp [leafPart]

/-- the empty string is below every key, so in a strictly ascending list it can only come first -/
theorem sorted_last_nil {l : List Key} (hs : Sorted l) (h : l.getLast? = some []) : l = [[]] := by
  obtain ⟨ys, rfl⟩ := List.getLast?_eq_some_iff.mp h
  cases ys with
  | nil => rfl
  | cons y ys' =>
    exfalso
    have := (List.pairwise_append.mp hs).2.2 y (List.mem_cons_self ..) [] (by simp)
    exact not_klt_nil y this

/-- per-directory page loop: with enough fuel it returns all folder children (pushed on the frontier) and all leaf
children (called back), in listing order -/
theorem scanDir_spec (ks : List Key) (d : Key) (pageSize : Int) (hps : pageSize ≥ 2) (fuel : Nat) (after : Key)
    (frontier cb : List Key) (hfuel : (spec0 ks d after).length < fuel) :
    scanDir (specLister ks) pageSize d fuel after frontier cb
      = some (.ok (frontier ++ folderPart d (spec0 ks d after), cb ++ leafPart d (spec0 ks d after))) := by
  induction fuel generalizing after frontier cb with
  | zero => omega
  | succ f ih =>
    unfold scanDir
    have hpage : listPage ks d after pageSize = (spec0 ks d after).take pageSize.toNat := by
      rw [listPage_eq, if_pos (by omega)]
    simp only [specLister, hpage]
    have hn : pageSize.toNat ≥ 2 := by omega
    cases hlast : ((spec0 ks d after).take pageSize.toNat).getLast? with
    | none =>
      have h0 : (spec0 ks d after).take pageSize.toNat = [] := List.getLast?_eq_none_iff.mp hlast
      have hnil : spec0 ks d after = [] := by
        cases h : spec0 ks d after with
        | nil => rfl
        | cons a as =>
          rw [h] at h0
          cases hn' : pageSize.toNat with
          | zero => omega
          | succ m => rw [hn'] at h0; simp at h0
      simp [hnil, folderPart, leafPart]
    | some x =>
      simp only
      have hsplit : spec0 ks d after = (spec0 ks d after).take pageSize.toNat ++ (spec0 ks d after).drop pageSize.toNat :=
        (List.take_append_drop _ _).symm
      have hxmem : x ∈ spec0 ks d after := List.mem_of_mem_take (List.mem_of_getLast? hlast)
      have hfold : ∀ l : List Key, (l.filter endsWithSlash).map (fun x => d ++ x) = folderPart d l := fun _ => rfl
      have hleaf : ∀ l : List Key, (l.filter (fun c => !endsWithSlash c)).map (fun x => d ++ x) = leafPart d l := fun _ => rfl
      simp only [hfold, hleaf]
      by_cases hx : x = []
      · -- the page is exactly [""]: nothing else is there
        subst hx
        have hone : (spec0 ks d after).take pageSize.toNat = [[]] :=
          sorted_last_nil (sorted_take _ (spec0_sorted ..)) hlast
        have hlen1 : ((spec0 ks d after).take pageSize.toNat).length = 1 := by rw [hone]; rfl
        have hall : spec0 ks d after = [[]] := by
          rw [List.length_take] at hlen1
          have : (spec0 ks d after).length = 1 := by omega
          rw [← hone, List.take_of_length_le (by omega)]
        have hcond : (([] : Key) = [] ∧ ((spec0 ks d after).take pageSize.toNat).length = 1 ∧ pageSize > 1) :=
          ⟨rfl, hlen1, by omega⟩
        rw [if_pos hcond, hone, hall]
      · have hcond : ¬ (x = [] ∧ ((spec0 ks d after).take pageSize.toNat).length = 1 ∧ pageSize > 1) := fun h => hx h.1
        rw [if_neg hcond]
        have hrest : spec0 ks d x = (spec0 ks d after).drop pageSize.toNat := by
          rw [spec0_after_member ks d after x hxmem hx]
          exact filter_gt_last_take _ (spec0_sorted ..) _ x hlast
        have hlen : (spec0 ks d x).length < f := by
          rw [hrest, List.length_drop]
          have hpos : 0 < (spec0 ks d after).length := List.length_pos_of_mem hxmem
          omega
        rw [ih x _ _ hlen, hrest]
        conv => rhs; rw [hsplit, folderPart_append, leafPart_append]
        simp [List.append_assoc]

/-- the root listing of a directory: `after = ""` -/
theorem spec0_nil (ks : List Key) (d : Key) : spec0 ks d [] = children ks d := by simp [spec0]

end Obao.Listing
