import Obao.Proofs.KVProofs
/-! `RaftTransaction.ListPage` without pending writes is the raft cursor loop without the prefix fallback. -/
namespace Obao.Listing
open Obao.KV

theorem txnLoop_nil_eq_canon (p after : Key) (limit : Int) (ks out : List Key)
    (hs : Sorted ks) (hp : ∀ k ∈ ks, hasPrefix p k = true) (hinv : OutInv p ks out) :
    txnLoop p after limit [] ks { out := out, updates := [] }
      = { out := canon after limit (ks.map (child p)) out, updates := [] } := by
  induction ks generalizing out with
  | nil => rfl
  | cons k rest ih =>
    have hs' := (List.pairwise_cons.mp hs).2
    have hp' : ∀ k' ∈ rest, hasPrefix p k' = true := fun k' h => hp k' (List.mem_cons_of_mem _ h)
    simp only [List.map_cons]
    unfold txnLoop canon
    simp only [hp k (List.mem_cons_self ..), Bool.not_true, Bool.false_eq_true, if_false, shouldInclude,
      List.contains_nil, List.filter_nil, List.reverse_nil, List.nil_append]
    have hc : firstSeg (k.drop p.length) = child p k := rfl
    simp only [hc]
    split
    · rfl
    · have hskip : (after ≠ [] ∧ child p k ≤ after) = skip after (child p k) := rfl
      simp only [hskip]
      by_cases hsk : skip after (child p k)
      · simp only [hsk, decide_true, Bool.not_true, if_true]
        simpa using ih out hs' hp' hinv.tail
      · simp only [hsk, decide_false, Bool.not_false, if_false]
        by_cases hh : out.head? = some (child p k)
        · -- already emitted: it is a folder (a leaf child never repeats)
          have hfold : isFolder (k.drop p.length) = true := by
            by_cases hf : isFolder (k.drop p.length) = true
            · exact hf
            · exfalso
              have hnm : slash ∉ k.drop p.length := fun h => hf (isFolder_iff.mpr h)
              exact child_leaf_not_mem (p := p) hnm
                ((hinv.2 _ (List.mem_of_mem_head? hh) k (List.mem_cons_self ..)).2 rfl)
          cases out with
          | nil => simp at hh
          | cons x xs =>
            have hx : x = child p k := by simpa using hh
            subst hx
            simp only [hfold, ne_eq, reduceCtorEq, not_false_eq_true, and_self, if_true, List.head?_cons]
            simpa using ih _ hs' hp' hinv.tail
        · have hpush := ih _ hs' hp' (hinv.push hs hp hh)
          cases out with
          | nil =>
            simp only [ne_eq, not_true_eq_false, false_and, and_false, if_false, List.head?_nil, reduceCtorEq]
            simpa using hpush
          | cons x xs =>
            have hx : ¬ x = child p k := by simpa using hh
            simp only [hx, and_false, if_false, List.head?_cons, Option.some.injEq]
            simpa using hpush

theorem txnLoop_takeWhile (p after : Key) (limit : Int) (del : List Key) (ks : List Key) (st : TxnLoopSt) :
    txnLoop p after limit del ks st = txnLoop p after limit del (ks.takeWhile (hasPrefix p)) st := by
  induction ks generalizing st with
  | nil => rfl
  | cons k rest ih =>
    by_cases hk : hasPrefix p k = true
    · rw [List.takeWhile_cons_of_pos hk]
      unfold txnLoop
      simp only [hk, Bool.not_true, Bool.false_eq_true, if_false]
      repeat' (first | rfl | exact ih _ | split)
    · rw [List.takeWhile_cons_of_neg hk]
      unfold txnLoop
      simp [hk]

/-- the cursor start of the transactional listing: the same `prefix + after` -/
abbrev txnSeek (p after : Key) : Key := raftSeek p after

theorem listPage_length_le (keys : List Key) (p after : Key) (limit : Int) (hl : limit > 0) :
    ((listPage keys p after limit).length : Int) ≤ limit := by
  rw [listPage_eq, if_pos hl]
  have := List.length_take_le limit.toNat (spec0 keys p after)
  omega

/-- **raft transaction, no pending writes**: equals the specification whenever its cursor start is safe -/
theorem raftTxnList_nil_eq_listPage (keys : List Key) (hs : Sorted keys) (p after : Key) (limit : Int)
    (hsafe : SeekSafe (txnSeek p after) p after) :
    raftTxnList keys [] p after limit = listPage keys p after limit := by
  have hfrom := raftListFrom_eq_listPage keys hs (txnSeek p after) p after limit hsafe
  have hCs : Sorted (seekFrom keys (txnSeek p after)) := sorted_sublist (seekFrom_sublist ..) hs
  have hfs : Sorted ((seekFrom keys (txnSeek p after)).filter (hasPrefix p)) := sorted_filter _ hCs
  have hfp : ∀ k ∈ (seekFrom keys (txnSeek p after)).filter (hasPrefix p), hasPrefix p k = true :=
    fun k hk => (List.mem_filter.mp hk).2
  have htw := takeWhile_prefix_eq_filter p _ hCs _ hsafe.1 (fun k hk => ((mem_seekFrom hs).mp hk).2)
  unfold raftListFrom at hfrom
  rw [raftLoop_takeWhile, htw, raftLoop_eq_canon p after limit _ [] hfs hfp (outInv_nil ..)] at hfrom
  unfold raftTxnList
  simp only [List.filter_nil, List.map_nil, sortSet, List.foldr_nil]
  rw [txnLoop_takeWhile, htw, txnLoop_nil_eq_canon p after limit _ [] hfs hfp (outInv_nil ..)]
  simp only [List.filter_nil, List.reverse_nil, List.nil_append, hfrom]
  split
  · rename_i h
    exact absurd (listPage_length_le keys p after limit h.1) (by omega)
  · rfl

end Obao.Listing
