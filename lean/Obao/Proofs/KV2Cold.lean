import Obao.Model.KV2Cold
/-! C14 helper lemmas for the cold-start model. -/
namespace Obao.KV2

/-- the cached salt is the persisted one -/
def SaltOK (c : Cold) : Prop := ∀ id, c.saltCache = some id → c.saltStored = some id

instance (c : Cold) : Decidable (SaltOK c) := by
  unfold SaltOK
  cases h : c.saltCache with
  | none => exact isTrue (by intro id hid; cases hid)
  | some i =>
    exact if hs : c.saltStored = some i then isTrue (by intro id hid; cases hid; exact hs)
      else isFalse (by intro hall; exact hs (hall i rfl))

theorem coldPrelude_salt (c : Cold) (tx : Bool) (fault : Option Nat) :
    (coldPrelude c tx fault).1.saltCache = c.saltCache ∧ (coldPrelude c tx fault).1.saltStored = c.saltStored := by
  unfold coldPrelude
  simp only
  repeat' split
  all_goals exact ⟨rfl, rfl⟩

theorem coldWriteTail_cases (c0 : Cold) (i : Nat) (pend tx : Bool) (fault : Option Nat) (n : Nat) :
    ((coldWriteTail c0 i pend tx fault n).2.1 = none ∧ (coldWriteTail c0 i pend tx fault n).1 = c0) ∨
    ((coldWriteTail c0 i pend tx fault n).2.1 = some i ∧
      (coldWriteTail c0 i pend tx fault n).1 = { c0 with saltStored := if pend then some i else c0.saltStored }) := by
  unfold coldWriteTail
  repeat' split
  all_goals first
    | exact Or.inl ⟨rfl, rfl⟩
    | exact Or.inr ⟨rfl, rfl⟩

end Obao.KV2
