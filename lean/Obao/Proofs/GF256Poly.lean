import Mathlib.LinearAlgebra.Lagrange
import Obao.Proofs.GF256Field
/-!
Polynomials over the byte field: the model's Horner `evaluate` is `Polynomial.eval`, the model's
`interpolate` is `Lagrange.interpolate … |>.eval`, and interpolation through at least `degree + 1` distinct
points of a polynomial gives the polynomial back.
-/
namespace Obao.GF256
open Polynomial

/-- all elements are bytes -/
def Bytes (l : List Nat) : Prop := ∀ x ∈ l, x < 256

instance (l : List Nat) : Decidable (Bytes l) := by unfold Bytes; infer_instance

theorem map_val_ofNat {l : List Nat} (h : Bytes l) : (l.map GF.ofNat).map GF.val = l := by
  rw [List.map_map]
  conv => rhs; rw [← List.map_id l]
  exact List.map_congr_left fun x hx => GF.ofNat_val (h x hx)

theorem bytes_map_val (l : List GF) : Bytes (l.map GF.val) := by
  intro x hx
  obtain ⟨a, _, rfl⟩ := List.mem_map.1 hx
  exact a.lt

theorem GF.val_injective : Function.Injective GF.val := fun _ _ h => GF.ext h

/-- the polynomial with the given coefficient list (lowest degree first) -/
noncomputable def polyOf : List GF → GF[X]
  | [] => 0
  | c :: cs => C c + X * polyOf cs

theorem eval_polyOf (cs : List GF) (x : GF) :
    (polyOf cs).eval x = cs.foldr (fun c acc => acc * x + c) 0 := by
  induction cs with
  | nil => simp [polyOf]
  | cons c cs ih => simp only [polyOf, eval_add, eval_C, eval_mul, eval_X, ih, List.foldr_cons]; ring

/-- **evaluate_eq_polynomial_eval** (on the carrier): Horner `evaluate` is `Polynomial.eval`. -/
theorem evaluate_val (cs : List GF) (x : GF) :
    evaluate (cs.map GF.val) x.val = ((polyOf cs).eval x).val := by
  rw [eval_polyOf]
  unfold evaluate
  induction cs with
  | nil => rfl
  | cons c cs ih => simp only [List.map_cons, List.foldr_cons, ih]; rfl

theorem degree_polyOf_lt (cs : List GF) : (polyOf cs).degree < cs.length := by
  induction cs with
  | nil => simp [polyOf]
  | cons c cs ih =>
    simp only [polyOf, List.length_cons, Nat.cast_add, Nat.cast_one]
    refine lt_of_le_of_lt (degree_add_le _ _) (max_lt ?_ ?_)
    · refine lt_of_le_of_lt degree_C_le ?_
      exact_mod_cast Nat.succ_pos cs.length
    · by_cases hp : polyOf cs = 0
      · rw [hp, mul_zero, degree_zero]; exact WithBot.bot_lt_coe _
      · rw [degree_mul, degree_X, add_comm]
        exact WithBot.add_lt_add_right (by simp) ih

theorem coeff_polyOf (cs : List GF) (i : Nat) : (polyOf cs).coeff i = cs.getD i 0 := by
  induction cs generalizing i with
  | nil => simp [polyOf]
  | cons c cs ih =>
    cases i with
    | zero => simp [polyOf]
    | succ i => simp [polyOf, coeff_C_succ, ih]

/-! ### the model's Lagrange interpolation -/

/-- one factor of a Lagrange basis value -/
def lterm (xi x xj : GF) : GF := (x + xj) / (xi + xj)

theorem basisAt_step (i : Nat) (xi x : GF) (b : GF) (h : GF) (k : Nat) :
    (fun basis (p : Nat × Nat) =>
      if p.2 = i then basis else mult basis (div (add x.val p.1) (add xi.val p.1))) b.val (h.val, k)
    = (if k = i then b else b * lterm xi x h).val := by
  by_cases hk : k = i <;> simp [hk, lterm]

/-- the inner fold when the skipped index is not in range: the product over all nodes -/
theorem basisAt_fold_all (i : Nat) (xi x : GF) (l : List GF) :
    ∀ (k : Nat) (b : GF), i < k →
    ((l.map GF.val).zipIdx k).foldl (fun basis (p : Nat × Nat) =>
      if p.2 = i then basis else mult basis (div (add x.val p.1) (add xi.val p.1))) b.val
    = (b * (l.map (lterm xi x)).prod).val := by
  induction l with
  | nil => intro k b _; simp
  | cons h t ih =>
    intro k b hk
    have hne : ¬ k = i := by omega
    simp only [List.map_cons, List.zipIdx_cons, List.foldl_cons, List.prod_cons, hne, if_false]
    have := ih (k + 1) (b * lterm xi x h) (by omega)
    rw [← mul_assoc]
    exact this


/-- the inner fold with the skipped index in range, over distinct nodes: the product over the other nodes -/
theorem basisAt_fold_erase (i : Nat) (xi x : GF) (l : List GF) :
    ∀ (k : Nat) (b : GF), l.Nodup → k ≤ i → l[i - k]? = some xi →
    ((l.map GF.val).zipIdx k).foldl (fun basis (p : Nat × Nat) =>
      if p.2 = i then basis else mult basis (div (add x.val p.1) (add xi.val p.1))) b.val
    = (b * ((l.erase xi).map (lterm xi x)).prod).val := by
  induction l with
  | nil => intro k b _ _ h; simp at h
  | cons h t ih =>
    intro k b hnd hk hget
    rw [List.nodup_cons] at hnd
    simp only [List.map_cons, List.zipIdx_cons, List.foldl_cons]
    by_cases hki : k = i
    · subst hki
      simp only [Nat.sub_self, List.getElem?_cons_zero, Option.some.injEq] at hget
      subst hget
      simp only [if_true, List.erase_cons_head]
      exact basisAt_fold_all k h x t (k + 1) b (by omega)
    · have hlt : k < i := by omega
      have hget' : t[i - (k + 1)]? = some xi := by
        have : i - k = (i - (k + 1)) + 1 := by omega
        rw [this, List.getElem?_cons_succ] at hget
        exact hget
      have hmem : xi ∈ t := List.mem_of_getElem? hget'
      have hne : h ≠ xi := fun e => hnd.1 (e ▸ hmem)
      simp only [hki, if_false]
      rw [List.erase_cons_tail (by simpa using hne), List.map_cons, List.prod_cons, ← mul_assoc]
      exact ih (k + 1) (b * lterm xi x h) hnd.2 (by omega) hget'

theorem basisAt_val (l : List GF) (i : Nat) (xi x : GF) (hnd : l.Nodup) (hget : l[i]? = some xi) :
    basisAt (l.map GF.val) i xi.val x.val = (((l.erase xi).map (lterm xi x)).prod).val := by
  have := basisAt_fold_erase i xi x l 0 1 hnd (Nat.zero_le _) (by simpa using hget)
  rw [one_mul] at this
  exact this


/-- value of the Lagrange interpolant through `(xi, f xi)`, `xi ∈ l`, at `x`, as a list sum -/
def lagrangeSum (XS : List GF) (f : GF → GF) (x : GF) (l : List GF) : GF :=
  (l.map fun xi => f xi * ((XS.erase xi).map (lterm xi x)).prod).sum

theorem interpolate_fold (XS : List GF) (f : GF → GF) (x : GF) (hnd : XS.Nodup) (l : List GF) :
    ∀ (k : Nat) (res : GF), XS.drop k = l →
    (((l.map GF.val).zip ((l.map f).map GF.val)).zipIdx k).foldl
      (fun res (p : (Nat × Nat) × Nat) => add res (mult p.1.2 (basisAt (XS.map GF.val) p.2 p.1.1 x.val))) res.val
    = (res + lagrangeSum XS f x l).val := by
  induction l with
  | nil => intro k res _; simp [lagrangeSum]
  | cons h t ih =>
    intro k res hdrop
    have hget : XS[k]? = some h := by
      have := congrArg (fun l => l[0]?) hdrop
      simpa using this
    have hdrop' : XS.drop (k + 1) = t := by
      have := congrArg (List.drop 1) hdrop
      simpa [List.drop_drop, Nat.add_comm] using this
    simp only [List.map_cons, List.zip_cons_cons, List.zipIdx_cons, List.foldl_cons, lagrangeSum, List.sum_cons]
    rw [basisAt_val XS k h x hnd hget, ← add_assoc]
    exact ih (k + 1) (res + f h * ((XS.erase h).map (lterm h x)).prod) hdrop'

theorem interpolate_val (XS : List GF) (f : GF → GF) (x : GF) (hnd : XS.Nodup) :
    interpolate (XS.map GF.val) ((XS.map f).map GF.val) x.val = (lagrangeSum XS f x XS).val := by
  have := interpolate_fold XS f x hnd XS 0 0 rfl
  rw [zero_add] at this
  exact this


theorem toFinset_erase_of_nodup {l : List GF} (hnd : l.Nodup) (a : GF) :
    (l.erase a).toFinset = l.toFinset.erase a := by
  ext b
  simp [hnd.mem_erase_iff]

theorem lagrangeSum_eq_eval (XS : List GF) (f : GF → GF) (x : GF) (hnd : XS.Nodup) :
    lagrangeSum XS f x XS = (Lagrange.interpolate XS.toFinset id f).eval x := by
  unfold lagrangeSum
  rw [Lagrange.interpolate_apply, eval_finsetSum, ← List.sum_toFinset _ hnd]
  refine Finset.sum_congr rfl fun xi _ => ?_
  rw [eval_mul, eval_C, Lagrange.basis, eval_prod, ← toFinset_erase_of_nodup hnd,
    List.prod_toFinset _ (hnd.erase xi)]
  congr 2
  refine List.map_congr_left fun xj _ => ?_
  simp only [Lagrange.basisDivisor, eval_mul, eval_C, eval_sub, eval_X, id, lterm, GF.sub_eq_add,
    div_eq_mul_inv, mul_comm]

/-- the model's `interpolate` over distinct nodes is Mathlib's Lagrange interpolant, evaluated -/
theorem interpolate_eq_lagrange (XS : List GF) (f : GF → GF) (x : GF) (hnd : XS.Nodup) :
    interpolate (XS.map GF.val) ((XS.map f).map GF.val) x.val
      = ((Lagrange.interpolate XS.toFinset id f).eval x).val := by
  rw [interpolate_val XS f x hnd, lagrangeSum_eq_eval XS f x hnd]

/-- interpolating a polynomial of degree below the number of distinct nodes gives its value back -/
theorem interpolate_poly (XS : List GF) (p : GF[X]) (x : GF) (hnd : XS.Nodup) (hdeg : p.degree < XS.length) :
    interpolate (XS.map GF.val) ((XS.map fun xi => p.eval xi).map GF.val) x.val = (p.eval x).val := by
  rw [interpolate_eq_lagrange XS _ x hnd]
  have hcard : XS.toFinset.card = XS.length := List.toFinset_card_of_nodup hnd
  have := Lagrange.eq_interpolate (s := XS.toFinset) (v := id) (f := p)
    (Set.injOn_id _) (by rw [hcard]; exact hdeg)
  simp only [id] at this
  rw [← this]

/-- arbitrary observed values: the value function is read off by position -/
theorem interpolate_eq_lagrange_lookup (XS YS : List GF) (x : GF) (hnd : XS.Nodup) (hlen : YS.length = XS.length) :
    interpolate (XS.map GF.val) (YS.map GF.val) x.val
      = ((Lagrange.interpolate XS.toFinset id (fun a => YS.getD (XS.idxOf a) 0)).eval x).val := by
  have hys : XS.map (fun a => YS.getD (XS.idxOf a) 0) = YS := by
    apply List.ext_getElem (by simp [hlen])
    intro i h1 h2
    simp only [List.getElem_map]
    rw [hnd.idxOf_getElem]
    simp [h2]
  rw [← interpolate_eq_lagrange XS _ x hnd, hys]

end Obao.GF256
