import Obao.Model.PKINames
/-! Helper lemmas for C15: splitting strings at a separator, suffixes, `indexOf`, and the soundness of the
go-glob transliteration with respect to the declarative `GlobMatch`. Core Lean only. -/
namespace Obao.PKI

theorem containsCh_nil (c : Char) : containsCh [] c = false := rfl

theorem containsCh_cons (x : Char) (xs : Str) (c : Char) :
    containsCh (x :: xs) c = (x == c || containsCh xs c) := by
  simp [containsCh]

theorem containsCh_append (a b : Str) (c : Char) :
    containsCh (a ++ b) c = (containsCh a c || containsCh b c) := by
  simp [containsCh]

theorem countCh_append (a b : Str) (c : Char) : countCh (a ++ b) c = countCh a c + countCh b c := by
  simp [countCh, List.countP_append]

theorem countCh_pos_of_contains {s : Str} {c : Char} (h : containsCh s c = true) : 0 < countCh s c := by
  unfold containsCh at h
  unfold countCh
  exact List.countP_pos_iff.mpr (by simpa using h)

theorem countCh_zero_of_not_contains {s : Str} {c : Char} (h : containsCh s c = false) : countCh s c = 0 := by
  unfold containsCh at h
  unfold countCh
  rw [List.countP_eq_zero]
  intro a ha
  have := List.any_eq_false.mp h a ha
  simpa using this

/-! ### splitOn -/

theorem splitOn_ne_nil (c : Char) (s : Str) : splitOn c s ≠ [] := by
  induction s with
  | nil => simp [splitOn]
  | cons x xs ih =>
    unfold splitOn
    split
    · simp
    · split <;> simp

theorem splitOn_cons_sep (c : Char) (xs : Str) : splitOn c (c :: xs) = [] :: splitOn c xs := by
  simp [splitOn]

theorem splitOn_cons_ne {c x : Char} (h : x ≠ c) (xs : Str) :
    ∃ l ls, splitOn c xs = l :: ls ∧ splitOn c (x :: xs) = (x :: l) :: ls := by
  cases hs : splitOn c xs with
  | nil => exact absurd hs (splitOn_ne_nil c xs)
  | cons l ls => exact ⟨l, ls, rfl, by simp [splitOn, h, hs]⟩

/-- splitting distributes over a separator: `Split(a + "c" + b) = Split(a) ++ Split(b)` -/
theorem splitOn_append (c : Char) (a b : Str) : splitOn c (a ++ c :: b) = splitOn c a ++ splitOn c b := by
  induction a with
  | nil => simp [splitOn]
  | cons x xs ih =>
    by_cases hx : x = c
    · subst hx
      simp [splitOn_cons_sep, ih]
    · obtain ⟨l, ls, h1, h2⟩ := splitOn_cons_ne hx xs
      obtain ⟨l', ls', h1', h2'⟩ := splitOn_cons_ne hx (xs ++ c :: b)
      rw [List.cons_append, h2', h2]
      rw [ih, h1] at h1'
      simp at h1'
      simp [h1'.1, h1'.2]

theorem splitOn_of_not_contains {c : Char} {s : Str} (h : containsCh s c = false) : splitOn c s = [s] := by
  induction s with
  | nil => rfl
  | cons x xs ih =>
    rw [containsCh_cons] at h
    simp at h
    obtain ⟨hx, hxs⟩ := h
    obtain ⟨l, ls, h1, h2⟩ := splitOn_cons_ne hx xs
    rw [h2]
    rw [ih hxs] at h1
    simp at h1
    simp [← h1.1, ← h1.2]

theorem splitOn_singleton {c : Char} {s p : Str} (h : splitOn c s = [p]) : p = s ∧ containsCh s c = false := by
  induction s generalizing p with
  | nil => simp [splitOn] at h; subst h; exact ⟨rfl, rfl⟩
  | cons x xs ih =>
    by_cases hx : x = c
    · subst hx
      rw [splitOn_cons_sep] at h
      simp at h
      exact absurd h.2 (splitOn_ne_nil _ _)
    · obtain ⟨l, ls, h1, h2⟩ := splitOn_cons_ne hx xs
      rw [h2] at h
      simp at h
      obtain ⟨hp, hls⟩ := h
      subst hls
      obtain ⟨e1, e2⟩ := ih h1
      subst e1
      refine ⟨hp.symm, ?_⟩
      rw [containsCh_cons, e2]
      simp [hx]

theorem splitOn_pair {c : Char} {s a b : Str} (h : splitOn c s = [a, b]) :
    s = a ++ c :: b ∧ containsCh a c = false ∧ containsCh b c = false := by
  induction s generalizing a with
  | nil => simp [splitOn] at h
  | cons x xs ih =>
    by_cases hx : x = c
    · subst hx
      rw [splitOn_cons_sep] at h
      simp at h
      obtain ⟨ha, hb⟩ := h
      obtain ⟨e1, e2⟩ := splitOn_singleton hb
      subst ha; subst e1
      exact ⟨rfl, rfl, e2⟩
    · obtain ⟨l, ls, h1, h2⟩ := splitOn_cons_ne hx xs
      rw [h2] at h
      simp at h
      obtain ⟨ha, hls⟩ := h
      subst hls
      obtain ⟨e1, e2, e3⟩ := ih h1
      subst ha
      refine ⟨by simp [e1], ?_, e3⟩
      rw [containsCh_cons, e2]
      simp [hx]

/-- every piece of a split is made of characters of the string -/
theorem contains_of_mem_splitOn {c d : Char} {s l : Str} (hl : l ∈ splitOn c s) (hd : containsCh l d = true) :
    containsCh s d = true := by
  induction s generalizing l with
  | nil => simp [splitOn] at hl; subst hl; simp [containsCh] at hd
  | cons x xs ih =>
    by_cases hx : x = c
    · subst hx
      rw [splitOn_cons_sep] at hl
      rw [containsCh_cons]
      rcases List.mem_cons.mp hl with rfl | hl'
      · simp [containsCh] at hd
      · simp [ih hl' hd]
    · obtain ⟨l0, ls, h1, h2⟩ := splitOn_cons_ne hx xs
      rw [h2] at hl
      rw [containsCh_cons]
      rcases List.mem_cons.mp hl with rfl | hl'
      · rw [containsCh_cons] at hd
        simp at hd
        rcases hd with hd | hd
        · simp [hd]
        · have : l0 ∈ splitOn c xs := by rw [h1]; exact List.mem_cons_self
          simp [ih this hd]
      · have : l ∈ splitOn c xs := by rw [h1]; exact List.mem_cons_of_mem _ hl'
        simp [ih this hd]

/-! ### cut -/

theorem cut_none {c : Char} {s a : Str} (h : cut c s = (a, none)) : a = s ∧ containsCh s c = false := by
  induction s generalizing a with
  | nil => simp [cut] at h; subst h; exact ⟨rfl, rfl⟩
  | cons x xs ih =>
    unfold cut at h
    split at h
    · simp at h
    · rename_i hx
      cases hc : cut c xs with
      | mk a' b' =>
        rw [hc] at h
        simp at h
        obtain ⟨ha, hb⟩ := h
        subst hb
        obtain ⟨e1, e2⟩ := ih hc
        subst e1
        refine ⟨ha.symm, ?_⟩
        rw [containsCh_cons, e2]; simp [hx]

theorem cut_some {c : Char} {s a b : Str} (h : cut c s = (a, some b)) :
    s = a ++ c :: b ∧ containsCh a c = false := by
  induction s generalizing a with
  | nil => simp [cut] at h
  | cons x xs ih =>
    unfold cut at h
    split at h
    · rename_i hx
      simp at h
      obtain ⟨ha, hb⟩ := h
      subst ha; subst hb; subst hx
      exact ⟨rfl, rfl⟩
    · rename_i hx
      cases hc : cut c xs with
      | mk a' b' =>
        rw [hc] at h
        simp at h
        obtain ⟨ha, hb⟩ := h
        subst hb
        obtain ⟨e1, e2⟩ := ih hc
        subst ha
        refine ⟨by simp [e1], ?_⟩
        rw [containsCh_cons, e2]; simp [hx]

/-! ### suffixes, prefixes, indexOf -/

theorem hasSuffix_elim {s suf : Str} (h : hasSuffix s suf = true) : ∃ x, s = x ++ suf := by
  unfold hasSuffix at h
  obtain ⟨t, ht⟩ := List.isSuffixOf_iff_suffix.mp h
  exact ⟨t, ht.symm⟩

theorem hasPrefix_elim {s pre : Str} (h : hasPrefix s pre = true) : ∃ x, s = pre ++ x := by
  unfold hasPrefix at h
  obtain ⟨t, ht⟩ := List.isPrefixOf_iff_prefix.mp h
  exact ⟨t, ht.symm⟩

theorem indexOf_nil_sub (s : Str) : indexOf [] s = some 0 := by
  cases s <;> simp [indexOf]

theorem indexOf_some {p s : Str} {i : Nat} (h : indexOf p s = some i) :
    s = s.take i ++ p ++ s.drop (i + p.length) := by
  induction s generalizing i with
  | nil =>
    unfold indexOf at h
    split at h
    · rename_i hp
      simp at h; subst h
      have : p = [] := by simpa using hp
      simp [this]
    · simp at h
  | cons c cs ih =>
    unfold indexOf at h
    split at h
    · rename_i hp
      simp at h; subst h
      obtain ⟨t, ht⟩ := List.isPrefixOf_iff_prefix.mp hp
      simp [← ht]
    · cases hi : indexOf p cs with
      | none => simp [hi] at h
      | some j =>
        simp [hi] at h
        subst h
        have := ih hi
        simp only [List.take_succ_cons, List.cons_append]
        rw [show j + 1 + p.length = (j + p.length) + 1 by omega, List.drop_succ_cons]
        simpa using this

/-! ### go-glob is sound for the declarative reading -/

theorem globRest_of_loop (leading trailing : Bool) :
    ∀ (parts : List Str) (subj : Str), globLoop leading trailing false parts subj = true →
      (trailing = true → parts.getLast? = some []) → GlobRest parts subj := by
  intro parts
  induction parts with
  | nil => intro subj h; simp [globLoop] at h
  | cons p rest ih =>
    intro subj h ht
    cases rest with
    | nil =>
      simp only [globLoop, Bool.or_eq_true] at h
      unfold GlobRest
      rcases h with h | h
      · have := ht h
        simp at this
        subst this
        exact ⟨subj, [], by simp, rfl⟩
      · obtain ⟨x, hx⟩ := hasSuffix_elim h
        exact ⟨x, [], by simp [hx], rfl⟩
    | cons q rest' =>
      simp only [globLoop] at h
      split at h
      · simp at h
      · rename_i idx hidx
        simp at h
        have hrest := ih (subj.drop (idx + p.length)) h (by
          intro htt
          have := ht htt
          simpa [List.getLast?_cons_cons] using this)
        unfold GlobRest
        exact ⟨subj.take idx, subj.drop (idx + p.length), indexOf_some hidx, hrest⟩

theorem splitOn_head_of_prefix {c : Char} {s : Str} (h : hasPrefix s [c] = true) :
    ∃ rest, splitOn c s = [] :: rest := by
  obtain ⟨x, hx⟩ := hasPrefix_elim h
  subst hx
  exact ⟨splitOn c x, by simp [splitOn]⟩

theorem splitOn_last_of_suffix {c : Char} {s : Str} (h : hasSuffix s [c] = true) :
    (splitOn c s).getLast? = some [] := by
  obtain ⟨x, hx⟩ := hasSuffix_elim h
  subst hx
  rw [splitOn_append]
  simp [splitOn]

/-- `glob.Glob(pattern, s)` accepts only strings that match the pattern in the declarative sense -/
theorem glob_sound {pattern s : Str} (h : glob pattern s = true) : GlobMatch (splitOn '*' pattern) s := by
  unfold glob at h
  split at h
  · rename_i hp
    have hp' : pattern = [] := by simpa using hp
    have hs : s = [] := by simpa using h
    subst hp'; subst hs
    simp [splitOn, GlobMatch, GlobRest]
  · split at h
    · rename_i _ hp
      have hp' : pattern = ['*'] := by simpa using hp
      subst hp'
      simp [splitOn, GlobMatch, GlobRest]
    · simp only at h
      split at h
      · rename_i hlen
        have hs : s = pattern := by simpa using h
        subst hs
        cases hsp : splitOn '*' s with
        | nil => exact absurd hsp (splitOn_ne_nil _ _)
        | cons p0 ps =>
          rw [hsp] at hlen
          have : ps = [] := by
            cases ps with
            | nil => rfl
            | cons _ _ => simp at hlen
          subst this
          obtain ⟨e, _⟩ := splitOn_singleton hsp
          subst e
          simp [GlobMatch, GlobRest]
      · rename_i hlen
        cases hsp : splitOn '*' pattern with
        | nil => exact absurd hsp (splitOn_ne_nil _ _)
        | cons p0 ps =>
          rw [hsp] at h hlen
          cases ps with
          | nil => simp at hlen
          | cons q rest =>
            simp only [globLoop] at h
            split at h
            · simp at h
            · rename_i idx hidx
              split at h
              · simp at h
              · rename_i hcond
                -- the first part sits at index 0
                have hidx0 : idx = 0 := by
                  by_cases hl : hasPrefix pattern ['*'] = true
                  · obtain ⟨r, hr⟩ := splitOn_head_of_prefix hl
                    rw [hsp] at hr
                    simp at hr
                    obtain ⟨hp0, _⟩ := hr
                    subst hp0
                    rw [indexOf_nil_sub] at hidx
                    simpa using hidx.symm
                  · simp [hl] at hcond
                    exact hcond
                subst hidx0
                have hdec := indexOf_some hidx
                simp at hdec
                have hrest := globRest_of_loop _ _ (q :: rest) _ h (by
                  intro ht
                  have := splitOn_last_of_suffix ht
                  rw [hsp] at this
                  simpa [List.getLast?_cons_cons] using this)
                unfold GlobMatch
                exact ⟨s.drop p0.length, by simpa using hdec, by simpa using hrest⟩

end Obao.PKI
