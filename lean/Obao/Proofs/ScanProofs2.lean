import Obao.Proofs.ScanProofs
/-! Outer frontier loop of `scanViewPaginated`: invariant, termination measure, final theorem. Core Lean only. -/
namespace Obao.Listing
open Obao.KV

/-! ### shape of children -/

theorem firstSeg_folder_form {t : Key} (h : slash ∈ t) :
    ∃ s rest, slash ∉ s ∧ t = s ++ slash :: rest ∧ firstSeg t = s ++ [slash] := by
  induction t with
  | nil => simp at h
  | cons c r ih =>
    by_cases hc : c = slash
    · subst hc
      exact ⟨[], r, by simp, rfl, by simp [firstSeg]⟩
    · have hr : slash ∈ r := by
        rcases List.mem_cons.mp h with e | m
        · exact absurd e.symm hc
        · exact m
      obtain ⟨s, rest, hs, ht, hf⟩ := ih hr
      refine ⟨c :: s, rest, ?_, by simp [ht], by simp [firstSeg, hc, hf]⟩
      intro m
      rcases List.mem_cons.mp m with e | m
      · exact hc e.symm
      · exact hs m

theorem firstSeg_append_folder {s : Key} (hs : slash ∉ s) (r : Key) : firstSeg (s ++ slash :: r) = s ++ [slash] := by
  induction s with
  | nil => simp [firstSeg]
  | cons c cs ih =>
    have hc : c ≠ slash := fun e => hs (by simp [e])
    have hcs : slash ∉ cs := fun m => hs (List.mem_cons_of_mem _ m)
    simp [firstSeg, hc, ih hcs]

theorem endsWithSlash_iff {k : Key} : endsWithSlash k = true ↔ ∃ s, k = s ++ [slash] := by
  unfold endsWithSlash
  simp only [decide_eq_true_eq]
  exact List.getLast?_eq_some_iff

theorem endsWithSlash_firstSeg {t : Key} : endsWithSlash (firstSeg t) = true ↔ slash ∈ t := by
  constructor
  · intro h
    obtain ⟨s, hs⟩ := endsWithSlash_iff.mp h
    by_cases hm : slash ∈ t
    · exact hm
    · rw [firstSeg_eq_self_of_not_mem hm] at hs
      exact absurd (by rw [hs]; simp) hm
  · intro h
    obtain ⟨s, rest, _, _, hf⟩ := firstSeg_folder_form h
    exact endsWithSlash_iff.mpr ⟨s, hf⟩

/-- what a child of `d` tells about the key it comes from -/
theorem child_cases {d k : Key} (hk : hasPrefix d k = true) :
    (endsWithSlash (child d k) = false ∧ slash ∉ child d k ∧ k = d ++ child d k) ∨
    (endsWithSlash (child d k) = true ∧ hasPrefix (d ++ child d k) k = true ∧
      ∃ s, child d k = s ++ [slash] ∧ slash ∉ s) := by
  obtain ⟨t, rfl⟩ := hasPrefix_iff.mp hk
  have hc : child d (d ++ t) = firstSeg t := by simp [child]
  rw [hc]
  by_cases hm : slash ∈ t
  · right
    obtain ⟨s, rest, hs, ht, hf⟩ := firstSeg_folder_form hm
    refine ⟨endsWithSlash_firstSeg.mpr hm, ?_, s, hf, hs⟩
    rw [hf, ht]
    exact hasPrefix_iff.mpr ⟨rest, by simp⟩
  · left
    refine ⟨?_, firstSeg_leaf_not_mem hm, by rw [firstSeg_eq_self_of_not_mem hm]⟩
    cases h : endsWithSlash (firstSeg t) with
    | false => rfl
    | true => exact absurd (endsWithSlash_firstSeg.mp h) hm

theorem hasPrefix_trans {a b c : Key} (h1 : hasPrefix a b = true) (h2 : hasPrefix b c = true) : hasPrefix a c = true := by
  obtain ⟨t1, rfl⟩ := hasPrefix_iff.mp h1
  obtain ⟨t2, rfl⟩ := hasPrefix_iff.mp h2
  exact hasPrefix_iff.mpr ⟨t1 ++ t2, by simp⟩

theorem hasPrefix_comparable {a b c : Key} (h1 : hasPrefix a c = true) (h2 : hasPrefix b c = true) :
    hasPrefix a b = true ∨ hasPrefix b a = true := by
  unfold hasPrefix at *
  rw [List.isPrefixOf_iff_prefix] at h1 h2
  rw [List.isPrefixOf_iff_prefix, List.isPrefixOf_iff_prefix]
  exact List.prefix_or_prefix_of_prefix h1 h2

theorem hasPrefix_append_left_iff (d a b : Key) : hasPrefix (d ++ a) (d ++ b) = hasPrefix a b := by
  unfold hasPrefix
  induction d with
  | nil => rfl
  | cons x xs ih => simp [ih]

theorem hasPrefix_self_append (d c : Key) : hasPrefix d (d ++ c) = true := hasPrefix_append d c

/-- two folder children of the same directory that are prefix-related are equal -/
theorem folder_children_incomparable {d c1 c2 s1 s2 : Key} (h1 : c1 = s1 ++ [slash]) (h2 : c2 = s2 ++ [slash])
    (hs1 : slash ∉ s1) (hs2 : slash ∉ s2) (hp : hasPrefix (d ++ c1) (d ++ c2) = true) : c1 = c2 := by
  rw [hasPrefix_append_left_iff] at hp
  obtain ⟨r, hr⟩ := hasPrefix_iff.mp hp
  have e1 : firstSeg c2 = c1 := by
    rw [hr, h1]
    have : s1 ++ [slash] ++ r = s1 ++ slash :: r := by simp
    rw [this, firstSeg_append_folder hs1]
  have e2 : firstSeg c2 = c2 := by
    rw [h2]
    have : s2 ++ [slash] = s2 ++ slash :: [] := rfl
    rw [this, firstSeg_append_folder hs2]
  rw [← e1, e2]

/-! ### measure -/

def allDirs (ks : List Key) : List Key :=
  [] :: ks.flatMap (fun k => ((List.range (k.length + 1)).map (fun n => k.take n)).filter endsWithSlash)

theorem mem_allDirs {ks : List Key} {d : Key} :
    d ∈ allDirs ks ↔ d = [] ∨ (endsWithSlash d = true ∧ ∃ k ∈ ks, hasPrefix d k = true) := by
  unfold allDirs
  simp only [List.mem_cons, List.mem_flatMap, List.mem_filter, List.mem_map, List.mem_range]
  constructor
  · rintro (h | ⟨k, hk, ⟨n, _, rfl⟩, he⟩)
    · exact .inl h
    · refine .inr ⟨he, k, hk, ?_⟩
      unfold hasPrefix; rw [List.isPrefixOf_iff_prefix]; exact List.take_prefix n k
  · rintro (h | ⟨he, k, hk, hpre⟩)
    · exact .inl h
    · unfold hasPrefix at hpre; rw [List.isPrefixOf_iff_prefix] at hpre
      refine .inr ⟨k, hk, ⟨d.length, ?_, (List.prefix_iff_eq_take.mp hpre).symm⟩, he⟩
      have := hpre.length_le; omega

def underAny (frontier : List Key) (x : Key) : Bool := frontier.any (fun d => hasPrefix d x)

def mu (ks frontier : List Key) : Nat := ((allDirs ks).filter (underAny frontier)).length

theorem length_filter_lt {α : Type} (l : List α) (p q : α → Bool) (himp : ∀ x, q x = true → p x = true)
    (x : α) (hx : x ∈ l) (hpx : p x = true) (hqx : q x = false) : (l.filter q).length < (l.filter p).length := by
  induction l with
  | nil => simp at hx
  | cons y ys ih =>
    have hle : ∀ zs : List α, (zs.filter q).length ≤ (zs.filter p).length := by
      intro zs
      induction zs with
      | nil => simp
      | cons z zs' ihz =>
        by_cases hq : q z = true
        · rw [List.filter_cons_of_pos hq, List.filter_cons_of_pos (himp z hq)]; simp; exact ihz
        · rw [List.filter_cons_of_neg hq]
          by_cases hp : p z = true
          · rw [List.filter_cons_of_pos hp]; simp; omega
          · rw [List.filter_cons_of_neg hp]; exact ihz
    rcases List.mem_cons.mp hx with e | m
    · subst e
      rw [List.filter_cons_of_pos hpx, List.filter_cons_of_neg (by simp [hqx])]
      have := hle ys
      simp; omega
    · have := ih m
      by_cases hq : q y = true
      · rw [List.filter_cons_of_pos hq, List.filter_cons_of_pos (himp y hq)]; simp; exact this
      · rw [List.filter_cons_of_neg hq]
        by_cases hp : p y = true
        · rw [List.filter_cons_of_pos hp]; simp; omega
        · rw [List.filter_cons_of_neg hp]; exact this

theorem length_insertKey_le (c : Key) (l : List Key) : (insertKey c l).length ≤ l.length + 1 := by
  induction l with
  | nil => simp [insertKey]
  | cons x xs ih =>
    unfold insertKey
    split
    · simp
    · split
      · simp
      · simp; omega

theorem children_length_le (ks : List Key) (d : Key) : (children ks d).length ≤ ks.length := by
  unfold children
  have : ∀ l : List Key, (l.foldr (fun k acc => insertKey (child d k) acc) []).length ≤ l.length := by
    intro l
    induction l with
    | nil => simp
    | cons k r ih =>
      simp only [List.foldr_cons, List.length_cons]
      exact Nat.le_trans (length_insertKey_le _ _) (by omega)
  exact Nat.le_trans (this _) (List.length_filter_le _ _)

end Obao.Listing
