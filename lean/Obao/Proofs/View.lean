import Obao.Model.View
/-! Helper lemmas for the storage-view theorems of C12 (core Lean only). -/
set_option linter.unusedSimpArgs false
namespace Obao.View

/-- "the first segment of `s` is `.` or `..`" -/
def startsDotSeg (s : Bytes) : Bool :=
  s == [dot] || s == [dot, dot] || hasPrefix s [dot, slash] || hasPrefix s [dot, dot, slash]

def endDot (t : Bytes) : Bool := t == [dot] || t == [dot, dot]
def midDot (t : Bytes) : Bool := hasPrefix t [dot, slash] || hasPrefix t [dot, dot, slash]

/-- `P` holds for the remainder after some `/` -/
def anyAfterSlash (P : Bytes → Bool) : Bytes → Bool
  | [] => false
  | c :: cs => (c == slash && P cs) || anyAfterSlash P cs

theorem startsDotSeg_eq (s : Bytes) : startsDotSeg s = (endDot s || midDot s) := by
  simp [startsDotSeg, endDot, midDot, Bool.or_assoc]

theorem anyAfterSlash_or (P Q : Bytes → Bool) (s : Bytes) :
    anyAfterSlash (fun t => P t || Q t) s = (anyAfterSlash P s || anyAfterSlash Q s) := by
  induction s with
  | nil => rfl
  | cons c cs ih =>
    simp only [anyAfterSlash, ih]
    cases (c == slash) <;> cases P cs <;> cases Q cs <;> cases anyAfterSlash P cs <;> cases anyAfterSlash Q cs <;> rfl

theorem splitSlash_ne_nil (s : Bytes) : splitSlash s ≠ [] := by
  cases s with
  | nil => simp [splitSlash]
  | cons c cs =>
    unfold splitSlash
    split
    · simp
    · split <;> simp



theorem tri (a : Nat) : a = 47 ∨ a = 46 ∨ ((a == 47) = false ∧ (a == 46) = false ∧ (47 == a) = false ∧ (46 == a) = false ∧ a ≠ 47 ∧ a ≠ 46) := by
  by_cases h1 : a = 47
  · exact .inl h1
  · by_cases h2 : a = 46
    · exact .inr (.inl h2)
    · refine .inr (.inr ⟨by simp [h1], by simp [h2], ?_, ?_, h1, h2⟩)
      · simp; exact fun h => h1 h.symm
      · simp; exact fun h => h2 h.symm

theorem isDotSeg_takeWhile (s : Bytes) : isDotSeg (s.takeWhile (· != slash)) = startsDotSeg s := by
  match s with
  | [] => decide
  | [a] =>
    rcases tri a with rfl | rfl | ⟨h1, h2, h3, h4, h5, h6⟩
    · decide
    · decide
    · simp [isDotSeg, startsDotSeg, hasPrefix, List.takeWhile_cons, slash, dot, List.isPrefixOf, h1, h2, h3, h4, h5, h6]
  | [a, b] =>
    rcases tri a with rfl | rfl | ⟨h1, h2, h3, h4, h5, h6⟩
    · simp [isDotSeg, startsDotSeg, hasPrefix, List.takeWhile_cons, slash, dot, List.isPrefixOf]
    · rcases tri b with rfl | rfl | ⟨g1, g2, g3, g4, g5, g6⟩
      · decide
      · decide
      · simp [isDotSeg, startsDotSeg, hasPrefix, List.takeWhile_cons, slash, dot, List.isPrefixOf, g1, g2, g3, g4, g5, g6]
    · simp [isDotSeg, startsDotSeg, hasPrefix, List.takeWhile_cons, slash, dot, List.isPrefixOf, h1, h2, h3, h4, h5, h6]
  | a :: b :: c :: r =>
    rcases tri a with rfl | rfl | ⟨h1, h2, h3, h4, h5, h6⟩
    · simp [isDotSeg, startsDotSeg, hasPrefix, List.takeWhile_cons, slash, dot, List.isPrefixOf]
    · rcases tri b with rfl | rfl | ⟨g1, g2, g3, g4, g5, g6⟩
      · simp [isDotSeg, startsDotSeg, hasPrefix, List.takeWhile_cons, slash, dot, List.isPrefixOf]
      · rcases tri c with rfl | rfl | ⟨k1, k2, k3, k4, k5, k6⟩
        · simp [isDotSeg, startsDotSeg, hasPrefix, List.takeWhile_cons, slash, dot, List.isPrefixOf]
        · simp [isDotSeg, startsDotSeg, hasPrefix, List.takeWhile_cons, slash, dot, List.isPrefixOf]
        · simp [isDotSeg, startsDotSeg, hasPrefix, List.takeWhile_cons, slash, dot, List.isPrefixOf, k1, k2, k3, k4, k5, k6]
      · simp [isDotSeg, startsDotSeg, hasPrefix, List.takeWhile_cons, slash, dot, List.isPrefixOf, g1, g2, g3, g4, g5, g6]
    · simp [isDotSeg, startsDotSeg, hasPrefix, List.takeWhile_cons, slash, dot, List.isPrefixOf, h1, h2, h3, h4, h5, h6]

theorem splitSlash_cons_slash (cs : Bytes) : splitSlash (slash :: cs) = [] :: splitSlash cs := by
  simp [splitSlash]

theorem splitSlash_cons_ne (c : Nat) (cs : Bytes) (h : c ≠ slash) :
    ∃ hd tl, splitSlash cs = hd :: tl ∧ splitSlash (c :: cs) = (c :: hd) :: tl := by
  cases hs : splitSlash cs with
  | nil => exact absurd hs (splitSlash_ne_nil cs)
  | cons hd tl => exact ⟨hd, tl, rfl, by simp [splitSlash, h, hs]⟩

/-- shape of the split: head segment and the dot-segment test on the tail -/
theorem splitSlash_shape (s : Bytes) :
    ∃ tl, splitSlash s = (s.takeWhile (· != slash)) :: tl ∧ tl.any isDotSeg = anyAfterSlash startsDotSeg s := by
  induction s with
  | nil => exact ⟨[], by simp [splitSlash], rfl⟩
  | cons c cs ih =>
    obtain ⟨tl, h1, h2⟩ := ih
    by_cases h : c = slash
    · subst h
      refine ⟨splitSlash cs, by simp [splitSlash], ?_⟩
      rw [h1]
      simp only [List.any_cons, anyAfterSlash, h2, isDotSeg_takeWhile]
      simp
    · obtain ⟨hd, tl', e1, e2⟩ := splitSlash_cons_ne c cs h
      rw [h1] at e1
      injection e1 with e1a e1b
      subst e1a e1b
      refine ⟨tl, ?_, ?_⟩
      · rw [e2]; simp [List.takeWhile_cons, h]
      · simp [anyAfterSlash, h2, h]

theorem hasDotSegment_eq (s : Bytes) :
    hasDotSegment s = (startsDotSeg s || anyAfterSlash startsDotSeg s) := by
  obtain ⟨tl, h1, h2⟩ := splitSlash_shape s
  simp [hasDotSegment, h1, h2, isDotSeg_takeWhile]


theorem hasSuffix_iff (s p : Bytes) : hasSuffix s p = true ↔ p <:+ s := by
  simp [hasSuffix]

theorem endDot_iff (t : Bytes) : endDot t = true ↔ t = [dot] ∨ t = [dot, dot] := by
  simp [endDot]

theorem anyAfterSlash_endDot (s : Bytes) :
    anyAfterSlash endDot s = true ↔ ([slash, dot] <:+ s ∨ [slash, dot, dot] <:+ s) := by
  induction s with
  | nil => simp [anyAfterSlash]
  | cons c cs ih =>
    simp only [anyAfterSlash, Bool.or_eq_true, Bool.and_eq_true, ih, List.suffix_cons_iff, endDot_iff, beq_iff_eq]
    constructor
    · rintro (⟨rfl, h | h⟩ | h | h)
      · left; left; rw [h]
      · right; left; rw [h]
      · left; right; exact h
      · right; right; exact h
    · rintro ((h | h) | (h | h))
      · injection h with h1 h2; left; exact ⟨h1.symm, .inl h2.symm⟩
      · right; left; exact h
      · injection h with h1 h2; left; exact ⟨h1.symm, .inr h2.symm⟩
      · right; right; exact h

theorem midAt_succ (c : Nat) (cs : Bytes) (i : Nat) : midAt (c :: cs) (i + 1) = midAt cs i := by
  simp only [midAt, slice, List.getElem?_cons_succ, List.length_cons, List.drop_succ_cons]
  have e3 : i + 1 + 3 - (i + 1) = i + 3 - i := by omega
  have e4 : i + 1 + 4 - (i + 1) = i + 4 - i := by omega
  have l3 : (i + 1 + 3 ≤ cs.length + 1) = (i + 3 ≤ cs.length) := by simp
  have l4 : (i + 1 + 4 ≤ cs.length + 1) = (i + 4 ≤ cs.length) := by simp
  simp only [e3, e4, l3, l4]

theorem range_any_succ (n : Nat) (f : Nat → Bool) :
    (List.range (n + 1)).any f = (f 0 || (List.range n).any (fun i => f (i + 1))) := by
  rw [List.range_succ_eq_map]
  simp [List.any_map, Function.comp_def]


theorem midAt_zero (c : Nat) (cs : Bytes) : midAt (c :: cs) 0 = (c == slash && midDot cs) := by
  rcases tri c with rfl | rfl | ⟨h1, h2, h3, h4, h5, h6⟩
  · -- c = '/'
    match cs with
    | [] => decide
    | [a] => rcases tri a with rfl | rfl | ⟨g1, g2, g3, g4, g5, g6⟩ <;>
        simp [midAt, slice, midDot, hasPrefix, slash, dot, List.isPrefixOf, *]
    | [a, b] =>
      rcases tri a with rfl | rfl | ⟨g1, g2, g3, g4, g5, g6⟩ <;> rcases tri b with rfl | rfl | ⟨k1, k2, k3, k4, k5, k6⟩ <;>
        simp [midAt, slice, midDot, hasPrefix, slash, dot, List.isPrefixOf, *]
    | a :: b :: d :: r =>
      rcases tri a with rfl | rfl | ⟨g1, g2, g3, g4, g5, g6⟩ <;> rcases tri b with rfl | rfl | ⟨k1, k2, k3, k4, k5, k6⟩ <;>
        rcases tri d with rfl | rfl | ⟨m1, m2, m3, m4, m5, m6⟩ <;>
        simp [midAt, slice, midDot, hasPrefix, slash, dot, List.isPrefixOf, *]
  · simp [midAt, slash]
  · simp [midAt, slash, h1, h3, h5]

theorem range_any_midAt (s : Bytes) : (List.range s.length).any (midAt s) = anyAfterSlash midDot s := by
  induction s with
  | nil => rfl
  | cons c cs ih =>
    rw [List.length_cons, range_any_succ]
    simp only [midAt_succ, midAt_zero, anyAfterSlash]
    rw [← ih]


/-- the Go function (index arithmetic) in terms of "first segment is a dot segment, or the remainder after some '/' starts with one" -/
theorem isRelativePath_eq (s : Bytes) :
    isRelativePath s = (startsDotSeg s || anyAfterSlash startsDotSeg s) := by
  have hA : (s == [dot] || s == [dot, dot] || hasPrefix s [dot, slash] || hasPrefix s [dot, dot, slash]) = startsDotSeg s := rfl
  have hfun : startsDotSeg = fun t => endDot t || midDot t := funext startsDotSeg_eq
  have hB : (hasSuffix s [slash, dot] || hasSuffix s [slash, dot, dot]) = anyAfterSlash endDot s := by
    apply Bool.eq_iff_iff.mpr
    rw [anyAfterSlash_endDot, Bool.or_eq_true, hasSuffix_iff, hasSuffix_iff]
  unfold isRelativePath
  rw [hA, hB, range_any_midAt, hfun, anyAfterSlash_or]
  cases (endDot s || midDot s) <;> cases anyAfterSlash endDot s <;> simp

/-- splitting at a '/' boundary -/
theorem splitSlash_append_slash (a b : Bytes) : splitSlash (a ++ slash :: b) = splitSlash a ++ splitSlash b := by
  induction a with
  | nil => simp [splitSlash]
  | cons c a ih =>
    by_cases h : c = slash
    · subst h; simp [splitSlash, ih]
    · obtain ⟨hd, tl, e1, e2⟩ := splitSlash_cons_ne c a h
      obtain ⟨hd', tl', e1', e2'⟩ := splitSlash_cons_ne c (a ++ slash :: b) h
      rw [List.cons_append, e2', e2]
      rw [ih, e1] at e1'
      simp at e1'
      obtain ⟨rfl, rfl⟩ := e1'
      simp

theorem splitSlash_join (s : Bytes) : [slash].intercalate (splitSlash s) = s := by
  induction s with
  | nil => simp [splitSlash, List.intercalate]
  | cons c cs ih =>
    by_cases h : c = slash
    · subst h
      rw [splitSlash_cons_slash]
      obtain ⟨hd, tl, e⟩ : ∃ hd tl, splitSlash cs = hd :: tl := by
        cases hs : splitSlash cs with
        | nil => exact absurd hs (splitSlash_ne_nil cs)
        | cons hd tl => exact ⟨hd, tl, rfl⟩
      rw [e] at ih ⊢
      simp [List.intercalate] at ih ⊢
      exact ih
    · obtain ⟨hd, tl, e1, e2⟩ := splitSlash_cons_ne c cs h
      rw [e2]; rw [e1] at ih
      cases tl with
      | nil => simp [List.intercalate] at ih ⊢; exact ih
      | cons t ts => simp [List.intercalate] at ih ⊢; exact ih

theorem splitSlash_noslash (s : Bytes) : ∀ seg ∈ splitSlash s, slash ∉ seg := by
  induction s with
  | nil => simp [splitSlash]
  | cons c cs ih =>
    by_cases h : c = slash
    · subst h; rw [splitSlash_cons_slash]
      intro seg hs
      rcases List.mem_cons.mp hs with rfl | hs
      · simp
      · exact ih seg hs
    · obtain ⟨hd, tl, e1, e2⟩ := splitSlash_cons_ne c cs h
      rw [e2]; rw [e1] at ih
      intro seg hs
      rcases List.mem_cons.mp hs with rfl | hs
      · have := ih hd (List.mem_cons_self)
        simp [this]; exact fun e => h e.symm
      · exact ih seg (List.mem_cons_of_mem _ hs)

theorem chainPrefix_eq (p : Bytes) (qs : List Bytes) : chainPrefix (p :: qs) = p ++ qs.flatten := by
  simp only [chainPrefix]
  induction qs generalizing p with
  | nil => simp
  | cons q qs ih => simp [List.foldl_cons, ih, subView, expandKey, List.append_assoc]

/-! ### listing -/

theorem indexSlash_none (t : Bytes) (h : indexSlash t = none) : slash ∉ t := by
  induction t with
  | nil => simp
  | cons c cs ih =>
    unfold indexSlash at h
    split at h
    · simp at h
    · rename_i hc
      simp at h
      simp [ih h]; exact fun e => hc e.symm

theorem indexSlash_some (t : Bytes) (i : Nat) (h : indexSlash t = some i) :
    slash ∉ t.take i ∧ (t.take (i + 1)).dropLast = t.take i ∧ t.take (i + 1) <+: t := by
  induction t generalizing i with
  | nil => simp [indexSlash] at h
  | cons c cs ih =>
    unfold indexSlash at h
    split at h
    · injection h with h; subst h; simp
    · rename_i hc
      simp at h
      obtain ⟨j, hj, rfl⟩ := h
      obtain ⟨h1, h2, h3⟩ := ih j hj
      refine ⟨?_, ?_, ?_⟩
      · simp [List.take_succ_cons, h1]; exact fun e => hc e.symm
      · rw [List.take_succ_cons, List.take_succ_cons]
        cases hct : cs.take (j + 1) with
        | nil =>
          have : j + 1 ≤ 0 ∨ cs = [] := by
            cases cs with
            | nil => exact .inr rfl
            | cons a as => simp at hct
          rcases this with h | h
          · omega
          · subst h; simp [indexSlash] at hj
        | cons a as => rw [List.dropLast_cons_cons, ← hct, h2]
      · exact List.take_prefix _ _
end Obao.View
