import Obao.Proofs.ACLFind
import Obao.Proofs.ACLCheck
/-! C03: the implementation model (`newACL` + `allowOperation`) equals the declarative semantics `specAllow`. -/
namespace Obao.ACLProofs
open Obao.ACL Obao.ACLSpec

theorem hasExact_iff {a : ACL} {rules : List PathRule} (hb : Built a rules) (k : Path) :
    hasExact rules k = true ↔ ∃ p, a.exact.lookup k = some p := by
  rw [← mem_keys_iff_lookup]
  have := hb.keys .exact k
  simp only [mapOf] at this
  rw [this]
  unfold hasExact
  rw [List.any_eq_true]
  constructor
  · rintro ⟨r, hr, h⟩
    simp only [Bool.and_eq_true, beq_iff_eq] at h
    exact ⟨r, hr, h.1, h.2⟩
  · rintro ⟨r, hr, h1, h2⟩
    exact ⟨r, hr, by simp [h1, h2]⟩

theorem hasExact_false_iff {a : ACL} {rules : List PathRule} (hb : Built a rules) (k : Path) :
    hasExact rules k = false ↔ a.exact.lookup k = none := by
  constructor
  · intro h
    cases hl : a.exact.lookup k with
    | none => rfl
    | some p =>
      have := (hasExact_iff hb k).mpr ⟨p, hl⟩
      rw [h] at this; exact absurd this (by decide)
  · intro h
    rw [Bool.eq_false_iff]
    intro hc
    obtain ⟨p, hp⟩ := (hasExact_iff hb k).mp hc
    rw [h] at hp; exact absurd hp (by simp)

/-- the deciding rule of the implementation = what is stored for the deciding pattern of the semantics -/
theorem findPerms_eq {a : ACL} {rules : List PathRule} (hb : Built a rules) (path : Path) (op : Op) :
    findPerms a path op = (specFind rules path op).bind fun pat => (mapOf a pat.1).lookup pat.2 := by
  unfold findPerms specFind
  cases h1 : a.exact.lookup path with
  | some p =>
    have : hasExact rules path = true := (hasExact_iff hb path).mpr ⟨p, h1⟩
    simp [this, mapOf, h1]
  | none =>
    have e1 : hasExact rules path = false := (hasExact_false_iff hb path).mpr h1
    simp only [e1, Bool.false_eq_true, if_false]
    cases hls : isListScan op with
    | false =>
      simp only [Bool.false_eq_true, if_false, Bool.false_and]
      rw [checkNonExact_eq hb]
      cases specNonExact rules path with
      | none => rfl
      | some pat =>
        simp only [Option.bind_some]
        cases (mapOf a pat.1).lookup pat.2 <;> rfl
    | true =>
      simp only [if_true, Bool.true_and]
      cases h2 : a.exact.lookup (trimSlash path) with
      | some p =>
        have : hasExact rules (trimSlash path) = true := (hasExact_iff hb _).mpr ⟨p, h2⟩
        simp [this, mapOf, h2]
      | none =>
        have e2 : hasExact rules (trimSlash path) = false := (hasExact_false_iff hb _).mpr h2
        simp only [e2, Bool.false_eq_true, if_false]
        rw [checkNonExact_eq hb, checkNonExact_eq hb]
        cases h3 : specNonExact rules path with
        | some pat =>
          simp only [Option.bind_some]
          cases h4 : (mapOf a pat.1).lookup pat.2 with
          | some p => rfl
          | none =>
            -- cannot happen (a candidate pattern is stored), but both sides agree anyway only if it is stored
            exfalso
            unfold specNonExact at h3
            rw [Option.map_eq_some_iff] at h3
            obtain ⟨c, hc, hcp⟩ := h3
            rw [pickBest_eq_foldMax] at hc
            rcases foldMax_spec (fun (b c : Descr × Kind × Path) => less b.1 c.1) (fun a => less_irrefl a.1)
              (fun a b c => less_trans) (rules.filterMap (candidate path)) with ⟨_, hn⟩ | ⟨x, hx, hxm, _⟩
            · rw [hn] at hc; exact absurd hc (by simp)
            · rw [hx] at hc
              simp only [Option.some.injEq] at hc
              subst hc
              obtain ⟨r, hr, hd, hpat⟩ := (mem_specCands (rules := rules)).mp hxm
              have hk : pat.2 ∈ (mapOf a pat.1).map (·.1) := by
                rw [hb.keys]
                rw [← hcp, hpat]
                exact ⟨r, hr, rfl, rfl⟩
              obtain ⟨p, hp⟩ := (mem_keys_iff_lookup _ _).mp hk
              rw [h4] at hp; exact absurd hp (by simp)
        | none =>
          simp only [Option.bind_none]
          split <;> rfl

theorem specCheck_nil (req : Req) (cc : Bool) : specCheck [] req cc = { limit := limitOf req.data } := by
  unfold specCheck checkCore specCaps anyDeny unionCaps
  cases cc with
  | true => simp
  | false =>
    simp only [List.any_nil, Bool.false_eq_true, if_false, List.foldl_nil, Nat.zero_testBit]
    cases opCap req.op <;> simp

theorem mergeAll_eq_none {l : List Perms} (h : mergeAll l = none) : l = [] := by
  cases l with
  | nil => rfl
  | cons p rest => simp [mergeAll] at h

theorem wf_permsFor {rules : List PathRule} (hwf : wfRules rules = true) (kind : Kind) (k : Path) :
    ∀ p ∈ permsFor rules kind k, WF p := by
  intro p hp
  unfold permsFor at hp
  obtain ⟨r, hr, rfl⟩ := List.mem_map.mp hp
  have hr' := (List.mem_filter.mp hr).1
  unfold wfRules at hwf
  rw [List.all_eq_true] at hwf
  exact (wfPerms_iff _).mp (hwf r hr')

/-- **refinement**: on an ACL built from the stanzas `rules`, `AllowOperation` computes the documented semantics -/
theorem allowOperation_built {a : ACL} {rules : List PathRule} (hb : Built a rules) (hwf : wfRules rules = true)
    (hroot : a.root = false) (req : Req) (cc : Bool) (hhelp : req.op ≠ .help) :
    allowOperation a req cc = specDecide rules req cc := by
  unfold allowOperation specDecide
  simp only [hroot, Bool.false_eq_true, if_false, hhelp]
  rw [findPerms_eq hb]
  cases hs : specFind rules (dropSlashes req.path) req.op with
  | none => rfl
  | some pat =>
    obtain ⟨kind, k⟩ := pat
    simp only [Option.bind_some]
    rw [hb.lookup]
    cases hm : mergeAll (permsFor rules kind k) with
    | none =>
      simp only
      rw [mergeAll_eq_none hm, specCheck_nil]
    | some m =>
      simp only
      exact checkPerms_eq_specCheck (agrees_mergeAll _ (wf_permsFor hwf kind k) m hm) req cc

theorem acl_refines_spec (now : Int) (ps : List (Option Policy)) (a : ACL) (h : newACL now ps = .ok a)
    (hwf : wfRules (rulesOf now ps) = true) (req : Req) (cc : Bool) :
    allowOperation a req cc = specAllow now ps req cc := by
  rw [newACL_eq] at h
  split at h
  · simp only [Except.ok.injEq] at h
    subst h
    unfold specAllow
    cases hr : hasRoot ps with
    | true => simp [allowOperation, setRoot]
    | false =>
      simp only [Bool.false_eq_true, if_false]
      by_cases hh : req.op = .help
      · simp [allowOperation, setRoot, hr, hh]
      · simp only [hh, if_false]
        have hb := built_foldl (rulesOf now ps) false
        rw [allowOperation_built hb hwf rfl req cc hh]
  · exact absurd h (by simp)

end Obao.ACLProofs
