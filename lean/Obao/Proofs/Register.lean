import Obao.Model.Register
/-! Helper lemmas for `Obao/Props/C06.lean`: what a read phase can do to the state under an armed fault. -/
namespace Obao.Register

/-- the state with another fault countdown -/
def St.setFault (s : St) (f : Option Nat) : St := { s with fault := f }

@[simp] theorem St.setFault_self (s : St) : s.setFault s.fault = s := by cases s; rfl
@[simp] theorem St.setFault_setFault (s : St) (f g : Option Nat) : (s.setFault f).setFault g = s.setFault g := rfl
@[simp] theorem St.setFault_fault (s : St) (f : Option Nat) : (s.setFault f).fault = f := rfl

theorem bind_apply (m : M α) (f : α → M β) (s : St) :
    (m >>= f) s = match m s with
      | (.ok a, s', l) => ((f a s').1, (f a s').2.1, l ++ (f a s').2.2)
      | (.err, s', l) => (.err, s', l)
      | (.crash, s', l) => (.crash, s', l) := rfl

theorem pure_apply (a : α) (s : St) : (pure a : M α) s = (.ok a, s, []) := rfl

/-- a single read under any fault plan: either it succeeds and only the countdown moves, or it is the failing
operation and the plan is consumed -/
theorem op_get_cases (k : KC) (s : St) :
    (∃ f' l, op .get k s = (.ok (s.store.has k), s.setFault f', l) ∧ (s.fault = none → f' = none)) ∨
    (∃ l, op .get k s = (.err, s.setFault none, l) ∧ s.fault ≠ none) := by
  cases hf : s.fault with
  | none =>
    left
    refine ⟨none, [⟨.get, k, false⟩], ?_, fun _ => rfl⟩
    simp only [op, hf]
    rw [← hf, St.setFault_self]
  | some n =>
    cases n with
    | zero => right; exact ⟨[⟨.get, k, true⟩], by simp only [op, hf]; rfl, by simp⟩
    | succ n => left; exact ⟨some n, [⟨.get, k, false⟩], by simp only [op, hf]; rfl, by simp⟩

theorem gets_cases (l : List KC) (s : St) :
    (∃ f' lg, gets l s = (.ok (), s.setFault f', lg) ∧ (s.fault = none → f' = none)) ∨
    (∃ lg, gets l s = (.err, s.setFault none, lg) ∧ s.fault ≠ none) := by
  induction l generalizing s with
  | nil => left; exact ⟨s.fault, [], by simp [gets, pure_apply], fun h => h⟩
  | cons k t ih =>
    unfold gets op_
    rcases op_get_cases k s with ⟨f', lg, h, hn⟩ | ⟨lg, h, hne⟩
    · rcases ih (s.setFault f') with ⟨f'', lg2, h2, hn2⟩ | ⟨lg2, h2, hne2⟩
      · left
        refine ⟨f'', lg ++ [] ++ lg2, ?_, fun hs => hn2 (by simpa using hn hs)⟩
        simp only [bind_apply, h, pure_apply, h2, St.setFault_setFault]
      · right
        refine ⟨lg ++ [] ++ lg2, ?_, fun hs => hne2 (by simpa using hn hs)⟩
        simp only [bind_apply, h, pure_apply, h2, St.setFault_setFault]
    · right
      exact ⟨lg, by simp only [bind_apply, h], hne⟩

/-- the caught form used by the flows -/
theorem attempt_gets_cases (l : List KC) (s : St) :
    (∃ f' lg, attempt (gets l) s = (.ok (some ()), s.setFault f', lg) ∧ (s.fault = none → f' = none)) ∨
    (∃ lg, attempt (gets l) s = (.ok none, s.setFault none, lg) ∧ s.fault ≠ none) := by
  rcases gets_cases l s with ⟨f', lg, h, hn⟩ | ⟨lg, h, hne⟩
  · left; exact ⟨f', lg, by simp only [attempt, h], hn⟩
  · right; exact ⟨lg, by simp only [attempt, h], hne⟩

end Obao.Register

namespace Obao.Register

/-- the property's predicate on the raw result of a flow -/
def goodRun (v : Variant) (r : Res Resp × St × List Ev) : Bool :=
  match r.1 with
  | .ok resp => goodFault v ⟨some resp, r.2.1, r.2.2⟩
  | _ => false

theorem goodRun_log (v : Variant) (r : Res Resp) (s : St) (l l' : List Ev) :
    goodRun v (r, s, l) = goodRun v (r, s, l') := by
  cases r <;> rfl

theorem goodRun_fault (v : Variant) (r : Res Resp) (s : St) (l : List Ev) (f : Option Nat) :
    goodRun v (r, s.setFault f, l) = goodRun v (r, s, l) := by
  cases r <;> rfl

/-- the predicate reads the mount only to admit an un-leased secret; a run that is good for the modern mount (which
admits none) is good for every mount -/
theorem goodRun_of_modern (fl : Flow) (req : Req) (npol : Nat) (typ : Typ) (orphan : Bool) (mnt : Mount)
    (r : Res Resp × St × List Ev) (h : goodRun ⟨fl, req, npol, typ, orphan, .modern⟩ r = true) :
    goodRun ⟨fl, req, npol, typ, orphan, mnt⟩ r = true := by
  obtain ⟨r1, s, l⟩ := r
  cases r1 with
  | ok resp =>
    cases resp
    case okSecretUnleased => simp [goodRun, goodFault, kvMount, Mount.modern] at h
    all_goals exact h
  | err => exact h
  | crash => exact h

/-- the clean state of a request that has so far only read, with any fault countdown -/
def St.clean (f : Option Nat) : St := (St.init none none).setFault f

theorem init_setFault (k f : Option Nat) : (St.init k none).setFault f = St.clean f := rfl
theorem clean_setFault (g f : Option Nat) : (St.clean g).setFault f = St.clean f := rfl

/-- a guarded read phase is good whenever the failure response is good in the untouched state and the continuation
is good from the untouched state under EVERY remaining fault countdown -/
theorem guardReads_good (v : Variant) (l : List KC) (onFail : Resp) (k : M Resp) (s : St)
    (hfail : goodRun v (.ok onFail, s, []) = true)
    (hok : ∀ f', goodRun v (k (s.setFault f')) = true) :
    goodRun v (guardReads l onFail k s) = true := by
  unfold guardReads
  rcases attempt_gets_cases l s with ⟨f', lg, h, -⟩ | ⟨lg, h, -⟩
  · simp only [bind_apply, h]
    have := hok f'
    generalize k (s.setFault f') = r at this ⊢
    obtain ⟨r1, s1, l1⟩ := r
    rw [goodRun_log v r1 s1 _ l1]; exact this
  · simp only [bind_apply, h, pure_apply]
    rw [goodRun_log v _ _ _ [], goodRun_fault]; exact hfail

theorem goodRun_bind (v : Variant) (m : M α) (k : α → M Resp) (s : St) :
    goodRun v ((m >>= k) s) = match m s with
      | (.ok a, s', _) => goodRun v (k a s')
      | _ => false := by
  rw [bind_apply]
  rcases m s with ⟨(_ | _ | _), s', l⟩
  · simp only
    generalize k _ s' = r
    obtain ⟨r1, s1, l1⟩ := r
    exact goodRun_log ..
  · rfl
  · rfl

/-- the lease decision exempts KV mounts only -/
theorem registerLease_false_kv (m : Mount) (h : registerLease m = false) : kvMount m = true := by
  obtain ⟨typ, pk, on, lp, pt⟩ := m
  cases typ <;> simp_all [registerLease, kvMount]

theorem secretLeased_good (fl : Flow) (req : Req) (npol : Nat) (typ : Typ) (orphan : Bool) (mnt : Mount) (f : Option Nat) :
    goodRun ⟨fl, req, npol, typ, orphan, mnt⟩
      (secretLeased ⟨fl, req, npol, typ, orphan, mnt⟩ { St.clean f with issued := 1 }) = true := by
  rcases f with _ | _ | _ | n <;> cases req <;> rfl

theorem secretAfterCheck_good (fl : Flow) (req : Req) (npol : Nat) (typ : Typ) (orphan : Bool) (mnt : Mount) (f : Option Nat) :
    goodRun ⟨fl, req, npol, typ, orphan, mnt⟩ (secretAfterCheck ⟨fl, req, npol, typ, orphan, mnt⟩ (St.clean f)) = true := by
  unfold secretAfterCheck
  rw [goodRun_bind]
  show goodRun _ ((if registerLease mnt = true then secretLeased _ else pure Resp.okSecretUnleased) { St.clean f with issued := 1 }) = true
  by_cases hr : registerLease mnt = true
  · rw [if_pos hr]; exact secretLeased_good ..
  · rw [if_neg hr]
    have hk := registerLease_false_kv mnt (by simpa using hr)
    show goodFault _ _ = true
    simp only [goodFault, hk]
    rfl

theorem secretFlow_good (v : Variant) (k : Option Nat) : goodRun v (secretFlow v (St.init k none)) = true := by
  obtain ⟨fl, req, npol, typ, orphan, mnt⟩ := v
  apply guardReads_good
  · rfl
  · intro f'; rw [init_setFault]; exact secretAfterCheck_good ..

/-- the state after `tokenStore.create` wrote the new token's records -/
def St.withToken (par : Bool) (f : Option Nat) : St :=
  { St.clean f with store := { Store.empty with tokAcc := true, tokPar := par, tokId := true } }

theorem finishRegisterAuth_good (v : Variant) (par : Bool) (f : Option Nat) :
    goodRun v (finishRegisterAuth (St.withToken par f)) = true := by
  obtain ⟨fl, req, npol, typ, orphan, mnt⟩ := v
  rcases f with _ | _ | n <;> cases par <;> cases typ <;> rfl

theorem loginFlow_good (v : Variant) (k : Option Nat) : goodRun v (loginFlow v (St.init k none)) = true := by
  obtain ⟨fl, req, npol, typ, orphan, mnt⟩ := v
  cases typ
  case batch => rfl
  all_goals
    rcases k with _ | _ | _ | _ | n <;> rfl

theorem createAfterPolicies_good (v : Variant) (f : Option Nat) :
    goodRun v (createAfterPolicies v (if v.typ = .batch then St.clean f else St.withToken (!v.orphan) f)) = true := by
  unfold createAfterPolicies
  by_cases hb : v.typ = .batch
  · simp only [hb, if_true]
    obtain ⟨fl, req, npol, typ, orphan, mnt⟩ := v
    simp only at hb; subst hb; rfl
  · simp only [hb, if_false]
    exact finishRegisterAuth_good ..

/-- the error response of the policy look-up after `tokenStore.create`: the token entry stays, without lease -/
theorem errResp_good (v : Variant) (f : Option Nat) :
    goodRun v (.ok .errResp, (if v.typ = .batch then St.clean f else St.withToken (!v.orphan) f), []) = true := by
  obtain ⟨fl, req, npol, typ, orphan, mnt⟩ := v
  have h1 : ∀ par, St.withToken par f = (St.withToken par none).setFault f := fun _ => rfl
  have h2 : St.clean f = (St.clean none).setFault f := rfl
  have hn : ∀ r, goodRun ⟨fl, req, npol, typ, orphan, .modern⟩ r = goodRun ⟨fl, req, 0, typ, orphan, .modern⟩ r := fun _ => rfl
  apply goodRun_of_modern
  cases typ <;> cases orphan <;> simp only [if_true, if_false, reduceCtorEq] <;>
    first
      | (rw [h2, goodRun_fault, hn]; cases fl <;> cases req <;> decide)
      | (rw [h1, goodRun_fault, hn]; cases fl <;> cases req <;> decide)

/-- `tokenStore.create` under any fault countdown: all records written, or an error with a prefix of them -/
theorem createRecords_cases (v : Variant) (f : Option Nat) :
    (∃ f' lg, attempt (createRecords v) (St.clean f) =
        (.ok (some ()), (if v.typ = .batch then St.clean f' else St.withToken (!v.orphan) f'), lg)) ∨
    (∃ s' lg, attempt (createRecords v) (St.clean f) = (.ok none, s', lg) ∧
        goodRun v (.ok .errInvalid, s', []) = true) := by
  obtain ⟨fl, req, npol, typ, orphan, mnt⟩ := v
  cases typ <;> cases orphan
  case batch.false => exact Or.inl ⟨f, [], rfl⟩
  case batch.true => exact Or.inl ⟨f, [], rfl⟩
  case service.true | na.true =>
    rcases f with _ | _ | _ | n
    · exact Or.inl ⟨none, _, rfl⟩
    · exact Or.inr ⟨_, _, rfl, rfl⟩
    · exact Or.inr ⟨_, _, rfl, rfl⟩
    · exact Or.inl ⟨some n, _, rfl⟩
  case service.false | na.false =>
    rcases f with _ | _ | _ | _ | _ | n
    · exact Or.inl ⟨none, _, rfl⟩
    · exact Or.inr ⟨_, _, rfl, rfl⟩
    · exact Or.inr ⟨_, _, rfl, rfl⟩
    · exact Or.inr ⟨_, _, rfl, rfl⟩
    · exact Or.inr ⟨_, _, rfl, rfl⟩
    · exact Or.inl ⟨some n, _, rfl⟩

theorem createAfterSudo_good (v : Variant) (f : Option Nat) :
    goodRun v (createAfterSudo v (St.clean f)) = true := by
  unfold createAfterSudo
  rw [goodRun_bind]
  rcases createRecords_cases v f with ⟨f', lg, h⟩ | ⟨s', lg, h, hg⟩
  · rw [h]
    simp only
    apply guardReads_good
    · exact errResp_good v f'
    · intro f''
      have := createAfterPolicies_good v f''
      by_cases hb : v.typ = .batch
      · simpa only [hb, if_true, clean_setFault] using this
      · simpa only [hb, if_false, show ∀ p f g, (St.withToken p f).setFault g = St.withToken p g from fun _ _ _ => rfl] using this
  · rw [h]
    simp only [pure_apply]
    exact hg

theorem createAfterParent_good (v : Variant) (f : Option Nat) :
    goodRun v (createAfterParent v (St.clean f)) = true := by
  unfold createAfterParent
  rw [goodRun_bind]
  rcases attempt_gets_cases (.reqTok :: List.replicate (polReads v) .policy) (St.clean f) with
    ⟨f', lg, h, -⟩ | ⟨lg, h, -⟩
  · rw [h]
    simp only [clean_setFault]
    have : ¬ (v.req = .root ∧ (some () : Option Unit) = none) := by simp
    simp only [this, if_false]
    exact createAfterSudo_good v f'
  · rw [h]
    simp only [clean_setFault]
    by_cases hr : v.req = .root
    · simp only [hr, true_and, if_true]
      obtain ⟨fl, req, npol, typ, orphan, mnt⟩ := v
      rfl
    · simp only [hr, false_and, if_false]
      exact createAfterSudo_good v none

theorem createFlow_good (v : Variant) (k : Option Nat) : goodRun v (createFlow v (St.init k none)) = true := by
  apply guardReads_good
  · obtain ⟨fl, req, npol, typ, orphan, mnt⟩ := v; rfl
  · intro f'
    rw [init_setFault]
    apply guardReads_good
    · obtain ⟨fl, req, npol, typ, orphan, mnt⟩ := v; rfl
    · intro f''
      rw [clean_setFault]
      exact createAfterParent_good v f''

/-- the response-wrapped secret after the token check, under any fault countdown -/
theorem wrapAfterCheck_good (req : Req) (npol : Nat) (typ : Typ) (orphan : Bool) (mnt : Mount) (f : Option Nat) :
    goodRun ⟨.wrap, req, npol, typ, orphan, mnt⟩ (wrapAfterCheck ⟨.wrap, req, npol, typ, orphan, mnt⟩ (St.clean f)) = true := by
  have hn : ∀ r, goodRun ⟨.wrap, req, npol, typ, orphan, .modern⟩ r = goodRun ⟨.wrap, req, 0, typ, false, .modern⟩ r := fun _ => rfl
  have hw : wrapAfterCheck ⟨.wrap, req, npol, typ, orphan, mnt⟩ = wrapAfterCheck ⟨.wrap, req, 0, typ, false, .modern⟩ := rfl
  apply goodRun_of_modern
  rw [hn, hw]
  rcases f with _ | _ | _ | _ | _ | _ | _ | _ | n
  iterate 8 (cases req <;> cases typ <;> decide +kernel)
  cases req <;> cases typ <;> rfl

theorem wrapFlow_good (v : Variant) (hv : v.flow = .wrap) (k : Option Nat) :
    goodRun v (wrapFlow v (St.init k none)) = true := by
  obtain ⟨fl, req, npol, typ, orphan, mnt⟩ := v
  simp only at hv
  subst hv
  apply guardReads_good
  · rfl
  · intro f'; rw [init_setFault]; exact wrapAfterCheck_good ..

theorem flow_good (v : Variant) (k : Option Nat) : goodRun v (flow v (St.init k none)) = true := by
  unfold flow
  cases hf : v.flow
  · exact secretFlow_good v k
  · exact loginFlow_good v k
  · exact createFlow_good v k
  · exact wrapFlow_good v hf k

/-- from the raw result to the observation of `runFlow` -/
theorem goodFault_runFlow (v : Variant) (k : Option Nat) : goodFault v (runFlow v k none) = true := by
  have h := flow_good v k
  unfold runFlow
  generalize flow v (St.init k none) = r at h ⊢
  obtain ⟨(_ | _ | _), s, l⟩ := r
  · exact h
  · exact absurd h (by simp [goodRun])
  · exact absurd h (by simp [goodRun])

/-! ### crash plans: no fault is armed, the crash countdown decides where the run stops -/

/-- the crash predicate depends on the final state only -/
def crashOKSt (s : St) : Bool := goodCrash ⟨none, s, []⟩
def crashOK (r : Res α × St × List Ev) : Bool := crashOKSt r.2.1

theorem gets_noFault (l : List KC) (s : St) (hs : s.fault = none) : ∃ lg, gets l s = (.ok (), s, lg) := by
  rcases gets_cases l s with ⟨f', lg, h, hn⟩ | ⟨lg, h, hne⟩
  · refine ⟨lg, ?_⟩
    rw [h, hn hs, ← hs, St.setFault_self]
  · exact absurd hs hne

theorem guardReads_crashOK (l : List KC) (onFail : β) (k : M β) (s : St) (hs : s.fault = none) :
    crashOK (guardReads l onFail k s) = crashOK (k s) := by
  obtain ⟨lg, h⟩ := gets_noFault l s hs
  unfold guardReads
  simp only [bind_apply, attempt, h]
  rfl

theorem crashOK_bind (m : M α) (k : α → M β) (s : St) :
    crashOK ((m >>= k) s) = match m s with
      | (.ok a, s', _) => crashOK (k a s')
      | (_, s', _) => crashOKSt s' := by
  rw [bind_apply]
  rcases m s with ⟨(_ | _ | _), s', l⟩ <;> rfl

/-- the state after `tokenStore.create`, under a crash countdown -/
def St.withTokenC (par : Bool) (c : Option Nat) : St :=
  { St.init none c with store := { Store.empty with tokAcc := true, tokPar := par, tokId := true } }

theorem finishRegisterAuth_crashOK (par : Bool) (c : Option Nat) :
    crashOK (finishRegisterAuth (St.withTokenC par c)) = true := by
  rcases c with _ | _ | _ | n <;> cases par <;> rfl

theorem secretFlow_crashOK (v : Variant) (c : Option Nat) : crashOK (secretFlow v (St.init none c)) = true := by
  unfold secretFlow
  rw [guardReads_crashOK _ _ _ _ rfl]
  obtain ⟨fl, req, npol, typ, orphan, mnt⟩ := v
  unfold secretAfterCheck
  rw [crashOK_bind]
  show crashOK ((if registerLease mnt = true then secretLeased _ else pure Resp.okSecretUnleased)
    { St.init none c with issued := 1 }) = true
  by_cases hr : registerLease mnt = true
  · rw [if_pos hr]
    rcases c with _ | _ | _ | _ | n <;> cases req <;> rfl
  · rw [if_neg hr]
    rcases c with _ | _ | n <;> rfl

theorem loginFlow_crashOK (v : Variant) (c : Option Nat) : crashOK (loginFlow v (St.init none c)) = true := by
  have hv : loginFlow v = loginFlow ⟨.login, .anon, 0, v.typ, false, .modern⟩ := rfl
  rw [hv]
  cases v.typ
  case batch => rfl
  all_goals
    rcases c with _ | _ | _ | _ | _ | n <;> first | decide | rfl

/-- a prefix of the new token's records, as a crash leaves it -/
def St.partialTok (acc par id : Bool) (c : Option Nat) : St :=
  { St.init none c with store := { Store.empty with tokAcc := acc, tokPar := par, tokId := id } }

/-- `tokenStore.create` under a crash countdown: all records written (countdown moved), or the process stopped
after a prefix of them, in a state that is fine after restart -/
theorem createRecords_crash_cases (v : Variant) (c : Option Nat) :
    (∃ c' lg, attempt (createRecords v) (St.init none c) =
        (.ok (some ()), (if v.typ = .batch then St.init none c' else St.withTokenC (!v.orphan) c'), lg)) ∨
    (∃ s' lg, attempt (createRecords v) (St.init none c) = (.crash, s', lg) ∧ crashOKSt s' = true) := by
  obtain ⟨fl, req, npol, typ, orphan, mnt⟩ := v
  cases typ <;> cases orphan
  case batch.false => exact Or.inl ⟨c, [], rfl⟩
  case batch.true => exact Or.inl ⟨c, [], rfl⟩
  case service.true | na.true =>
    rcases c with _ | _ | _ | _ | n
    · exact Or.inl ⟨none, _, rfl⟩
    · exact Or.inr ⟨St.partialTok true false false (some 0), _, rfl, by decide⟩
    · exact Or.inr ⟨St.partialTok true false false none, _, rfl, by decide⟩
    · exact Or.inr ⟨St.partialTok true false true none, _, rfl, by decide⟩
    · exact Or.inl ⟨some (n+1), _, rfl⟩
  case service.false | na.false =>
    rcases c with _ | _ | _ | _ | _ | n
    · exact Or.inl ⟨none, _, rfl⟩
    · exact Or.inr ⟨St.partialTok true false false (some 0), _, rfl, by decide⟩
    · exact Or.inr ⟨St.partialTok true false false none, _, rfl, by decide⟩
    · exact Or.inr ⟨St.partialTok true true false none, _, rfl, by decide⟩
    · exact Or.inr ⟨St.partialTok true true true none, _, rfl, by decide⟩
    · exact Or.inl ⟨some (n+1), _, rfl⟩

theorem createAfterSudo_crashOK (v : Variant) (c : Option Nat) :
    crashOK (createAfterSudo v (St.init none c)) = true := by
  unfold createAfterSudo
  rw [crashOK_bind]
  rcases createRecords_crash_cases v c with ⟨c', lg, h⟩ | ⟨s', lg, h, hg⟩
  · rw [h]
    simp only
    by_cases hb : v.typ = .batch
    · simp only [hb, if_true]
      rw [guardReads_crashOK _ _ _ _ rfl]
      unfold createAfterPolicies
      simp only [hb, if_true]
      rcases c' with _ | _ | n <;> rfl
    · simp only [hb, if_false]
      rw [guardReads_crashOK _ _ _ _ rfl]
      unfold createAfterPolicies
      simp only [hb, if_false]
      exact finishRegisterAuth_crashOK ..
  · rw [h]
    exact hg

theorem createFlow_crashOK (v : Variant) (c : Option Nat) : crashOK (createFlow v (St.init none c)) = true := by
  unfold createFlow
  rw [guardReads_crashOK _ _ _ _ rfl]
  unfold createAfterCheck
  rw [guardReads_crashOK _ _ _ _ rfl]
  unfold createAfterParent
  rw [crashOK_bind]
  obtain ⟨lg, h⟩ := gets_noFault (.reqTok :: List.replicate (polReads v) .policy) (St.init none c) rfl
  simp only [attempt, h]
  have : ¬ (v.req = .root ∧ (some () : Option Unit) = none) := by simp
  simp only [this, if_false]
  exact createAfterSudo_crashOK v c

theorem wrapFlow_crashOK (v : Variant) (c : Option Nat) : crashOK (wrapFlow v (St.init none c)) = true := by
  unfold wrapFlow
  rw [guardReads_crashOK _ _ _ _ rfl]
  obtain ⟨fl, req, npol, typ, orphan, mnt⟩ := v
  have hw : wrapAfterCheck ⟨fl, req, npol, typ, orphan, mnt⟩ = wrapAfterCheck ⟨.wrap, req, 0, .na, false, .modern⟩ := rfl
  rw [hw]
  rcases c with _ | _ | _ | _ | _ | _ | _ | _ | _ | n
  iterate 9 (cases req <;> decide +kernel)
  cases req <;> rfl

theorem goodCrash_runFlow (v : Variant) (c : Option Nat) : goodCrash (runFlow v none c) = true := by
  have h : crashOK (flow v (St.init none c)) = true := by
    unfold flow
    cases hf : v.flow
    · exact secretFlow_crashOK v c
    · exact loginFlow_crashOK v c
    · exact createFlow_crashOK v c
    · exact wrapFlow_crashOK v c
  unfold runFlow
  generalize flow v (St.init none c) = r at h ⊢
  obtain ⟨(_ | _ | _), s, l⟩ := r <;> exact h

end Obao.Register
