import Obao.Proofs.TxnProofs
/-! Paging: asking for the page after the last entry received until a page comes back empty enumerates the full
child list, for every page size ≥ 1 (provided no child is the empty string). Core Lean only. -/
namespace Obao.Listing
open Obao.KV

/-- in a strictly ascending list, the elements above the last element of a non-empty initial segment are exactly
the rest of the list -/
theorem filter_gt_last_take (L : List Key) (hs : Sorted L) (n : Nat) (x : Key) (hx : (L.take n).getLast? = some x) :
    L.filter (fun c => x < c) = L.drop n := by
  have hsplit : L = L.take n ++ L.drop n := (List.take_append_drop n L).symm
  have hp : (L.take n ++ L.drop n).Pairwise (· < ·) := by rw [← hsplit]; exact hs
  rw [List.pairwise_append] at hp
  obtain ⟨h1, h2, h3⟩ := hp
  have hxmem : x ∈ L.take n := List.mem_of_getLast? hx
  conv => lhs; rw [hsplit]
  rw [List.filter_append]
  have ha : (L.take n).filter (fun c => x < c) = [] := by
    rw [List.filter_eq_nil_iff]
    intro c hc
    simp only [decide_eq_true_eq]
    -- c ≤ x because x is the last element of a sorted list
    obtain ⟨l', hl'⟩ : ∃ l', L.take n = l' ++ [x] := by
      have := List.getLast?_eq_some_iff.mp hx
      exact this
    rw [hl'] at hc h1
    rcases List.mem_append.mp hc with m | m
    · exact klt_asymm ((List.pairwise_append.mp h1).2.2 c m x (by simp))
    · simp at m; subst m; exact klt_irrefl _
  have hb : (L.drop n).filter (fun c => x < c) = L.drop n := by
    rw [List.filter_eq_self]
    intro c hc
    simpa using h3 x hxmem c hc
  rw [ha, hb]; rfl

/-- the unlimited page strictly after a non-empty `x` that belongs to the page after `after` -/
theorem spec0_after_member (keys : List Key) (p after x : Key) (hx : x ∈ spec0 keys p after) (hne : x ≠ []) :
    spec0 keys p x = (spec0 keys p after).filter (fun c => x < c) := by
  unfold spec0 at hx ⊢
  simp only [hne, if_false]
  split
  · rfl
  · rename_i ha
    simp only [ha, if_false] at hx
    rw [List.filter_filter]
    apply List.filter_congr
    intro c _
    have hax : after < x := by simpa using (List.mem_filter.mp hx).2
    by_cases h : x < c
    · simp [h, klt_trans hax h]
    · simp [h]

theorem pageAll_spec (keys : List Key) (p : Key) (limit : Int) (hl : limit ≥ 1)
    (hne : ([] : Key) ∉ children keys p) (fuel : Nat) (after : Key)
    (hfuel : (spec0 keys p after).length < fuel) :
    pageAll (fun a => listPage keys p a limit) fuel after = some (spec0 keys p after) := by
  induction fuel generalizing after with
  | zero => omega
  | succ f ih =>
    unfold pageAll
    have hpage : listPage keys p after limit = (spec0 keys p after).take limit.toNat := by
      rw [listPage_eq, if_pos (by omega)]
    simp only [hpage]
    cases hlast : ((spec0 keys p after).take limit.toNat).getLast? with
    | none =>
      have : (spec0 keys p after).take limit.toNat = [] := List.getLast?_eq_none_iff.mp hlast
      have hnil : spec0 keys p after = [] := by
        cases h : spec0 keys p after with
        | nil => rfl
        | cons a as =>
          rw [h] at this
          have : limit.toNat = 0 := by
            cases hn : limit.toNat with
            | zero => rfl
            | succ m => rw [hn] at this; simp at this
          omega
      simp [hnil]
    | some x =>
      simp only
      have hxmem : x ∈ spec0 keys p after := List.mem_of_mem_take (List.mem_of_getLast? hlast)
      have hxne : x ≠ [] := by
        intro e; subst e
        apply hne
        have := (mem_spec0.mp hxmem).1
        exact children_mem'.mpr this
      have hrest : spec0 keys p x = (spec0 keys p after).drop limit.toNat := by
        rw [spec0_after_member keys p after x hxmem hxne]
        exact filter_gt_last_take _ (spec0_sorted ..) _ x hlast
      have hlen : (spec0 keys p x).length < f := by
        rw [hrest, List.length_drop]
        have hpos : 0 < (spec0 keys p after).length := List.length_pos_of_mem hxmem
        have : limit.toNat ≥ 1 := by omega
        omega
      rw [ih x hlen, hrest]
      simp

end Obao.Listing
