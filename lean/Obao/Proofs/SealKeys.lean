import Obao.Model.SealKeys
/-! Helper lemmas for C10: the consistency invariant of the key hierarchy and its preservation by every barrier
operation (core Lean only). -/
namespace Obao.SealKeys

/-! ### association-list facts -/

theorem get_put_same (p : Phys) (k : Path) (e : PEntry) : (p.put k e).get k = some e := by
  simp [Phys.get, Phys.put]

theorem get_filter_ne (p : Phys) (k k' : Path) (h : k' ≠ k) :
    Phys.get (p.filter (fun x => x.1 ≠ k)) k' = p.get k' := by
  induction p with
  | nil => rfl
  | cons x xs ih =>
    obtain ⟨a, b⟩ := x
    by_cases hak : a = k
    · subst hak
      have : (k' == a) = false := by simpa using h
      simp [List.filter, Phys.get, List.lookup, this] at ih ⊢
      exact ih
    · by_cases hk' : k' = a
      · subst hk'
        simp [List.filter, Phys.get, List.lookup, hak]
      · have : (k' == a) = false := by simpa using hk'
        simp [List.filter, Phys.get, List.lookup, hak, this] at ih ⊢
        exact ih

theorem get_filter_same (p : Phys) (k : Path) :
    Phys.get (p.filter (fun x => x.1 ≠ k)) k = none := by
  induction p with
  | nil => rfl
  | cons x xs ih =>
    obtain ⟨a, b⟩ := x
    by_cases hak : a = k
    · subst hak
      simp [List.filter, Phys.get] at ih ⊢
      exact ih
    · have : (k == a) = false := by simpa using (Ne.symm hak)
      simp [List.filter, Phys.get, List.lookup, hak, this] at ih ⊢
      exact ih

theorem get_put_other (p : Phys) (k k' : Path) (e : PEntry) (h : k' ≠ k) : (p.put k e).get k' = p.get k' := by
  have : (k' == k) = false := by simpa using h
  have h2 := get_filter_ne p k k' h
  simp only [Phys.get] at h2
  simp only [Phys.get, Phys.put, List.lookup, this]
  exact h2

theorem get_del_same (p : Phys) (k : Path) : (p.del k).get k = none := get_filter_same p k
theorem get_del_other (p : Phys) (k k' : Path) (h : k' ≠ k) : (p.del k).get k' = p.get k' := get_filter_ne p k k' h

theorem get_put (p : Phys) (k k' : Path) (e : PEntry) :
    (p.put k e).get k' = if k' = k then some e else p.get k' := by
  by_cases h : k' = k
  · subst h; simp [get_put_same]
  · simp [h, get_put_other]

theorem get_del (p : Phys) (k k' : Path) : (p.del k).get k' = if k' = k then none else p.get k' := by
  by_cases h : k' = k
  · subst h; simp [get_del_same]
  · simp [h, get_del_other]

theorem sh_lookup_put (s : List (String × String)) (k k' v : String) :
    (shadowPut s k v).lookup k' = if k' = k then some v else s.lookup k' := by
  by_cases h : k' = k
  · subst h; simp [shadowPut, List.lookup]
  · have hb : (k' == k) = false := by simpa using h
    simp only [shadowPut, List.lookup, hb, h, if_false]
    induction s with
    | nil => rfl
    | cons x xs ih =>
      obtain ⟨a, b⟩ := x
      by_cases hak : a = k
      · subst hak
        simp [List.filter, List.lookup, hb] at ih ⊢
        exact ih
      · by_cases hk' : k' = a
        · subst hk'; simp [List.filter, List.lookup, hak]
        · have : (k' == a) = false := by simpa using hk'
          simp [List.filter, List.lookup, hak, this] at ih ⊢
          exact ih

theorem sh_lookup_del (s : List (String × String)) (k k' : String) :
    (shadowDel s k).lookup k' = if k' = k then none else s.lookup k' := by
  induction s with
  | nil => simp [shadowDel]
  | cons x xs ih =>
    obtain ⟨a, b⟩ := x
    by_cases hak : a = k
    · subst hak
      by_cases hk' : k' = a
      · subst hk'; simp [shadowDel, List.filter] at ih ⊢; exact ih
      · have : (k' == a) = false := by simpa using hk'
        simp [shadowDel, List.filter, List.lookup, this, hk'] at ih ⊢
        exact ih
    · by_cases hk' : k' = a
      · subst hk'; simp [shadowDel, List.filter, List.lookup, hak]
      · have : (k' == a) = false := by simpa using hk'
        by_cases hkk : k' = k
        · subst hkk; simp [shadowDel, List.filter, List.lookup, hak, this] at ih ⊢; exact ih
        · simp [shadowDel, List.filter, List.lookup, hak, this, hkk] at ih ⊢; exact ih

/-! ### keyrings -/

/-- well-formed keyring: the active key exists, every key is usable by AES, every term is in `1..active` -/
def Keyring.WF (kr : Keyring) : Prop :=
  (∃ ak, kr.termKey kr.active = some ak) ∧
  (∀ t k, kr.termKey t = some k → k.aesOK = true ∧ t ≤ kr.active ∧ 1 ≤ t)

/-- `kr'` knows every term key of `kr` -/
def Keyring.Sub (kr kr' : Keyring) : Prop := ∀ t k, kr.termKey t = some k → kr'.termKey t = some k

theorem termKey_append_old {kr : Keyring} {t t' : Nat} {k k' : Key} (h : kr.termKey t = some k) :
    ({ kr with keys := kr.keys ++ [(t', k')], active := max kr.active t' } : Keyring).termKey t = some k := by
  simp only [Keyring.termKey] at h ⊢
  simp [List.lookup_append, h]

theorem termKey_append (kr : Keyring) (t t' a : Nat) (k' : Key) (h : kr.termKey t' = none) :
    ({ kr with keys := kr.keys ++ [(t', k')], active := a } : Keyring).termKey t =
      if t = t' then some k' else kr.termKey t := by
  simp only [Keyring.termKey] at h ⊢
  by_cases ht : t = t'
  · subst ht; simp [List.lookup_append, h, List.lookup_cons]
  · have : (t == t') = false := by simpa using ht
    simp [List.lookup_append, List.lookup_cons, this, ht]

theorem termKeyN_aesOK (n : Nat) : (termKeyN n).aesOK = true := by simp [termKeyN, Key.aesOK]

/-- adding the next term to a well-formed keyring -/
theorem addKey_next (kr : Keyring) (hwf : kr.WF) (k : Key) :
    kr.addKey (kr.active + 1) k = some { kr with keys := kr.keys ++ [(kr.active + 1, k)], active := kr.active + 1 } := by
  have hnone : kr.termKey (kr.active + 1) = none := by
    cases h : kr.termKey (kr.active + 1) with
    | none => rfl
    | some k0 => have := (hwf.2 _ _ h).2.1; omega
  simp [Keyring.addKey, hnone, Nat.max_eq_right (Nat.le_succ _)]

theorem wf_next (kr : Keyring) (hwf : kr.WF) (k : Key) (hk : k.aesOK = true) :
    ({ kr with keys := kr.keys ++ [(kr.active + 1, k)], active := kr.active + 1 } : Keyring).WF := by
  have hnone : kr.termKey (kr.active + 1) = none := by
    cases h : kr.termKey (kr.active + 1) with
    | none => rfl
    | some k0 => have := (hwf.2 _ _ h).2.1; omega
  constructor
  · exact ⟨k, by rw [termKey_append kr _ _ _ k hnone]; simp⟩
  · intro t k0 h
    rw [termKey_append kr _ _ _ k hnone] at h
    by_cases ht : t = kr.active + 1
    · simp [ht] at h; subst h; subst ht
      exact ⟨hk, Nat.le_refl _, by simp⟩
    · simp [ht] at h
      have := hwf.2 _ _ h
      exact ⟨this.1, by simp only; omega, this.2.2⟩

theorem sub_next (kr : Keyring) (hwf : kr.WF) (k : Key) :
    kr.Sub { kr with keys := kr.keys ++ [(kr.active + 1, k)], active := kr.active + 1 } := by
  intro t k0 h
  have hnone : kr.termKey (kr.active + 1) = none := by
    cases h' : kr.termKey (kr.active + 1) with
    | none => rfl
    | some k0 => have := (hwf.2 _ _ h').2.1; omega
  rw [termKey_append kr _ _ _ k hnone]
  by_cases ht : t = kr.active + 1
  · subst ht; rw [hnone] at h; cases h
  · simp [ht, h]

/-! ### the physical consistency invariant (the design's `Consistent`) -/

def DataAgree (p : Phys) (sh : List (String × String)) (k : String) : Prop :=
  match sh.lookup k with
  | none => p.get (.data k) = none
  | some v => ∃ t key, p.get (.data k) = some (.enc t key (.data k) (.val (.bytes v)))

/-- `PInv p sh rk KR`: the stored keyring is `KR`, encrypted under the root key `rk`; every other record is a
barrier record bound to its own path and encrypted under a term key of `KR`; the data records are exactly the
last values written (`sh`); the root-key entry and the upgrade entries have the expected shape. -/
structure PInv (p : Phys) (sh : List (String × String)) (rk : Key) (KR : Keyring) : Prop where
  kr : p.get .keyring = some (.enc 1 rk .keyring (.keyring KR))
  root : KR.root = rk
  rkOK : rk.aesOK = true
  wf : KR.WF
  dec : ∀ path e, path ≠ .keyring → path ≠ .stored → path ≠ .sealcfg → p.get path = some e →
          ∃ t k pl, e = .enc t k path pl ∧ KR.termKey t = some k
  data : ∀ k, DataAgree p sh k
  rootShape : ∃ t ak r, p.get .rootKey = some (.enc t ak .rootKey (.val (.keyrec 1 r)))
  ups : ∀ t e, p.get (.upgrade t) = some e →
          ∃ k k', e = .enc t k (.upgrade t) (.val (.keyrec (t + 1) k')) ∧ KR.termKey (t + 1) = some k'

/-- the root-key entry holds the CURRENT root key under the active term key (true between complete operations) -/
def Coherent (p : Phys) (rk : Key) (KR : Keyring) : Prop :=
  ∃ ak, KR.termKey KR.active = some ak ∧ p.get .rootKey = some (.enc KR.active ak .rootKey (.val (.keyrec 1 rk)))

theorem dataAgree_of_other (p p' : Phys) (sh : List (String × String)) (k : String)
    (h : p'.get (.data k) = p.get (.data k)) (hd : DataAgree p sh k) : DataAgree p' sh k := by
  unfold DataAgree at hd ⊢
  rw [h]; exact hd

/-- writing a non-data, non-keyring record that the stored keyring can open -/
theorem PInv.put_meta {p sh rk KR} (h : PInv p sh rk KR) (q : Path) (t : Nat) (k : Key) (pl : Payload)
    (hq : q ≠ .keyring) (hnd : ∀ s, q ≠ .data s) (hk : KR.termKey t = some k)
    (hroot : q = .rootKey → ∃ r, pl = .val (.keyrec 1 r))
    (hup : ∀ u, q = .upgrade u → t = u ∧ ∃ k', pl = .val (.keyrec (u + 1) k') ∧ KR.termKey (u + 1) = some k') :
    PInv (p.put q (.enc t k q pl)) sh rk KR where
  kr := by rw [get_put_other _ _ _ _ (Ne.symm hq)]; exact h.kr
  root := h.root
  rkOK := h.rkOK
  wf := h.wf
  dec := by
    intro path e hp hp2 hp3 he
    rw [get_put] at he
    by_cases hpq : path = q
    · subst hpq; simp at he; subst he; exact ⟨t, k, pl, rfl, hk⟩
    · simp [hpq] at he; exact h.dec path e hp hp2 hp3 he
  data := fun s => dataAgree_of_other p _ sh s (get_put_other _ _ _ _ (Ne.symm (hnd s))) (h.data s)
  rootShape := by
    by_cases hqr : q = .rootKey
    · obtain ⟨r, hr⟩ := hroot hqr
      subst hqr; subst hr
      exact ⟨t, k, r, get_put_same _ _ _⟩
    · obtain ⟨t0, ak, r, hr⟩ := h.rootShape
      exact ⟨t0, ak, r, by rw [get_put_other _ _ _ _ (Ne.symm hqr)]; exact hr⟩
  ups := by
    intro u e he
    rw [get_put] at he
    by_cases hqu : Path.upgrade u = q
    · simp [hqu] at he
      obtain ⟨htu, k', hpl, hk'⟩ := hup u hqu.symm
      subst he; subst htu; subst hpl
      exact ⟨k, k', by rw [hqu], hk'⟩
    · simp [hqu] at he; exact h.ups u e he

theorem PInv.del_meta {p sh rk KR} (h : PInv p sh rk KR) (q : Path)
    (hq : q ≠ .keyring) (hnd : ∀ s, q ≠ .data s) (hnr : q ≠ .rootKey) : PInv (p.del q) sh rk KR where
  kr := by rw [get_del_other _ _ _ (Ne.symm hq)]; exact h.kr
  root := h.root
  rkOK := h.rkOK
  wf := h.wf
  dec := by
    intro path e hp hp2 hp3 he
    rw [get_del] at he
    by_cases hpq : path = q
    · simp [hpq] at he
    · simp [hpq] at he; exact h.dec path e hp hp2 hp3 he
  data := fun s => dataAgree_of_other p _ sh s (get_del_other _ _ _ (Ne.symm (hnd s))) (h.data s)
  rootShape := by
    obtain ⟨t0, ak, r, hr⟩ := h.rootShape
    exact ⟨t0, ak, r, by rw [get_del_other _ _ _ (Ne.symm hnr)]; exact hr⟩
  ups := by
    intro u e he
    rw [get_del] at he
    by_cases hqu : Path.upgrade u = q
    · simp [hqu] at he
    · simp [hqu] at he; exact h.ups u e he

theorem PInv.put_data {p sh rk KR} (h : PInv p sh rk KR) (s v : String) (t : Nat) (k : Key)
    (hk : KR.termKey t = some k) :
    PInv (p.put (.data s) (.enc t k (.data s) (.val (.bytes v)))) (shadowPut sh s v) rk KR where
  kr := by rw [get_put_other _ _ _ _ (by simp)]; exact h.kr
  root := h.root
  rkOK := h.rkOK
  wf := h.wf
  dec := by
    intro path e hp hp2 hp3 he
    rw [get_put] at he
    by_cases hpq : path = .data s
    · subst hpq; simp at he; subst he; exact ⟨t, k, _, rfl, hk⟩
    · simp [hpq] at he; exact h.dec path e hp hp2 hp3 he
  data := by
    intro s'
    unfold DataAgree
    rw [sh_lookup_put, get_put]
    by_cases hs : s' = s
    · subst hs; simp
    · have : Path.data s' ≠ Path.data s := by simpa using hs
      simp only [hs, this, if_false]
      exact h.data s'
  rootShape := by
    obtain ⟨t0, ak, r, hr⟩ := h.rootShape
    exact ⟨t0, ak, r, by rw [get_put_other _ _ _ _ (by simp)]; exact hr⟩
  ups := by
    intro u e he
    rw [get_put_other _ _ _ _ (by simp)] at he
    exact h.ups u e he

theorem PInv.del_data {p sh rk KR} (h : PInv p sh rk KR) (s : String) :
    PInv (p.del (.data s)) (shadowDel sh s) rk KR where
  kr := by rw [get_del_other _ _ _ (by simp)]; exact h.kr
  root := h.root
  rkOK := h.rkOK
  wf := h.wf
  dec := by
    intro path e hp hp2 hp3 he
    rw [get_del] at he
    by_cases hpq : path = .data s
    · simp [hpq] at he
    · simp [hpq] at he; exact h.dec path e hp hp2 hp3 he
  data := by
    intro s'
    unfold DataAgree
    rw [sh_lookup_del, get_del]
    by_cases hs : s' = s
    · subst hs; simp
    · have : Path.data s' ≠ Path.data s := by simpa using hs
      simp only [hs, this, if_false]
      exact h.data s'
  rootShape := by
    obtain ⟨t0, ak, r, hr⟩ := h.rootShape
    exact ⟨t0, ak, r, by rw [get_del_other _ _ _ (by simp)]; exact hr⟩
  ups := by
    intro u e he
    rw [get_del_other _ _ _ (by simp)] at he
    exact h.ups u e he

/-- replacing the stored keyring by a larger one under a (possibly new) root key -/
theorem PInv.put_keyring {p sh rk KR} (h : PInv p sh rk KR) (rk' : Key) (KR' : Keyring)
    (hsub : KR.Sub KR') (hroot : KR'.root = rk') (hok : rk'.aesOK = true) (hwf : KR'.WF) :
    PInv (p.put .keyring (.enc 1 rk' .keyring (.keyring KR'))) sh rk' KR' where
  kr := get_put_same _ _ _
  root := hroot
  rkOK := hok
  wf := hwf
  dec := by
    intro path e hp hp2 hp3 he
    rw [get_put_other _ _ _ _ hp] at he
    obtain ⟨t, k, pl, he', hk⟩ := h.dec path e hp hp2 hp3 he
    exact ⟨t, k, pl, he', hsub _ _ hk⟩
  data := fun s => dataAgree_of_other p _ sh s (get_put_other _ _ _ _ (by simp)) (h.data s)
  rootShape := by
    obtain ⟨t0, ak, r, hr⟩ := h.rootShape
    exact ⟨t0, ak, r, by rw [get_put_other _ _ _ _ (by simp)]; exact hr⟩
  ups := by
    intro u e he
    rw [get_put_other _ _ _ _ (by simp)] at he
    obtain ⟨k, k', he', hk'⟩ := h.ups u e he
    exact ⟨k, k', he', hsub _ _ hk'⟩

/-! ### `persistNs`: the writes of `persist`, without the trailing legacy delete on a namespace barrier -/

/-- the tail of the writes of a successful `persistNs ns`: the legacy delete, unless `ns` -/
def legacyDel (ns : Bool) : List PWrite := if ns then [] else [.del .legacy]

/-- the store after `legacyDel ns` -/
def Phys.legTail (p : Phys) (ns : Bool) : Phys := if ns then p else p.del .legacy

theorem legacyDel_false : legacyDel false = [.del .legacy] := rfl
theorem legacyDel_true : legacyDel true = [] := rfl

theorem foldl_legacyDel (p : Phys) (ns : Bool) : List.foldl applyWrite p (legacyDel ns) = p.legTail ns := by
  cases ns <;> rfl

theorem applyWrites_legacyDel (p : Phys) (ns : Bool) : applyWrites p (legacyDel ns) = p.legTail ns :=
  foldl_legacyDel p ns

theorem persistNs_false (kr : Keyring) : persistNs false kr = persist kr := by
  simp [persistNs]

/-- `persistNs` by cases, in the shape of `persist` -/
theorem persistNs_eq (ns : Bool) (kr : Keyring) : persistNs ns kr =
    if !kr.root.aesOK then ([], .cipher) else
    match kr.termKey kr.active with
    | none => ([.put .keyring (.enc 1 kr.root .keyring (.keyring kr))], .panic)
    | some ak =>
      if !ak.aesOK then ([.put .keyring (.enc 1 kr.root .keyring (.keyring kr))], .cipher) else
      (.put .keyring (.enc 1 kr.root .keyring (.keyring kr)) ::
        .put .rootKey (.enc kr.active ak .rootKey (.val (.keyrec 1 kr.root))) :: legacyDel ns, .ok) := by
  unfold persistNs persist
  by_cases hr : kr.root.aesOK = true
  · cases hk : kr.termKey kr.active with
    | none => cases ns <;> simp [hr]
    | some ak =>
      by_cases hak : ak.aesOK = true
      · cases ns <;> simp [hr, hak, legacyDel]
      · cases ns <;> simp [hr, hak]
  · cases ns <;> simp [hr]

/-- the writes of `persistNs ns kr` are those of `persist kr`, the result is the same -/
theorem persistNs_snd (ns : Bool) (kr : Keyring) : (persistNs ns kr).2 = (persist kr).2 := by
  cases ns <;> simp [persistNs]

theorem mem_persistNs_fst (ns : Bool) (kr : Keyring) (w : PWrite) (hw : w ∈ (persistNs ns kr).1) :
    w ∈ (persist kr).1 := by
  cases ns
  · simpa [persistNs] using hw
  · simp only [persistNs] at hw
    exact (List.mem_filter.mp hw).1

theorem get_legTail_other (p : Phys) (ns : Bool) (q : Path) (hq : q ≠ .legacy) : (p.legTail ns).get q = p.get q := by
  cases ns
  · exact get_del_other _ _ _ hq
  · rfl

theorem PInv.legTail {p sh rk KR} (h : PInv p sh rk KR) (ns : Bool) : PInv (p.legTail ns) sh rk KR := by
  cases ns
  · exact h.del_meta .legacy (by simp) (by simp) (by simp)
  · exact h

theorem Coherent.legTail {p rk KR} (h : Coherent p rk KR) (ns : Bool) : Coherent (p.legTail ns) rk KR := by
  obtain ⟨ak, h1, h2⟩ := h
  exact ⟨ak, h1, by rw [get_legTail_other _ _ _ (by simp)]; exact h2⟩

/-! ### what consistency buys: a fresh barrier unseals with `rk` and reads every entry back -/

theorem unseal_ok {p sh rk KR} (h : PInv p sh rk KR) (ns : Bool) (fk : Key) (b : Barrier) (hs : b.sealed = true) :
    step ns p b fk (.unsealB rk) = { bar := { b with sealed := false, keyring := some KR }, res := .ok } := by
  simp [step, hs, h.kr, h.rkOK]

theorem get_readable {p sh rk KR} (h : PInv p sh rk KR) (ns : Bool) (fk : Key) (b : Barrier)
    (hs : b.sealed = false) (hk : b.keyring = some KR) (s : String) :
    (step ns p b fk (.get (.data s))).res =
      match sh.lookup s with
      | some v => .okPayload (.val (.bytes v))
      | none => .absent := by
  have hd := h.data s
  unfold DataAgree at hd
  cases hl : sh.lookup s with
  | none =>
    rw [hl] at hd
    simp [step, hs, readEntry, hd]
  | some v =>
    rw [hl] at hd
    obtain ⟨t, key, hg⟩ := hd
    obtain ⟨t', k', pl', he, hk'⟩ := h.dec (.data s) _ (by simp) (by simp) (by simp) hg
    cases he
    simp [step, hs, readEntry, hg, hk, hk']

end Obao.SealKeys
