import Obao.Proofs.GF256Shamir
import Obao.Proofs.GF256Secrecy
/-!
Lifting to whole secrets: sub-lists of the shares in any order (`combine_split`), and the below-threshold
statement for multi-byte secrets (`split_consistent`).
-/
namespace Obao.GF256

/-- well-formed coefficient table: one list of `k` bytes per secret byte -/
def CoeffsWF (k : Nat) (coeffs : List (List Nat)) : Prop := ∀ c ∈ coeffs, c.length = k ∧ Bytes c

theorem share_cons (s : Nat) (S : List Nat) (c : List Nat) (C : List (List Nat)) (x : Nat) :
    share (s :: S) (c :: C) x = evaluate (s :: c) x :: share S C x := rfl

theorem split_cons_eq_iff (s s' : Nat) (S S' xs : List Nat) (c c' : List Nat) (C C' : List (List Nat)) :
    split (s' :: S') xs (c' :: C') = split (s :: S) xs (c :: C) ↔
      xs.map (evaluate (s' :: c')) = xs.map (evaluate (s :: c)) ∧ split S' xs C' = split S xs C := by
  simp only [split_eq, List.map_inj_left, share_cons, List.cons.injEq]
  exact forall₂_and

/-- any sub-collection (no repetition, any order) of at least `t ≥ 2` shares of a split with threshold `t`
    combines to the secret -/
theorem combine_of_subset {secret xs : List Nat} {coeffs : List (List Nat)} {t : Nat} {parts : List (List Nat)}
    (hsec : Bytes secret) (hne : secret ≠ []) (ht2 : 2 ≤ t)
    (hclen : coeffs.length = secret.length) (hc : CoeffsWF (t - 1) coeffs)
    (hxs : Bytes xs)
    (hpn : parts.Nodup) (hsub : ∀ p ∈ parts, p ∈ split secret xs coeffs) (ht : t ≤ parts.length) :
    combine parts = .ok secret := by
  have hsub' : ∀ p ∈ parts, ∃ x ∈ xs, share secret coeffs x = p := by
    intro p hp
    have := hsub p hp
    rw [split_eq] at this
    exact List.mem_map.1 this
  have hparts : parts = (parts.map fun p => p.getD secret.length 0).map (share secret coeffs) := by
    rw [List.map_map]
    conv => lhs; rw [← List.map_id parts]
    refine List.map_congr_left fun p hp => ?_
    obtain ⟨x, _, rfl⟩ := hsub' p hp
    simp only [Function.comp, share_getD_last hclen, id]
  have hys : Bytes (parts.map fun p => p.getD secret.length 0) := by
    intro y hy
    obtain ⟨p, hp, rfl⟩ := List.mem_map.1 hy
    obtain ⟨x, hx, rfl⟩ := hsub' p hp
    rw [share_getD_last hclen]; exact hxs x hx
  have hnd : (parts.map fun p => p.getD secret.length 0).Nodup := by
    apply List.Nodup.of_map (share secret coeffs)
    rw [← hparts]; exact hpn
  rw [hparts]
  refine combine_shares (t := t) hsec hne hclen ?_ hys hnd (by simpa using ht) (by simp; omega)
  intro c hcm
  have := hc c hcm
  exact ⟨by omega, this.2⟩

/-- **below threshold, whole secrets**: the `k` shares of any split with `k` coefficients per byte (threshold
    `k + 1`) at distinct non-zero x-coordinates are produced, for *every* candidate secret of the same length,
    by exactly one well-formed coefficient table. -/
theorem split_consistent {xs : List Nat} (hxs : Bytes xs) (hnd : xs.Nodup) (hnz : ∀ x ∈ xs, x ≠ 0) :
    ∀ (secret' secret : List Nat) (coeffs : List (List Nat)),
      Bytes secret' → Bytes secret → secret'.length = secret.length →
      coeffs.length = secret.length → CoeffsWF xs.length coeffs →
      ∃! coeffs' : List (List Nat), coeffs'.length = secret'.length ∧ CoeffsWF xs.length coeffs' ∧
        split secret' xs coeffs' = split secret xs coeffs := by
  intro secret'
  induction secret' with
  | nil =>
    intro secret coeffs _ _ hl hcl _
    have hs : secret = [] := List.length_eq_zero_iff.1 hl.symm
    subst hs
    have hc : coeffs = [] := List.length_eq_zero_iff.1 hcl
    subst hc
    refine ⟨[], ⟨rfl, by intro c h; simp at h, rfl⟩, ?_⟩
    rintro C ⟨hC, _, _⟩
    exact List.length_eq_zero_iff.1 hC
  | cons s' S' ih =>
    intro secret coeffs hb' hb hl hcl hwf
    match secret, coeffs, hl, hcl with
    | s :: S, c :: C, hl, hcl =>
      have hs' : s' < 256 := hb' s' List.mem_cons_self
      have hs : s < 256 := hb s List.mem_cons_self
      have hbS' : Bytes S' := fun v hv => hb' v (List.mem_cons_of_mem _ hv)
      have hbS : Bytes S := fun v hv => hb v (List.mem_cons_of_mem _ hv)
      have hc := hwf c List.mem_cons_self
      have hwfC : CoeffsWF xs.length C := fun v hv => hwf v (List.mem_cons_of_mem _ hv)
      obtain ⟨C', ⟨hC'l, hC'wf, hC'eq⟩, hC'u⟩ :=
        ih S C hbS' hbS (by simpa using hl) (by simpa using hcl) hwfC
      have hys : Bytes (xs.map (evaluate (s :: c))) := by
        intro y hy
        obtain ⟨x, hx, rfl⟩ := List.mem_map.1 hy
        exact evaluate_lt (bytes_cons hs hc.2) (hxs x hx)
      obtain ⟨c', ⟨hc'l, hc'b, hc'eq⟩, hc'u⟩ :=
        existsUnique_coeffs_nat (s := s') hxs hnd hnz hys (by simp) hs'
      refine ⟨c' :: C', ⟨by simp [hC'l], ?_, ?_⟩, ?_⟩
      · intro v hv
        rcases List.mem_cons.1 hv with h | h
        · rw [h]; exact ⟨hc'l, hc'b⟩
        · exact hC'wf v h
      · exact (split_cons_eq_iff ..).2 ⟨hc'eq, hC'eq⟩
      · rintro D ⟨hDl, hDwf, hDeq⟩
        match D, hDl with
        | d :: D', hDl =>
          have hd := hDwf d List.mem_cons_self
          obtain ⟨e1, e2⟩ := (split_cons_eq_iff ..).1 hDeq
          have h1 : d = c' := hc'u d ⟨hd.1, hd.2, e1⟩
          have h2 : D' = C' := hC'u D' ⟨by simpa using hDl,
            fun v hv => hDwf v (List.mem_cons_of_mem _ hv), e2⟩
          rw [h1, h2]

end Obao.GF256
