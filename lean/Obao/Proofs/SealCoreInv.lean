import Obao.Proofs.SealCore
/-! C10, core level: the invariant `CInv` holds after every history of core operations. -/
namespace Obao.SealKeys

inductive CInv (c : CoreSt) : Prop
  | uninit (hp : c.phys = []) (hb : c.bar = {}) (hs : c.shadow = []) : CInv c
  | live (rk : Key) (KR : Keyring) (h : PInv c.phys c.shadow rk KR) (hc : Coherent c.phys rk KR)
      (hh : HInv c.phys c.cur rk) (si : SealedIff c.bar) (sub : SubK [rk] c.bar KR) (sy : SyncK c.bar KR)
      (sk : c.bar.sealed = false → c.sealKey = c.cur.skey) : CInv c

def ValidCoreOp : CoreOp → Prop
  | .boot n t => validCfg n t = true
  | _ => True

theorem rootKeyN_aesOK (n : Nat) : (rootKeyN n).aesOK = true := by simp [rootKeyN, Key.aesOK]

theorem HInv.frame {p ss rk} (hh : HInv p ss rk) (ws : List PWrite)
    (hf : ∀ w ∈ ws, w.path ≠ .stored ∧ w.path ≠ .sealcfg) : HInv (applyWrites p ws) ss rk where
  stored := by rw [applyWrites_frame ws p _ (fun w hw => (hf w hw).1)]; exact hh.stored
  cfg := by rw [applyWrites_frame ws p _ (fun w hw => (hf w hw).2)]; exact hh.cfg
  valid := hh.valid

theorem cinv_boot (c : CoreSt) (n t : Nat) (hv : validCfg n t = true) : CInv (c.exec (.boot n t)).1 := by
  have hr := rootKeyN_aesOK c.nextR
  have ht := termKeyN_aesOK c.nextT
  have htk : ({ root := rootKeyN c.nextR, keys := [(1, termKeyN c.nextT)], active := 1 } : Keyring).termKey 1
      = some (termKeyN c.nextT) := by simp [Keyring.termKey]
  obtain ⟨hp, hc⟩ := pinv_fresh (rootKeyN c.nextR) (termKeyN c.nextT) hr ht
  have hp2 := hp.del_meta .legacy (by simp) (by simp) (by simp)
  have hc2 := hc.del_other .legacy (by simp)
  have hp3 := hp2.put_meta .kek 1 (termKeyN c.nextT) (.val (.raw (sealKeyN c.nextS))) (by simp) (by simp) htk (by simp) (by simp)
  have hc3 := hc2.put_other .kek (.enc 1 (termKeyN c.nextT) .kek (.val (.raw (sealKeyN c.nextS)))) (by simp)
  have hp4 := hp3.put_plain .sealcfg (.sealcfg n t) (Or.inr rfl)
  have hc4 := hc3.put_other .sealcfg (.sealcfg n t) (by simp)
  have hp5 := hp4.put_plain .stored (.stored (sealKeyN c.nextS) (rootKeyN c.nextR)) (Or.inl rfl)
  have hc5 := hc4.put_other .stored (.stored (sealKeyN c.nextS) (rootKeyN c.nextR)) (by simp)
  simp only [CoreSt.exec, persist, hr, htk, ht, applyWrites]
  simp only [Bool.not_true, Bool.false_eq_true, if_false, List.cons_append, List.nil_append, List.foldl_cons,
    List.foldl_nil, applyWrite]
  refine CInv.live _ _ hp5 hc5 ⟨get_put_same _ _ _, ?_, hv⟩ ?_ ?_ ?_ (fun _ => rfl)
  · show Phys.get _ .sealcfg = _
    rw [get_put_other _ _ _ _ (by simp)]; exact get_put_same _ _ _
  · simp [SealedIff]
  · have := subK_self (S := [rootKeyN c.nextR]) hp5.wf hp5.root (by simp) ({} : Barrier)
    intro kr hkr; simp at hkr; subst hkr; exact this _ (by simp)
  · intro kr hkr; simp at hkr; subst hkr; exact ⟨rfl, rfl⟩

theorem cinv_bootAuto (c : CoreSt) : CInv (c.exec .bootAuto).1 := by
  have hr := rootKeyN_aesOK c.nextR
  have ht := termKeyN_aesOK c.nextT
  have htk : ({ root := rootKeyN c.nextR, keys := [(1, termKeyN c.nextT)], active := 1 } : Keyring).termKey 1
      = some (termKeyN c.nextT) := by simp [Keyring.termKey]
  obtain ⟨hp, hc⟩ := pinv_fresh (rootKeyN c.nextR) (termKeyN c.nextT) hr ht
  have hp2 := hp.del_meta .legacy (by simp) (by simp) (by simp)
  have hc2 := hc.del_other .legacy (by simp)
  have hp4 := hp2.put_plain .sealcfg (.sealcfg 1 1) (Or.inr rfl)
  have hc4 := hc2.put_other .sealcfg (.sealcfg 1 1) (by simp)
  have hp5 := hp4.put_plain .stored (.stored (sealKeyN c.nextS) (rootKeyN c.nextR)) (Or.inl rfl)
  have hc5 := hc4.put_other .stored (.stored (sealKeyN c.nextS) (rootKeyN c.nextR)) (by simp)
  simp only [CoreSt.exec, persist, hr, htk, ht, applyWrites]
  simp only [Bool.not_true, Bool.false_eq_true, if_false, List.cons_append, List.nil_append, List.foldl_cons,
    List.foldl_nil, applyWrite]
  refine CInv.live _ _ hp5 hc5 ⟨get_put_same _ _ _, ?_, (by decide : validCfg 1 1 = true)⟩ ?_ ?_ ?_ (fun _ => rfl)
  · show Phys.get _ .sealcfg = _
    rw [get_put_other _ _ _ _ (by simp)]; exact get_put_same _ _ _
  · simp [SealedIff]
  · have := subK_self (S := [rootKeyN c.nextR]) hp5.wf hp5.root (by simp) ({} : Barrier)
    intro kr hkr; simp at hkr; subst hkr; exact this _ (by simp)
  · intro kr hkr; simp at hkr; subst hkr; exact ⟨rfl, rfl⟩

/-- the data operations of the core stream (straight through `c.barrier`) -/
theorem cinv_data (c : CoreSt) (op : Op) (hop : (∃ k v, op = .put k v) ∨ (∃ q, op = .get q) ∨ (∃ k, op = .del k))
    (hinv : CInv c) (fk : Key) :
    let e := step false c.phys c.bar fk op
    ∀ c' : CoreSt, c'.phys = applyWrites c.phys e.writes → c'.bar = e.bar → c'.shadow = updShadow c.shadow op e.res →
      c'.cur = c.cur → c'.sealKey = c.sealKey → CInv c' := by
  intro e c' h1 h2 h3 h4 h5
  have hop1 : op ≠ .rotate := by rcases hop with ⟨_, _, rfl⟩ | ⟨_, rfl⟩ | ⟨_, rfl⟩ <;> simp
  have hop2 : ∀ k, op ≠ .rotroot k := by rcases hop with ⟨_, _, rfl⟩ | ⟨_, rfl⟩ | ⟨_, rfl⟩ <;> simp
  have hop3 : ∀ k s, op ≠ .init k s := by rcases hop with ⟨_, _, rfl⟩ | ⟨_, rfl⟩ | ⟨_, rfl⟩ <;> simp
  have hk : opKeys op = [] := by rcases hop with ⟨_, _, rfl⟩ | ⟨_, rfl⟩ | ⟨_, rfl⟩ <;> rfl
  have hop4 : op ≠ .tick := by rcases hop with ⟨_, _, rfl⟩ | ⟨_, rfl⟩ | ⟨_, rfl⟩ <;> simp
  have hop5 : ∀ d, op ≠ .setrot d := by rcases hop with ⟨_, _, rfl⟩ | ⟨_, rfl⟩ | ⟨_, rfl⟩ <;> simp
  have hheat : op ≠ .heat := by rcases hop with ⟨_, _, rfl⟩ | ⟨_, rfl⟩ | ⟨_, rfl⟩ <;> simp
  have hbar : e.bar.sealed = c.bar.sealed := by
    rcases hop with ⟨_, _, rfl⟩ | ⟨_, rfl⟩ | ⟨_, rfl⟩ <;> simp only [e, step] <;> (repeat' split) <;> rfl
  cases hinv with
  | uninit hp hb hs =>
    obtain ⟨g1, g2, g3⟩ := step_uninit false fk op hop3 hheat
    refine CInv.uninit ?_ ?_ ?_
    · rw [h1]; simp only [e, hp, hb, g2, applyWrites, List.foldl_nil]
    · rw [h2]; simp only [e, hp, hb, g1]
    · rw [h3]; simp only [e, hp, hb, hs, g3]
  | live rk KR h hc hh si sub sy sk =>
    obtain ⟨g1, g2, g3, g4, g5⟩ := step_generic false fk c.bar op h hc (by simp) si sub hop1 hop2 hop3 hop4 hop5
    rw [hk, List.append_nil] at g4
    refine CInv.live rk KR (by rw [h1, h3]; exact g1) (by rw [h1]; exact g2) ?_ (by rw [h2]; exact g3)
      (by rw [h2]; exact g4) (by rw [h2]; exact g5 sy) ?_
    · rw [h1, h4]; exact hh.frame _ (step_frame false c.phys c.bar fk op hop3)
    · intro hs
      rw [h5, h4]
      exact sk (by rw [h2, hbar] at hs; exact hs)

theorem cinv_rotate (c : CoreSt) (hinv : CInv c) : CInv (c.exec .rotate).1 := by
  simp only [CoreSt.exec]
  cases hinv with
  | uninit hp hb hs =>
    have : step false c.phys c.bar (termKeyN c.nextT) .rotate = { bar := {}, res := .sealed } := by
      rw [hb]; simp [step]
    rw [this]
    exact CInv.uninit (by simp [applyWrites, hp]) rfl hs
  | live rk KR h hc hh si sub sy sk =>
    obtain ⟨rk', KR', g1, g2, g3, g4, g5, g6, _⟩ :=
      step_rotate false (termKeyN c.nextT) c.bar h hc (by simp) si sub sy (termKeyN_aesOK _)
    have : rk' = rk := by simpa using g3
    subst this
    refine CInv.live rk' KR' g1 g2 ?_ g4 g5 g6 ?_
    · exact hh.frame _ (step_frame false c.phys c.bar _ .rotate (by simp))
    · intro hs
      apply sk
      by_cases hb : c.bar.sealed = true
      · exfalso
        have : (step false c.phys c.bar (termKeyN c.nextT) .rotate).bar.sealed = true := by simp [step, hb]
        simp only at hs
        rw [this] at hs; cases hs
      · simpa using hb

theorem cinv_tick (c : CoreSt) (hinv : CInv c) : CInv (c.exec .tick).1 := by
  simp only [CoreSt.exec]
  cases hinv with
  | uninit hp hb hs =>
    have : step false c.phys c.bar (termKeyN 0) .tick = { bar := {}, res := .ok } := by
      rw [hb]; simp [step]
    rw [this]
    exact CInv.uninit (by simp [applyWrites, hp]) rfl hs
  | live rk KR h hc hh si sub sy sk =>
    obtain ⟨rk', KR', g1, g2, g3, g4, g5, g6, _⟩ :=
      step_tick false (termKeyN 0) c.bar h hc (by simp) si sub sy
    have : rk' = rk := by simpa using g3
    subst this
    refine CInv.live rk' KR' g1 g2 ?_ g4 g5 g6 ?_
    · exact hh.frame _ (step_frame false c.phys c.bar _ .tick (by simp))
    · intro hs
      apply sk
      by_cases hb : c.bar.sealed = true
      · exfalso
        have : (step false c.phys c.bar (termKeyN 0) .tick).bar.sealed = true := by
          simp only [step]; repeat' split
          all_goals simp_all
        simp only at hs
        rw [this] at hs; cases hs
      · simpa using hb

/-- everything `performBarrierRekey` / `RotateBarrierRootKey` leave behind when they complete -/
theorem pinv_reroot {p sh rk KR} (h : PInv p sh rk KR) (kr : Keyring) (hk : kr.keys = KR.keys) (ha : kr.active = KR.active)
    (nr : Key) (hnr : nr.aesOK = true) (sk : Key) :
    ∃ ak, kr.termKey kr.active = some ak ∧ ak.aesOK = true ∧
      let nkr : Keyring := { kr with root := nr }
      let p' := applyWrites (p.put .stored (.stored sk nr)) (persistWs nkr ak)
      PInv p' sh nr nkr ∧ Coherent p' nr nkr ∧ p'.get .stored = some (.stored sk nr) ∧
      (∀ q, q ≠ .stored → q ≠ .keyring → q ≠ .rootKey → q ≠ .legacy → p'.get q = p.get q) := by
  have krwf : kr.WF := WF_congr hk ha h.wf
  obtain ⟨ak, hak⟩ := krwf.1
  have hakok : ak.aesOK = true := (krwf.2 _ _ hak).1
  refine ⟨ak, hak, hakok, ?_⟩
  intro nkr p'
  have hsubK : KR.Sub nkr := by
    intro t k0 hk0
    rw [← termKey_congr hk] at hk0
    exact hk0
  have wf' : nkr.WF := WF_congr rfl rfl krwf
  have hak' : nkr.termKey nkr.active = some ak := hak
  have h0 := h.put_plain .stored (.stored sk nr) (Or.inl rfl)
  have h1 := h0.put_keyring nr nkr hsubK rfl hnr wf'
  have h2 := h1.put_meta .rootKey nkr.active ak (.val (.keyrec 1 nr)) (by simp) (by simp) hak'
    (fun _ => ⟨_, rfl⟩) (by intro u hu; cases hu)
  have h3 := h2.del_meta .legacy (by simp) (by simp) (by simp)
  refine ⟨by simpa [p', persistWs, applyWrites, applyWrite] using h3, ?_, ?_, ?_⟩
  · refine ⟨ak, hak', ?_⟩
    simp only [p', persistWs, applyWrites, List.foldl_cons, List.foldl_nil, applyWrite]
    rw [get_del_other _ _ _ (by simp), get_put_same]
  · simp only [p', persistWs, applyWrites, List.foldl_cons, List.foldl_nil, applyWrite]
    rw [get_del_other _ _ _ (by simp), get_put_other _ _ _ _ (by simp), get_put_other _ _ _ _ (by simp), get_put_same]
  · intro q q1 q2 q3 q4
    simp only [p', persistWs, applyWrites, List.foldl_cons, List.foldl_nil, applyWrite]
    rw [get_del_other _ _ _ q4, get_put_other _ _ _ _ q3, get_put_other _ _ _ _ q2, get_put_other _ _ _ _ q1]

theorem subK_reroot {rk KR} {b : Barrier} {kr : Keyring} (hkr : b.keyring = some kr) (sub : SubK [rk] b KR) (nr : Key) :
    SubK [nr] { b with keyring := some { kr with root := nr } } { kr with root := nr } := by
  obtain ⟨_, h2, h3, _⟩ := sub kr hkr
  intro kr' hkr'; simp at hkr'; subst hkr'
  exact ⟨fun _ _ x => x, h2, h3, by simp⟩


theorem recovers_lemma (c' : CoreSt) (k : Nat) (new : Bool) {p sh rk KR ss}
    (hp : applyWrites c'.base (c'.writes.take k) = p) (hss : (if new then c'.cur else c'.prev) = ss)
    (hsh : c'.shadow = sh) (h : PInv p sh rk KR) (hh : HInv p ss rk) : c'.recovers k new = true := by
  have hu := unsealWith_ok h hh
  have hr := readback_all h
  simp only [CoreSt.recovers, CoreSt.crash, hp, hss, hsh, hu, hr]
  simp
  intro a b _
  exact readEntry_data h a

theorem rekeyWrites_eq (kr : Keyring) (ak s r : Key) (n t : Nat) (hr : r.aesOK = true)
    (hak : kr.termKey kr.active = some ak) (hok : ak.aesOK = true) :
    rekeyWrites kr s r n t =
      ([PWrite.put .stored (.stored s r)] ++ persistWs { kr with root := r } ak ++
        [.put .kek (.enc kr.active ak .kek (.val (.raw s))), .put .sealcfg (.sealcfg n t)], .ok) := by
  have hak' : ({ kr with root := r } : Keyring).termKey ({ kr with root := r } : Keyring).active = some ak := hak
  simp [rekeyWrites, persist_eq { kr with root := r } ak hr hak' hok, hak']

theorem rotRootWrites_eq (kr : Keyring) (ak sk r : Key) (hr : r.aesOK = true)
    (hak : kr.termKey kr.active = some ak) (hok : ak.aesOK = true) :
    rotRootWrites kr sk r = (PWrite.put .stored (.stored sk r) :: persistWs { kr with root := r } ak, .ok) := by
  have hak' : ({ kr with root := r } : Keyring).termKey ({ kr with root := r } : Keyring).active = some ak := hak
  simp [rotRootWrites, persist_eq { kr with root := r } ak hr hak' hok]

theorem HInv.after_kek_cfg {p : Phys} {sk r : Key} (g3 : p.get .stored = some (.stored sk r)) (e : PEntry) (n t : Nat)
    (hv : validCfg n t = true) : HInv ((p.put .kek e).put .sealcfg (.sealcfg n t)) ⟨sk, n, t⟩ r :=
  ⟨by rw [get_put_other _ _ _ _ (by simp), get_put_other _ _ _ _ (by simp)]; exact g3, get_put_same _ _ _, hv⟩

/-- a completed rekey: the invariant holds again, and the bookkeeping the crash reports rely on -/
theorem cinv_rekey (c : CoreSt) (hinv : CInv c) (n t : Nat) :
    CInv (c.exec (.rekey n t)).1 ∧
    ((∃ m, (c.exec (.rekey n t)).2 = .okN m) →
      (∃ rk KR, PInv c.phys c.shadow rk KR ∧ HInv c.phys c.cur rk) ∧
      (c.exec (.rekey n t)).1.base = c.phys ∧ (c.exec (.rekey n t)).1.prev = c.cur ∧
      (c.exec (.rekey n t)).1.shadow = c.shadow ∧
      (c.exec (.rekey n t)).1.phys = applyWrites (c.exec (.rekey n t)).1.base (c.exec (.rekey n t)).1.writes ∧
      (∃ rk' KR', PInv (c.exec (.rekey n t)).1.phys (c.exec (.rekey n t)).1.shadow rk' KR' ∧
        HInv (c.exec (.rekey n t)).1.phys (c.exec (.rekey n t)).1.cur rk')) := by
  simp only [CoreSt.exec]
  by_cases hv : validCfg n t = true
  · cases hinv with
    | uninit hp hb hs =>
      have h1 : c.bar.sealed = true := by rw [hb]
      simp [hv, h1]
      exact CInv.uninit hp hb hs
    | live rk KR h hc hh si sub sy sk =>
      by_cases hs : c.bar.sealed = true
      · simp [hv, hs]
        exact CInv.live rk KR h hc hh si sub sy sk
      · obtain ⟨kr, hkr⟩ := unsealed_has_keyring si hs
        have hs' : c.bar.sealed = false := by simpa using hs
        obtain ⟨hk, ha⟩ := sy kr hkr
        obtain ⟨ak, hak, hakok, g⟩ := pinv_reroot h kr hk ha (rootKeyN c.nextR) (rootKeyN_aesOK _) (sealKeyN c.nextS)
        obtain ⟨g1, g2, g3, g4⟩ := g
        have hakKR : KR.termKey kr.active = some ak := by rw [← termKey_congr hk]; exact hak
        simp only [hv, hs', hkr, rekeyWrites_eq kr ak _ _ n t (rootKeyN_aesOK _) hak hakok]
        simp only [Bool.not_true, Bool.false_eq_true, if_false, applyWrites, List.foldl_append, List.foldl_cons,
          List.foldl_nil, applyWrite]
        simp only [applyWrites, applyWrite] at g1 g2 g3 g4
        have hk1 := g1.put_meta .kek kr.active ak (.val (.raw (sealKeyN c.nextS))) (by simp) (by simp) hak (by simp) (by simp)
        have hk2 := hk1.put_plain .sealcfg (.sealcfg n t) (Or.inr rfl)
        have hhn := HInv.after_kek_cfg g3 (.enc kr.active ak .kek (.val (.raw (sealKeyN c.nextS)))) n t hv
        refine ⟨?_, fun _ => ⟨⟨rk, KR, h, hh⟩, by trivial, by trivial, by trivial, by trivial, _, _, hk2, hhn⟩⟩
        refine CInv.live _ _ hk2 ((g2.put_other _ _ (by simp)).put_other _ _ (by simp)) hhn ?_
          (subK_reroot hkr sub _) ?_ (fun _ => rfl)
        · simp [SealedIff] <;> exact hs'
        · intro kr' hkr'; simp at hkr'; subst hkr'; exact ⟨rfl, rfl⟩
  · simp [hv]
    exact hinv

theorem cinv_rotroot (c : CoreSt) (hinv : CInv c) :
    CInv (c.exec .rotroot).1 ∧
    ((∃ m, (c.exec .rotroot).2 = .okN m) →
      (∃ rk KR, PInv c.phys c.shadow rk KR ∧ HInv c.phys c.cur rk) ∧
      (c.exec .rotroot).1.base = c.phys ∧ (c.exec .rotroot).1.cur = c.cur ∧ (c.exec .rotroot).1.shadow = c.shadow ∧
      (c.exec .rotroot).1.phys = applyWrites (c.exec .rotroot).1.base (c.exec .rotroot).1.writes ∧
      (∃ rk' KR', PInv (c.exec .rotroot).1.phys (c.exec .rotroot).1.shadow rk' KR' ∧
        HInv (c.exec .rotroot).1.phys (c.exec .rotroot).1.cur rk')) := by
  simp only [CoreSt.exec]
  cases hinv with
  | uninit hp hb hs =>
    have h1 : c.bar.sealed = true := by rw [hb]
    simp [h1]
    exact CInv.uninit hp hb hs
  | live rk KR h hc hh si sub sy sk =>
    by_cases hs : c.bar.sealed = true
    · simp [hs]
      exact CInv.live rk KR h hc hh si sub sy sk
    · obtain ⟨kr, hkr⟩ := unsealed_has_keyring si hs
      have hs' : c.bar.sealed = false := by simpa using hs
      obtain ⟨hk, ha⟩ := sy kr hkr
      obtain ⟨ak, hak, hakok, g⟩ := pinv_reroot h kr hk ha (rootKeyN c.nextR) (rootKeyN_aesOK _) c.sealKey
      obtain ⟨g1, g2, g3, g4⟩ := g
      simp only [hs', hkr, rotRootWrites_eq kr ak _ _ (rootKeyN_aesOK _) hak hakok]
      simp only [applyWrites, List.foldl_cons, applyWrite]
      simp only [applyWrites, applyWrite] at g1 g2 g3 g4
      have hhn : HInv _ c.cur (rootKeyN c.nextR) :=
        ⟨by rw [← sk hs']; exact g3, by rw [g4 _ (by simp) (by simp) (by simp) (by simp)]; exact hh.cfg, hh.valid⟩
      refine ⟨?_, fun _ => ⟨⟨rk, KR, h, hh⟩, by trivial, by trivial, by trivial, by trivial, _, _, g1, hhn⟩⟩
      refine CInv.live _ _ g1 g2 hhn ?_ (subK_reroot hkr sub _) ?_ (fun _ => sk hs')
      · simp [SealedIff] <;> exact hs'
      · intro kr' hkr'; simp at hkr'; subst hkr'; exact ⟨rfl, rfl⟩

theorem cinv_exec (c : CoreSt) (hinv : CInv c) (op : CoreOp) (hv : ValidCoreOp op) : CInv (c.exec op).1 := by
  cases op with
  | boot n t => exact cinv_boot c n t hv
  | bootAuto => exact cinv_bootAuto c
  | put k v =>
    exact cinv_data c (.put k v) (Or.inl ⟨k, v, rfl⟩) hinv (termKeyN 0) _ rfl rfl rfl rfl rfl
  | get k =>
    simp only [CoreSt.exec]; exact hinv
  | del k =>
    exact cinv_data c (.del k) (Or.inr (Or.inr ⟨k, rfl⟩)) hinv (termKeyN 0) _ rfl rfl rfl rfl rfl
  | rotate => exact cinv_rotate c hinv
  | tick => exact cinv_tick c hinv
  | rekey n t => exact (cinv_rekey c hinv n t).1
  | rotroot => exact (cinv_rotroot c hinv).1
  | rekeyFail n t =>
    simp only [CoreSt.exec]
    split
    · exact hinv
    · split
      · cases hinv with
        | uninit hp hb hs => exact CInv.uninit hp hb hs
        | live rk KR h hc hh si sub sy sk => exact CInv.live rk KR h hc hh si sub sy sk
      · exact hinv
  | sealC =>
    simp only [CoreSt.exec]
    cases hinv with
    | uninit hp hb hs => exact CInv.uninit hp (by simp [hb]) hs
    | live rk KR h hc hh si sub sy sk =>
      refine CInv.live rk KR h hc hh (by simp [SealedIff]) ?_ ?_ (by simp)
      · intro kr hkr; simp at hkr
      · intro kr hkr; simp at hkr
  | unsealC new =>
    simp only [CoreSt.exec]
    by_cases hs : c.bar.sealed = true
    · cases hinv with
      | uninit hp hb hsh =>
        have : unsealWith c.phys (if new = true then c.cur else c.prev) = (.notInit, none) := by
          rw [hp]; rfl
        simp [hs, this]
        exact CInv.uninit hp hb hsh
      | live rk KR h hc hh si sub sy sk =>
        simp only [hs, Bool.not_true, Bool.false_eq_true, if_false]
        split
        · rename_i kr hu
          have := unsealWith_keyring h _ _ hu
          cases this
          refine CInv.live rk KR h hc hh (by simp [SealedIff]) ?_ ?_ ?_
          · have := subK_self (S := [rk]) h.wf h.root (by simp) c.bar
            intro kr' hkr'; simp at hkr'; subst hkr'; exact this _ (by simp)
          · intro kr' hkr'; simp at hkr'; subst hkr'; exact ⟨rfl, rfl⟩
          · intro _; simp [hh.stored]
        · exact CInv.live rk KR h hc hh si sub sy sk
    · simp [hs]; exact hinv

def ValidCoreHist : List CoreOp → Prop
  | [] => True
  | op :: rest => ValidCoreOp op ∧ ValidCoreHist rest

theorem cinv_run (c : CoreSt) (hinv : CInv c) (ops : List CoreOp) (hv : ValidCoreHist ops) : CInv (c.run ops) := by
  induction ops generalizing c with
  | nil => exact hinv
  | cons op rest ih => exact ih _ (cinv_exec c hinv op hv.1) hv.2

theorem cinv_init : CInv {} := CInv.uninit rfl rfl rfl

end Obao.SealKeys
