import Obao.Proofs.SpecLemmas
import Obao.Model.Listing
/-! The canonical single ordered pass (`canon`) that the inmem walk and the raft cursor loop both reduce to, and its
specification: on a non-decreasing entry list it produces the strictly ascending, duplicate-free list of the
entries that pass the `after` filter, cut at `limit`. Core Lean only. -/
namespace Obao.Listing
open Obao.KV

/-- the `after` filter every implementation applies to an entry -/
def skip (after e : Key) : Prop := after ≠ [] ∧ e ≤ after

instance (after e : Key) : Decidable (skip after e) := by unfold skip; infer_instance

theorem not_skip_iff {after e : Key} : ¬ skip after e ↔ (after = [] ∨ after < e) := by
  unfold skip
  constructor
  · intro h
    by_cases ha : after = []
    · exact .inl ha
    · exact .inr (knot_le.mp (fun hle => h ⟨ha, hle⟩))
  · rintro (h | h) ⟨h1, h2⟩
    · exact h1 h
    · exact knot_le.mpr h h2

/-- canonical pass; `out` reversed -/
def canon (after : Key) (limit : Int) : List Key → List Key → List Key
  | [], out => out
  | e :: rest, out =>
    if limit > 0 ∧ (out.length : Int) ≥ limit then out
    else if skip after e then canon after limit rest out
    else if out.head? = some e then canon after limit rest out
    else canon after limit rest (e :: out)

/-- `out` strictly descending: its head is its maximum -/
def Desc (out : List Key) : Prop := out.Pairwise (fun a b => b < a)

theorem Desc.le_head {out : List Key} (h : Desc out) {t : Key} (ht : t ∈ out) : ∃ hd, out.head? = some hd ∧ t ≤ hd := by
  cases out with
  | nil => simp at ht
  | cons hd tl =>
    refine ⟨hd, rfl, ?_⟩
    rcases List.mem_cons.mp ht with e | m
    · subst e; exact kle_refl _
    · exact kle_of_lt ((List.pairwise_cons.mp h).1 t m)

theorem desc_reverse_sorted {out : List Key} (h : Desc out) : Sorted out.reverse := by
  unfold Sorted
  rw [List.pairwise_reverse]
  exact h

theorem canon_suffix (after : Key) (limit : Int) (E out : List Key) : ∃ more, canon after limit E out = more ++ out := by
  induction E generalizing out with
  | nil => exact ⟨[], rfl⟩
  | cons e rest ih =>
    unfold canon
    split
    · exact ⟨[], rfl⟩
    · split
      · exact ih out
      · split
        · exact ih out
        · obtain ⟨m, hm⟩ := ih (e :: out)
          exact ⟨m ++ [e], by simp [hm]⟩

/-- with a non-positive limit the early exit never fires -/
theorem canon_nolimit_congr (after : Key) {l1 l2 : Int} (h1 : ¬ l1 > 0) (h2 : ¬ l2 > 0) (E out : List Key) :
    canon after l1 E out = canon after l2 E out := by
  induction E generalizing out with
  | nil => rfl
  | cons e rest ih =>
    unfold canon
    simp only [h1, h2, false_and, if_false]
    split
    · exact ih out
    · split
      · exact ih out
      · exact ih _

/-- a positive limit is a truncation of the unlimited pass -/
theorem canon_take (after : Key) (limit : Int) (hl : limit > 0) (E out : List Key) (ho : (out.length : Int) ≤ limit) :
    (canon after limit E out).reverse = ((canon after 0 E out).reverse).take limit.toNat := by
  induction E generalizing out with
  | nil =>
    simp only [canon]
    rw [List.take_of_length_le]
    simp; omega
  | cons e rest ih =>
    unfold canon
    by_cases hfull : (out.length : Int) ≥ limit
    · simp only [hl, hfull, and_self, if_true]
      have h0 : ¬ ((0 : Int) > 0 ∧ (out.length : Int) ≥ 0) := by omega
      simp only [h0, if_false]
      have : ∃ more, (if skip after e then canon after 0 rest out
              else if out.head? = some e then canon after 0 rest out else canon after 0 rest (e :: out)) = more ++ out := by
        split
        · exact canon_suffix ..
        · split
          · exact canon_suffix ..
          · obtain ⟨m, hm⟩ := canon_suffix after 0 rest (e :: out)
            exact ⟨m ++ [e], by simp [hm]⟩
      obtain ⟨more, hm⟩ := this
      rw [hm, List.reverse_append, List.take_append_of_le_length (by simp; omega)]
      rw [List.take_of_length_le (by simp; omega)]
    · have h0 : ¬ ((0 : Int) > 0 ∧ (out.length : Int) ≥ 0) := by omega
      have h1 : ¬ (limit > 0 ∧ (out.length : Int) ≥ limit) := fun h => hfull h.2
      simp only [h0, h1, if_false]
      split
      · exact ih out ho
      · split
        · exact ih out ho
        · exact ih (e :: out) (by simp; omega)

/-- specification of the unlimited canonical pass on a non-decreasing entry list -/
theorem canon0_spec (after : Key) (E : List Key) (hE : E.Pairwise (· ≤ ·)) (out : List Key) (hd : Desc out)
    (hle : ∀ x ∈ out, ∀ e ∈ E, x ≤ e) :
    Desc (canon after 0 E out) ∧
    ∀ x, x ∈ canon after 0 E out ↔ (x ∈ out ∨ (x ∈ E ∧ ¬ skip after x)) := by
  induction E generalizing out with
  | nil => exact ⟨hd, by simp [canon]⟩
  | cons e rest ih =>
    have hE' := List.pairwise_cons.mp hE
    have hle' : ∀ x ∈ out, ∀ e' ∈ rest, x ≤ e' := fun x hx e' he' => hle x hx e' (List.mem_cons_of_mem _ he')
    unfold canon
    have h0 : ¬ ((0 : Int) > 0 ∧ (out.length : Int) ≥ 0) := by omega
    simp only [h0, if_false]
    split
    · rename_i hs
      obtain ⟨d, m⟩ := ih hE'.2 out hd hle'
      refine ⟨d, fun x => ?_⟩
      rw [m x]
      constructor
      · rintro (h | ⟨h1, h2⟩)
        · exact .inl h
        · exact .inr ⟨List.mem_cons_of_mem _ h1, h2⟩
      · rintro (h | ⟨h1, h2⟩)
        · exact .inl h
        · rcases List.mem_cons.mp h1 with e1 | h1
          · subst e1; exact absurd hs h2
          · exact .inr ⟨h1, h2⟩
    · rename_i hs
      split
      · rename_i hh
        have he_out : e ∈ out := List.mem_of_mem_head? hh
        obtain ⟨d, m⟩ := ih hE'.2 out hd hle'
        refine ⟨d, fun x => ?_⟩
        rw [m x]
        constructor
        · rintro (h | ⟨h1, h2⟩)
          · exact .inl h
          · exact .inr ⟨List.mem_cons_of_mem _ h1, h2⟩
        · rintro (h | ⟨h1, h2⟩)
          · exact .inl h
          · rcases List.mem_cons.mp h1 with e1 | h1
            · subst e1; exact .inl he_out
            · exact .inr ⟨h1, h2⟩
      · rename_i hh
        -- e is strictly above everything emitted so far
        have hlt : ∀ x ∈ out, x < e := by
          intro x hx
          have hxe := hle x hx e (List.mem_cons_self ..)
          rcases kle_iff_lt_or_eq.mp hxe with h | h
          · exact h
          · subst h
            obtain ⟨hd', hh', hle2⟩ := hd.le_head hx
            have : hd' = x := kle_antisymm (hle hd' (List.mem_of_mem_head? hh') x (List.mem_cons_self ..)) hle2
            subst this
            exact absurd hh' hh
        have hd2 : Desc (e :: out) := List.pairwise_cons.mpr ⟨hlt, hd⟩
        have hle2 : ∀ x ∈ e :: out, ∀ e' ∈ rest, x ≤ e' := by
          intro x hx e' he'
          rcases List.mem_cons.mp hx with e1 | hx
          · subst e1; exact hE'.1 e' he'
          · exact hle' x hx e' he'
        obtain ⟨d, m⟩ := ih hE'.2 (e :: out) hd2 hle2
        refine ⟨d, fun x => ?_⟩
        rw [m x]
        constructor
        · rintro (h | ⟨h1, h2⟩)
          · rcases List.mem_cons.mp h with e1 | h
            · subst e1; exact .inr ⟨List.mem_cons_self .., hs⟩
            · exact .inl h
          · exact .inr ⟨List.mem_cons_of_mem _ h1, h2⟩
        · rintro (h | ⟨h1, h2⟩)
          · exact .inl (List.mem_cons_of_mem _ h)
          · rcases List.mem_cons.mp h1 with e1 | h1
            · subst e1; exact .inl (List.mem_cons_self ..)
            · exact .inr ⟨h1, h2⟩

/-- the unlimited page of the specification -/
def spec0 (keys : List Key) (p after : Key) : List Key :=
  if after = [] then children keys p else (children keys p).filter (fun c => after < c)

theorem listPage_eq (keys : List Key) (p after : Key) (limit : Int) :
    listPage keys p after limit = if limit > 0 then (spec0 keys p after).take limit.toNat else spec0 keys p after := by
  unfold listPage spec0; rfl

theorem spec0_sorted (keys : List Key) (p after : Key) : Sorted (spec0 keys p after) := by
  unfold spec0; split
  · exact children_sorted' keys p
  · exact sorted_filter _ (children_sorted' keys p)

theorem mem_spec0 {keys : List Key} {p after x : Key} :
    x ∈ spec0 keys p after ↔ (∃ k ∈ keys, hasPrefix p k = true ∧ child p k = x) ∧ ¬ skip after x := by
  unfold spec0
  split
  · rename_i h
    rw [children_mem', not_skip_iff]; simp [h]
  · rename_i h
    rw [List.mem_filter, children_mem', not_skip_iff]; simp [h]

/-- the canonical pass over the children of the keys with prefix `p` (in key order) is the specified page -/
theorem canon_children_eq_listPage (ks : List Key) (p after : Key) (limit : Int) (keys : List Key)
    (hks : Sorted ks) (hp : ∀ k ∈ ks, hasPrefix p k = true)
    (hsub : ∀ k ∈ ks, k ∈ keys)
    (hcov : ∀ k ∈ keys, hasPrefix p k = true → ¬ skip after (child p k) → k ∈ ks) :
    (canon after limit (ks.map (child p)) []).reverse = listPage keys p after limit := by
  have hE : (ks.map (child p)).Pairwise (· ≤ ·) := by
    rw [List.pairwise_map]
    exact List.Pairwise.imp_of_mem (fun {a b} ha hb hab => child_mono (hp a ha) (hp b hb) hab) hks
  have base : (canon after 0 (ks.map (child p)) []).reverse = spec0 keys p after := by
    obtain ⟨d, m⟩ := canon0_spec after _ hE [] (by simp [Desc]) (by simp)
    apply sorted_ext (desc_reverse_sorted d) (spec0_sorted ..)
    intro x
    rw [List.mem_reverse, m x, mem_spec0]
    simp only [List.not_mem_nil, false_or, List.mem_map]
    constructor
    · rintro ⟨⟨k, hk, rfl⟩, hs⟩
      exact ⟨⟨k, hsub k hk, hp k hk, rfl⟩, hs⟩
    · rintro ⟨⟨k, hk, hpk, rfl⟩, hs⟩
      exact ⟨⟨k, hcov k hk hpk hs, rfl⟩, hs⟩
  rw [listPage_eq]
  split
  · rename_i hl
    rw [canon_take after limit hl _ [] (by simp; omega), base]
  · rename_i hl
    rw [canon_nolimit_congr after hl (by omega : ¬ (0:Int) > 0), base]

end Obao.Listing
