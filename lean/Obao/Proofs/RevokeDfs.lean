import Obao.Proofs.RevokeInv
/-!
The iterative DFS of `revokeTreeInternal`, sequential and fault-free: starting from a forest state it
terminates within `2 * next + 3` units of fuel, succeeds, and leaves every token reachable from the root of
the revocation purged (`Shrink`, `closed`).
-/
namespace Obao.Revoke

/-! ### list helpers -/

/-- the elements of `l` after the first occurrence of `y` -/
def after (l : List Nat) (y : Nat) : List Nat := (l.dropWhile (· != y)).drop 1

theorem after_append_mem {l : List Nat} {y : Nat} (m : List Nat) (h : y ∈ l) : after (l ++ m) y = after l y ++ m := by
  induction l with
  | nil => cases h
  | cons a l ih =>
    by_cases ha : a = y
    · subst ha; simp [after, List.dropWhile]
    · have : y ∈ l := by
        rcases List.mem_cons.mp h with h | h
        · exact absurd h.symm ha
        · exact h
      have hne : (a != y) = true := by simp [ha]
      simp only [after, List.cons_append, List.dropWhile, hne] at ih ⊢
      exact ih this

theorem after_not_mem {l : List Nat} {y : Nat} (h : y ∉ l) : after l y = [] := by
  induction l with
  | nil => rfl
  | cons a l ih =>
    have ha : a ≠ y := fun h' => h (h' ▸ List.mem_cons_self ..)
    have hne : (a != y) = true := by simp [ha]
    simp only [after, List.dropWhile, hne]
    exact ih fun h' => h (List.mem_cons_of_mem _ h')

theorem after_snoc_self {l : List Nat} {y : Nat} (h : y ∉ l) : after (l ++ [y]) y = [] := by
  induction l with
  | nil => simp [after, List.dropWhile]
  | cons a l ih =>
    have ha : a ≠ y := fun h' => h (h' ▸ List.mem_cons_self ..)
    have hne : (a != y) = true := by simp [ha]
    simp only [after, List.cons_append, List.dropWhile, hne]
    exact ih fun h' => h (List.mem_cons_of_mem _ h')

theorem mem_of_mem_after {l : List Nat} {y z : Nat} (h : z ∈ after l y) : z ∈ l := by
  unfold after at h
  exact (List.dropWhile_sublist _).subset (List.mem_of_mem_drop h)

theorem sum_map_lt (n : Nat) (f g : Nat → Nat) (hle : ∀ x, x < n → g x ≤ f x) (x0 : Nat) (hx0 : x0 < n)
    (hlt : g x0 < f x0) : ((List.range n).map g).sum < ((List.range n).map f).sum := by
  induction n with
  | zero => cases hx0
  | succ n ih =>
    simp only [List.range_succ, List.map_append, List.sum_append, List.map_cons, List.map_nil, List.sum_cons,
      List.sum_nil, Nat.add_zero]
    by_cases h : x0 = n
    · subst h
      have : ((List.range x0).map g).sum ≤ ((List.range x0).map f).sum := by
        clear ih hlt hx0
        induction x0 with
        | zero => simp
        | succ m ihm =>
          simp only [List.range_succ, List.map_append, List.sum_append, List.map_cons, List.map_nil,
            List.sum_cons, List.sum_nil, Nat.add_zero]
          have := ihm (fun x hx => hle x (by omega))
          have := hle m (by omega)
          omega
      omega
    · have := ih (fun x hx => hle x (by omega)) (by omega)
      have := hle n (by omega)
      omega

theorem sum_map_le_two (n : Nat) (f : Nat → Nat) (h : ∀ x, f x ≤ 2) : ((List.range n).map f).sum ≤ 2 * n := by
  induction n with
  | zero => simp
  | succ n ih =>
    simp only [List.range_succ, List.map_append, List.sum_append, List.map_cons, List.map_nil, List.sum_cons,
      List.sum_nil, Nat.add_zero]
    have := h n
    omega

/-- potential of the DFS loop: 2 for an unseen token, 1 for a seen token still on the stack, 0 otherwise -/
def wt (stack seen : List Nat) (x : Nat) : Nat := if x ∈ seen then (if x ∈ stack then 1 else 0) else 2

def mu (stack seen : List Nat) (n : Nat) : Nat := ((List.range n).map (wt stack seen)).sum


/-- invariant of the DFS loop; `s` is the state before the revocation, `t` its root -/
structure LInv (s : St) (t : Nat) (stack seen : List Nat) (σ : St) : Prop where
  sh : Shrink s σ
  fi : FInv σ
  live : ∀ y ∈ stack, (σ.ids y).isSome
  nodup : stack.Nodup
  seenDead : ∀ y ∈ seen, y ∉ stack → σ.ids y = none
  order : ∀ y ∈ seen, ∀ z ∈ after stack y, y < z
  above : ∀ y ∈ seen, y ∈ stack → ∀ c, σ.par y c = true → c ∈ after stack y
  closed : ∀ y, (s.ids y).isSome → σ.ids y = none → ∀ c, s.par y c = true → σ.ids c = none
  parSeen : ∀ c ∈ stack, c ≠ t → ∃ y ∈ seen, y ∈ stack ∧ σ.par y c = true
  geT : ∀ y ∈ stack, t ≤ y
  bottom : stack.head? = some t

structure Post (s : St) (t : Nat) (σ : St) : Prop where
  sh : Shrink s σ
  fi : FInv σ
  gone : σ.ids t = none
  closed : ∀ y, (s.ids y).isSome → σ.ids y = none → ∀ c, s.par y c = true → σ.ids c = none

theorem nodup_insertBy (f : Nat → Nat) (x : Nat) (l : List Nat) (hx : x ∉ l) (hl : l.Nodup) :
    (insertBy f x l).Nodup := by
  induction l with
  | nil => simp [insertBy]
  | cons y ys ih =>
    simp only [insertBy]
    split
    · exact List.nodup_cons.mpr ⟨hx, hl⟩
    · have hy := List.nodup_cons.mp hl
      refine List.nodup_cons.mpr ⟨?_, ih (fun h => hx (List.mem_cons_of_mem _ h)) hy.2⟩
      intro hmem
      rcases (mem_insertBy f x y ys).mp hmem with h | h
      · exact hx (h ▸ List.mem_cons_self ..)
      · exact hy.1 h

theorem nodup_sortBy (f : Nat → Nat) (l : List Nat) (hl : l.Nodup) : (sortBy f l).Nodup := by
  induction l with
  | nil => simp [sortBy]
  | cons x xs ih =>
    have hx := List.nodup_cons.mp hl
    simp only [sortBy]
    exact nodup_insertBy f x _ (fun h => hx.1 ((mem_sortBy f x xs).mp h)) (ih hx.2)

theorem nodup_children (s : St) (p : Nat) : (s.children p).Nodup := by
  unfold St.children
  exact nodup_sortBy _ _ (List.Nodup.sublist List.filter_sublist List.nodup_range)


theorem dfs_loop (s : St) (t : Nat) : ∀ (m : Nat) (stack seen : List Nat) (σ : St) (F : Nat),
    LInv s t stack seen σ → stack ≠ [] → mu stack seen σ.next ≤ m → m + 3 ≤ F →
    ∃ σ', run (dfs F stack seen) σ = (.ok (), σ') ∧ Post s t σ' := by
  intro m
  induction m using Nat.strongRecOn with
  | ind m ih =>
  intro stack seen σ F hI hne hmu hF
  obtain ⟨F2, rfl⟩ : ∃ F2, F = F2 + 3 := ⟨F - 3, by omega⟩
  -- the top of the stack
  have hst : stack = stack.dropLast ++ [stack.getLast hne] := (List.dropLast_concat_getLast hne).symm
  generalize hinit : stack.dropLast = init at hst
  generalize htop : stack.getLast hne = top at hst
  have hlast : stack.getLast? = some top := by rw [List.getLast?_eq_some_getLast hne, htop]
  have hnd : (init ++ [top]).Nodup := hst ▸ hI.nodup
  have htop_init : top ∉ init := by
    intro h
    have := (List.nodup_append.mp hnd).2.2 top h top (by simp)
    exact this rfl
  have htop_mem : top ∈ stack := by rw [hst]; simp
  obtain ⟨e, he⟩ := Option.isSome_iff_exists.mp (hI.live top htop_mem)
  have htop_lt : top < σ.next := hI.fi.idsB top (by simp [he])
  -- no child of the top has been seen
  have hch : ∀ c ∈ σ.children top, c ∉ top :: seen := by
    intro c hc hmem
    obtain ⟨_, hpar⟩ := (mem_children σ top c).mp hc
    have hlt := (hI.fi.edge_lt top c hpar).1
    rcases List.mem_cons.mp hmem with h | h
    · omega
    · obtain ⟨ec, hec, _⟩ := hI.fi.edge_live top c hpar (by simp [he])
      by_cases hcs : c ∈ stack
      · have hci : c ∈ init := by
          rw [hst] at hcs
          rcases List.mem_append.mp hcs with h' | h'
          · exact h'
          · simp at h'; omega
        have : top ∈ after stack c := by
          rw [hst, after_append_mem _ hci]; simp
        have := hI.order c h top this
        omega
      · have := hI.seenDead c h hcs
        rw [this] at hec; cases hec
  have hfilt1 : (σ.children top).filter (fun c => (top :: seen).contains c) = [] := by
    rw [List.filter_eq_nil_iff]
    intro c hc
    have := hch c hc
    simpa using this
  have hfilt2 : (σ.children top).filter (fun c => !(top :: seen).contains c) = σ.children top := by
    rw [List.filter_eq_self]
    intro c hc
    have := hch c hc
    simpa using this
  unfold dfs
  simp only [hlast, bind_eq, pure_eq, run_bind, run_listPar, hfilt1, hfilt2, forM', run_ret]
  cases hkids : σ.children top with
  | nil =>
    -- leaf: revoke it, pop
    have hleaf : ∀ c, σ.par top c = false := by
      intro c
      cases hp : σ.par top c with
      | false => rfl
      | true =>
        have := (mem_children σ top c).mpr ⟨(hI.fi.edge_lt top c hp).2, hp⟩
        rw [hkids] at this; cases this
    have hok := hI.fi.tok top e he
    simp only [List.isEmpty_nil, if_true]
    have hdk : destroyKey top e = some (ckey top e) := by
      have := destroyKey_eq_routerKey top e (hI.fi.entryWf top e he)
      rw [this.1, this.2]
    rw [run_bind, run_revokeInternal_skip F2 top e σ he hok.pend hok.cache hok.tlc hdk]
    simp only
    have hsh' := purge1_shrink hI.sh hI.fi he
    have hfi' := purge1_finv hI.fi he
    have hclosed' : ∀ y, (s.ids y).isSome → (purge1 top e σ).ids y = none → ∀ c, s.par y c = true →
        (purge1 top e σ).ids c = none := by
      intro y hy hyn c hc
      simp only [purge1_ids] at hyn ⊢
      split
      · rfl
      · split at hyn
        · rename_i hyt
          subst hyt
          rcases hI.sh.edges2 y c hc with h | ⟨h, _⟩
          · rw [hleaf c] at h; cases h
          · exact h
        · exact hI.closed y hy hyn c hc
    by_cases hlen : stack.length = 1
    · -- the last token: done
      simp only [hlen, if_true, run_ret]
      refine ⟨_, rfl, hsh', hfi', ?_, hclosed'⟩
      have : stack = [t] := by
        match stack, hlen, hI.bottom with
        | [a], _, hb => simp at hb; rw [hb]
      rw [this] at hst
      have htt : top = t := by
        cases init with
        | nil => simp at hst; exact hst.symm
        | cons a l => simp at hst
      subst htt
      simp
    · simp only [hlen, if_false]
      rw [hinit]
      have hinit_ne : init ≠ [] := by
        intro h
        rw [h] at hst
        rw [hst] at hlen
        simp at hlen
      have hmem_init : ∀ y, y ∈ init → y ∈ stack ∧ y ≠ top := by
        intro y hy
        refine ⟨by rw [hst]; exact List.mem_append_left _ hy, ?_⟩
        intro h; subst h; exact htop_init hy
      have hmem_stack : ∀ y, y ∈ stack → y ≠ top → y ∈ init := by
        intro y hy hne'
        rw [hst] at hy
        rcases List.mem_append.mp hy with h | h
        · exact h
        · simp at h; exact absurd h hne'
      have hafter : ∀ y, y ∈ init → after stack y = after init y ++ [top] := by
        intro y hy; rw [hst]; exact after_append_mem _ hy
      have hI' : LInv s t init (top :: seen) (purge1 top e σ) := by
        refine ⟨hsh', hfi', ?_, (List.nodup_append.mp hnd).1, ?_, ?_, ?_, hclosed', ?_, ?_, ?_⟩
        · intro y hy
          obtain ⟨h1, h2⟩ := hmem_init y hy
          simp only [purge1_ids, h2, if_false]
          exact hI.live y h1
        · intro y hy hyn
          simp only [purge1_ids]
          split
          · rfl
          · rename_i hyt
            rcases List.mem_cons.mp hy with h | h
            · exact absurd h hyt
            · exact hI.seenDead y h (fun hs' => hyn (hmem_stack y hs' hyt))
        · intro y hy z hz
          rcases List.mem_cons.mp hy with h | h
          · subst h; rw [after_not_mem htop_init] at hz; cases hz
          · by_cases hyi : y ∈ init
            · exact hI.order y h z (by rw [hafter y hyi]; exact List.mem_append_left _ hz)
            · rw [after_not_mem hyi] at hz; cases hz
        · intro y hy hyi c hc
          obtain ⟨hys, hyt⟩ := hmem_init y hyi
          have hys' : y ∈ seen := by
            rcases List.mem_cons.mp hy with h | h
            · exact absurd h hyt
            · exact h
          simp only [purge1_par] at hc
          split at hc
          · cases hc
          · rename_i hne'
            have := hI.above y hys' hys c hc
            rw [hafter y hyi] at this
            rcases List.mem_append.mp this with h | h
            · exact h
            · simp at h
              subst h
              obtain ⟨e', he', hpe⟩ := hI.fi.edge_live y c hc (hI.live y hys)
              rw [he] at he'; cases he'
              exact absurd ⟨hpe.symm, rfl⟩ hne'
        · intro c hc hct
          obtain ⟨hcs, hctop⟩ := hmem_init c hc
          obtain ⟨y, hy1, hy2, hy3⟩ := hI.parSeen c hcs hct
          have hyt : y ≠ top := by
            intro h; subst h; rw [hleaf c] at hy3; cases hy3
          refine ⟨y, List.mem_cons_of_mem _ hy1, hmem_stack y hy2 hyt, ?_⟩
          simp only [purge1_par]
          split
          · rename_i hh; exact absurd hh.2 hctop
          · exact hy3
        · intro y hy; exact hI.geT y (hmem_init y hy).1
        · have hb := hI.bottom
          rw [hst] at hb
          cases init with
          | nil => exact absurd rfl hinit_ne
          | cons a l => simpa using hb
      have hdec : mu init (top :: seen) (purge1 top e σ).next < mu stack seen σ.next := by
        simp only [purge1_next, mu]
        refine sum_map_lt _ _ _ ?_ top htop_lt ?_
        · intro y _
          by_cases hyt : y = top
          · subst hyt
            simp only [wt, List.mem_cons, true_or, if_true, htop_init, if_false]
            split <;> simp [htop_mem]
          · have h1 : y ∈ top :: seen ↔ y ∈ seen := by simp [hyt]
            have h2 : y ∈ init ↔ y ∈ stack := ⟨fun h => (hmem_init y h).1, fun h => hmem_stack y h hyt⟩
            simp only [wt, h1, h2]
            exact Nat.le_refl _
        · simp only [wt, List.mem_cons, true_or, if_true, htop_init, if_false]
          split <;> simp [htop_mem]
      exact ih _ (by omega) init (top :: seen) _ (F2 + 2) hI' hinit_ne (Nat.le_refl _) (by omega)
  | cons c0 cs =>
    simp only [List.isEmpty_cons, Bool.false_eq_true, if_false]
    rw [← hkids]
    have hkpar : ∀ c, c ∈ σ.children top → σ.par top c = true ∧ top < c := by
      intro c hc
      have := ((mem_children σ top c).mp hc).2
      exact ⟨this, (hI.fi.edge_lt top c this).1⟩
    have hc0 : c0 ∈ σ.children top := by rw [hkids]; exact List.mem_cons_self ..
    have htop_seen : top ∉ seen := by
      intro h
      have := hI.above top h htop_mem c0 (hkpar c0 hc0).1
      rw [hst, after_snoc_self htop_init] at this
      cases this
    have hch_stack : ∀ c, c ∈ σ.children top → c ∉ stack := by
      intro c hc hcs
      obtain ⟨hp, hlt⟩ := hkpar c hc
      have hct : c ≠ t := by have := hI.geT top htop_mem; omega
      obtain ⟨y, hy1, hy2, hy3⟩ := hI.parSeen c hcs hct
      obtain ⟨e1, he1, hp1⟩ := hI.fi.edge_live y c hy3 (hI.live y hy2)
      obtain ⟨e2, he2, hp2⟩ := hI.fi.edge_live top c hp (by simp [he])
      rw [he1] at he2; cases he2
      rw [hp1] at hp2; cases hp2
      exact htop_seen hy1
    have hafter_top : after (stack ++ σ.children top) top = σ.children top := by
      rw [after_append_mem _ htop_mem, hst, after_snoc_self htop_init]; rfl
    have hI' : LInv s t (stack ++ σ.children top) (top :: seen) σ := by
      refine ⟨hI.sh, hI.fi, ?_, ?_, ?_, ?_, ?_, hI.closed, ?_, ?_, ?_⟩
      · intro y hy
        rcases List.mem_append.mp hy with h | h
        · exact hI.live y h
        · obtain ⟨e', he', _⟩ := hI.fi.edge_live top y (hkpar y h).1 (by simp [he])
          simp [he']
      · refine List.nodup_append.mpr ⟨hI.nodup, nodup_children σ top, ?_⟩
        intro a ha b hb hab
        subst hab
        exact hch_stack a hb ha
      · intro y hy hyn
        rcases List.mem_cons.mp hy with h | h
        · subst h; exact absurd (List.mem_append_left _ htop_mem) hyn
        · exact hI.seenDead y h (fun hs' => hyn (List.mem_append_left _ hs'))
      · intro y hy z hz
        rcases List.mem_cons.mp hy with h | h
        · subst h
          rw [hafter_top] at hz
          exact (hkpar z hz).2
        · by_cases hys : y ∈ stack
          · rw [after_append_mem _ hys] at hz
            rcases List.mem_append.mp hz with h' | h'
            · exact hI.order y h z h'
            · have hyt : y ≠ top := fun h'' => htop_seen (h'' ▸ h)
              have hyi : y ∈ init := by
                rw [hst] at hys
                rcases List.mem_append.mp hys with h'' | h''
                · exact h''
                · simp at h''; exact absurd h'' hyt
              have : top ∈ after stack y := by rw [hst, after_append_mem _ hyi]; simp
              have := hI.order y h top this
              have := (hkpar z h').2
              omega
          · have : y ∉ stack ++ σ.children top := by
              intro h'
              rcases List.mem_append.mp h' with h'' | h''
              · exact hys h''
              · exact hch y h'' (List.mem_cons_of_mem _ h)
            rw [after_not_mem this] at hz; cases hz
      · intro y hy hys c hc
        rcases List.mem_cons.mp hy with h | h
        · subst h
          rw [hafter_top]
          exact (mem_children σ y c).mpr ⟨(hI.fi.edge_lt y c hc).2, hc⟩
        · have hys' : y ∈ stack := by
            rcases List.mem_append.mp hys with h' | h'
            · exact h'
            · exact absurd (List.mem_cons_of_mem _ h) (hch y h')
          rw [after_append_mem _ hys']
          exact List.mem_append_left _ (hI.above y h hys' c hc)
      · intro c hc hct
        rcases List.mem_append.mp hc with h | h
        · obtain ⟨y, hy1, hy2, hy3⟩ := hI.parSeen c h hct
          exact ⟨y, List.mem_cons_of_mem _ hy1, List.mem_append_left _ hy2, hy3⟩
        · exact ⟨top, List.mem_cons_self .., List.mem_append_left _ htop_mem, (hkpar c h).1⟩
      · intro y hy
        rcases List.mem_append.mp hy with h | h
        · exact hI.geT y h
        · have := hI.geT top htop_mem
          have := (hkpar y h).2
          omega
      · have hb := hI.bottom
        cases stack with
        | nil => exact absurd rfl hne
        | cons a l => simpa using hb
    have hdec : mu (stack ++ σ.children top) (top :: seen) σ.next < mu stack seen σ.next := by
      simp only [mu]
      refine sum_map_lt _ _ _ ?_ top htop_lt ?_
      · intro y _
        by_cases hyt : y = top
        · subst hyt
          simp only [wt, List.mem_cons, true_or, if_true, htop_seen, if_false]
          split <;> omega
        · have h1 : y ∈ top :: seen ↔ y ∈ seen := by simp [hyt]
          simp only [wt, h1]
          split
          · rename_i hys
            have h2 : y ∈ stack ++ σ.children top ↔ y ∈ stack := by
              constructor
              · intro h
                rcases List.mem_append.mp h with h' | h'
                · exact h'
                · exact absurd (List.mem_cons_of_mem _ hys) (hch y h')
              · exact fun h => List.mem_append_left _ h
            simp only [h2]
            exact Nat.le_refl _
          · exact Nat.le_refl _
      · simp only [wt, List.mem_cons, true_or, if_true, htop_seen, if_false, List.mem_append, htop_mem]
        omega
    exact ih _ (by omega) _ (top :: seen) σ (F2 + 2) hI' (by simp [hne]) (Nat.le_refl _) (by omega)

end Obao.Revoke
