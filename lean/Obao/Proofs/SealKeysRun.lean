import Obao.Proofs.SealKeysInv
/-! C10 — the world invariant `Inv` is preserved by every valid operation, hence holds after every history. -/
namespace Obao.SealKeys

/-- all operations except the three that persist a keyring -/
theorem step_generic {p sh rk KR S} (ns : Bool) (fk : Key) (b : Barrier) (op : Op)
    (h : PInv p sh rk KR) (hc : Coherent p rk KR) (hrk : rk ∈ S) (hsi : SealedIff b) (hsub : SubK S b KR)
    (hop : op ≠ .rotate) (hop2 : ∀ k, op ≠ .rotroot k) (hop3 : ∀ k s, op ≠ .init k s)
    (hop4 : op ≠ .tick) (hop5 : ∀ d, op ≠ .setrot d) :
    let e := step ns p b fk op
    Concl (S ++ opKeys op) (applyWrites p e.writes) (updShadow sh op e.res) rk KR b e.bar := by
  cases op with
  | init k s => exact absurd rfl (hop3 k s)
  | rotate => exact absurd rfl hop
  | rotroot k => exact absurd rfl (hop2 k)
  | unsealB k => simpa [opKeys] using step_unseal ns fk b h hc hrk hsi hsub k
  | sealB => simpa [opKeys] using step_seal ns fk b h hc hrk hsi hsub
  | put s v => simpa [opKeys] using step_put ns fk b h hc hrk hsi hsub s v
  | get q => simpa [opKeys] using step_get ns fk b h hc hrk hsi hsub q
  | del s => simpa [opKeys] using step_del ns fk b h hc hrk hsi hsub s
  | list => simpa [opKeys] using step_list ns fk b h hc hrk hsi hsub
  | setroot k => simpa [opKeys] using step_setroot ns fk b h hc hrk hsi hsub k
  | reloadkr => simpa [opKeys] using step_reloadkr ns fk b h hc hrk hsi hsub
  | reloadroot => simpa [opKeys] using step_reloadroot ns fk b h hc hrk hsi hsub
  | mkupgrade t => simpa [opKeys] using step_mkupgrade ns fk b h hc hrk hsi hsub t
  | chkupgrade => simpa [opKeys] using step_chkupgrade ns fk b h hc hrk hsi hsub
  | rmupgrade t => simpa [opKeys] using step_rmupgrade ns fk b h hc hrk hsi hsub t
  | verifyroot k => simpa [opKeys] using step_verifyroot ns fk b h hc hrk hsi hsub k
  | keyinfo => simpa [opKeys] using step_keyinfo ns fk b h hc hrk hsi hsub
  | tick => exact absurd rfl hop4
  | setrot d => exact absurd rfl (hop5 d)
  | heat => simpa [opKeys] using step_heat ns fk b h hc hsi hsub

/-- `Initialize` on an initialised store: refused, nothing written; only the cached flag may change -/
theorem step_init_live {p sh rk KR S} (ns : Bool) (fk : Key) (b : Barrier) (k : Key) (s : Option Key)
    (h : PInv p sh rk KR) (hc : Coherent p rk KR) (hsi : SealedIff b) (hsub : SubK S b KR) :
    let e := step ns p b fk (.init k s)
    Concl (S ++ [k]) (applyWrites p e.writes) (updShadow sh (.init k s) e.res) rk KR b e.bar := by
  have mono : ∀ x, x ∈ S → x ∈ S ++ [k] := fun x hx => List.mem_append_left _ hx
  simp only [step]
  by_cases hsz : k.sizeOK = true
  · by_cases hf : b.initFlag = true
    · simp [hsz, hf, applyWrites, updShadow]; exact concl_same h hc hsi hsub mono
    · simp [hsz, hf, h.kr, applyWrites, updShadow]
      refine ⟨h, hc, ?_, ?_, ?_⟩
      · simpa [SealedIff] using hsi
      · intro kr hkr; simp at hkr; exact (hsub.mono mono) kr hkr
      · intro hsy kr hkr; simp at hkr; exact hsy kr hkr
  · simp [hsz, applyWrites, updShadow]; exact concl_same h hc hsi hsub mono

/-- the store `Initialize` creates from nothing -/
theorem pinv_fresh (k fk : Key) (hk : k.aesOK = true) (hfk : fk.aesOK = true) :
    let kr : Keyring := { root := k, keys := [(1, fk)], active := 1 }
    let p1 : Phys := Phys.put (Phys.put [] .keyring (.enc 1 k .keyring (.keyring kr))) .rootKey
                        (.enc 1 fk .rootKey (.val (.keyrec 1 k)))
    PInv p1 [] k kr ∧ Coherent p1 k kr := by
  intro kr p1
  have htk : ∀ t k0, kr.termKey t = some k0 → t = 1 ∧ k0 = fk := by
    intro t k0 h0
    simp only [kr, Keyring.termKey, List.lookup_cons, List.lookup_nil] at h0
    by_cases ht : t = 1
    · subst ht; simp at h0; exact ⟨rfl, h0.symm⟩
    · have : (t == 1) = false := by simpa using ht
      simp [this] at h0
  have h1 : kr.termKey 1 = some fk := by simp [kr, Keyring.termKey, List.lookup_cons]
  refine ⟨⟨?_, rfl, hk, ⟨⟨fk, h1⟩, ?_⟩, ?_, ?_, ⟨1, fk, k, get_put_same _ _ _⟩, ?_⟩, ⟨fk, h1, get_put_same _ _ _⟩⟩
  · simp only [p1]; rw [get_put_other _ _ _ _ (by simp), get_put_same]
  · intro t k0 h0
    obtain ⟨rfl, rfl⟩ := htk t k0 h0
    exact ⟨hfk, Nat.le_refl _, Nat.le_refl _⟩
  · intro path e hp _ _ he
    simp only [p1] at he
    rw [get_put, get_put] at he
    by_cases hr : path = .rootKey
    · subst hr; simp at he; subst he; exact ⟨1, fk, _, rfl, h1⟩
    · simp [hr, hp, Phys.get] at he
  · intro s
    simp only [DataAgree, List.lookup_nil, p1]
    rw [get_put_other _ _ _ _ (by simp), get_put_other _ _ _ _ (by simp)]
    rfl
  · intro t e he
    simp only [p1] at he
    rw [get_put_other _ _ _ _ (by simp), get_put_other _ _ _ _ (by simp)] at he
    cases he

inductive Inv (S : List Key) (w : World) : Prop
  | uninit (hp : w.phys = []) (ha : w.a = {}) (hb : w.b = {}) (hsh : w.shadow = []) : Inv S w
  | live (rk : Key) (KR : Keyring) (h : PInv w.phys w.shadow rk KR) (hc : Coherent w.phys rk KR) (hrk : rk ∈ S)
      (sa : SealedIff w.a) (sb : SealedIff w.b) (suba : SubK S w.a KR) (sya : SyncK w.a KR) (subb : SubK S w.b KR) : Inv S w

/-- on an empty store every operation except `init` leaves everything as it is -/
theorem step_uninit (ns : Bool) (fk : Key) (op : Op) (hop : ∀ k s, op ≠ .init k s) (hheat : op ≠ .heat) :
    (step ns [] {} fk op).bar = {} ∧ (step ns [] {} fk op).writes = [] ∧ updShadow [] op (step ns [] {} fk op).res = [] := by
  cases op with
  | init k s => exact absurd rfl (hop k s)
  | unsealB k => simp only [step]; by_cases hk : k.aesOK = true <;> simp [hk, Phys.get, updShadow]
  | rmupgrade t => simp only [step]; by_cases ht : t = 0 <;> simp [ht, updShadow]
  | heat => exact absurd rfl hheat
  | _ => simp [step, updShadow]

/-- `Initialize` on an empty store -/
theorem step_init_fresh (ns : Bool) (fk k : Key) (s : Option Key) (hfk : fk.aesOK = true) :
    let e := step ns [] {} fk (.init k s)
    updShadow [] (.init k s) e.res = [] ∧
    ((e.writes = [] ∧ e.bar = {}) ∨
     (e.bar.keyring = none ∧ e.bar.sealed = true ∧
      ∃ KR, PInv (applyWrites [] e.writes) [] k KR ∧ Coherent (applyWrites [] e.writes) k KR)) := by
  simp only [step]
  by_cases hsz : k.sizeOK = true
  · by_cases hk : k.aesOK = true
    · have hg : Phys.get [] Path.keyring = none := rfl
      have htk : ({ root := k, keys := [(1, fk)], active := 1 } : Keyring).termKey 1 = some fk := by
        simp [Keyring.termKey]
      obtain ⟨hp, hc⟩ := pinv_fresh k fk hk hfk
      have hp2 := hp.legTail ns
      have hc2 := hc.legTail ns
      cases s with
      | none =>
        simp [hsz, hg, persistNs_eq, hk, htk, hfk, updShadow, applyWrites, applyWrite, foldl_legacyDel]
        exact ⟨_, hp2, hc2⟩
      | some sk =>
        simp [hsz, hg, persistNs_eq, hk, htk, hfk, updShadow, applyWrites, applyWrite, foldl_legacyDel]
        exact ⟨_, hp2.put_meta .kek 1 fk _ (by simp) (by simp) htk (by simp) (by simp), hc2.put_other _ _ (by simp)⟩
    · have hg : Phys.get [] Path.keyring = none := rfl
      simp [hsz, hg, persistNs_eq, hk, updShadow]
  · simp [hsz, updShadow]

theorem subK_none (S : List Key) (KR : Keyring) : SubK S {} KR := by intro kr hkr; cases hkr
theorem syncK_none (KR : Keyring) : SyncK {} KR := by intro kr hkr; cases hkr
theorem sealedIff_none : SealedIff {} := by simp [SealedIff]
theorem subK_of_none (S : List Key) (KR : Keyring) {b : Barrier} (h : b.keyring = none) : SubK S b KR := by
  intro kr hkr; rw [h] at hkr; cases hkr
theorem syncK_of_none (KR : Keyring) {b : Barrier} (h : b.keyring = none) : SyncK b KR := by
  intro kr hkr; rw [h] at hkr; cases hkr
theorem sealedIff_of_none {b : Barrier} (h : b.keyring = none) (hs : b.sealed = true) : SealedIff b := by
  simp [SealedIff, h, hs]

/-- validity of one step of a history: the standby (`who = true`) never persists a keyring -/
def ValidStep (who : Bool) (op : Op) : Prop :=
  op ≠ .heat ∧ (who = true → op ≠ .rotate ∧ (∀ k, op ≠ .rotroot k) ∧ op ≠ .tick ∧ ∀ d, op ≠ .setrot d)

theorem inv_exec {S w} (hinv : Inv S w) (who : Bool) (op : Op) (hv : ValidStep who op) :
    Inv (S ++ opKeys op) (w.exec who op).1 := by
  have mono : ∀ x, x ∈ S → x ∈ S ++ opKeys op := fun x hx => List.mem_append_left _ hx
  have hfk : (termKeyN w.nextT).aesOK = true := termKeyN_aesOK _
  obtain ⟨hheat, hvb⟩ := hv
  cases hinv with
  | uninit hp ha hb hsh =>
    by_cases hop : ∃ k s, op = .init k s
    · obtain ⟨k, s, rfl⟩ := hop
      obtain ⟨h2, h3⟩ := step_init_fresh w.ns (termKeyN w.nextT) k s hfk
      cases who <;>
      · simp only [World.exec, hp, ha, hb, hsh, Bool.false_eq_true, if_false, if_true] at *
        rcases h3 with ⟨h3, h1⟩ | ⟨hkn, hse, KR, h3, h3c⟩
        · refine Inv.uninit ?_ ?_ ?_ ?_ <;> simp [h1, h2, h3, applyWrites]
        · refine Inv.live k KR ?_ ?_ (by simp [opKeys]) ?_ ?_ ?_ ?_ ?_
          · simpa [h2] using h3
          · simpa using h3c
          all_goals first
            | exact sealedIff_none | exact subK_none _ _ | exact syncK_none _
            | exact sealedIff_of_none hkn hse | exact subK_of_none _ _ hkn | exact syncK_of_none _ hkn
    · have hop' : ∀ k s, op ≠ .init k s := fun k s hh => hop ⟨k, s, hh⟩
      obtain ⟨h1, h2, h3⟩ := step_uninit w.ns (termKeyN w.nextT) op hop' hheat
      cases who <;>
      · simp only [World.exec, hp, ha, hb, hsh, Bool.false_eq_true, if_false, if_true] at *
        refine Inv.uninit ?_ ?_ ?_ ?_ <;> simp [h1, h2, h3, applyWrites]
  | live rk KR h hc hrk sa sb suba sya subb =>
    cases who with
    | false =>
      by_cases hr : op = .rotate
      · subst hr
        obtain ⟨rk', KR', g1, g2, g3, g4, g5, g6, g7⟩ := step_rotate w.ns (termKeyN w.nextT) w.a h hc hrk sa suba sya hfk
        simp only [World.exec, Bool.false_eq_true, if_false]
        exact Inv.live rk' KR' g1 g2 (mono _ g3) g4 sb (g5.mono mono) g6 ((subb.grow g7).mono mono)
      · by_cases ht : op = .tick
        · subst ht
          obtain ⟨rk', KR', g1, g2, g3, g4, g5, g6, g7⟩ := step_tick w.ns (termKeyN w.nextT) w.a h hc hrk sa suba sya
          simp only [World.exec, Bool.false_eq_true, if_false]
          exact Inv.live rk' KR' g1 g2 (mono _ g3) g4 sb (g5.mono mono) g6 ((subb.grow g7).mono mono)
        · by_cases hsr : ∃ d, op = .setrot d
          · obtain ⟨d, rfl⟩ := hsr
            obtain ⟨rk', KR', g1, g2, g3, g4, g5, g6, g7⟩ := step_setrot w.ns (termKeyN w.nextT) w.a h hc hrk sa suba sya d
            simp only [World.exec, Bool.false_eq_true, if_false]
            exact Inv.live rk' KR' g1 g2 (mono _ g3) g4 sb (g5.mono mono) g6 ((subb.grow g7).mono mono)
          · have hsr' : ∀ d, op ≠ .setrot d := fun d hh => hsr ⟨d, hh⟩
            by_cases hrr : ∃ k, op = .rotroot k
            · obtain ⟨k, rfl⟩ := hrr
              obtain ⟨rk', KR', g1, g2, g3, g4, g5, g6, g7⟩ := step_rotroot w.ns (termKeyN w.nextT) w.a h hc hrk sa suba sya k
              simp only [World.exec, Bool.false_eq_true, if_false]
              exact Inv.live rk' KR' g1 g2 g3 g4 sb g5 g6 ((subb.grow g7).mono mono)
            · have hrr' : ∀ k, op ≠ .rotroot k := fun k hh => hrr ⟨k, hh⟩
              by_cases hop : ∃ k s, op = .init k s
              · obtain ⟨k, s, rfl⟩ := hop
                obtain ⟨g1, g2, g3, g4, g5⟩ := step_init_live w.ns (termKeyN w.nextT) w.a k s h hc sa suba
                simp only [World.exec, Bool.false_eq_true, if_false]
                exact Inv.live rk KR g1 g2 (mono _ hrk) g3 sb g4 (g5 sya) (subb.mono mono)
              · have hop' : ∀ k s, op ≠ .init k s := fun k s hh => hop ⟨k, s, hh⟩
                obtain ⟨g1, g2, g3, g4, g5⟩ := step_generic w.ns (termKeyN w.nextT) w.a op h hc hrk sa suba hr hrr' hop' ht hsr'
                simp only [World.exec, Bool.false_eq_true, if_false]
                exact Inv.live rk KR g1 g2 (mono _ hrk) g3 sb g4 (g5 sya) (subb.mono mono)
    | true =>
      obtain ⟨hr, hrr', ht, hsr'⟩ := hvb rfl
      by_cases hop : ∃ k s, op = .init k s
      · obtain ⟨k, s, rfl⟩ := hop
        obtain ⟨g1, g2, g3, g4, _⟩ := step_init_live w.ns (termKeyN w.nextT) w.b k s h hc sb subb
        simp only [World.exec, if_true]
        exact Inv.live rk KR g1 g2 (mono _ hrk) sa g3 (suba.mono mono) sya g4
      · have hop' : ∀ k s, op ≠ .init k s := fun k s hh => hop ⟨k, s, hh⟩
        obtain ⟨g1, g2, g3, g4, _⟩ := step_generic w.ns (termKeyN w.nextT) w.b op h hc hrk sb subb hr hrr' hop' ht hsr'
        simp only [World.exec, if_true]
        exact Inv.live rk KR g1 g2 (mono _ hrk) sa g3 (suba.mono mono) sya g4

def ValidHist : List (Bool × Op) → Prop
  | [] => True
  | (who, op) :: rest => ValidStep who op ∧ ValidHist rest

/-- the root keys the operator supplied during a history -/
def supplied : List (Bool × Op) → List Key
  | [] => []
  | (_, op) :: rest => opKeys op ++ supplied rest

theorem inv_run {S w} (hinv : Inv S w) (hist : List (Bool × Op)) (hv : ValidHist hist) :
    Inv (S ++ supplied hist) (w.run hist) := by
  induction hist generalizing S w with
  | nil => simpa [World.run, supplied] using hinv
  | cons x rest ih =>
    obtain ⟨who, op⟩ := x
    obtain ⟨hv1, hv2⟩ := hv
    have := ih (inv_exec hinv who op hv1) hv2
    simpa [World.run, supplied, List.append_assoc] using this

theorem inv_init (ns : Bool) : Inv [] ({ ns := ns } : World) := Inv.uninit rfl rfl rfl rfl

end Obao.SealKeys
