import Driver.Stream
import Obao.Model.Confine
namespace Driver.Confine
open Obao Obao.View Obao.Router Obao.Confine

def bool? (s : String) : Option Bool := if s = "1" then some true else if s = "0" then some false else none

def showKind : Kind → String
  | .get => "get" | .put => "put" | .delete => "delete" | .list => "list"

def showTouch (t : Confine.Touch) : String :=
  match t.tgt with
  | .mount id => s!"M{id}:{showKind t.kind}={toHex t.key}"
  | .cubby ns owner => s!"C{ns}:{showKind t.kind}={owner}:{toHex t.key}"

def showOutcome : Outcome → String
  | .ok => "ok"
  | .found w => "ok:1:" ++ toHex (strOf ("v" ++ toString w))
  | .notFound => "ok:0"
  | .listed ns => "ok:[" ++ String.intercalate "," (ns.map toHex) ++ "]"
  | .denied => "denied"
  | .errRelative => "err:relative"
  | .errSealed => "err:sealed"
  | .errNoNs => "err:nons"
  | .errEscape => "err:escape"
  | .errTrailSlash => "err:trailslash"
  | .errTokSealed => "err:toksealed"
  | .errUnsupported => "err:unsupported"
  | .errInternal => "err:internal"

def parseOp? : String → Option OpKind
  | "read" => some .read | "update" => some .update | "delete" => some .delete | "list" => some .list | _ => none

def parsePats? (s : String) : Option (List Bytes) :=
  if s = "-" then some [] else (s.splitOn ",").mapM parseHex?

def step (s : St) (fs : List String) : St × String :=
  match fs with
  | ["unsafe", v] => match bool? v with
      | some v => ({ s with unsafeRel := v }, "ok")
      | none => (s, "bad-op")
  | ["ns", p, sealable] => match parseHex? p, bool? sealable with
      | some p, some sl =>
        let (s', ok) := addNs s p sl
        (s', if ok then "ok" else "err")
      | _, _ => (s, "bad-op")
  | ["sealns", p, v] => match parseHex? p, bool? v with
      | some p, some v =>
        if s.nss.any (fun n => n.path == p && n.sealable) then
          let (s', ok) := sealOp s p v
          (s', if ok then "ok" else "err:sealed")
        else if s.nss.any (fun n => n.path == p) then
          -- a namespace without a seal of its own cannot be sealed (there would be no unseal): refused, nothing changes
          (s, "err:notsealable")
        else (s, "bad-op")
      | _, _ => (s, "bad-op")
  | ["mount", ns, p, id] => match parseHex? ns, parseHex? p, id.toNat? with
      | some ns, some p, some id =>
        if id = 0 ∨ (nsOrd s ns).isNone then (s, "bad-op") else
        ({ s with mounts := s.mounts ++ [{ ns, path := p, id }] }, "ok")
      | _, _, _ => (s, "bad-op")
  | ["mountinside", ns, _p] => match parseHex? ns with
      -- a mount path that lies inside a child namespace is refused (`Router.MountConflict`): nothing changes
      | some ns => if (nsOrd s ns).isNone then (s, "bad-op") else (s, "refused")
      | none => (s, "bad-op")
  | ["remount", id, ns, p] => match id.toNat?, parseHex? ns, parseHex? p with
      | some id, some ns, some p =>
        if (nsOrd s ns).isNone ∨ ¬ s.mounts.any (·.id == id) then (s, "bad-op") else
        ({ s with mounts := s.mounts.map fun m => if m.id == id then { m with ns := ns, path := p } else m }, "ok")
      | _, _, _ => (s, "bad-op")
  | ["token", ord, ns, kind, pats] => match ord.toNat?, parseHex? ns, parsePats? pats with
      | some ord, some ns, some pats =>
        -- kind "none": a token none of whose policy names resolves in its namespace (no patterns)
        if kind ≠ "root" ∧ kind ≠ "p" ∧ kind ≠ "none" then (s, "bad-op") else
        ({ s with toks := s.toks ++ [{ ord, ns, isRoot := kind = "root", pats }] }, "ok")
      | _, _, _ => (s, "bad-op")
  | ["nsrotate", p] =>
      -- root-key rotation of a separately sealed namespace: it succeeds and writes nothing outside the namespace's own
      -- storage prefix (`Confine.rotation_writes_confined`)
      match parseHex? p with
      | some p =>
        if (nsOrd s p).isNone then (s, "bad-op") else
        -- the keys are shown relative to the namespace prefix; none lies outside it
        let rel := (rotationWrites "").filter (·.1 == "put")
        let shown := (rel.map fun w => w.1 ++ ":" ++ w.2).toArray.qsort (· < ·) |>.toList
        (s, "ok|-|" ++ ",".intercalate shown)
      | none => (s, "bad-op")
  | ["nsrotatebk", p] =>
      -- the same with backup = true (`Confine.rotation_backup_writes_confined`)
      match parseHex? p with
      | some p =>
        if (nsOrd s p).isNone then (s, "bad-op") else
        let rel := (rotationWritesBackup "").filter (·.1 == "put")
        let shown := (rel.map fun w => w.1 ++ ":" ++ w.2).toArray.qsort (· < ·) |>.toList
        (s, "ok|-|" ++ ",".intercalate shown)
      | none => (s, "bad-op")
  | ["aliascase"] => (s, "ok")
  | ["aliastoken", nsB, nsA] =>
      -- auth/token/create in namespace B naming the policy "../<uuid of namespace A>/p": policy names are looked up under
      -- the token's namespace by their exact name (`C12Gen.cache_key_injective`), B's policy view has no such key and
      -- refuses the relative name: the creation is refused
      match parseHex? nsB, parseHex? nsA with
      | some _, some _ => (s, "refused")
      | _, _ => (s, "bad-op")
  | ["aliasread", nsB, nsA] =>
      -- (only reached when the token exists:) none of its policy names is defined in ITS namespace — it grants nothing
      match parseHex? nsB, parseHex? nsA with
      | some _, some _ => (s, "denied")
      | _, _ => (s, "bad-op")
  | ["req", tok, ctx, hdr, path, op, skey] =>
      match tok.toNat?, parseHex? hdr, parseHex? path, parseOp? op, parseHex? skey with
      | some tok, some hdr, some path, some op, some skey =>
        -- "-" in the context field = root namespace in the context ("" path); "none" = no namespace in the context
        let ctx? : Option (Option Bytes) :=
          if ctx = "none" then some none else (parseHex? ctx).map some
        match ctx?, s.toks.find? (·.ord == tok) with
        | some ctx, some t =>
          let (s', o, ts) := request s t ctx hdr path op skey
          (s', showOutcome o ++ "|" ++ (if ts.isEmpty then "-" else String.intercalate "," (ts.map showTouch)))
        | _, _ => (s, "bad-op")
      | _, _, _, _, _ => (s, "bad-op")
  | _ => (s, "bad-op")

def streams : List (String × Driver.Stream) :=
  [("confine", { σ := St, init := {}, step := step })]
end Driver.Confine
