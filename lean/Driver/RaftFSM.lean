import Driver.Stream
import Obao.Model.RaftFSM
import Obao.Model.RaftChunk
/-!
Stateful driver stream `raftfsm` (C09): a group of model replicas driven with the same lines the Go harness
drives real `FSM` objects with.

```
new     <r>                      -> ok                       (r = number of replicas so far)
batch   <r> <entry> <entry> …    -> <verdicts>|<latest>|<cfg>|<digest>
restart <r>                      -> <latest>|<cfg>|<digest>
snap    <dst> <src>              -> <latest>|<cfg>|<digest>
digest  <r>                      -> <latest>|<cfg>|<digest>
lclear  <r> <low>                -> ok                       (clearOldEntries on that replica only: Rollback)
```
entry = `<idx>;<low>;<cmd>`, low = `-` (no LowestActiveIndex) or a number, cmd = `G` (configuration entry),
`-` (LogData without operations) or comma-separated ops:
`p:<key>:<val>` `d:<key>` `r:<key>:<obs>` `l:<prefix>:<after>:<limit>:<items>` `b:<start>` `c` `o`
(keys/values hex, `-` = empty; obs = hex | `!` for a hash that cannot match; items = `!` | `0` (no item) |
`+`-separated hex items). verdicts: one char per entry, `-` plain, `C` commit, `X` conflict sentinel, `g` config.
digest: `key=val,…` in bucket order, `-` when empty.
-/
namespace Driver.RaftFSM
open Obao Obao.RaftFSM

def printable (k : List Nat) : Bool := k.all fun c => decide (33 ≤ c) && decide (c ≤ 126)

/-- list prefixes and `after` values: any printable bytes (the seek is the plain concatenation `prefix + after`,
so slash-less prefixes, empty and dot segments are all modelled) -/
def okPrefix (p : List Nat) : Bool := printable p

def okAfter (a : List Nat) : Bool := printable a

def parseNat? (s : String) : Option Nat := s.toNat?

def parseObs? (s : String) : Option (Option Val) :=
  if s = "!" then some none else (parseHex? s).map some

def parseItems? (s : String) : Option (Option (List Key)) :=
  if s = "!" then some none
  else if s = "0" then some (some [])
  else ((s.splitOn "+").mapM parseHex?).map some

def parseOp? (s : String) : Option Op :=
  match s.splitOn ":" with
  | ["p", k, v] => do
    let k ← parseHex? k
    let v ← parseHex? v
    if k == [] || !printable k then none else pure (.put k v)
  | ["d", k] => do
    let k ← parseHex? k
    if k == [] || !printable k then none else pure (.del k)
  | ["r", k, o] => do
    let k ← parseHex? k
    let o ← parseObs? o
    if k == [] || !printable k then none else pure (.vread k o)
  | ["l", p, a, l, items] => do
    let p ← parseHex? p
    let a ← parseHex? a
    let l ← l.toInt?
    let items ← parseItems? items
    if !okPrefix p || !okAfter a then none else pure (.vlist p a l items)
  | ["b", n] => (parseNat? n).map .begin
  | ["c"] => some .commit
  | ["o"] => some .other
  | _ => none

def parseEntry? (s : String) : Option Entry :=
  match s.splitOn ";" with
  | [idx, low, cmd] => do
    let idx ← parseNat? idx
    let low ← if low = "-" then some none else (parseNat? low).map some
    let cmd ← if cmd = "G" then some Cmd.config
              else if cmd = "-" then some (Cmd.data [])
              else ((cmd.splitOn ",").mapM parseOp?).map Cmd.data
    pure { idx, low, cmd }
  | _ => none

def showVerdict : Verdict → Char
  | .plain => '-'
  | .commit => 'C'
  | .conflict => 'X'
  | .config => 'g'

def showDigest (s : Store) : String :=
  if s.isEmpty then "-" else ",".intercalate (s.map fun p => toHex p.1 ++ "=" ++ toHex p.2)

def showState (r : Replica) : String := s!"{r.latest}|{r.cfg}|{showDigest r.kv}"

/-- indexes strictly increasing and above the replica's latest index (anything else is outside the model) -/
def increasing : Nat → List Entry → Bool
  | _, [] => true
  | last, e :: es => decide (last < e.idx) && increasing e.idx es

abbrev St := List Replica

def step (st : St) (fs : List String) : St × String :=
  match fs with
  | ["new", r] =>
    match parseNat? r with
    | some r => if r = st.length then (st ++ [Replica.fresh], "ok") else (st, "bad-op")
    | none => (st, "bad-op")
  | "batch" :: r :: ents =>
    match parseNat? r, ents.mapM parseEntry? with
    | some r, some es =>
      match st[r]? with
      | some rep =>
        if es.isEmpty || !increasing rep.latest es then (st, "bad-op") else
        let res := applyBatch (fun _ => true) rep es
        (st.set r res.1, String.ofList (res.2.map showVerdict) ++ "|" ++ showState res.1)
      | none => (st, "bad-op")
    | _, _ => (st, "bad-op")
  | ["restart", r] =>
    match parseNat? r with
    | some r => match st[r]? with
      | some rep => let rep' := rep.restart; (st.set r rep', showState rep')
      | none => (st, "bad-op")
    | none => (st, "bad-op")
  | ["persist", r, idx] =>
    -- raft persists the replica's LOCAL snapshot taken at position idx (FSM.witnessSnapshot)
    match parseNat? r, parseNat? idx with
    | some r, some idx => match st[r]? with
      | some rep => if idx > rep.latest then (st, "bad-op") else let rep' := rep.witness idx; (st.set r rep', showState rep')
      | none => (st, "bad-op")
    | _, _ => (st, "bad-op")
  | ["snap", d, s] =>
    match parseNat? d, parseNat? s with
    | some d, some s => match st[d]?, st[s]? with
      | some rep, some src =>
        if src.latest < rep.latest then (st, "bad-op") else
        let rep' := rep.install src; (st.set d rep', showState rep')
      | _, _ => (st, "bad-op")
    | _, _ => (st, "bad-op")
  | ["lclear", r, low] =>
    match parseNat? r, parseNat? low with
    | some r, some low => match st[r]? with
      | some rep => (st.set r { rep with tracker := rep.tracker.clear low }, "ok")
      | none => (st, "bad-op")
    | _, _ => (st, "bad-op")
  | ["digest", r] =>
    match parseNat? r with
    | some r => match st[r]? with
      | some rep => (st, showState rep)
      | none => (st, "bad-op")
    | none => (st, "bad-op")
  | _ => (st, "bad-op")

/-! Stream `raftleader`: the same entry language, fed with the log a REAL leader produced (re-assembled per operation),
replayed on model replica 0; `leader <idx> <n>` asks what the leader must have told the client of the operation that
ended at `idx`: the verdict every replica reaches for that entry. `ldigest`: the leader's own data = the replica's. -/
structure LSt where
  st : St := []
  seen : List (Nat × Char) := []
  /-- the chunking FSM in front of each replica (scenario cases; the leader cases feed whole operations) -/
  chunkers : List (Nat × Obao.RaftChunk.Chunker) := []

def LSt.chunker (l : LSt) (r : Nat) : Obao.RaftChunk.Chunker :=
  match l.chunkers.find? (·.1 == r) with
  | some (_, c) => c
  | none => { held := [], termSeen := false }

def LSt.setChunker (l : LSt) (r : Nat) (c : Obao.RaftChunk.Chunker) : LSt :=
  { l with chunkers := (r, c) :: l.chunkers.filter (·.1 != r) }

def lstep (l : LSt) (fs : List String) : LSt × String :=
  match fs with
  | ["leader", idx, _n] =>
    match parseNat? idx with
    | some i => (l, match l.seen.find? (·.1 == i) with
                    | some (_, v) => String.singleton v
                    | none => "no-such-entry")
    | none => (l, "bad-op")
  | ["scenario", _, _] => (l, "ok")
  | ["chunkpart", r, op, seq, num] =>
    -- a chunk that does not complete its operation: stored, nothing reaches the FSM; answer = chunks of `op` held now
    match parseNat? r, parseNat? op, parseNat? seq, parseNat? num with
    | some r, some op, some seq, some num =>
      let (c', done) := (l.chunker r).apply op seq num
      if done then (l, "model-completes") else
      (l.setChunker r c', s!"held:{(c'.held.filter (·.1 == op)).length}")
    | _, _, _, _ => (l, "bad-op")
  | ["chunkfinal", r, op, seq, num, ent] =>
    -- the last chunk of an operation: when the others are still held the re-assembled entry is applied at this index
    match parseNat? r, parseNat? op, parseNat? seq, parseNat? num with
    | some r, some op, some seq, some num =>
      let (c', done) := (l.chunker r).apply op seq num
      let l1 := l.setChunker r c'
      if done then
        let (st', out) := step l1.st ["batch", toString r, ent]
        ({ l1 with st := st' }, out)
      else
        match l1.st[r]? with
        | some rep => (l1, "dropped|" ++ showState rep)
        | none => (l1, "bad-op")
    | _, _, _, _ => (l, "bad-op")
  | ["restart", r] =>
    let (st', out) := step l.st fs
    match parseNat? r with
    | some r => (({ l with st := st' }).setChunker r (l.chunker r).restart, out)
    | none => ({ l with st := st' }, out)
  | ["ldigest"] =>
    match l.st[0]? with
    | some rep => (l, showDigest rep.kv)
    | none => (l, "bad-op")
  | "batch" :: "0" :: ents =>
    let (st', out) := step l.st fs
    match ents.mapM parseEntry? with
    | some es =>
      let vs := ((out.splitOn "|").headD "").toList
      if vs.length = es.length then ({ l with st := st', seen := l.seen ++ (es.map (·.idx)).zip vs }, out)
      else ({ l with st := st' }, out)
    | none => ({ l with st := st' }, out)
  | _ => let (st', out) := step l.st fs; ({ l with st := st' }, out)

def streams : List (String × Driver.Stream) :=
  [("raftfsm", { σ := St, init := [], step := step }),
   ("raftleader", { σ := LSt, init := {}, step := lstep })]
end Driver.RaftFSM
