import Driver.Stream
import Obao.Model.Barrier
import Obao.Model.BarrierAllow
import Obao.Model.RawAccess
/-! Line protocol of stream `barrier` (property C01). Keys are hex-encoded UTF-8, values hex (`-` = empty).

    init · put|txput|encput k v · dec k · get|txget k · delete|txdelete k · rotate · setver n · scan
    vput|vtxput k v n · vget|vtxget k n · vdelete|vtxdelete k n   (through a View with prefix = first n bytes of k)
    flip k pos mask · trunc k n · extend k n · transplant src dst · hswap k1 k2 · replay k i · advdel k
    advset k rec term ver nonce · advset k raw hdrhex len
-/
namespace Driver.Barrier
open Obao Obao.Barrier

def checksum (b : Bytes) : String :=
  let (a, c, _) := b.foldl (fun (acc : Nat × Nat × Nat) x =>
    let (a, c, i) := acc
    ((a + x) % 65521, (c + (i + 1) * x) % 65521, i + 1)) (0, 0, 0)
  s!"u{b.length}.{a}.{c}"

def showPlain : Plain → String
  | .user b => checksum b
  | .keyring ts => "keyring:" ++ ",".intercalate ((ts.toArray.qsort (· < ·)).toList.map toString)
  | .rootkey => "rootkey"

def showAad : Option String → String
  | none => "~"
  | some p => strToHex p

def showPV : PVal → String
  | .Rec t v b => s!"rec:{t}:{v}:b{b.nonce}"
  | .Raw hdr len => s!"raw:{toHex hdr}:{len}"

def showW (w : WRec) : String :=
  s!"{strToHex w.key}=rec:{w.term}:{w.ver}:b{w.body.nonce}:k{w.body.key}:{showAad w.body.aad}:{showPlain w.body.plain}"

def showGet : GetOut → String
  | .none => "none"
  | .ok (.user b) => "ok:" ++ toHex b
  | .ok (.keyring ts) => "ok:" ++ showPlain (.keyring ts)
  | .ok .rootkey => "ok:rootkey"
  | .err e => "err:" ++ (reprStr e).replace "Obao.Barrier.Err." ""

def showOut : Out → String
  | .wrote ws => "wrote:" ++ "|".intercalate (ws.map showW)
  | .got g => showGet g
  | .done => "done"
  | .panic => "panic"
  | .phys vs => "phys:" ++ "|".intercalate (vs.map showPV)
  | .bad => "bad-op"

def parseOp (fs : List String) : Option Op :=
  match fs with
  | ["flip", k, pos, mask] => do
      let k ← parseHexStr? k; let p ← pos.toNat?; let m ← mask.toNat?; pure (.flip k p m)
  -- the same operations routed through a barrier View whose prefix is the first `n` bytes of the key (view.go):
  -- the barrier sees prefix ++ sub-key, i.e. the full key
  | [op, k, v, n] =>
    if op = "vput" ∨ op = "vtxput" then do
      let k ← parseHexStr? k; let v ← parseHex? v; let n ← n.toNat?
      if n ≤ k.utf8ByteSize then pure (.put k v) else none
    else none
  | [op, k, v] =>
    if op = "vget" ∨ op = "vtxget" then do
      let k ← parseHexStr? k; let n ← v.toNat?
      if n ≤ k.utf8ByteSize then pure (.get k) else none
    else if op = "vdelete" ∨ op = "vtxdelete" then do
      let k ← parseHexStr? k; let n ← v.toNat?
      if n ≤ k.utf8ByteSize then pure (.delete k) else none
    else if op = "put" ∨ op = "txput" ∨ op = "encput" then do
      let k ← parseHexStr? k; let v ← parseHex? v; pure (.put k v)
    else if op = "trunc" then do
      let k ← parseHexStr? k; let n ← v.toNat?; pure (.trunc k n)
    else if op = "extend" then do
      let k ← parseHexStr? k; let n ← v.toNat?; pure (.extend k n)
    else if op = "transplant" then do
      let a ← parseHexStr? k; let b ← parseHexStr? v; pure (.transplant a b)
    else if op = "hswap" then do
      let a ← parseHexStr? k; let b ← parseHexStr? v; pure (.hswap a b)
    else if op = "replay" then do
      let k ← parseHexStr? k; let n ← v.toNat?; pure (.replay k n)
    else none
  | [op, k] =>
    if op = "get" ∨ op = "txget" then (parseHexStr? k).map .get
    else if op = "dec" then (parseHexStr? k).map .dec
    else if op = "delete" ∨ op = "txdelete" then (parseHexStr? k).map .delete
    else if op = "advdel" then (parseHexStr? k).map .advDel
    else if op = "setver" then k.toNat?.map .setver
    else none
  | ["rotate"] => some .rotate
  | ["advset", k, "rec", t, v, n] => do
      let k ← parseHexStr? k; let t ← t.toNat?; let v ← v.toNat?; let n ← n.toNat?
      pure (.advRec k t v n)
  | ["advset", k, "raw", h, len] => do
      let k ← parseHexStr? k; let h ← parseHex? h; let len ← len.toNat?
      pure (.advRaw k h len)
  | _ => none

def stepLine (s : St) (fs : List String) : St × String :=
  if fs = ["scan"] then (s, "clean") else
  if fs = ["init"] then (s, showOut (.wrote s.written.reverse)) else
  if fs = ["reunseal"] then
    -- Seal + Unseal with the root key: the barrier's own reader of core/keyring on whatever the store holds now
    (s, match unsealKeyring (sget s.store keyringPath) with
        | .ok _ => "ok" | .notInit => "err:notinit" | .short => "err:short" | .termMismatch => "err:term"
        | .len => "err:len" | .version => "err:version" | .invalidKey => "err:invalidkey"
        | .notKeyring => "err:notkeyring") else
  match parseOp fs with
  | none => (s, "bad-op")
  | some op => let (s', o) := step s op; (s', showOut o)

/-- stream `barrierallow`: `file func method` ↦ class of the writer site in the hand-written allow-list -/
def allowLine (fs : List String) : String :=
  match fs with
  | [f, fn, m] => Obao.BarrierAllow.classifyStr (f, fn, m)
  | _ => "bad-op"

/-- stream `barriercanary`: the request-kind table, plus `raw verb keyhex knownuuids` (sys/raw through
`storageByPath`; `knownuuids` = comma-separated hex UUIDs of the live child namespaces, `-` for none) -/
def canaryLine (fs : List String) : String :=
  match fs with
  | ["raw", verb, k, known] =>
    let ks := if known = "-" then some [] else (known.splitOn ",").mapM parseHexStr?
    match parseHexStr? k, ks with
    | some k, some ks => Obao.RawAccess.observe (ks.map (·.toList)) verb k.toList
    | _, _ => "bad-op"
  | _ => Obao.BarrierAllow.canaryVerdict fs

def streams : List (String × Driver.Stream) :=
  [("barrier", { σ := St, init := Obao.Barrier.init, step := stepLine }),
   ("barrierallow", .stateless allowLine),
   ("barriercanary", .stateless canaryLine)]
end Driver.Barrier
