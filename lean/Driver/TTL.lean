import Driver.Stream
import Obao.Model.TTL
namespace Driver.TTL
open Obao Obao.TTL

def showOut : Out → String
  | .ok t w => s!"ok:{t}:{w}"
  | .errMaxTTL => "err:max"
  | .errPast => "err:past"

/-- `calc now startZero start sysMax sysDefault increment backendTTL period backendMax explicitMax` -/
def handle (fs : List String) : String :=
  match fs with
  | "calc" :: rest =>
    match rest.mapM String.toInt? with
    | some [now, sz, start, sysMax, sysDef, incr, bttl, period, bmax, emax] =>
      let start := if sz = 1 then now else start
      showOut (calcTTL { now, start, sysMax, sysDefault := sysDef, increment := incr, backendTTL := bttl,
                         period, backendMax := bmax, explicitMax := emax })
    | _ => "bad-op"
  | _ => "bad-op"

def streams : List (String × Driver.Stream) := [("ttl", .stateless handle)]
end Driver.TTL
