import Driver.Stream
import Driver.GF256

def streams : List (String × Driver.Stream) := [
  ("gf256", Driver.GF256.stream)
]

def main (args : List String) : IO UInt32 := do
  match args with
  | [name] =>
    match streams.lookup name with
    | some s =>
      let hin ← IO.getStdin
      let hout ← IO.getStdout
      s.loop hin hout s.init
      return 0
    | none => IO.eprintln s!"unknown stream {name}"; return 2
  | _ => IO.eprintln "usage: obaodriver <stream>"; return 2
