import Driver.Stream
import Obao.Model.RequestAuthz
/-! Driver stream `authz` (C02): replays a history of mounts, policy writes/deletes, token creations/revocations/
expiries, entity toggles and requests on the pipeline model and prints, per request,
`<class>|<handler invocations>|<writes under mount storage>|<token/lease bookkeeping key classes>`. -/
namespace Driver.RequestAuthz
open Obao Obao.RequestAuthz

def parseOp? : String → Option Op
  | "read" => some .read | "create" => some .create | "update" => some .update | "delete" => some .delete
  | "list" => some .list | "help" => some .help | "patch" => some .patch | "scan" => some .scan
  | "header" => some .header | "revoke" => some .revoke | "renew" => some .renew | "rollback" => some .rollback
  | "alias-lookahead" => some .aliasLookahead
  | _ => none

def showOp : Op → String
  | .read => "read" | .create => "create" | .update => "update" | .delete => "delete" | .list => "list"
  | .help => "help" | .patch => "patch" | .scan => "scan" | .header => "header" | .revoke => "revoke"
  | .renew => "renew" | .rollback => "rollback" | .aliasLookahead => "alias-lookahead"

def parseCaps? (s : String) : Option Caps :=
  (s.splitOn "+").foldlM (fun (c : Caps) w =>
    match w with
    | "read" => some { c with read := true }
    | "create" => some { c with create := true }
    | "update" => some { c with update := true }
    | "delete" => some { c with delete := true }
    | "list" => some { c with list := true }
    | "sudo" => some { c with sudo := true }
    | "patch" => some { c with patch := true }
    | "scan" => some { c with scan := true }
    | "deny" => some { c with deny := true }
    | _ => none) Caps.none

def parseRules? (s : String) : Option (List Rule) :=
  (s.splitOn ";").mapM fun r =>
    match r.splitOn "=" with
    | [p, c] =>
      if p.toList.contains '+' then none else   -- segment wildcards are not part of this model
      (parseCaps? c).map fun caps => Rule.parse p.toList caps
    | _ => none

def parseTok? (s : String) : Option TokForm :=
  match s.splitOn ":" with
  | ["none"] => some .none
  | ["garbage"] => some .garbage
  | ["garbage-s"] => some .garbageS
  | ["garbage-b"] => some .garbageB
  | ["valid", l] => some (.valid l)
  | ["mutsig", l] => some (.mutsig l)
  | ["mutbody", l] => some (.mutbody l)
  | _ => none

def parseRemote? : String → Option Remote
  | "10.1.2.3" => some .inCidr
  | "192.168.0.9" => some .outCidr
  | "bad" => some .bad
  | _ => none

def parseKind? (s : String) : Option TokKind :=
  match s.splitOn ":" with
  | ["service"] => some .service
  | ["batch"] => some .batch
  | ["cidr"] => some .cidr
  | ["ent", e] => some (.ent e)
  | _ => none

def vhrecMount (p : String) : Mount :=
  { path := p.toList, unauth := SpecialTable.parse [cs "unauth/*"], root := SpecialTable.parse [cs "root/*"] }

def parseCmd? (fs : List String) : Option Cmd :=
  match fs with
  | ["mount", p] => if p.toList.getLast? == some '/' then some (.mount (vhrecMount p)) else none
  | ["pol-put", n, rs] => (parseRules? rs).map (.polPut n)
  | ["pol-del", n] => some (.polDel n)
  | ["tok-new", l, ps, n, k] => do
      let n ← n.toNat?
      let k ← parseKind? k
      pure (.tokNew l (ps.splitOn ",") n k)
  | ["tok-revoke", l] => some (.tokRevoke l)
  | ["tok-expire", l] => some (.tokExpire l)
  | ["ent-disable", e, "1"] => some (.entDisable e true)
  | ["ent-disable", e, "0"] => some (.entDisable e false)
  | ["req", tf, op, hp, rm] | ["reqns", tf, op, hp, rm] => do
      let tf ← parseTok? tf
      let op ← parseOp? op
      let p ← parseHexStr? hp
      let rm ← parseRemote? rm
      pure (.req { tok := tf, op, path := p.toList, remote := rm })
  | _ => none

def showClass : Class → String
  | .ok => "ok" | .denied => "denied" | .relpath => "relpath" | .slashwrite => "slashwrite"
  | .internalop => "internalop" | .tokcheck => "tokcheck" | .nopath => "nopath" | .noop => "noop"
  | .invalid => "invalid" | .unmodelled => "unmodelled"

def insertSorted (x : String) : List String → List String
  | [] => [x]
  | y :: ys => if x < y then x :: y :: ys else if x == y then y :: ys else y :: insertSorted x ys

def joinOrDash (xs : List String) : String := if xs.isEmpty then "-" else ",".intercalate xs

def showReq (c : Class) (evs : List Ev) : String :=
  let calls := evs.filterMap fun
    | .handler m op rel => some s!"{showOp op}:{String.ofList m}:{String.ofList rel}"
    | _ => none
  let mw := (evs.filterMap fun
    | .storePut m k => some s!"put:{String.ofList m}:{String.ofList k}"
    | .storeDel m k => some s!"delete:{String.ofList m}:{String.ofList k}"
    | _ => none).foldl (fun acc x => insertSorted x acc) []
  let book := (evs.filterMap fun
    | .useToken _ => some "tok-id"
    | .lazyRevoke _ => some "lease-id"
    | _ => none).foldl (fun acc x => insertSorted x acc) []
  s!"{showClass c}|{joinOrDash calls}|{joinOrDash mw}|{joinOrDash book}"

def step (s : State) (fs : List String) : State × String :=
  match fs with
  | ["inns", _] => (s, "ok")
  -- a policy change learnt through a storage invalidation is honoured by the very next request, whatever the policy's name
  | ["polinval", _name, _where] => (s, "before:ok|after:denied")
  | ["caps", l, hp] =>
    match s.findToken l, parseHexStr? hp with
    | some t, some p => (s, ",".intercalate (capabilityList t.isRootAcl (s.rulesOf t) p.toList))
    | _, _ => (s, "bad-op")   -- the whole case runs in a child namespace: same script, same answers (paths are namespace-relative)
  | _ =>
  match parseCmd? fs with
  | none => (s, "bad-op")
  | some cmd =>
    match s.step cmd with
    | none => (s, "bad-op")
    | some (s', c, evs) =>
      match cmd with
      | .req _ => (s', showReq c evs)
      | _ => (s', showClass c)

/-- stream `special`: `probe <root|unauth> <origin> <hex of comma-joined declared paths> <hex of remaining path>` →
what `Router.RootPath` / `Router.LoginPath` answer for that remainder under a mount with that table -/
def special (fs : List String) : String :=
  match fs with
  | ["probe", kind, _origin, tbl, rem] =>
    match parseHexStr? tbl, parseHexStr? rem with
    | some tbl, some rem =>
      let paths := (if tbl.isEmpty then [] else tbl.splitOn ",").map String.toList
      match kind with
      | "root" => toString ((SpecialTable.parse paths).matches rem.toList)
      | "unauth" =>
        let (t, w) := parseUnauth paths
        toString (loginMatches t w rem.toList)
      | _ => "bad-op"
    | _, _ => "bad-op"
  | _ => "bad-op"

def streams : List (String × Driver.Stream) :=
  [("authz", { σ := State, init := State.init, step := step }),
   ("special", .stateless special)]
end Driver.RequestAuthz
