import Driver.Stream
import Obao.Model.PKIReport
import Obao.Model.PKIRevoke
import Obao.Model.PKIRevokeConc
/-! Stateful stream `pkirevoke` (C16).  Ops (tab-separated fields):
`addissuer` · `delissuer i` · `issue i L|S|M` · `craft i X|V` · `importissuer k` (k = 0: fresh serial, else the serial of certificate #k) · `revoke k serial|cert` · `rotate` · `tidy cs rc assoc`
· `config a d x` (each 0, 1 or `-`) · `restart` · `tick d` · `obs`.
`revoke`/`rotate` may carry `fault <class> <observed writes>` (one storage operation of the request failed; the
writes that took effect before it are an input because the order of per-issuer CRL writes is Go map order; the
driver checks they are a prefix of the program for that order) or `crash <observed writes>`. -/
namespace Driver.PKIRevoke
open Obao Obao.PKIRevoke

def ord (k : Nat) : String := s!"#{k + 1}"
def ords (l : List Nat) : String := "[" ++ ",".intercalate ((sortNat l).map ord) ++ "]"
def b01 (b : Bool) : String := if b then "1" else "0"

def insertBy (key : α → Nat × Nat) (a : α) : List α → List α
  | [] => [a]
  | b :: l => if (key a).1 < (key b).1 ∨ ((key a).1 = (key b).1 ∧ (key a).2 ≤ (key b).2) then a :: b :: l
              else b :: insertBy key a l
def sortBy (key : α → Nat × Nat) (l : List α) : List α := l.foldr (insertBy key) []

/-- `none` = not a storage write (bookkeeping step of the model) -/
def token : Step → Option String
  | .putCert k => some s!"S{ord k}"
  | .delCert k => some s!"s{ord k}"
  | .putRevoked k t => some s!"R{ord k}:t{t}"
  | .delRevoked k => some s!"r{ord k}"
  | .putCRL i n ser _ => some s!"C{i}:{n}{ords ser}"
  | .putDelta i n => some s!"D{i}:{n}[]"
  | .delCRL i => some s!"c{i}"
  | .delDelta i => some s!"d{i}"
  | .putCounters cs => some ("K[" ++ ",".intercalate ((sortBy (fun p => (p.1, 0)) cs).map fun p => s!"{p.1}={p.2}") ++ "]")
  | .putCfg c => some s!"G:a{b01 c.autoRebuild}d{b01 c.disable}x{b01 c.allowExpired}"
  | _ => none

/-- runs whose internal order is not fixed by the code (map iteration / storage listing order): group id + sort key -/
def group : Step → Nat × (Nat × Nat)
  | .putCRL i .. => (1, (i, 0))
  | .putDelta i _ => (2, (i, 0))
  | .delCert k => (3, (k, 0))
  | .delRevoked k => (3, (k, 1))
  | .putRevoked k _ => (3, (k, 2))
  | .delCRL i => (4, (i, 0))
  | .delDelta i => (4, (i, 1))
  | _ => (0, (0, 0))

/-- sort every maximal run of steps of the same (non-zero) group -/
def canon (l : List Step) : List Step :=
  let rec go (fuel : Nat) (l : List Step) : List Step :=
    match fuel, l with
    | 0, l => l
    | _, [] => []
    | fuel + 1, a :: rest =>
      let g := (group a).1
      if g = 0 then a :: go fuel rest else
      let run := a :: rest.takeWhile (fun b => (group b).1 == g)
      let tl := rest.dropWhile (fun b => (group b).1 == g)
      sortBy (fun b => (group b).2) run ++ go fuel tl
  go l.length l

/-- the counter write that precedes each CRL of a phase depends on the order in which the runtime walks the
    issuers; in canonical (order-free) traces it is left out — interrupted and concurrent executions, whose observed
    order is an input, are compared with it -/
def dropAdvance : List Step → List Step
  | .putCounters cs :: .putCRL i n ser d :: r => .putCRL i n ser d :: dropAdvance r
  | .putCounters cs :: .putDelta i n :: r => .putDelta i n :: dropAdvance r
  | a :: r => a :: dropAdvance r
  | [] => []

def visible (l : List Step) : List Step := l.filter (fun st => (token st).isSome)
def tokens (l : List Step) : List String := l.filterMap token
def showTrace (l : List Step) : String :=
  let t := tokens (canon (dropAdvance (visible l)))
  if t.isEmpty then "-" else " ".intercalate t

def showRes : Res → String
  | .ok => "ok"
  | .okIssuer i => s!"ok:i{i}"
  | .okCert k => s!"ok:{ord k}"
  | .revoked t => s!"ok:revoked:t{t}"
  | .expired => "ok:expired"
  | .notFound => "err:notfound"
  | .noSigner => "err:nosigner"
  | .isIssuer => "err:isissuer"
  | .noIssuer => "err:noissuer"
  | .badOp => "bad-op"

def parseTri? : String → Option (Option Bool)
  | "0" => some (some false) | "1" => some (some true) | "-" => some none | _ => none
def parseBool? : String → Option Bool
  | "0" => some false | "1" => some true | _ => none

/-- issuer order of the `C`/`D` tokens of an observed trace, completed by the remaining issuers -/
def orderFrom (letter : Char) (obs : List String) (live : List Nat) : List Nat :=
  let seen := obs.filterMap fun t =>
    if t.front == letter then ((t.drop 1).toString.splitOn ":").head?.bind String.toNat? else none
  seen ++ live.filter (fun i => !(i ∈ seen))

def parseObs (s : String) : List String := if s = "-" then [] else s.splitOn " "

inductive Cut where
  | none
  | fault (cls : String) (obs : List String)
  | crash (obs : List String)

def parseCut? : List String → Option Cut
  | [] => some .none
  | ["fault", cls, obs] => some (.fault cls (parseObs obs))
  | ["crash", obs] => some (.crash (parseObs obs))
  | _ => Option.none

/-- storage reads whose failure the code ignores (legacy-path probes in `fetchCertBySerial`); `none` = the planned
    fault position lay beyond the last storage operation of this execution, so nothing failed -/
def swallowed (cls : String) : Bool := cls == "get:certs-legacy" || cls == "get:revoked-legacy" || cls == "none"

/-- candidate orders for a phase of an interrupted request: the order of the CRLs seen so far, continued by every
    possible next issuer (the request may have been cut between an issuer's counter write and its CRL) -/
def orderCands (letter : Char) (obs : List String) (live : List Nat) : List (List Nat) :=
  let base := orderFrom letter obs live
  let seen := obs.filterMap fun t =>
    if t.front == letter then ((t.drop 1).toString.splitOn ":").head?.bind String.toNat? else none
  let rest := live.filter (fun i => !(i ∈ seen))
  base :: rest.map fun cand => seen ++ cand :: rest.filter (· != cand)

/-- the program of an interrupted request under an order that explains the observed writes (else the default order) -/
def fitProg (prog : List Nat → List Nat → List Step × Res) (obs : List String) (live : List Nat) : List Step × Res :=
  let cands := (orderCands 'C' obs live).flatMap fun o1 => (orderCands 'D' obs live).map fun o2 => (o1, o2)
  match cands.find? (fun o => obs == (tokens (visible (prog o.1 o.2).1)).take obs.length) with
  | some o => prog o.1 o.2
  | none => prog (orderFrom 'C' obs live) (orderFrom 'D' obs live)

/-- run a request program under a cut; `prog o1 o2` is the request's program for the given issuer orders -/
def runCut (s : St) (prog : List Nat → List Nat → List Step × Res) (cut : Cut) : St × String :=
  match cut with
  | .none =>
    let all := List.range (s.nIssuers + 2)
    let (p, r) := prog all all
    if r = .badOp then (s, "bad-op") else
    (applySteps s p, s!"{showRes r} w={showTrace p}")
  | .fault cls obs =>
    let live := sortNat s.issuers
    let (p, r) := fitProg prog obs live
    if r = .badOp then (s, "bad-op") else
    let toks := tokens (visible p)
    if obs != toks.take obs.length then (s, "illegal-trace:" ++ " ".intercalate toks) else
    if swallowed cls then
      if obs.length == toks.length then (applySteps s p, s!"{showRes r} w={showTrace p}")
      else (s, "illegal-trace:swallowed-fault-did-not-complete")
    else
      let done := (visible p).take obs.length
      (applySteps s done, "err:internal")
  | .crash obs =>
    let live := sortNat s.issuers
    let (p, r) := fitProg prog obs live
    if r = .badOp then (s, "bad-op") else
    let toks := tokens (visible p)
    if obs != toks.take obs.length then (s, "illegal-trace:" ++ " ".intercalate toks) else
    (applySteps s ((visible p).take obs.length), "crashed")

def showStatus : Status → String
  | .absent => "N" | .good => "G" | .revoked t => s!"R{t}"
def showOcsp : Ocsp → String
  | .good => "g" | .revoked => "r" | .unknown => "u" | .unauthorized => "x"

def showServed : Option (Nat × List Nat) → String
  | none => "none"
  | some (n, ser) => s!"{n}{ords ser}"

def observe (s : St) : String :=
  let crls := (sortNat s.issuers).map fun i => s!"i{i}={showServed (served s i)}"
  let dflt := match s.dflt with
    | none => "none"
    | some d => match served s d with | none => "none" | some (n, _) => toString n
  let certs := (List.range s.certs.length).map fun k => s!"{ord k}={showStatus (status s k)}/{showOcsp (ocsp s k)}"
  "crl" ++ String.join (crls.map (" " ++ ·)) ++ " | def=" ++ dflt ++ " |" ++ String.join (certs.map (" " ++ ·))

def parseOp? : List String → Option (Op × List String)
  | "addissuer" :: rest => some (.addIssuer, rest)
  | "delissuer" :: i :: rest => i.toNat?.map fun i => (.delIssuer i, rest)
  | "issue" :: i :: cls :: rest =>
    match i.toNat?, (match cls with | "L" => some 3600 | "S" => some 1 | "M" => some 4 | _ => none) with
    | some i, some ttl => some (.issue i ttl, rest)
    | _, _ => none
  | "craft" :: i :: cls :: rest =>
    match i.toNat?, (match cls with | "X" => some false | "V" => some true | _ => none) with
    | some i, some v => some (.craft i v, rest)
    | _, _ => none
  | "importissuer" :: col :: rest =>
    match col.toNat? with
    | some 0 => some (.importIssuer none, rest)
    | some (k + 1) => some (.importIssuer (some k), rest)
    | none => none
  | "revoke" :: k :: mode :: rest =>
    match k.toNat?, (match mode with | "serial" => some false | "cert" => some true | _ => none) with
    | some (k + 1), some byCert => some (.revoke k byCert, rest)
    | _, _ => none
  | "rotate" :: rest => some (.rotate, rest)
  | "tidy" :: cs :: rc :: assoc :: rest =>
    match parseBool? cs, parseBool? rc, parseBool? assoc with
    | some cs, some rc, some assoc => some (.tidy cs rc assoc, rest)
    | _, _, _ => none
  | "config" :: a :: d :: x :: rest =>
    match parseTri? a, parseTri? d, parseTri? x with
    | some a, some d, some x => some (.config a d x, rest)
    | _, _, _ => none
  | "restart" :: rest => some (.restart, rest)
  | "tick" :: d :: rest => d.toNat?.map fun d => (.tick d, rest)
  | _ => none

/-- requests whose answer line carries the write trace; only `revoke` and `rotate` may be cut -/
def traced : Op → Bool
  | .issue .. | .craft .. | .restart | .tick _ => false
  | _ => true
def cuttable : Op → Bool
  | .revoke .. | .rotate => true
  | _ => false

/-! ### concurrent cases: the observed schedule is replayed on the micro-step model (trace validation) -/

/-- events of a concurrent case: the effective writes in global order, tagged with the thread, plus `L` = the
    thread's listing of `revoked/` inside a CRL build, `n<i>`/`x<i>` = issuer entry created / deleted -/
def ctoken : Step → Option String
  | .addIssuer i => some s!"n{i}"
  | .delIssuer i => some s!"x{i}"
  | st => token st

def actEvent (c : CSt) : Act → Option String
  | .w st => ctoken st
  | .bw st => ctoken st
  | .snap .. => if c.s.cfg.disable then none else some "L"
  | _ => none

/-- a thread gives up its locks as soon as it has nothing left to do under them: run its pending release steps -/
def releaseTail (c : CSt) (a : Bool) : Nat → CSt
  | 0 => c
  | fuel + 1 =>
    match (c.get a).acts with
    | .built :: _ | .unlockB :: _ | .unlockR :: _ =>
      match cstep false c a with
      | some c' => releaseTail c' a fuel
      | none => c
    | _ => c

/-- advance thread `a` through its silent micro-steps until it performs the event `tok` -/
def advance (c : CSt) (a : Bool) (tok : String) : Nat → Except String CSt
  | 0 => .error "fuel"
  | fuel + 1 =>
    match (c.get a).acts with
    | [] => .error s!"thread-finished-before:{tok}"
    | act :: _ =>
      match cstep false c a with
      | none => .error s!"blocked-before:{tok}"
      | some c' =>
        match actEvent c act with
        | some v => if v == tok then .ok (releaseTail c' a 8) else .error s!"expected:{v}:got:{tok}"
        | none => advance c' a tok fuel

/-- after the last observed event only silent micro-steps may remain -/
def drain (c : CSt) : Nat → Except String CSt
  | 0 => .error "fuel"
  | fuel + 1 =>
    if c.finished then .ok c else
    let try1 (a : Bool) : Option (Except String CSt) :=
      match (c.get a).acts with
      | [] => none
      | act :: _ =>
        match actEvent c act with
        | some v => some (.error s!"unobserved-write:{v}")
        | none => (cstep false c a).map .ok
    match try1 false with
    | some (.ok c') => drain c' fuel
    | some (.error e) => .error e
    | none =>
      match try1 true with
      | some (.ok c') => drain c' fuel
      | some (.error e) => .error e
      | none => .error "deadlock"

def splitBar (fs : List String) : List (List String) :=
  fs.foldr (fun f acc => if f == "|" then [] :: acc else match acc with | h :: t => (f :: h) :: t | [] => [[f]]) [[]]

def parseEvent (e : String) : Option (Bool × String) :=
  if e.startsWith "1:" then some (false, (e.drop 2).toString)
  else if e.startsWith "2:" then some (true, (e.drop 2).toString) else none

def showResO : Option Res → String
  | some r => showRes r
  | none => "none"

def stepConc (s : St) (fs : List String) : St × String :=
  match splitBar fs with
  | [f1, f2, [sched]] =>
    match parseOp? f1, parseOp? f2, (parseObs sched).mapM parseEvent with
    | some (op1, []), some (.revoke k byCert, []), some evs =>
      let toks (a : Bool) := (evs.filter (·.1 == a)).map (·.2)
      let live := sortNat (List.range (s.nIssuers + 2))
      let c0 := cinit s op1 (orderFrom 'C' (toks false) live) (orderFrom 'D' (toks false) live) k byCert
        (orderFrom 'C' (toks true) live) (orderFrom 'D' (toks true) live)
      if c0.t1.res == some .badOp then (s, "bad-op") else
      let r := evs.foldl (fun (acc : Except String CSt) ev => acc.bind fun c => advance c ev.1 ev.2 10000) (.ok c0)
      match r.bind (drain · 10000) with
      | .ok c => (c.s, s!"r1={showResO c.t1.res} r2={showResO c.t2.res}")
      | .error e => (s, "illegal-schedule:" ++ e)
    | _, _, _ => (s, "bad-op")
  | _ => (s, "bad-op")

def step (s : St) (fs : List String) : St × String :=
  if fs == ["obs"] then (s, observe s) else
  if fs.head? == some "conc" then stepConc s (fs.drop 1) else
  match parseOp? fs with
  | none => (s, "bad-op")
  | some (op, rest) =>
    match parseCut? rest with
    | none => (s, "bad-op")
    | some .none =>
      if traced op then runCut s (fun o1 o2 => prog s o1 o2 op) .none
      else
        let (p, r) := prog s [] [] op
        if r = .badOp then (s, "bad-op") else (applySteps s p, showRes r)
    | some cut => if cuttable op then runCut s (fun o1 o2 => prog s o1 o2 op) cut else (s, "bad-op")

/-! stream `pkiscen`: directed scenarios at predicate level; the answer is what the property demands, computed from the
write-level model `Obao.PKIReport` where a fault position is involved -/
/-- the state after the call and, if it failed, its fault-free retry; whether one of them succeeded -/
def afterRetry (r1 r2 : Obao.PKIReport.S × Bool) : String × Obao.PKIReport.S :=
  if r1.2 then ("ok", r1.1) else ((if r2.2 then "ok" else "err"), r2.1)

def stepScen (u : Unit) (fs : List String) : Unit × String :=
  match fs with
  | ["scen", "issrev", k] =>
    match k.toNat? with
    | some k =>
      let r1 := Obao.PKIReport.issuerRevoke {} k
      let (fr, s) := afterRetry r1 (Obao.PKIReport.issuerRevoke r1.1 0)
      (u, fr ++ (if s.entry then "|cert:revoked|ocsp:revoked" else "|cert:good|ocsp:good") ++ (if s.crl then "|crl:listed" else "|crl:absent"))
    | none => (u, "bad-op")
  | ["scen", "cfgcrl", _what, k] =>
    match k.toNat? with
    | some k =>
      let r1 := Obao.PKIReport.configCRL { entry := true } k
      let (fr, s) := afterRetry r1 (Obao.PKIReport.configCRL r1.1 0)
      (u, fr ++ (if s.crl then "|crl:listed" else "|crl:absent"))
    | none => (u, "bad-op")
  -- a revoked, unexpired certificate is reported revoked by every channel (`C16.revoked_everywhere`), whichever
  -- member of its issuer set it is associated with and whatever is imported later; pagination returns every serial
  | ["scen", "equiv"] => (u, "cert:revoked|ocsp:revoked|crl:listed")
  | ["scen", "impiss"] => (u, "cert:revoked|crl:listed|other:kept")
  -- an issuer whose certificate is not in the mount's certificate store (imported, with or without its key): its
  -- revocation is recorded where every channel looks (`C16.revoked_reported_everywhere`)
  | ["scen", "issrevimp", _how] => (u, "ok|cert:revoked|ocsp:revoked|crl:listed")
  | ["scen", "page", _limit] => (u, "all")
  | _ => (u, "bad-op")

def streams : List (String × Driver.Stream) :=
  [("pkirevoke", { σ := St, init := Obao.PKIRevoke.init, step := step }),
   ("pkiscen", { σ := Unit, init := (), step := stepScen })]
end Driver.PKIRevoke
