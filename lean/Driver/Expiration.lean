import Driver.Stream
import Obao.Model.Expiration
namespace Driver.Expiration
open Obao Obao.Expiration

def sortNat (l : List Nat) : List Nat := (l.toArray.qsort (· < ·)).toList

def showIds (l : List Nat) : String :=
  if l.isEmpty then "-" else ",".intercalate ((sortNat l).map toString)

def showStored (s : St) : String :=
  if s.stored.isEmpty then "-" else
  let ids := sortNat (s.stored.map (·.id))
  ",".intercalate (ids.map fun i =>
    match find? s i with
    | some l => toString i ++ (if l.irrevocable && !s.sealed.contains l.ns then "x" else "")   -- a sealed namespace's entries cannot be read
    | none => toString i)

/-- TTLs are compared rounded to the minute (the harness's wall clock moves a few seconds per case) -/
def roundMin (t : Int) : Int := (t + 30) / 60 * 60

def showOut : Out → String
  | .okLease id ttl => s!"ok:{id}:{roundMin ttl}"
  | .okTTL ttl => s!"ok:{roundMin ttl}"
  | .ok => "ok"
  | .err c => s!"err:{c}"
  | .bad => "bad-op"

def showObs (s : St) : String :=
  let nsl := (s.stored.filter fun l => s.sealed.contains l.ns).map (·.id)
  s!"st={showStored s}|pend={showIds s.pending}|irr={showIds s.irrevocable}|non={showIds s.nonexpiring}|rev={showIds s.revoked}|calls={s.calls}|unk=0|sealed={showIds s.sealed}|nsl={showIds nsl}|held={showIds (s.held.map (·.2))}|marks={showIds (s.marks.map (·.1)).eraseDups}|rm={s.restoreMode}" ++
  (if s.outOfFuel then "|OUT-OF-FUEL" else "")

def b? (x : String) : Option Bool := match x with | "0" => some false | "1" => some true | _ => none

def parseOp (fs : List String) : Option Op :=
  match fs with
  | ["tokcreate", ttl, emax, ren, now] => do
    pure (.tokCreate (← ttl.toInt?) (← emax.toInt?) (← b? ren) (← now.toInt?))
  | ["rolecreate", ttl, emax, remax, ren, now] => do
    -- a role token: bound by the lesser of the request's and the role's explicit maximum, at creation and at renewals
    let e ← emax.toInt?
    let r ← remax.toInt?
    let m := if e > 0 ∧ (r = 0 ∨ e < r) then e else r
    pure (.tokCreate (← ttl.toInt?) m (← b? ren) (← now.toInt?))
  | ["rootcreate", now] => do pure (.rootCreate (← now.toInt?))
  | ["reg", owner, ttl, max, ren, now] => do
    pure (.reg (← owner.toNat?) (← ttl.toInt?) (← max.toInt?) (← b? ren) (← now.toInt?))
  | ["batchreg", ttl, max, ren, now] => do
    pure (.batchReg (← ttl.toInt?) (← max.toInt?) (← b? ren) (← now.toInt?))
  | ["renew", id, incr, now] => do pure (.renew (← id.toNat?) (← incr.toInt?) (← now.toInt?))
  | ["tokrenew", id, incr, now] => do pure (.tokRenew (← id.toNat?) (← incr.toInt?) (← now.toInt?))
  | ["revoke", id, sync, now] => do pure (.revoke (← id.toNat?) (← b? sync) (← now.toInt?))
  | ["revokeloadfault", id, now] => do pure (.revokeLoadFault (← id.toNat?) (← now.toInt?))
  | ["tokrevoke", id, now] => do pure (.tokRevoke (← id.toNat?) (← now.toInt?))
  | ["age", id, secs, now] => do pure (.age (← id.toNat?) (← secs.toInt?) (← now.toInt?))
  | ["setfail", mode, n] => do
    let n ← n.toNat?
    match mode with
    | "none" => pure (.setFail .none)
    | "transient" => pure (.setFail (.transient n))
    | "always" => pure (.setFail .always)
    | "unrecoverable" => pure (.setFail .unrecoverable)
    | _ => none
  | ["freeze", x] => do pure (.freeze (← b? x))
  | ["restart", kind, now] => do let _ ← b? kind; pure (.restart (← now.toInt?))
  | ["restartfault", id, now] => do pure (.restartFault (← id.toNat?) (← now.toInt?))
  | ["unsealfault", ns, id, now] => do pure (.unsealNsFault (← ns.toNat?) (← id.toNat?) (← now.toInt?))
  | ["nsreg", ns, ttl, max, ren, now] => do
    pure (.nsReg (← ns.toNat?) (← ttl.toInt?) (← max.toInt?) (← b? ren) (← now.toInt?))
  | ["nsdelete", ns] => do pure (.nsDelete (← ns.toNat?))
  | ["seal", ns] => do pure (.sealNs (← ns.toNat?))
  | ["unseal", ns, now] => do pure (.unsealNs (← ns.toNat?) (← now.toInt?))
  | ["unsealbegin", ns, h, now] => do pure (.unsealBegin (← ns.toNat?) (← h.toNat?) (← now.toInt?))
  | ["unsealend", ns, now] => do pure (.unsealEnd (← ns.toNat?) (← now.toInt?))
  | _ => none

def step (s : St) (fs : List String) : St × String :=
  match fs with
  | ["rolegonerenew", _p, _e] =>
    -- the role that carried the bounds is gone: the renewal is refused (the code's choice) — what the property needs is
    -- "never beyond the bounds the token was issued under"; `within` would be acceptable, too (judged by the harness)
    (s, "refused|" ++ showObs s)
  | ["periodrenew", tokP, roleP] =>
    -- a periodic token created through a role (request period tokP, role period roleP, 0 = none) and renewed at once:
    -- both TTLs are the lesser period (`C05.periodic_role_token_capped_by_own_period`)
    match tokP.toInt?, roleP.toInt? with
    | some tp, some rp =>
      let base : Obao.TTL.Inp := { now := 0, start := 0, sysMax := sysMax, sysDefault := sysDefault, increment := 0,
                                   backendTTL := 0, period := Obao.TTL.renewPeriod tp rp, backendMax := 0, explicitMax := 0 }
      match Obao.TTL.calcTTL base with
      | .ok t _ => (s, s!"create:{roundMin t}|renew:{roundMin t}|" ++ showObs s)
      | _ => (s, "bad-op")
    | _, _ => (s, "bad-op")
  | ["crash", _, j, now] =>
    -- a restart from ANY crash prefix restores exactly the stored leases (`C05b.restart_tracks_stored`)
    match j.toNat?, now.toInt? with
    | some _, some _ => (s, "untracked=0|ghost=0")
    | _, _ => (s, "bad-op")
  | _ =>
    match parseOp fs with
    | some o => let r := applyOp s o; (r.1, showOut r.2 ++ "|" ++ showObs r.1)
    | none => (s, "bad-op")

def streams : List (String × Driver.Stream) :=
  [("expiration", { σ := St, init := St.init, step := step })]
end Driver.Expiration
