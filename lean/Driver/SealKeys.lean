import Driver.Stream
import Obao.Model.SealKeys
/-! Driver streams for C10: `sealkeys` (barrier level: active barrier `a`, standby `b`, crash prefixes) and
`sealcore` (core level: Shamir seal, rekey / keyless root rotation, crash prefixes, unseal with share sets). -/
namespace Driver.SealKeys
open Obao Obao.SealKeys

def showKey (k : Key) : String :=
  let c := match k.cls with | 0 => "R" | 1 => "T" | 2 => "S" | _ => "G"
  let base := c ++ toString k.id
  if k.len = 32 then base else base ++ "/" ++ toString k.len

def parseKey? (s : String) : Option Key :=
  match s.splitOn "/" with
  | [nm] => go nm 32
  | [nm, l] => l.toNat?.bind (go nm)
  | _ => none
where
  go (nm : String) (len : Nat) : Option Key :=
    match nm.toList with
    | c :: rest =>
      let cls? : Option Nat := if c = 'R' then some 0 else if c = 'T' then some 1 else if c = 'S' then some 2 else none
      match cls?, (String.ofList rest).toNat? with
      | some cls, some id => some { cls, id, len }
      | _, _ => none
    | [] => none

def showPath : Path → String
  | .keyring => "core/keyring"
  | .rootKey => "core/root-key"
  | .legacy => "core/master"
  | .kek => "core/shamir-kek"
  | .stored => "core/hsm/barrier-unseal-keys"
  | .sealcfg => "core/seal-config"
  | .upgrade t => "core/upgrade/" ++ toString t
  | .data k => k

def isDataKey (s : String) : Bool := s.startsWith "d/" && s.length > 2

def parsePath? (s : String) : Option Path :=
  if s = "core/keyring" then some .keyring
  else if s = "core/root-key" then some .rootKey
  else if s = "core/master" then some .legacy
  else if s = "core/shamir-kek" then some .kek
  else if s.startsWith "core/upgrade/" then ((s.drop "core/upgrade/".length).toString.toNat?).map .upgrade
  else if isDataKey s then some (.data s)
  else none

def insertKV (x : String × String) : List (String × String) → List (String × String)
  | [] => [x]
  | y :: ys => if x.1 ≤ y.1 then x :: y :: ys else y :: insertKV x ys
def sortKV (l : List (String × String)) : List (String × String) := l.foldr insertKV []

def insertNK (x : Nat × Key) : List (Nat × Key) → List (Nat × Key)
  | [] => [x]
  | y :: ys => if x.1 ≤ y.1 then x :: y :: ys else y :: insertNK x ys

def showKeyring (kr : Keyring) : String :=
  let ks := (kr.keys.foldr insertNK []).map fun (t, k) => toString t ++ "=" ++ showKey k
  "kr(" ++ showKey kr.root ++ ";" ++ toString kr.active ++ ";" ++ ",".intercalate ks ++
    (if kr.rot = 0 then "" else ";rot=" ++ toString kr.rot) ++ ")"

def showVal : Val → String
  | .bytes s => "b:" ++ s
  | .keyrec t k => "key(" ++ toString t ++ "," ++ showKey k ++ ")"
  | .raw k => "raw(" ++ showKey k ++ ")"

def showPayload : Payload → String
  | .keyring kr => showKeyring kr
  | .val v => showVal v

def showEntry : PEntry → String
  | .enc t k _ p => toString t ++ ":" ++ showKey k ++ ":" ++ showPayload p
  | .stored s r => "stored(" ++ showKey s ++ "," ++ showKey r ++ ")"
  | .sealcfg n t => "cfg(" ++ toString n ++ "," ++ toString t ++ ")"

def showRes : Res → String
  | .ok => "ok"
  | .okTerm t => "ok:" ++ toString t
  | .okPayload p => "ok:" ++ showPayload p
  | .okUp d t => "ok:" ++ (if d then "true" else "false") ++ ":" ++ toString t
  | .okList ks => "ok:[" ++ ",".intercalate ks ++ "]"
  | .absent => "nil"
  | .sealed => "err:sealed"
  | .nsSealed => "err:ns-sealed"
  | .invalidKey => "err:invalid-key"
  | .notInit => "err:not-init"
  | .alreadyInit => "err:already-init"
  | .keySize => "err:keysize"
  | .cipher => "err:cipher"
  | .noTerm t => "err:noterm:" ++ toString t
  | .decrypt => "err:decrypt"
  | .conflict => "err:conflict"
  | .missing => "err:missing"
  | .deser => "err:deser"
  | .termMismatch => "err:term-mismatch"
  | .io => "err:io"
  | .due => "due:max-ops"
  | .panic => "panic"
  | .unmodelled => "unmodelled"

def showBar (b : Barrier) : String :=
  "s" ++ (if b.sealed then "1" else "0") ++ ":" ++ (match b.keyring with | none => "none" | some kr => showKeyring kr)

def showPhys (p : Phys) : String :=
  let es := sortKV (p.map fun (k, e) => (showPath k, showEntry e))
  "[" ++ " ".intercalate (es.map fun (k, e) => k ++ "=" ++ e) ++ "]"

def showCrash (r : CrashRep) : String :=
  "unseal=" ++ showRes r.unsealRes ++ ";read=" ++ ",".intercalate (r.reads.map fun (k, x) => k ++ ":" ++ showRes x) ++
  ";follow=" ++ ",".intercalate (r.followRes.map showRes)

def parseOp? : List String → Option Op
  | ["init", k, "-"] => (parseKey? k).map (.init · none)
  | ["init", k, s] => do let k ← parseKey? k; let s ← parseKey? s; pure (.init k (some s))
  | ["unseal", k] => (parseKey? k).map .unsealB
  | ["seal"] => some .sealB
  | ["put", k, v] => if isDataKey k then some (.put k v) else none
  | ["get", p] => (parsePath? p).map .get
  | ["del", k] => if isDataKey k then some (.del k) else none
  | ["list"] => some .list
  | ["rotate"] => some .rotate
  | ["rotroot", k] => (parseKey? k).map .rotroot
  | ["setroot", k] => (parseKey? k).map .setroot
  | ["reloadkr"] => some .reloadkr
  | ["reloadroot"] => some .reloadroot
  | ["mkupgrade", t] => t.toNat?.map .mkupgrade
  | ["chkupgrade"] => some .chkupgrade
  | ["rmupgrade", t] => t.toNat?.map .rmupgrade
  | ["verifyroot", k] => (parseKey? k).map .verifyroot
  | ["keyinfo"] => some .keyinfo
  | ["tick"] => some .tick
  | ["setrot", d] => d.toNat?.map .setrot
  | ["heat"] => some .heat
  | _ => none

def stepWorld1 (w : World) (fault : Option Nat) (fs : List String) : World × String :=
  match fs with
  | ["txnterm"] =>
    -- a write is sealed under the term that is active when the write is issued, inside or outside a transaction
    (w, "before:1|after:2|read:ok")
  | ["tickrace"] =>
    -- the tick and a rotation are serialised by the barrier's lock (either order): nothing written is lost, the rotated
    -- term stays the active one across a seal/unseal
    (w, "before:ok|after:ok|term:kept")
  | ["sealedcommit"] =>
    -- a transaction begun before the seal: every one of its operations — the commit included — is refused afterwards,
    -- nothing of it reaches the store (a sealed barrier serves nothing)
    (w, "get:refused|put:refused|commit:refused|entry:absent")
  | ["world", "root"] => ({ w with ns := false }, "ok")
  | ["world", "ns"] => ({ w with ns := true }, "ok")
  | ["dump"] => (w, "A=" ++ showBar w.a ++ " B=" ++ showBar w.b ++ " P=" ++ showPhys w.phys)
  | ["nwrites"] => (w, toString w.writes.length)
  | ["cmp"] =>
    match w.a.keyring, w.b.keyring with
    | some ka, some kb => (w, if showKeyring ka = showKeyring kb then "same" else "differ")
    | _, _ => (w, "n/a")
  | ["crash", k, key] =>
    match k.toNat?, parseKey? key with
    | some k, some key => if k ≤ w.writes.length then (w, showCrash (w.crash k key)) else (w, "bad-op")
    | _, _ => (w, "bad-op")
  | [whoS, "probe", _what] =>
    -- ListPage / Encrypt / Decrypt / Keyring: each entry point checks the sealed flag itself; nothing is served while sealed
    let who? : Option Bool := if whoS = "a" then some false else if whoS = "b" then some true else none
    match who? with
    | some who => (w, if (if who then w.b else w.a).sealed then "err:sealed" else "served")
    | none => (w, "bad-op")
  | whoS :: rest =>
    let who? : Option Bool := if whoS = "a" then some false else if whoS = "b" then some true else none
    match who?, parseOp? rest with
    | some who, some op =>
      let (w', r) := match fault with
        | some k => w.execFault who op k
        | none => w.exec who op
      let out := match op, r with
        | .sealB, .ok => "ok:cleared"
        | _, _ => showRes r
      (w', out)
    | _, _ => (w, "bad-op")
  | _ => (w, "bad-op")

/-- `fail k` arms a storage fault for the next barrier operation -/
def stepWorld (st : World × Option Nat) (fs : List String) : (World × Option Nat) × String :=
  match fs with
  | ["fail", k] => match k.toNat? with
    | some k => ((st.1, some k), "ok")
    | none => (st, "bad-op")
  | _ =>
    let (w', out) := stepWorld1 st.1 st.2 fs
    let isOp := match fs with | "a" :: _ => true | "b" :: _ => true | _ => false
    ((w', if isOp then none else st.2), out)

def showUns : UnsealRes → String
  | .unsealed => "unsealed"
  | .insufficient => "insufficient"
  | .invalid => "err:invalid"
  | .notInit => "err:not-init"
  | .other => "err:other"

def showCoreRes : CoreRes → String
  | .ok => "ok"
  | .okN n => "ok:" ++ toString n
  | .bar r => showRes r
  | .uns u => showUns u
  | .badCfg => "err:config"
  | .sealedErr => "err:sealed"

def parseWho? (s : String) : Option Bool := if s = "new" then some true else if s = "old" then some false else none

def stepCore (c : CoreSt) (fs : List String) : CoreSt × String :=
  let run (op : CoreOp) : CoreSt × String := let (c', r) := c.exec op; (c', showCoreRes r)
  match fs with
  | ["boot", n, t] => match n.toNat?, t.toNat? with
    | some n, some t => run (.boot n t)
    | _, _ => (c, "bad-op")
  | ["bootauto"] => run .bootAuto
  | ["put", k, v] => if isDataKey k then run (.put k v) else (c, "bad-op")
  | ["get", k] => if isDataKey k then run (.get k) else (c, "bad-op")
  | ["del", k] => if isDataKey k then run (.del k) else (c, "bad-op")
  | ["rotate"] => run .rotate
  | ["tick"] => run .tick
  | ["rekey", n, t] | ["rekeysm", n, t] | ["rekeyv", n, t] => match n.toNat?, t.toNat? with
    | some n, some t => run (.rekey n t)
    | _, _ => (c, "bad-op")
  | ["rekeyfail", n, t] | ["rekeysmfail", n, t] => match n.toNat?, t.toNat? with
    | some n, some t => run (.rekeyFail n t)
    | _, _ => (c, "bad-op")
  | ["rotroot"] => run .rotroot
  | ["seal"] => run .sealC
  | ["unseal", w] => match parseWho? w with
    | some b => run (.unsealC b)
    | none => (c, "bad-op")
  | ["crash", k, w] => match k.toNat?, parseWho? w with
    | some k, some b =>
      if k ≤ c.writes.length then
        let (u, good, total) := c.crash k b
        (c, showUns u ++ ":" ++ toString good ++ "/" ++ toString total)
      else (c, "bad-op")
    | _, _ => (c, "bad-op")
  | ["hacrash", k] => match k.toNat? with
    | some k =>
      if k ≤ c.writes.length then
        match c.crashHA k with
        | (.unsealed, some true) => (c, "unsealed:active")
        | (.unsealed, some false) => (c, "unsealed:leader-failed")
        | (u, _) => (c, showUns u)
      else (c, "bad-op")
    | none => (c, "bad-op")
  | ["dump"] =>
    (c, "A=" ++ showBar c.bar ++ " P=" ++ showPhys c.phys)
  | ["nsreseal"] =>
    -- the rollback of a failed namespace unseal changes nothing outside that namespace: the core restarts with its
    -- shares and serves what was written before (`C10.sealed_unsealed_roundtrip` on the root barrier)
    (c, "nsunseal:failed|ns:sealed|restart:unsealed|get:served")
  | ["refusedunseal"] =>
    -- an unseal with the right shares that is refused after the barrier was opened: the node ends sealed — barrier
    -- sealed, no key material, nothing served (`C10.refused_unseal_ends_sealed`)
    let c1 := (c.exec .sealC).1
    let c2 := ((c1.exec (.unsealC true)).1.exec .sealC).1
    (c, "err:other|core:sealed|barrier:" ++ (if c2.bar.sealed then "sealed" else "open") ++ "|keyring:" ++
        (if c2.bar.keyring.isNone then "none" else "held") ++ "|get:" ++
        (match (c2.exec (.get "d/a")).2 with | .bar .sealed => "refused" | .sealedErr => "refused" | _ => "served"))
  | _ => (c, "bad-op")

/-- stream `sealha`: a standby that follows the upgrade path (and reloads root key and keyring when it takes over) ends
with the active node's keyring — for the root barrier and for a namespace's (`C10.standby_follows_active`, world `ns`);
what it then persists opens under the stored root key, so a later seal is unsealed by the unchanged shares -/
def stepHA (u : Unit) (fs : List String) : Unit × String :=
  match fs with
  | ["hatakeover", _what] => (u, "keyring:same|data:readable|reseal:unseals")
  -- a ceremony pending on a node that steps down is gone when the node is active again: only shares of the CURRENT key
  -- start a rotation (`C20.rotation_requires_quorum`), the shares handed out by the completed ceremony keep unsealing
  | ["hastale"] => (u, "ceremony:dropped|verify:refused|k2:unseals")
  | _ => (u, "bad-op")

def streams : List (String × Driver.Stream) :=
  [("sealkeys", { σ := World × Option Nat, init := ({}, none), step := stepWorld }),
   ("sealcore", { σ := CoreSt, init := {}, step := stepCore }),
   ("sealha", { σ := Unit, init := (), step := stepHA })]
end Driver.SealKeys
