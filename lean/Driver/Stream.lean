import Obao.Model.Prelude
/-! Line-protocol plumbing shared by all driver streams. One op per input line (tab-separated fields),
one result line per op. A line `reset` starts a new case (state := init) and is answered by `reset`. -/
namespace Driver

structure Stream where
  σ : Type
  init : σ
  step : σ → List String → σ × String

def Stream.stateless (f : List String → String) : Stream :=
  { σ := Unit, init := (), step := fun _ fs => ((), f fs) }

partial def Stream.loop (s : Stream) (hin : IO.FS.Stream) (hout : IO.FS.Stream) (st : s.σ) : IO Unit := do
  let line ← hin.getLine
  if line.isEmpty then return ()
  let l := (line.dropEndWhile (fun c => c == '\n' || c == '\r')).toString
  let fs := Obao.fields l
  if fs == ["reset"] then
    hout.putStrLn "reset"
    s.loop hin hout s.init
  else
    let (st', out) := s.step st fs
    hout.putStrLn out
    s.loop hin hout st'

end Driver
