import Driver.Stream
import Obao.Model.Threshold
namespace Driver.Threshold
open Obao Obao.Threshold

def outStr : Outcome → String
  | .tooShort => "short"
  | .tooLong => "long"
  | .duplicate => "dup"
  | .pending n => "pending:" ++ toString n
  | .key k => "key:" ++ toHex k
  | .combineErr e => "cerr:" ++ (reprStr e).replace "Obao.GF256.CombineErr." ""

/-- `submit <threshold> <minLen> <maxLen> <part hex>` -/
def step (st : List Part) (fs : List String) : List Part × String :=
  match fs with
  | ["submit", thr, mn, mx, part] =>
    match thr.toInt?, mn.toNat?, mx.toNat?, parseHex? part with
    | some t, some mn, some mx, some p =>
      let r := submit ⟨t, mn, mx⟩ st p
      (r.1, outStr r.2 ++ ";progress=" ++ toString (progress r.1))
    | _, _, _, _ => (st, "bad-op")
  | _ => (st, "bad-op")

def streams : List (String × Driver.Stream) :=
  [("threshold", { σ := List Part, init := [], step := step })]
end Driver.Threshold
