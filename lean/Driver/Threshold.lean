import Driver.Stream
import Obao.Model.Threshold
namespace Driver.Threshold
open Obao Obao.Threshold

def outStr : Outcome → String
  | .tooShort => "short"
  | .tooLong => "long"
  | .duplicate => "dup"
  | .pending n => "pending:" ++ toString n
  | .key k => "key:" ++ toHex k
  | .combineErr e => "cerr:" ++ (reprStr e).replace "Obao.GF256.CombineErr." ""

/-- `submit <threshold> <minLen> <maxLen> <part hex>` -/
def step (st : List Part) (fs : List String) : List Part × String :=
  match fs with
  | ["submit", thr, mn, mx, part] =>
    match thr.toInt?, mn.toNat?, mx.toNat?, parseHex? part with
    | some t, some mn, some mx, some p =>
      let r := submit ⟨t, mn, mx⟩ st p
      (r.1, outStr r.2 ++ ";progress=" ++ toString (progress r.1))
    | _, _, _, _ => (st, "bad-op")
  | _ => (st, "bad-op")

def rotStr : RotOutcome → String
  | .tooShort => "short"
  | .tooLong => "long"
  | .duplicate => "dup"
  | .pending n => "pending:" ++ toString n
  | .combineErr e => "cerr:" ++ (reprStr e).replace "Obao.GF256.CombineErr." ""
  | .verifyFail => "verify-fail"
  | .proceeds => "proceeds"

def parseLenCheck? (s : String) : Option (Option (Nat × Nat)) :=
  if s = "-" then some none else
  match s.splitOn ":" with
  | [a, b] => match a.toNat?, b.toNat? with
    | some a, some b => some (some (a, b))
    | _, _ => none
  | _ => none

/-- `rotate <kind> <threshold> <lenCheck: - | min:max> <secret hex> <part hex>` (kind is informational: every
    path has to verify the recovered key) -/
def stepAll (st : List Part) (fs : List String) : List Part × String :=
  match fs with
  | ["rotate", _kind, thr, lc, secret, part] =>
    match thr.toInt?, parseLenCheck? lc, parseHex? secret, parseHex? part with
    | some t, some lc, some sec, some p =>
      let r := rotSubmit ⟨t, sec, lc⟩ st p
      (r.1, rotStr r.2 ++ ";progress=" ++ toString (progress r.1))
    | _, _, _, _ => (st, "bad-op")
  | _ => step st fs

def streams : List (String × Driver.Stream) :=
  [("threshold", { σ := List Part, init := [], step := stepAll })]
end Driver.Threshold
