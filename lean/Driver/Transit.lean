import Driver.Stream
import Obao.Model.Transit
namespace Driver.Transit
open Obao Obao.Transit

def showOut : Out → String
  | .okPol l d e a => s!"ok:l{l}:d{d}:e{e}:a{a}"
  | .okArt h v => s!"ok:#{h}:v{v}"
  | .okPlain p => s!"ok:{p}"
  | .okBool b => if b then "true" else "false"
  | .okBackup n => s!"ok:B{n}"
  | .okUnit => "ok"
  | .err c => s!"err:{c}"
  | .panic => "panic"
  | .badOp => "bad-op"

def parseType? : String → Option KType
  | "aes128-gcm96" => some .aes128
  | "aes256-gcm96" => some .aes256
  | "chacha20-poly1305" => some .chacha
  | "xchacha20-poly1305" => some .xchacha
  | "ed25519" => some .ed25519
  | "ecdsa-p256" => some .ecdsa256
  | "hmac" => some .hmac
  | _ => none

def parseBool? : String → Option Bool
  | "0" => some false
  | "1" => some true
  | _ => none

/-- optional field: `-` = absent -/
def parseOpt? {α} (f : String → Option α) (s : String) : Option (Option α) :=
  if s = "-" then some none else (f s).map some

/-- an opaque hex field: must be `-` or an even number of lowercase hex digits -/
def hexField? (s : String) : Option String := (parseHex? s).map fun _ => s

def parseVMut? (s : String) : Option VMut :=
  if s = "=" then some .same
  else if s = "noprefix" then some .noPrefix
  else if s = "nofields" then some .noFields
  else if s.startsWith "s:" then (parseHexStr? (s.drop 2).toString).map .str
  else none

def parseBMut? : String → Option BMut
  | "=" => some .same
  | "flipfirst" | "flipmid" | "fliplast" | "trunc1" | "append1" => some .tamper
  | "short" | "empty" => some .short
  | "badb64" => some .badB64
  | "badasn1" => some .badFormat
  | _ => none

def parseOp? (fs : List String) : Option Op :=
  match fs with
  | ["new", t, d, c] => do pure (.new (← parseType? t) (← parseBool? d) (← parseBool? c))
  | ["rotate"] => some .rotate
  | ["cfg", dec, enc, del, exp, apb] => do
      pure (.config (← parseOpt? String.toInt? dec) (← parseOpt? String.toInt? enc) (← parseOpt? parseBool? del)
                    (← parseOpt? parseBool? exp) (← parseOpt? parseBool? apb))
  | ["trim", n] => do pure (.trim (← n.toInt?))
  | ["backup"] => some .backup
  | ["restore", b, f] => do pure (.restore (← b.toNat?) (← parseBool? f))
  | ["delete"] => some .delete
  | ["enc", v, c, a, n, p] => do
      pure (.encrypt (← v.toInt?) (← hexField? c) (← hexField? a) (← hexField? n) (← hexField? p))
  | ["dec", h, vm, bm, c, a] => do
      pure (.decrypt (← h.toNat?) (← parseVMut? vm) (← parseBMut? bm) (← hexField? c) (← hexField? a))
  | ["rewrap", h, v, c] => do pure (.rewrap (← h.toNat?) (← v.toInt?) (← hexField? c))
  | ["sign", v, c, m] => do pure (.sign (← v.toInt?) (← hexField? c) (← hexField? m))
  | ["verify", h, vm, bm, c, m] => do
      pure (.verify (← h.toNat?) (← parseVMut? vm) (← parseBMut? bm) (← hexField? c) (← hexField? m))
  | ["hmac", v, m] => do pure (.hmac (← v.toInt?) (← hexField? m))
  | ["hmacverify", h, vm, bm, m] => do
      pure (.hmacVerify (← h.toNat?) (← parseVMut? vm) (← parseBMut? bm) (← hexField? m))
  | ["failput", k] => do pure (.failPut (← k.toNat?))
  | ["rawcfg", d, e] => do pure (.rawConfig (← d.toNat?) (← e.toNat?))
  | ["restoreraw", b, f] => do pure (.restoreRaw (← b.toNat?) (← parseBool? f))
  | _ => none

/-- split the item fields of a batch line into groups of `k` -/
def chunks (k : Nat) : Nat → List String → Option (List (List String))
  | 0, [] => some []
  | 0, _ => none
  | n + 1, fs => if fs.length < k then none else (chunks k n (fs.drop k)).map (fs.take k :: ·)

def showBatch : Except String (List Out) → String
  | .error c => s!"err:{c}"
  | .ok os => "|".intercalate (os.map showOut)

/-- `benc n (ver ctx aad plain)*`, `bdec n (h vmut bmut ctx aad)*`, `brewrap n (h ver ctx)*` -/
def parseBatch? (fs : List String) : Option (List Op) :=
  match fs with
  | "benc" :: n :: rest => do
      let gs ← chunks 4 (← n.toNat?) rest
      gs.mapM fun g => match g with
        | [v, c, a, p] => parseOp? ["enc", v, c, a, "-", p]
        | _ => none
  | "bdec" :: n :: rest => do
      let gs ← chunks 5 (← n.toNat?) rest
      gs.mapM fun g => parseOp? ("dec" :: g)
  | "brewrap" :: n :: rest => do
      let gs ← chunks 3 (← n.toNat?) rest
      gs.mapM fun g => parseOp? ("rewrap" :: g)
  | _ => none

/-- `softdel-fault <restore>`: keys/<name>/soft-delete (or soft-delete-restore) with a planned fault on its single Put.
The handler sets the flag on the policy and calls `Persist`; with the Put failing, `Persist` rolls the key material back
and the handler restores the flag (finding F52, repaired): the key is as it was — exactly a `Persist` of the unchanged
minimum versions that fails at the same Put (`rawConfig` with the current values).  Without a pending fault, or without
a key, the operation is outside the model. -/
def softDelFault (st : St) : St × String :=
  if st.failPut = 0 then (st, "unmodelled")
  else match st.pol with
    | none => (st, "unmodelled")
    | some p =>
      let (st', out) := step st (.rawConfig p.minDec p.minEnc)
      (st', showOut out)

/-- marker in the driver's copy of `failPut` (the model never sees it): the Commit of the next request fails -/
def commitFaultMark : Nat := 99

def stepLine (st : St) (fs : List String) : St × String :=
  match fs with
  | ["softdel-fault", _] => softDelFault st
  | ["failcommit"] => ({ st with failPut := commitFaultMark }, "ok")
  | _ =>
  if st.failPut = commitFaultMark then
    -- `Transit.stepCF … true`: the request answers with the commit error and nothing of it is visible
    match parseOp? fs with
    | some op => (({ st with failPut := 0 }, showOut (stepCF { st with failPut := 0 } true op).2))
    | none => (st, "bad-op")
  else
  match parseBatch? fs with
  | some items =>
    let (st', r) := batch st items
    (st', showBatch r)
  | none =>
  match parseOp? fs with
  | none => (st, "bad-op")
  | some op =>
    let (st', out) := step st op
    (st', showOut out)

def streams : List (String × Driver.Stream) :=
  [("transit", { σ := St, init := Obao.Transit.init, step := stepLine })]
end Driver.Transit
