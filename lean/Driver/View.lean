import Driver.Stream
import Obao.Model.View
namespace Driver.View
open Obao Obao.View

/-- comma-separated hex strings; a chain always has at least the root prefix -/
def parseChain? (s : String) : Option (List Bytes) :=
  let parts := s.splitOn ","
  if parts.isEmpty then none else parts.mapM parseHex?

def names (ns : List Bytes) : String := "[" ++ String.intercalate "," (ns.map toHex) ++ "]"

def relErr : String := "err:relative|-"

/-- state: sorted list of the keys present in the underlying storage -/
def step (keys : List Bytes) (fs : List String) : List Bytes × String :=
  match fs with
  | ["isrel", k] => match parseHex? k with
      | some k => (keys, if isRelativePath k then "1" else "0")
      | none => (keys, "bad-op")
  | ["segs", k] => match parseHex? k with
      | some k => (keys, if hasDotSegment k then "1" else "0")
      | none => (keys, "bad-op")
  | ["prefix", ch] => match parseChain? ch with
      | some (p :: qs) => (keys, toHex (chainPrefix (p :: qs)))
      | _ => (keys, "bad-op")
  | ["expand", ch, k] => match parseChain? ch, parseHex? k with
      | some (p :: qs), some k => (keys, toHex (expandKey (chainPrefix (p :: qs)) k))
      | _, _ => (keys, "bad-op")
  | ["truncate", ch, k] => match parseChain? ch, parseHex? k with
      | some (p :: qs), some k => (keys, toHex (truncateKey (chainPrefix (p :: qs)) k))
      | _, _ => (keys, "bad-op")
  | ["put", ch, k] => match parseChain? ch, parseHex? k with
      | some (p :: qs), some k =>
        match touch (chainPrefix (p :: qs)) k with
        | .relative => (keys, relErr)
        | .key f => (insertKey f keys, s!"ok|put={toHex f}")
      | _, _ => (keys, "bad-op")
  | ["delete", ch, k] => match parseChain? ch, parseHex? k with
      | some (p :: qs), some k =>
        match touch (chainPrefix (p :: qs)) k with
        | .relative => (keys, relErr)
        | .key f => (eraseKey f keys, s!"ok|delete={toHex f}")
      | _, _ => (keys, "bad-op")
  | ["get", ch, k] => match parseChain? ch, parseHex? k with
      | some (p :: qs), some k =>
        let pre := chainPrefix (p :: qs)
        match touch pre k with
        | .relative => (keys, relErr)
        | .key f =>
          if keys.contains f then (keys, s!"ok|get={toHex f}|1:{toHex (truncateKey pre f)}")
          else (keys, s!"ok|get={toHex f}|0")
      | _, _ => (keys, "bad-op")
  | ["list", ch, k] => match parseChain? ch, parseHex? k with
      | some (p :: qs), some k =>
        match touch (chainPrefix (p :: qs)) k with
        | .relative => (keys, relErr)
        | .key f => (keys, s!"ok|list={toHex f}|{names (listPage keys f [] (-1))}")
      | _, _ => (keys, "bad-op")
  | ["listpage", ch, k, after, limit] => match parseChain? ch, parseHex? k, parseHex? after, limit.toInt? with
      | some (p :: qs), some k, some after, some limit =>
        match touch (chainPrefix (p :: qs)) k with
        | .relative => (keys, relErr)
        | .key f => (keys, s!"ok|listpage={toHex f}:{toHex after}:{limit}|{names (listPage keys f after limit)}")
      | _, _, _, _ => (keys, "bad-op")
  | _ => (keys, "bad-op")

def streams : List (String × Driver.Stream) :=
  [("view", { σ := List Bytes, init := [], step := step })]
end Driver.View
