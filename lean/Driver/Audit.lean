import Driver.Stream
import Obao.Model.Audit
import Obao.Model.AuditPipeline
/-!
Driver streams `auditbroker` and `auditpipe` (C11).
Outcome vectors are strings over `o` (ok) `e` (err) `p` (panic) `h` (header-hash error) `q` (header-hash panic),
`-` = no device; the harness writes them in the order the broker visited the devices (Go map order), followed
by the devices it never reached.
-/
namespace Driver.Audit
open Obao Obao.Audit Obao.AuditPipeline

def parseOutcome? : Char → Option Outcome
  | 'o' => some .ok
  | 'e' => some .err
  | 'p' => some .panic
  | 'h' => some .hdrErr
  | 'q' => some .hdrPanic
  | _ => none

def parseVec? (s : String) : Option (List Outcome) :=
  if s = "-" then some [] else if s.isEmpty then none else s.toList.mapM parseOutcome?

def showRes : Res → String
  | .ok => "ok"
  | .errNoneLogged => "err:none-logged"
  | .errPanic => "err:panic"

def hdrMarker : String := "\u0000H"

def asciiName (s : String) : Bool := !s.isEmpty && s.toList.all (fun c => c.toNat > 32 && c.toNat < 127 && c != ':' && c != ',' && c != '=' && c != '+')

/-- `name:0|1,…` (or `-`) -/
def parseCfg? (f : String) : Option (List (String × Bool)) :=
  if f = "-" then some [] else
  (f.splitOn ",").mapM fun e =>
    match e.splitOn ":" with
    | [n, "1"] => if asciiName n then some (n, true) else none
    | [n, "0"] => if asciiName n then some (n, false) else none
    | _ => none

/-- `Name=hex+hex,…` (or `-`) -/
def parseHdrs? (f : String) : Option (List (String × List String)) :=
  if f = "-" then some [] else
  (f.splitOn ",").mapM fun e =>
    match e.splitOn "=" with
    | [n, vs] => do
      if !asciiName n then none
      let vals ← if vs = "*" then some [] else (vs.splitOn "+").mapM fun h => do
        let v ← parseHexStr? h
        if v.toList.any (· == '\u0000') then none else pure v
      pure (n, vals)
    | _ => none

def renderHdrVal (v : String) : String :=
  if v.startsWith hdrMarker then "h" ++ strToHex (v.drop hdrMarker.length).toString else "s" ++ strToHex v

def renderHdrs (hs : List (String × List String)) : String :=
  if hs.isEmpty then "-" else
  String.intercalate "," (hs.map fun h =>
    h.1 ++ "=" ++ (if h.2.isEmpty then "*" else String.intercalate "+" (h.2.map renderHdrVal)))

def handleBroker (fs : List String) : String :=
  match fs with
  -- `hdr <config> <request headers>` ⇒ the headers the device sees (config order = sorted by name in the harness)
  | ["hdr", cfg, hdrs] =>
    match parseCfg? cfg, parseHdrs? hdrs with
    | some c, some h => renderHdrs (applyHeaders (hdrMarker ++ ·) c h)
    | _, _ => "bad-op"
  | [kind, vec] =>
    if kind ≠ "req" ∧ kind ≠ "resp" then "bad-op" else
    match parseVec? vec with
    | some devs => s!"{showRes (brokerLog devs)} visited={(visited devs).length} logged={logCalls devs} accepted={accepted devs}"
    | none => "bad-op"
  | _ => "bad-op"

def parseErr? : String → Option ErrClass
  | "none" => some .none
  | "internal" => some .internal
  | "denied" => some .denied
  | "other" => some .other
  | _ => none

def showErr : ErrClass → String
  | .none => "none" | .internal => "internal" | .denied => "denied" | .other => "other"

/-- `nil`, `errresp`, or a subset of the letters d s a w in this order (`-` = empty response object) -/
def parseResp? (s : String) : Option RespClass :=
  if s = "nil" then some .nil else if s = "errresp" then some .errorResp else
  if s = "-" then some (.payload ⟨false, false, false, false⟩) else
  let cs := s.toList
  if cs.all (fun c => c == 'd' || c == 's' || c == 'a' || c == 'w') ∧ cs = "dsaw".toList.filter (cs.contains ·) then
    some (.payload ⟨cs.contains 'd', cs.contains 's', cs.contains 'a', cs.contains 'w'⟩)
  else none

def showResp : RespClass → String
  | .nil => "nil"
  | .errorResp => "errresp"
  | .payload p =>
    let s := (if p.data then "d" else "") ++ (if p.secret then "s" else "") ++ (if p.auth then "a" else "") ++ (if p.wrap then "w" else "")
    if s.isEmpty then "-" else s

def parseKind? : String → Option Kind
  | "authed" => some (.authed true)
  | "badtoken" => some (.authed false)
  | "login" => some .login
  | _ => none

def auditOf (tr : List Ev) (req : Bool) : String :=
  match tr.filterMap (fun e => match e, req with
      | .auditReq d, true => some d
      | .auditResp d, false => some d
      | _, _ => none) with
  | [d] => s!"{logCalls d}/{accepted d}"
  | [] => "-"
  | _ => "twice"

/-- `pipe <kind> <request name (informative)> <handler err> <handler resp> <request outcome vector> <response outcome vector>` -/
def handlePipe (fs : List String) : String :=
  match fs with
  | ["pipe", kind, _what, herr, hresp, rq, rs] =>
    match parseKind? kind, parseErr? herr, parseResp? hresp, parseVec? rq, parseVec? rs with
    | some k, some e, some r, some rq, some rs =>
      let i : PipeIn := { kind := k, reqDevs := rq, respDevs := rs, handler := { err := e, resp := r } }
      let tr := trace i
      let c := result i
      s!"rq={auditOf tr true} route={if routed i then 1 else 0} rs={auditOf tr false} ret={showErr c.err}/{showResp c.resp}"
    | _, _, _, _, _ => "bad-op"
  -- `e2e <kind> <name>`: a real file device plus accepting fakes; the model contributes the number of entries
  -- (one per audit stage of the trace); `hmac=1 clean` is what the property demands of the file's content
  | ["e2e", kind, _what] =>
    match parseKind? kind with
    | some k =>
      let i : PipeIn := { kind := k, reqDevs := [.ok], respDevs := [.ok], handler := { err := .none, resp := .nil } }
      let n := ((trace i).filter (fun e => match e with | .auditReq _ => true | .auditResp _ => true | _ => false)).length
      s!"entries={n} hmac=1 clean"
    | none => "bad-op"
  | _ => "bad-op"

/-- stream `audite2e`: `e2e write|read <reqExempt> <respExempt> <keys>` — which of the request's data keys have their
values in clear in the audit entries of that request: request data is exempted by the mount's
`audit_non_hmac_request_keys`, response data by `audit_non_hmac_response_keys` (`handleCancelableRequest` loads each list
into its own field of the `LogInput`); everything else is HMACed by the hash walk (`C11.hash_no_plain_leaf`) -/
def handleE2E (fs : List String) : String :=
  let lst (s : String) : List String := if s = "-" then [] else s.splitOn ","
  match fs with
  -- an audited request header: the configuration in force is the update's when it was stored, the earlier one when its
  -- storage write failed (an update that answers with an error has no effect)
  -- on a standby that audits its own requests the configuration in force is the cluster's persisted one
  -- a disable of the only device: stored => no device, nothing audited (no device is enabled); its table write fails =>
  -- error, the device stays enabled and keeps auditing (an operation that answers with an error has no effect)
  -- the node is restarted while its only (configuration-declared) device cannot be initialised: an enabled device that
  -- accepts nothing means nothing is routed — the node does not come up; with the device up everything is audited
  -- an entry the only device could not deliver was not accepted: the request is refused and has no effect
  | ["socketstall"] => "small:ok|big:refused|stored:0"
  | ["declareddown", down] =>
    if down = "1" then "unseal:refused|listed:0|served:0|audited:0"
    else if down = "0" then "unseal:ok|listed:1|served:1|audited:1" else "bad-op"
  | ["disableaudit", fault] =>
    if fault = "1" then "err|listed:1|audited:1" else if fault = "0" then "ok|listed:0|audited:0" else "bad-op"
  | ["hdrstandby", upd] =>
    if upd = "to-hmac" then "hdr:hmac" else if upd = "removed" then "hdr:absent" else "bad-op"
  | ["hdr", upd, fault] =>
    let toClear := upd = "to-clear"
    if fault = "1" then "err:internal|hdr:" ++ (if toClear then "hmac" else "clear")
    else if fault = "0" then "ok|hdr:" ++ (if toClear then "clear" else "hmac")
    else "bad-op"
  | ["e2e", kind, reqEx, respEx, keys] =>
    let ex := if kind = "write" then some (lst reqEx) else if kind = "read" then some (lst respEx) else none
    match ex with
    | some ex =>
      let clear := (lst keys).filter fun k => ex.contains k
      "clear:" ++ (if clear.isEmpty then "-" else ",".intercalate clear)
    | none => "bad-op"
  | _ => "bad-op"

/-- stream `audithttp`: `nonlogical <endpoint> <none|req|resp>` — an audited endpoint of the HTTP layer whose handler
answers with secret material (OTP, new key shares), one audit device that accepts everything or refuses the request /
the response entry: what the client receives is the pipeline's verdict (`AuditPipeline.result`; the unauthenticated
endpoints have no token check: kind `login`) -/
def handleHTTP (fs : List String) : String :=
  match fs with
  | ["nonlogical", _endpoint, fail] =>
    let dev (b : Bool) : List Outcome := if b then [.err] else [.ok]
    if fail ≠ "none" ∧ fail ≠ "req" ∧ fail ≠ "resp" then "bad-op" else
    let i : PipeIn := { kind := .login, reqDevs := dev (fail = "req"), respDevs := dev (fail = "resp"),
                        handler := { err := .none, resp := .payload ⟨true, false, false, false⟩ } }
    let c := result i
    (if c.err = .none then "ok" else "err") ++ "|secret:" ++ (if c.carries then "present" else "none")
  | _ => "bad-op"

def streams : List (String × Driver.Stream) :=
  [("auditbroker", .stateless handleBroker), ("auditpipe", .stateless handlePipe), ("audite2e", .stateless handleE2E),
   ("audithttp", .stateless handleHTTP)]
end Driver.Audit
