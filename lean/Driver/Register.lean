import Driver.Stream
import Obao.Model.Register
namespace Driver.Register
open Obao Obao.Register

def kcName : KC → String
  | .reqTok => "tok-id" | .policy => "policy" | .tokId => "tok-id" | .tokAcc => "tok-accessor"
  | .tokPar => "tok-parent" | .leaseId => "lease-id" | .leaseIdx => "lease-tokidx" | .cubby => "logical"
  | .secLease => "lease-id" | .secIdx => "lease-tokidx"

def kindName : OpKind → String
  | .get => "get" | .put => "put" | .delete => "delete" | .list => "list"

def showOps (l : List Ev) : String :=
  if l.isEmpty then "-" else
  ",".intercalate (l.map fun e => s!"{kindName e.kind}:{kcName e.key}{if e.failed then "!" else ""}")

def showStore (st : Store) : String :=
  let nLease := (if st.leaseId then 1 else 0) + (if st.secLease then 1 else 0)
  let l := (if nLease > 0 then [s!"lease-id:{nLease}"] else []) ++ (if st.secIdx then ["lease-tokidx:1"] else []) ++
           (if st.cubby > 0 then [s!"logical:{st.cubby}"] else []) ++
           (if st.tokAcc then ["tok-accessor:1"] else []) ++ (if st.tokId then ["tok-id:1"] else []) ++
           (if st.tokPar then ["tok-parent:1"] else [])
  if l.isEmpty then "-" else ",".intercalate l

def nTracked (s : St) : Nat :=
  (if s.store.leaseId && s.pending then 1 else 0) + (if s.store.secLease && s.secPending then 1 else 0)
def nGhost (s : St) : Nat :=
  (if s.pending && !s.store.leaseId then 1 else 0) + (if s.secPending && !s.store.secLease then 1 else 0)
def nUntracked (s : St) : Nat :=
  (if s.store.leaseId && !s.pending then 1 else 0) + (if s.store.secLease && !s.secPending then 1 else 0)

def showResp : Resp → String
  | .okSecret => "ok" | .okSecretUnleased => "ok" | .okToken => "ok" | .okWrap => "ok" | .errInternal => "err:internal" | .errInvalid => "err:invalid"
  | .errResp => "err:resp"

def b (x : Bool) : String := if x then "1" else "0"

/-- mount kinds of the harness: m modern; pl / plo / plp legacy `plugin` type with a non-kv engine (no options / other
options / leased_passthrough=true); pk / pko / pkl legacy `plugin` with plugin name kv; kv / kvo / kvl and gen / genl
types `kv`, `generic` over a non-passthrough backend; pt / ptl a real passthrough backend -/
def parseMount (x : String) : Option Mount :=
  match x with
  | "m" => some .modern
  | "pl" => some ⟨.plugin, false, true, false, none⟩
  | "plo" => some ⟨.plugin, false, false, false, none⟩
  | "plp" => some ⟨.plugin, false, false, true, none⟩
  | "pk" => some ⟨.plugin, true, true, false, none⟩
  | "pko" => some ⟨.plugin, true, false, false, none⟩
  | "pkl" => some ⟨.plugin, true, false, true, none⟩
  | "kv" => some ⟨.kv, false, true, false, none⟩
  | "kvo" => some ⟨.kv, false, false, false, none⟩
  | "kvl" => some ⟨.kv, false, false, true, none⟩
  | "gen" => some ⟨.generic, false, true, false, none⟩
  | "genl" => some ⟨.generic, false, false, true, none⟩
  | "pt" => some ⟨.generic, false, true, false, some false⟩
  | "ptl" => some ⟨.kv, false, true, false, some true⟩
  | _ => none

def parseVariant (fs : List String) : Option Variant := do
  match fs with
  | [fl, rq, np, ty, orp, mn] =>
    let flow ← match fl with
      | "secret" => some Flow.secret | "login" => some .login | "create" => some .create | "wrap" => some .wrap | _ => none
    let req ← match rq with
      | "s" => some Req.service | "b" => some .batchChild | "o" => some .batchOrphan | "r" => some .root | "-" => some .anon | _ => none
    let npol ← np.toNat?
    let typ ← match ty with | "s" => some Typ.service | "b" => some .batch | "-" => some .na | _ => none
    let orphan ← match orp with | "0" => some false | "1" => some true | _ => none
    let mount ← parseMount mn
    -- only the combinations the flows are written for (other mounts than the modern one: the plain secret flow)
    let okCombo : Bool := match flow with
      | .secret => req != .anon && typ == .na && !orphan
      | .wrap => req != .anon && typ == .na && !orphan && mount == .modern
      | .login => req == .anon && typ != .na && !orphan && mount == .modern
      | .create => (req == .service || req == .root) && typ != .na && mount == .modern
    if okCombo then some { flow, req, npol, typ, orphan, mount } else none
  | _ => none

/-- the probe of a token entry the request left behind, then the two lookups of the lookup-self request -/
def probe3 (s : St) : Bool × List Ev × St × St :=
  let (f, s1, l) := probe s
  let (_, s2, _) := probe s1
  let (_, s3, _) := probe s2
  (f, l, s1, s3)

def showRun (v : Variant) (o : Obs) : String :=
  let s := o.st
  let resp := o.resp.getD .errInternal
  let sec := resp == .okSecret || resp == .okSecretUnleased
  let tok := resp == .okToken
  let wrap := resp == .okWrap
  let handed := tok || wrap
  let leftover := s.store.tokId && !handed
  let (found, pl, s1, s3) := probe3 s
  let pops := if leftover then s!"found={b found};{showOps pl}" else "-"
  let use := if tok then (if v.typ == .batch then true else found) else if wrap then found else (leftover && (probe s1).1)
  -- the harness probes a handed-out service token with a lookup-self request (two lookups), a wrapping token with one
  -- direct lookup, a left-over entry with one direct lookup and the request
  let fin := if leftover || (tok && v.typ != .batch) then s3 else if wrap then s1 else s
  s!"ops={showOps o.log}|{showResp resp}|sec={b sec}|tok={b tok}|wrap={b wrap}|iss={s.issued}|rev={s.revoked}|new={showStore s.store}|gone=-|trk={nTracked s}|ghost={nGhost s}|use={b use}|pops={pops}|new2={showStore fin.store}"

def showCrash (o : Obs) : String :=
  let s := restart o.st
  let leftover := s.store.tokId
  let (found, pl, _, s3) := probe3 s
  let pops := if leftover then s!"found={b found};{showOps pl}" else "-"
  let fin := if leftover then s3 else s
  s!"new={showStore s.store}|untracked={nUntracked s}|trk={nTracked s}|ghost={nGhost s}|use={b (leftover && found)}|pops={pops}|new2={showStore fin.store}"

def handle (fs : List String) : String :=
  match fs with
  | "dry" :: rest =>
    match parseVariant rest with
    | some v => showRun v (faultFree v)
    | none => "bad-op"
  | "fault" :: rest =>
    match parseVariant (rest.take 6), (rest.drop 6) with
    | some v, [k] => match k.toNat? with
      | some k => showRun v (stepWithFault v k)
      | none => "bad-op"
    | _, _ => "bad-op"
  | ["dotmount", _m, _at] =>
    -- the rollback of a failed registration does not depend on how the mount or the request path is spelled
    "err|newlease:0|newindex:0|live:0"
  | ["cancelled", afterPut] =>
    -- the request's context is cancelled after the write of the lease record / of the index entry: a failure of the
    -- NEXT step like any other (`C06.failed_register_leaves_nothing`): error, the secret revoked, no record left; after
    -- the index entry nothing is left to fail — the secret is handed out with both records
    if afterPut == "sys/expire/id/" then "err|newlease:0|newindex:0|live:0"
    else if afterPut == "sys/expire/token/" then "ok|newlease:1|newindex:1|live:1" else "bad-op"
  | ["regrefused", role] =>
    -- a creation whose lease registration is refused hands out nothing and leaves no usable token (the token written
    -- before the registration is revoked again): `rel..1` is refused, `rel.1` is the control
    if (role.splitOn "..").length > 1 then "refused|token:none" else "ok|token:usable"
  | ["tokidx", flow] =>
    -- the view the token index entry of the secret is written to: namespace 0 = root, 1 = the child namespace;
    -- `secret`: token and engine in the child namespace; `xsecret`: a root-namespace token, the child's engine
    let tokenNs := if flow == "xsecret" then 0 else 1
    match ((({} : TokIdx).create tokenNs 1 7 9).entries.map (·.1)) with
    | [0] => "root"
    | [1] => "ns"
    | _ => "bad-op"
  | ["nsflow", _flow, k] =>
    -- the same flows inside a child namespace, every fault position: the property's predicate only (`good` = a handed-out
    -- secret/token has its lease entry in the namespace's storage; a failed request left nothing live)
    match k.toNat? with
    | some _ => "good"
    | none => "bad-op"
  | "crash" :: rest =>
    match parseVariant (rest.take 6), (rest.drop 6) with
    | some v, [j] => match j.toNat? with
      | some (j+1) =>
        let o := crashAfter v (j+1)
        if o.resp.isSome then "no-such-write" else showCrash o
      | _ => "bad-op"
    | _, _ => "bad-op"
  | _ => "bad-op"

def showRA : RAOut → String
  | .ok st tr ext => s!"ok|new={if st then "lease-id:1" else "-"}|trk={b tr}|ghost=0|ext={b ext}"
  | .errZeroTTL => "err:zero-ttl|new=-|trk=0|ghost=0|ext=0"
  | .errBatch => "err:batch|new=-|trk=0|ghost=0|ext=0"
  | .errEmptyToken => "err:empty-token|new=-|trk=0|ghost=0|ext=0"
  | .errDotDot => "err:dotdot|new=-|trk=0|ghost=0|ext=0"

def handleRA (fs : List String) : String :=
  match fs with
  | ["regauth", tettl, attl, pols, typ, pk, path, persist] =>
    match tettl.toInt?, attl.toInt?, parseHexStr? pols, typ.toNat?, parseHexStr? path with
    | some teTTL, some authTTL, some pols, some typ, some path =>
      let policies := if pols = "" then [] else pols.splitOn ","
      let token? := match pk with | "0" => some TokKind.empty | "hvs" => some .hvs | "plain" => some .plain | _ => none
      let persist? := match persist with | "0" => some false | "1" => some true | _ => none
      match token?, persist? with
      | some token, some persist => showRA (registerAuthCheck { teTTL, authTTL, policies, typ, token, path := path.toList, persist })
      | _, _ => "bad-op"
    | _, _, _, _, _ => "bad-op"
  | _ => "bad-op"

def streams : List (String × Driver.Stream) := [("register", .stateless handle), ("regauth", .stateless handleRA)]
end Driver.Register
