import Driver.Stream
import Obao.Model.Router
namespace Driver.Router
open Obao Obao.View Obao.Router

def bool? (s : String) : Option Bool := if s = "1" then some true else if s = "0" then some false else none

def parseTe? (s : String) : Option (Option TokEntry) :=
  if s = "nil" then some none else
  match s.splitOn ":" with
  | [r, sv, p, c] => do
      let r ← bool? r; let sv ← bool? sv; let p ← bool? p; let c ← parseHex? c
      pure (some { rootNs := r, service := sv, prefixed := p, cubbyId := c })
  | _ => none

def showTok : TokSeen → String
  | .raw => "raw" | .salted => "salted" | .doubleSalt => "dsalt" | .cubbyId c => s!"cubby:{toHex c}"

def step (t : Table) (fs : List String) : Table × String :=
  match fs with
  | ["mount", ns, pfx, id, st] => match parseHex? ns, parseHex? pfx, id.toNat?, parseHex? st with
      | some ns, some pfx, some id, some st =>
        match mount t ns pfx id st with
        | .ok t' => (t', "ok")
        | .error .nested => (t, "err:nested")
        | .error .noPrefix => (t, "err:noprefix")
        | .error .noStorage => (t, "err:nostorage")
      | _, _, _, _ => (t, "bad-op")
  | ["unmount", ns, pfx] => match parseHex? ns, parseHex? pfx with
      | some ns, some pfx => (unmount t ns pfx, "ok")
      | _, _ => (t, "bad-op")
  | ["remount", ns, src, dst] => match parseHex? ns, parseHex? src, parseHex? dst with
      | some ns, some src, some dst =>
        match remount t ns src dst with
        | some t' => (t', "ok")
        | none => (t, "err:nomount")
      | _, _, _ => (t, "bad-op")
  | ["taint", ns, path, v] => match parseHex? ns, parseHex? path, bool? v with
      | some ns, some path, some v => (setTaint t ns path v, "ok")
      | _, _, _ => (t, "bad-op")
  | ["lookup", ns, path] => match parseHex? ns, parseHex? path with
      | some ns, some path =>
        match longestPrefix t (ns ++ path) with
        | some e => (t, s!"{toHex e.pfx}|{e.id}|{toHex e.storage}")
        | none => (t, "-|nil|nil")
      | _, _ => (t, "bad-op")
  | ["route", ns, nst, path, op, key, te, sop, sub] =>
      match parseHex? ns, bool? nst, parseHex? path, parseHex? key, parseTe? te, parseHex? sub with
      | some ns, some nst, some path, some key, some te, some sub =>
        if op ≠ "read" ∧ op ≠ "revoke" ∧ op ≠ "rollback" then (t, "bad-op") else
        if ¬ ["put", "get", "delete", "list", "listpage"].contains sop then (t, "bad-op") else
        let skind := if sop = "listpage" then "list" else sop
        match route t ns nst path (op = "revoke" ∨ op = "rollback") (op = "rollback") te with
        | .unsupported => (t, "unsupported")
        | .noBackendCall => (t, "nocall")
        | .errInternal => (t, "err:internal")
        | .errResp => (t, "err:resp")
        | .handled e mp rel tok =>
          -- the backend may first narrow its view with SubView(sub): the view on `e.storage ++ sub`
          let tch := match routeTouch t ns nst path (op = "revoke" ∨ op = "rollback") (op = "rollback") te key with
            | some (e', _) => (match touch (subView e'.storage sub) key with
                | .relative => "err:relative"
                | .key f => s!"{skind}={toHex f}")
            | none => "none"
          (t, s!"ok|{toHex mp}|{toHex rel}|{e.id}|{toHex e.storage}|{showTok tok}|{tch}")
      | _, _, _, _, _, _ => (t, "bad-op")
  | _ => (t, "bad-op")

def streams : List (String × Driver.Stream) :=
  [("router", { σ := Table, init := [], step := step })]
end Driver.Router
