import Driver.Stream
import Obao.Model.PKIIssue
/-!
Driver stream `pki` (C15).  Ops (fields are `key=value`, strings hex-encoded):

* `idna <hex>` / `host <hex>` / `wild <hex>` / `glob <hexpat> <hexsubj>` — the helper functions, compared directly;
* `vname <name-role k=v…> n=<hex>` — `validateNames` on one name, called white-box;
* `vcn <name-role k=v…> n=<hex>` — `validateCommonName`;
* `iss <k=v…>` — a whole request to issue/<role>, sign/<role>, sign-verbatim[/<role>].

All instants in `iss` are whole seconds relative to the second in which the request ran; the model runs
with `now` = that second + 0.5 s in nanoseconds, so that strict comparisons against whole-second instants
come out as they do for any instant strictly inside the second.
-/
namespace Driver.PKI
open Obao Obao.PKI Obao.PKIValidity Obao.PKIIssue

abbrev KV := List (String × String)

def parseKV (fs : List String) : Option KV :=
  fs.mapM fun f =>
    match f.splitOn "=" with
    | k :: v :: rest => if rest.isEmpty then some (k, v) else none
    | _ => none

def get (kv : KV) (k : String) : Option String := kv.lookup k

def pBool (s : String) : Option Bool := if s = "1" then some true else if s = "0" then some false else none
def pStr (s : String) : Option Str := (parseHexStr? s).map String.toList
def pList (s : String) : List String := if s = "-" then [] else s.splitOn ","
def pStrList (s : String) : Option (List Str) :=
  (pList s).mapM fun x => if x = "e" then some [] else pStr x
def pNat (s : String) : Option Nat := s.toNat?
def pOptInt (s : String) : Option (Option Int) := if s = "-" then some none else (s.toInt?).map some

def showStr (s : Str) : String := strToHex (String.ofList s)
def showStrList (l : List Str) : String :=
  if l.isEmpty then "-" else ",".intercalate (l.map fun x => if x.isEmpty then "e" else showStr x)
def showList (l : List String) : String := if l.isEmpty then "-" else ",".intercalate l

def isInfix (sub : Str) (s : Str) : Bool := (indexOf sub s).isSome

/-- inside the modelled alphabet: ASCII, printable, no blank, no comma, no ACE label -/
def modelled (s : Str) : Bool :=
  s.all (fun c => 32 < c.toNat && c.toNat < 127 && c != ',') && !isInfix (str "xn--") (lower s)

def nameRole (kv : KV) : Option NameRole := do
  let ad ← pStrList (← get kv "ad")
  let bare ← pBool (← get kv "bare")
  let sub ← pBool (← get kv "sub")
  let gl ← pBool (← get kv "glob")
  let wild ← pBool (← get kv "wild")
  let lh ← pBool (← get kv "lh")
  let any ← pBool (← get kv "any")
  let enf ← pBool (← get kv "enf")
  let tdn ← pBool (← get kv "tdn")
  let dn ← pStr (← get kv "dn")
  let cnv := pList (← get kv "cnv")
  pure { allowedDomains := ad, allowBare := bare, allowSub := sub, allowGlob := gl, allowWildcard := wild,
         allowLocalhost := lh, allowAnyName := any, enforceHostnames := enf, allowTokenDisplayName := tdn,
         displayName := dn, cnValidations := cnv.map str }

def b01 (b : Bool) : String := if b then "1" else "0"

def pNAB (s : String) : Option NAB :=
  match s with
  | "unset" => some .unset | "permit" => some .permit | "forbid" => some .forbid | "ttl-limited" => some .ttlLimited
  | _ => if s.startsWith "ts:" then (s.drop 3).toString.toInt?.map .timestamp else none

def pNBB (s : String) : Option NBB :=
  match s with
  | "permit" => some .permit | "duration" => some .duration | "forbid" => some .forbid | "other" => some .other
  | _ => none

def pLNAB (s : String) : Option LNAB :=
  match s with
  | "err" => some .err | "truncate" => some .truncate | "permit" => some .permit
  | _ => none

def unitNs : Int := 1000000000
def sc (x : Int) : Int := x * unitNs
def scO (x : Option Int) : Option Int := x.map sc

/-- `acidr`: `-` or comma-separated `4:<base>:<plen>` / `6:<base>:<plen>` (decimal) -/
def pCIDRs (s : String) : Option (List CIDR) :=
  if s = "-" then some [] else
    (s.splitOn ",").mapM fun c =>
      match c.splitOn ":" with
      | [f, b, l] => do
        let v4 ← (match f with | "4" => some true | "6" => some false | _ => none)
        let base ← b.toNat?
        let plen ← l.toNat?
        if plen ≤ (if v4 then 32 else 128) then pure { v4, base, plen } else none
      | _ => none

def pRole (kv : KV) : Option Role := do
  let names ← nameRole kv
  pure {
    names,
    allowIPSANs := ← pBool (← get kv "ipok"),
    allowedIPCIDRs := ← pCIDRs (← get kv "acidr"),
    allowedURISANs := ← pStrList (← get kv "auri"),
    allowedSerials := ← pStrList (← get kv "asn"),
    keyType := ← get kv "kt",
    keyBits := ← pNat (← get kv "kb"),
    keyUsage := pList (← get kv "ku"),
    extKeyUsage := pList (← get kv "eku"),
    serverFlag := ← pBool (← get kv "sf"),
    clientFlag := ← pBool (← get kv "cf"),
    codeSigningFlag := ← pBool (← get kv "csf"),
    emailProtectionFlag := ← pBool (← get kv "epf"),
    useCSRCN := ← pBool (← get kv "ucn"),
    useCSRSANs := ← pBool (← get kv "usans"),
    requireCN := ← pBool (← get kv "rcn"),
    bcValidForNonCA := ← pBool (← get kv "bcnca"),
    ttl := sc (← (← get kv "ttl").toInt?),
    maxTTL := sc (← (← get kv "maxttl").toInt?),
    nbd := sc (← (← get kv "nbd").toInt?),
    notBefore := scO (← pOptInt (← get kv "rnb")),
    notAfter := scO (← pOptInt (← get kv "rna")),
    nbb := ← pNBB (← get kv "nbb"),
    nab := (match ← pNAB (← get kv "nab") with | .timestamp t => .timestamp (sc t) | x => x) }

def pCSR (kv : KV) : Option (Option CSR) := do
  let has ← pBool (← get kv "csr")
  if !has then pure none else
  let exts := (pList (← get kv "cext")).map fun x =>
    if x = "bc" then CsrExt.basicConstraintsCA else if x = "san" then CsrExt.subjectAltName else CsrExt.other 0
  pure (some {
    cn := ← pStr (← get kv "ccn"),
    dns := ← pStrList (← get kv "cdns"),
    emails := ← pStrList (← get kv "cem"),
    ips := pList (← get kv "cip"),
    uris := ← pStrList (← get kv "curi"),
    exts,
    keyType := ← get kv "ckt",
    keyBits := ← pNat (← get kv "ckb"),
    serial := ← pStr (← get kv "csn") })

def pEndpoint (s : String) : Option Endpoint :=
  match s with
  | "issue" => some .issue | "sign" => some .sign | "verbatim" => some .verbatim
  | _ => none

def pReq (kv : KV) : Option Req := do
  let qkt ← get kv "qkt"
  let qkb ← get kv "qkb"
  let qbc ← get kv "qbc"
  pure {
    ep := ← pEndpoint (← get kv "ep"),
    cn := ← pStr (← get kv "cn"),
    altNames := ← pStrList (← get kv "alt"),
    ipSans := pList (← get kv "ip"),
    uriSans := ← pStrList (← get kv "uri"),
    serial := ← pStr (← get kv "sn"),
    excludeCN := ← pBool (← get kv "xcn"),
    keyType := if qkt = "-" then none else some qkt,
    keyBits := ← (if qkb = "-" then some none else qkb.toNat?.map some),
    ttl := sc (← (← get kv "rttl").toInt?),
    notBefore := scO (← pOptInt (← get kv "qnb")),
    notAfter := scO (← pOptInt (← get kv "qna")),
    keyUsage := pList (← get kv "qku"),
    extKeyUsage := pList (← get kv "qeku"),
    bcValidForNonCA := ← (if qbc = "-" then some none else (pBool qbc).map some),
    noRole := ← pBool (← get kv "norole"),
    csr := ← pCSR kv }

def pEnv (kv : KV) : Option Env := do
  pure { now := unitNs / 2, unit := unitNs,
         mountDefault := sc (← (← get kv "mdef").toInt?),
         mountMax := sc (← (← get kv "mmax").toInt?),
         issuerNotAfter := sc (← (← get kv "ioff").toInt?),
         lnab := ← pLNAB (← get kv "lnab") }

def showNats (l : List Nat) : String := if l.isEmpty then "-" else ",".intercalate (l.map toString)

def showCert (c : Cert) : String :=
  s!"ok ca={b01 c.isCA} bc={b01 c.bcValid} nb={c.notBefore} na={c.notAfter} cn={showStr c.cn} dns={showStrList c.dns} em={showStrList c.emails} ip={showList c.ips} uri={showStrList c.uris} kt={c.keyType} kb={c.keyBits} ku={c.keyUsage} eku={showNats c.extKeyUsage} sig=1 fresh=1 ssn={showStr c.subjSerial}"

def reqStrings (role : Role) (req : Req) : List Str :=
  [req.cn, role.names.displayName] ++ req.altNames ++ role.names.allowedDomains ++ req.uriSans ++ role.allowedURISANs ++
  (match req.csr with | some c => [c.cn] ++ c.dns ++ c.emails ++ c.uris | none => [])

def knownIP (s : String) : Bool := knownValidIPs.contains s || knownInvalidIPs.contains s

def handleIss (kv : KV) : String :=
  match pRole kv, pReq kv, pEnv kv with
  | some role, some req, some env =>
    if req.ttl < 0 then "err:field"
    else if !(reqStrings role req).all (fun s => s.isEmpty || modelled s) then "skip"
    else if !(req.ipSans.all knownIP) then "bad-op"
    else match process env role req with
      | .ok c => showCert c
      | .err x => "err:" ++ x
  | _, _, _ => "bad-op"

def handle (fs : List String) : String :=
  match fs with
  | ["caeku", _ep] =>
    -- the CA endpoints put every requested extended key usage (names and OIDs) into the certificate
    "eku:serverauth|oids:1"
  | ["cel", beh, ttl, ioff] =>
    -- a CEL role whose program answers NotAfter = now + ttl, under an issuer expiring at ioff (seconds from now)
    match pLNAB beh, ttl.toInt?, ioff.toInt? with
    | some b, some t, some io =>
      match celNotAfter 0 t io b with
      | .ok na => s!"ok na={na}"
      | .error _ => "refused"
    | _, _, _ => "bad-op"
  | ["idna", h] =>
    match pStr h with
    | some s => if !modelled s then "skip" else
        match idnaToASCII s with
        | some c => "ok:" ++ showStr c
        | none => "err"
    | none => "bad-op"
  | ["host", h] =>
    match pStr h with
    | some s => b01 (hostnameRegex s)
    | none => "bad-op"
  | ["wild", h] =>
    match pStr h with
    | some s => b01 (leftWildLabel s)
    | none => "bad-op"
  | ["glob", p, h] =>
    match pStr p, pStr h with
    | some p, some s => b01 (glob p s)
    | _, _ => "bad-op"
  | "vname" :: rest =>
    match parseKV rest with
    | some kv =>
      match nameRole kv, (get kv "n").bind pStr with
      | some r, some n =>
        if !((n :: r.displayName :: r.allowedDomains).all (fun s => s.isEmpty || modelled s)) then "skip"
        else b01 (!namesRefused r [n])
      | _, _ => "bad-op"
    | none => "bad-op"
  | "vcn" :: rest =>
    match parseKV rest with
    | some kv =>
      match nameRole kv, (get kv "n").bind pStr with
      | some r, some n =>
        if !((n :: r.displayName :: r.allowedDomains).all (fun s => s.isEmpty || modelled s)) then "skip"
        else b01 (!cnRefused r n)
      | _, _ => "bad-op"
    | none => "bad-op"
  | "iss" :: rest =>
    match parseKV rest with
    | some kv => handleIss kv
    | none => "bad-op"
  | _ => "bad-op"

def streams : List (String × Driver.Stream) := [("pki", .stateless handle)]
end Driver.PKI
