import Driver.Stream
import Driver.KV2
import Obao.Model.KV2Cold
/-! Driver stream `kv2cold` (C14 cold-start probes): each line is a self-contained scenario on a fresh mount. -/
namespace Driver.KV2Cold
open Obao Obao.KV2 Driver.KV2

def showConf (c : Config) : String := showResp (.conf c.maxVersions c.casRequired c.dva)

def parseTx (s : String) : Option Bool :=
  if s = "tx" then some true else if s = "notx" then some false else none

/-- `coldconf tx|notx cold|warm max cr dva k`: config write with the k-th storage operation failing, on a mount whose
    config cache is cold (first request) or warm (after a config read); then the config the backend reports, the
    durable config (after a restart), and the answer to a write without cas -/
def coldconf (txS warmS mxS crS dvaS kS : String) : String :=
  match parseTx txS, parseOptInt mxS, parseOptBool crS, parseCfgDva dvaS, kS.toNat? with
  | some tx, some mx, some cr, some dva, some k =>
    if warmS ≠ "cold" ∧ warmS ≠ "warm" then "bad-op" else
    let c0 : Cold := if warmS = "warm" then { coldInit with cfgCache := some coldInit.cfgStored } else coldInit
    let (c1, failed, fired) := confWriteF c0 mx cr dva tx (some k)
    let eff := c1.effective
    let w := if eff.casRequired then "err:cas-required" else "ok"
    (if failed then "err" else "ok") ++ (if fired then ":fired" else ":notfired") ++ "|" ++ showConf eff ++ "|" ++
      showConf c1.restart.effective ++ "|" ++ w
  | _, _, _, _, _ => "bad-op"

/-- `coldwrite tx|notx k`: the first write on a fresh mount with the k-th storage operation failing, then a
    fault-free write, a read, and a read after a restart -/
def coldwrite (txS kS : String) : String :=
  match parseTx txS, kS.toNat? with
  | some tx, some k =>
    let (c1, r1, fired) := coldWrite coldInit tx (some k)
    let (c2, r2, _) := coldWrite c1 tx none
    let after := match r2 with
      | some id => if readableAfterRestart c2 id then "ok" else "lost"
      | none => "err"
    (if r1.isSome then "ok" else "err") ++ (if fired then ":fired" else ":notfired") ++ "|" ++
      (if r2.isSome then "ok" else "err") ++ "|" ++ after
  | _, _ => "bad-op"

def handle (fs : List String) : String :=
  match fs with
  | ["coldconf", tx, warm, mx, cr, dva, k] => coldconf tx warm mx cr dva k
  | ["coldwrite", tx, k] => coldwrite tx k
  | _ => "bad-op"

def streams : List (String × Driver.Stream) := [("kv2cold", .stateless handle)]

end Driver.KV2Cold
