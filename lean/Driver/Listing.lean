import Driver.Stream
import Obao.Model.Listing
/-! Driver stream `kvlist` (property C13): the layered key/value store state machine of `Obao.Listing`.
Keys, prefixes, `after` strings and values travel hex-encoded (`-` = empty). One case = the ops between two
`reset` lines; its first op is `cfg <kind> <layers bottom-first>`. -/
namespace Driver.Listing
open Obao Obao.KV Obao.Listing

def parseKind? : String → Option Kind
  | "inmem" => some .inmem
  | "inmemtx" => some .inmemtx
  | "file" => some .file
  | "fsm" => some .fsm
  | "raft" => some .raft
  | _ => none

def parseLayer? (s : String) : Option Layer :=
  match s.splitOn ":" with
  | ["cache"] => some .cache
  | ["enc"] => some .enc
  | ["pview", h] => (parseHex? h).map .pview
  | ["lview", h] => (parseHex? h).map .lview
  | ["bview", h] => (parseHex? h).map .lview   -- internal/vault/barrier.View delegates to a logical.StorageView
  | _ => none

def parseLayers? (s : String) : Option (List Layer) :=
  if s = "-" then some [] else (s.splitOn ",").mapM parseLayer?

def showList (l : List Key) : String := "l:" ++ ",".intercalate (l.map toHex)

def showRes : Res → String
  | .ok => "ok"
  | .err e => "err:" ++ e
  | .val none => "nil"
  | .val (some v) => "v:" ++ toHex v
  | .got v k => "v:" ++ toHex v ++ ";k:" ++ toHex k
  | .lst l => showList l
  | .kvs s => "d:" ++ ",".intercalate (s.map fun e => toHex e.1 ++ "=" ++ toHex e.2)
  | .bad => "bad-op"

def step (st : St) (fs : List String) : St × String :=
  match fs with
  | ["cfg", k, ls] =>
    match parseKind? k, parseLayers? ls with
    | some kind, some layers => ({ kind, layers, store := [], txn := none }, "ok")
    | _, _ => (st, "bad-op")
  | ["put", k, v] =>
    match parseHex? k, parseHex? v with
    | some k, some v => let (s, r) := doPut st k v; (s, showRes r)
    | _, _ => (st, "bad-op")
  | ["get", k] =>
    match parseHex? k with
    | some k => (st, showRes (doGet st k))
    | _ => (st, "bad-op")
  | ["del", k] =>
    match parseHex? k with
    | some k => let (s, r) := doDel st k; (s, showRes r)
    | _ => (st, "bad-op")
  | ["list", p] =>
    match parseHex? p with
    | some p => (st, showRes (doList st p [] (-1)))
    | _ => (st, "bad-op")
  | ["page", p, a, l] =>
    match parseHex? p, parseHex? a, parseInt? l with
    | some p, some a, some l => (st, showRes (doList st p a l))
    | _, _, _ => (st, "bad-op")
  | ["begin", "rw"] => let (s, r) := doBegin st true; (s, showRes r)
  | ["begin", "ro"] => let (s, r) := doBegin st false; (s, showRes r)
  | ["commit"] => let (s, r) := doCommit st; (s, showRes r)
  | ["rollback"] => let (s, r) := doRollback st; (s, showRes r)
  | ["scan", n] =>
    match parseInt? n with
    | some n => (st, showRes (doScan st n))
    | _ => (st, "bad-op")
  | ["collect"] => (st, showRes (doScan st 2500))
  | ["clear"] => let (s, r) := doClear st; (s, showRes r)
  | ["rawput", k, v] =>
    match parseHex? k, parseHex? v with
    | some k, some v => let (s, r) := doRawPut st k v; (s, showRes r)
    | _, _ => (st, "bad-op")
  | ["rawdel", k] =>
    match parseHex? k with
    | some k => let (s, r) := doRawDel st k; (s, showRes r)
    | _ => (st, "bad-op")
  | ["dump"] => (st, showRes (doDump st))
  -- two keys, two entries: each reads back what was put (`C13.get_after_put`); the file backend's on-disk names of
  -- "a" and "_a/x" collide (known finding F87)
  | ["underscore"] => (st, "a=ok x=ok")
  | _ => (st, "bad-op")

def streams : List (String × Driver.Stream) :=
  [("kvlist", { σ := St, init := St.init, step := step })]
end Driver.Listing
