import Driver.Stream
import Obao.Model.Revoke
/-! Driver for the C04 streams: one stateful stream `revoke`; the four harness streams (revoke-seq,
revoke-fault, revoke-crash, revoke-race) all speak this protocol. -/
namespace Driver.Revoke
open Obao Obao.Revoke

def cubStr : CubKey → String
  | .cid t => s!"c{t}"
  | .salted t => s!"s{t}"

def keyStr : Key → String
  | .id t => s!"id:{t}"
  | .acc t => s!"acc:{t}"
  | .par p c => s!"par:{p}:{c}"
  | .parTop c => s!"partop:{c}"
  | .tl t => s!"tl:{t}"
  | .sl l => s!"sl:{l}"
  | .tix t l => s!"tix:{t}:{l}"
  | .cub c k => s!"cub:{cubStr c}:{k}"

def pfxStr : Pfx → String
  | .par p => s!"par:{p}"
  | .tix t => s!"tix:{t}"
  | .cub c => s!"cub:{cubStr c}"

def opStr : Op → String
  | .get k => "g:" ++ keyStr k
  | .put k _ => "p:" ++ keyStr k
  | .del k => "d:" ++ keyStr k
  | .list p => "l:" ++ pfxStr p
  | _ => "?"

def traceStr (tr : List (Op × Bool)) : String :=
  if tr.isEmpty then "-" else
  String.intercalate "," (tr.map fun (o, failed) => opStr o ++ (if failed then "!" else ""))

def classStr : Except Err α → String
  | .ok _ => "ok"
  | .error .denied => "denied"
  | .error .invalid => "err:invalid"
  | .error .storage => "err:internal"
  | .error .fuel => "fuel"
  | .error .bad => "bad"

def joinOr (l : List String) : String := if l.isEmpty then "-" else String.intercalate "," l

def stateStr (s : St) : String :=
  let toks := (List.range s.next).filter (· ≠ 0)
  let ids := toks.filterMap fun t => (s.ids t).map fun e =>
    s!"{t}/" ++ (match e.parent with | some p => toString p | none => "-") ++ (if e.marked then "*" else "")
  let acc := (toks.filter s.acc).map toString
  let par := (List.range s.next).flatMap fun p => ((List.range s.next).filter (s.par p)).map fun c => s!"{p}>{c}"
  let tl := toks.filterMap fun t => (s.tl t).map fun e => toString t ++ (if e then "*" else "")
  let sl := (List.range s.nextL).filterMap fun l => (s.sl l).map fun (t, e) => s!"{l}@{t}" ++ (if e then "*" else "")
  let tix := (List.range s.next).flatMap fun t => ((List.range s.nextL).filter (s.tix t)).map fun l => s!"{t}:{l}"
  let cub := (List.range s.next).flatMap fun t =>
    (((List.range s.kmax).filter (s.cub (.cid t))).map fun k => s!"c{t}:{k}") ++
    (((List.range s.kmax).filter (s.cub (.salted t))).map fun k => s!"s{t}:{k}")
  let pend := (List.range s.next).flatMap fun t =>
    (match s.pend (.salted t) with | some b => [s!"s{t}:" ++ (if b then "T" else "F")] | none => []) ++
    (match s.pend (.raw t) with | some b => [s!"r{t}:" ++ (if b then "T" else "F")] | none => [])
  s!"ids={joinOr ids};acc={joinOr acc};par={joinOr par};tl={joinOr tl};sl={joinOr sl};tix={joinOr tix};cub={joinOr cub};pend={joinOr pend}"

def parseHow (how : String) (r t : Nat) : Option Req :=
  match how with
  | "tree" => some (.revoke r t)
  | "self" => if r = t then some (.revokeSelf t) else none
  | "accessor" => some (.revokeAcc r t)
  | "lease" => some (.revokeLease r t)
  | "orphan" => some (.revokeOrphan r t)
  | _ => none

def F := fuelDefault

/-- run one request without fault, then let the expiration workers settle -/
def doReq (s : St) (q : Req) : St × String :=
  let p := q.prog F
  let (r, s') := run p s
  (s'.settle, classStr r ++ "|" ++ traceStr (traceFault none p s))

def probe (s : St) : St × String :=
  let (s', out) := ((List.range s.next).filter (· ≠ 0)).foldl (fun (acc : St × List String) t =>
    let (r, s1) := run ((Req.lookupSelf t).prog F) acc.1
    (s1.settle, acc.2 ++ [s!"{t}:" ++ classStr r])) (s, [])
  (s', joinOr out)

def parseSched (w : String) : Option (List Bool) :=
  w.toList.mapM fun c => if c = 'A' then some false else if c = 'B' then some true else none

/-- replay an observed schedule on two interleaved requests; the trace lists, per decision, the storage
operation the released thread was parked at (`X:done` when it had already finished) -/
def replay (c : Conc Unit Unit) : List Bool → List String → Conc Unit Unit × List String
  | [], acc => (c, acc.reverse)
  | who :: rest, acc =>
    let p := if who then c.b else c.a
    let tag := if who then "B:" else "A:"
    let ev := match p with
      | .io o _ => tag ++ opStr o
      | .ret _ => tag ++ "done"
    replay (c.step who) rest (ev :: acc)

def resStr (p : Prog Unit) : String :=
  match p.result? with
  | some r => classStr r
  | none => "unfinished"

def step (s : St) (fs : List String) : St × String :=
  match fs with
  | ["mk", r, orphan, skey] =>
    match r.toNat?, orphan.toNat?, skey.toNat? with
    | some r, some o, some sk =>
      if o > 1 then (s, "bad-op") else
      let n := s.next
      let (s', out) := doReq s (.create r (o = 1) sk)
      (s', out ++ "|" ++ (if s'.next = n then "-" else toString n))
    | _, _, _ => (s, "bad-op")
  | ["mkid", r, x, skey] =>
    match r.toNat?, x.toNat?, skey.toNat? with
    | some r, some x, some sk =>
      if x > s.next then (s, "bad-op") else doReq s (.createId r x sk)
    | _, _, _ => (s, "bad-op")
  | ["cubread", t, k] => match t.toNat?, k.toNat? with
    | some t, some k =>
      let (s', out) := doReq s (.cubRead t k)
      let present := match s.ids t with
        | some e => match routerKey t e with
          | some c => s.cub c k
          | none => false
        | none => false
      (s', out ++ "|" ++ (if out.startsWith "ok" then (if present then "present" else "absent") else "-"))
    | _, _ => (s, "bad-op")
  | ["renew", t] => match t.toNat? with
    | some t => doReq s (.renew t)
    | none => (s, "bad-op")
  | ["cubby", t, k] => match t.toNat?, k.toNat? with
    | some t, some k => doReq s (.cubby t k)
    | _, _ => (s, "bad-op")
  | ["lease", t, lk] => match t.toNat?, lk.toNat? with
    | some t, some lk => doReq s (.lease t lk)
    | _, _ => (s, "bad-op")
  | ["rev", how, r, t] => match r.toNat?, t.toNat? with
    | some r, some t => match parseHow how r t with
      | some q => doReq s q
      | none => (s, "bad-op")
    | _, _ => (s, "bad-op")
  | ["frev", how, r, t, j] => match r.toNat?, t.toNat?, j.toNat? with
    | some r, some t, some j => match parseHow how r t with
      | some q =>
        let p := q.prog F
        let (r1, s1) := runFault j p s
        let t1 := traceFault (some j) p s
        let s1 := s1.settle
        let (r2, s2) := run p s1
        let t2 := traceFault none p s1
        (s2.settle, classStr r1 ++ "|" ++ traceStr t1 ++ "|" ++ classStr r2 ++ "|" ++ traceStr t2)
      | none => (s, "bad-op")
    | _, _, _ => (s, "bad-op")
  | ["crash", how, r, t, k] => match r.toNat?, t.toNat?, k.toNat? with
    | some r, some t, some k => match parseHow how r t with
      | some q =>
        let p := q.prog F
        let s1 := runCrash k p s
        (s1.restart.settle, traceStr (traceCrash k p s))
      | none => (s, "bad-op")
    | _, _, _ => (s, "bad-op")
  | ["race", how, r, t, p, orphan, skey, sched] =>
    match r.toNat?, t.toNat?, p.toNat?, orphan.toNat?, skey.toNat?, parseSched sched with
    | some r, some t, some p, some o, some sk, some sc => match parseHow how r t with
      | some q =>
        if o > 1 then (s, "bad-op") else
        let n := s.next
        let c0 := Conc.start (q.prog F) ((Req.create p (o = 1) sk).prog F) s
        let (c, evs) := replay c0 sc []
        (c.st.settle, joinOr evs ++ "|A=" ++ resStr c.a ++ "|B=" ++ resStr c.b ++ "|" ++
          (if c.st.next = n then "-" else toString n))
      | none => (s, "bad-op")
    | _, _, _, _, _, _ => (s, "bad-op")
  | ["nscase", "cubby-in-child"] =>
    -- the cubbyhole of a revoked token is removed wherever the router let the token write it (`C04.destroy_clears_routed_key`)
    (s, "ok|dead|cubby:0/0")
  | ["nscase", "tidy-child"] =>
    -- tidy removes no index entry of a live child, whichever namespace the child lives in: the cascade still reaches it
    (s, "ok|ok|child:dead")
  | ["nscase", "tidy-sealed-ancestor"] =>
    -- …also when the child's namespace is out of sight (below a sealed namespace) while tidy runs: an index entry whose
    -- child cannot be looked up is kept
    (s, "ok|alive|ok|child:dead")
  | ["nscase", _how] =>
    -- a root-namespace token with a lease obtained in a child namespace, revoked in any way (also revoke-orphan sent
    -- through the child namespace): rejected afterwards, the lease revoked at its backend (`C04.revoke_cascade_seq`
    -- makes no difference between namespaces: the lease index is the token's)
    (s, "ok|dead|leases:1/1")
  | ["probe"] => probe s
  | ["state"] => (s, stateStr s)
  | ["check"] => (s, "ok")        -- the harness reports the property predicate's verdict on this line
  | _ => (s, "bad-op")

def streams : List (String × Driver.Stream) :=
  [("revoke", { σ := St, init := St.init, step := step })]
end Driver.Revoke
