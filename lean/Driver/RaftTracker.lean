import Driver.Stream
import Obao.Model.RaftFSM
import Obao.Model.RaftLeader
/-!
Stateful driver stream `rafttracker` (C09): the model's tracker operations against a real
`fsmTxnCommitIndexTracker` object.

```
logw  <idx> <key>            -> ok          logWrite
logt  <idx> <k1,k2,…|->      -> ok          logTxnWrites
clear <low>                  -> ok          clearOldEntries
hme   <min> <max> <key>      -> true|false|panic     hasModifiedEntry
hmle  <min> <max> <key>      -> true|false|panic     hasModifiedListEntry
track <i> / complete <i>     -> ok          trackTransaction / completeTransaction
lowest                       -> n|max       lowestActiveIndex
lowestafter <i>              -> n|max       lowestActiveIndexAfterCommit
dump                         -> idx:key+key,… (indexes ascending, keys sorted, `-` when empty)
```
-/
namespace Driver.RaftTracker
open Obao Obao.RaftFSM Obao.RaftLeader

structure St where
  tr : Tracker := []
  active : List Nat := []

def insertKey (k : Key) : List Key → List Key
  | [] => [k]
  | x :: r => if k = x then x :: r else if bytesLt k x then k :: x :: r else x :: insertKey k r

def sortKeys (ks : List Key) : List Key := ks.foldl (fun acc k => insertKey k acc) []

def insertRec (p : Nat × List Key) : List (Nat × List Key) → List (Nat × List Key)
  | [] => [p]
  | x :: r => if p.1 < x.1 then p :: x :: r else x :: insertRec p r

def showLow : Option Nat → String
  | none => "max"
  | some n => toString n

def dump (t : Tracker) : String :=
  if t.isEmpty then "-" else
  ",".intercalate ((t.foldl (fun acc p => insertRec p acc) []).map fun p =>
    toString p.1 ++ ":" ++ (if p.2.isEmpty then "-" else "+".intercalate ((sortKeys p.2).map toHex)))

def query (t : Tracker) (mn mx : Nat) (r : Bool) : String :=
  if trackerPanics t mn mx then "panic" else if r then "true" else "false"

def step (st : St) (fs : List String) : St × String :=
  match fs with
  | ["logw", i, k] =>
    match i.toNat?, parseHex? k with
    | some i, some k => ({ st with tr := st.tr.set i [k] }, "ok")
    | _, _ => (st, "bad-op")
  | ["logt", i, ks] =>
    match i.toNat?, (if ks = "-" then some [] else (ks.splitOn ",").mapM parseHex?) with
    | some i, some ks => ({ st with tr := st.tr.set i ks }, "ok")
    | _, _ => (st, "bad-op")
  | ["clear", l] =>
    match l.toNat? with
    | some l => ({ st with tr := st.tr.clear l }, "ok")
    | none => (st, "bad-op")
  | ["hme", mn, mx, k] =>
    match mn.toNat?, mx.toNat?, parseHex? k with
    | some mn, some mx, some k => (st, query st.tr mn mx (hasModifiedEntry st.tr mn k))
    | _, _, _ => (st, "bad-op")
  | ["hmle", mn, mx, k] =>
    match mn.toNat?, mx.toNat?, parseHex? k with
    | some mn, some mx, some k => (st, query st.tr mn mx (hasModifiedListEntry st.tr mn k))
    | _, _, _ => (st, "bad-op")
  | ["track", i] =>
    match i.toNat? with
    | some i => ({ st with active := i :: st.active }, "ok")
    | none => (st, "bad-op")
  | ["complete", i] =>
    match i.toNat? with
    | some i => ({ st with active := st.active.erase i }, "ok")
    | none => (st, "bad-op")
  | ["lowest"] => (st, showLow (lowest st.active))
  | ["lowestafter", i] =>
    match i.toNat? with
    | some i => (st, showLow (lowest (st.active.erase i)))
    | none => (st, "bad-op")
  | ["dump"] => (st, dump st.tr)
  | _ => (st, "bad-op")

def streams : List (String × Driver.Stream) :=
  [("rafttracker", { σ := St, init := {}, step := step })]
end Driver.RaftTracker
