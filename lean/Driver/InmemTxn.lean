import Driver.Stream
import Obao.Model.CacheTxn
/-! Driver stream `txn-inmem` (C08): the scheduler trace of the inmem transactional backend.
Lines (fields tab-separated; `-` stands for the empty string; `who` is a transaction id or `p` = plain):
`layer <name>` · `begin <id> rw|ro` · `get <who> <key>` · `put <who> <key> <val>` · `del <who> <key>` ·
`list <who> <prefix>` · `listp <who> <prefix> <after> <limit>` · `commit <id>` · `rollback <id>` ·
`dump <key>…` (values of the named keys in the parent store).
Commit window of the cache layer (trace validation of the micro-step model `CacheTxn.Win`): `cstart <id>` opens the
window, `hget <key>` is a concurrent plain reader inside it, `cunder <id>` is the underlying commit (its verdict),
the closing `commit <id>` performs the remaining evictions and returns; `cohere <key>…` compares a cache read with
the backend below for every key (`=` agree, `!` differ). -/
namespace Driver.InmemTxn
open Obao Obao.SerialTxn Obao.InmemTxn Obao.CacheTxn

def unq (s : String) : String := if s = "-" then "" else s

def showVal : Option Val → String
  | none => "nil"
  | some v => "v:" ++ v

def showRes : Res → String
  | .ok => "ok"
  | .val v => showVal v
  | .keys l => "[" ++ ",".intercalate (l.map fun c => if c = "" then "-" else c) ++ "]"
  | .err .readOnly => "err:readonly"
  | .err .finished => "err:finished"
  | .err .conflict => "err:conflict"

def parseOp : List String → Option Op
  | ["get", k] => some (.get (unq k))
  | ["put", k, v] => some (.put (unq k) v)
  | ["del", k] => some (.del (unq k))
  | ["list", p] => some (.list (unq p) "" (-1))
  | ["listp", p, a, l] => (l.toInt?).map fun l => .list (unq p) (unq a) l
  | _ => none

def parseEvent : List String → Option Event
  | ["begin", id, "rw"] => id.toNat?.map fun i => .begin i true
  | ["begin", id, "ro"] => id.toNat?.map fun i => .begin i false
  | ["commit", id] => id.toNat?.map .commit
  | ["rollback", id] => id.toNat?.map .rollback
  | op :: who :: rest =>
    match parseOp (op :: rest) with
    | none => none
    | some o => if who = "p" then some (.plain o) else who.toNat?.map fun i => .op i o
  | _ => none

/-- driver state: `cached = false` → the bare inmem backend (`inner` only); `true` → behind the cache layer -/
structure St where
  cached : Bool
  sys : CSys
  win : Option Win := none

def step (s : St) (fs : List String) : St × String :=
  match fs with
  | ["layer", "bare"] => ({ s with cached := false }, "ok")
  | ["layer", "cache"] => ({ s with cached := true }, "ok")
  | ["layer", "view"] => ({ s with cached := true }, "ok")
  | "dump" :: ks =>
    -- the harness dumps through the same (possibly cached) plain read path
    let rec go (s : St) (ks : List String) (acc : List String) : St × String :=
      match ks with
      | [] => (s, ",".intercalate acc.reverse)
      | k :: r =>
        if s.cached then
          match s.sys.step (.plain (.get (unq k))) with
          | some (c', res) => go { s with sys := c' } r (showRes res :: acc)
          | none => (s, "bad-op")
        else go s r (showVal (sget s.sys.inner.parent (unq k)) :: acc)
    go s ks []
  | ["cstart", id] =>
    match s.cached, s.win, id.toNat? with
    | true, none, some i =>
      match Win.start s.sys i with
      | some w => ({ s with win := some w }, "ok")
      | none => (s, "bad-op")
    | _, _, _ => (s, "bad-op")
  | ["hget", k] =>
    match s.win with
    | some w => let (w', r) := w.reader (unq k); ({ s with win := some w' }, showRes r)
    | none => (s, "bad-op")
  | ["cunder", id] =>
    match s.win, id.toNat? with
    | some w, some i =>
      if w.id = i ∧ w.phase = .before then
        let w' := w.tick
        match w'.phase with
        | .before => (s, "bad-op")
        | _ => ({ s with win := some w' }, showRes w'.res)
      else (s, "bad-op")
    | _, _ => (s, "bad-op")
  | "cohere" :: ks =>
    if !s.cached || s.win.isSome then (s, "bad-op") else
    let rec goc (s : St) (ks : List String) (acc : List Char) : St × String :=
      match ks with
      | [] => (s, String.ofList acc.reverse)
      | k :: r =>
        match s.sys.step (.plain (.get (unq k))) with
        | some (c', .val e) => goc { s with sys := c' } r ((if e = sget c'.inner.parent (unq k) then '=' else '!') :: acc)
        | _ => (s, "bad-op")
    goc s ks []
  | _ =>
    match parseEvent fs with
    | none => (s, "bad-op")
    | some e =>
      match s.win, e with
      | some w, .commit i =>
        if w.id = i then
          let w' := w.finish
          ({ s with sys := w'.sys, win := none }, showRes w'.res)
        else (s, "bad-op")
      | some _, _ => (s, "bad-op")     -- nothing but readers runs inside a commit window
      | none, _ =>
      if s.cached then
        match s.sys.step e with
        | none => (s, "bad-op")
        | some (c', r) => ({ s with sys := c' }, showRes r)
      else
        match s.sys.inner.step e with
        | none => (s, "bad-op")
        | some (i', r) => ({ s with sys := { s.sys with inner := i' } }, showRes r)

def streams : List (String × Driver.Stream) :=
  [("txn-inmem", { σ := St, init := { cached := false, sys := CSys.init [] }, step := step })]
end Driver.InmemTxn
