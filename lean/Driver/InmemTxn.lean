import Driver.Stream
import Obao.Model.CacheTxn
/-! Driver stream `txn-inmem` (C08): the scheduler trace of the inmem transactional backend.
Lines (fields tab-separated; `-` stands for the empty string; `who` is a transaction id or `p` = plain):
`layer <name>` · `begin <id> rw|ro` · `get <who> <key>` · `put <who> <key> <val>` · `del <who> <key>` ·
`list <who> <prefix>` · `listp <who> <prefix> <after> <limit>` · `commit <id>` · `rollback <id>` ·
`dump <key>…` (values of the named keys in the parent store). -/
namespace Driver.InmemTxn
open Obao Obao.SerialTxn Obao.InmemTxn Obao.CacheTxn

def unq (s : String) : String := if s = "-" then "" else s

def showVal : Option Val → String
  | none => "nil"
  | some v => "v:" ++ v

def showRes : Res → String
  | .ok => "ok"
  | .val v => showVal v
  | .keys l => "[" ++ ",".intercalate (l.map fun c => if c = "" then "-" else c) ++ "]"
  | .err .readOnly => "err:readonly"
  | .err .finished => "err:finished"
  | .err .conflict => "err:conflict"

def parseOp : List String → Option Op
  | ["get", k] => some (.get (unq k))
  | ["put", k, v] => some (.put (unq k) v)
  | ["del", k] => some (.del (unq k))
  | ["list", p] => some (.list (unq p) "" (-1))
  | ["listp", p, a, l] => (l.toInt?).map fun l => .list (unq p) (unq a) l
  | _ => none

def parseEvent : List String → Option Event
  | ["begin", id, "rw"] => id.toNat?.map fun i => .begin i true
  | ["begin", id, "ro"] => id.toNat?.map fun i => .begin i false
  | ["commit", id] => id.toNat?.map .commit
  | ["rollback", id] => id.toNat?.map .rollback
  | op :: who :: rest =>
    match parseOp (op :: rest) with
    | none => none
    | some o => if who = "p" then some (.plain o) else who.toNat?.map fun i => .op i o
  | _ => none

/-- driver state: `cached = false` → the bare inmem backend (`inner` only); `true` → behind the cache layer -/
structure St where
  cached : Bool
  sys : CSys

def step (s : St) (fs : List String) : St × String :=
  match fs with
  | ["layer", "bare"] => ({ s with cached := false }, "ok")
  | ["layer", "cache"] => ({ s with cached := true }, "ok")
  | ["layer", "view"] => ({ s with cached := true }, "ok")
  | "dump" :: ks =>
    -- the harness dumps through the same (possibly cached) plain read path
    let rec go (s : St) (ks : List String) (acc : List String) : St × String :=
      match ks with
      | [] => (s, ",".intercalate acc.reverse)
      | k :: r =>
        if s.cached then
          match s.sys.step (.plain (.get (unq k))) with
          | some (c', res) => go { s with sys := c' } r (showRes res :: acc)
          | none => (s, "bad-op")
        else go s r (showVal (sget s.sys.inner.parent (unq k)) :: acc)
    go s ks []
  | _ =>
    match parseEvent fs with
    | none => (s, "bad-op")
    | some e =>
      if s.cached then
        match s.sys.step e with
        | none => (s, "bad-op")
        | some (c', r) => ({ s with sys := c' }, showRes r)
      else
        match s.sys.inner.step e with
        | none => (s, "bad-op")
        | some (i', r) => ({ s with sys := { s.sys with inner := i' } }, showRes r)

def streams : List (String × Driver.Stream) :=
  [("txn-inmem", { σ := St, init := { cached := false, sys := CSys.init [] }, step := step })]
end Driver.InmemTxn
