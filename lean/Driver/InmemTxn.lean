import Driver.Stream
import Obao.Model.CacheTxn
/-! Driver stream `txn-inmem` (C08): the scheduler trace of the inmem transactional backend.
Lines (fields tab-separated; `-` stands for the empty string; `who` is a transaction id or `p` = plain):
`layer <name>` · `begin <id> rw|ro` · `get <who> <key>` · `put <who> <key> <val>` · `del <who> <key>` ·
`list <who> <prefix>` · `listp <who> <prefix> <after> <limit>` · `commit <id>` · `rollback <id>` ·
`dump <key>…` (values of the named keys in the parent store).
Commit window of the cache layer (trace validation of the micro-step model `CacheTxn.Win`): `cstart <id>` opens the
window, `hget <key>` is a concurrent plain reader inside it, `cunder <id>` is the underlying commit (its verdict),
the closing `commit <id>` performs the remaining evictions and returns; `cohere <key>…` compares a cache read with
the backend below for every key (`=` agree, `!` differ). Lock granularity (`CacheTxn.MWin`): `stripes <key> <n>…` gives
the lock stripe of every key; `purge` empties the parent cache; `rstart <key>` is a concurrent `cache.Get` in its own
goroutine, parked right after its backend read (`parked:<v>`, or `ret:<v>` on an LRU hit); `cwait <id>` asks whether
`Commit` has returned (`ret:<verdict>`) or is blocked on a stripe write lock (`blocked`); `rrelease` lets the parked
reader add and return. -/
namespace Driver.InmemTxn
open Obao Obao.SerialTxn Obao.InmemTxn Obao.CacheTxn

def unq (s : String) : String := if s = "-" then "" else s

/-- behind the encrypting barrier every stored value is a fresh ciphertext: the driver tags each written value with a
write counter (`<hex>#<n>`) so that the backend's value-based commit verification sees two writes of the same
plaintext as different stored values — as the real backend does — and strips the tag when a value is shown -/
def stripTag (v : String) : String := (v.splitOn "#").headD v

def showVal : Option Val → String
  | none => "nil"
  | some v => "v:" ++ stripTag v

def showRes : Res → String
  | .ok => "ok"
  | .val v => showVal v
  | .keys l => "[" ++ ",".intercalate (l.map fun c => if c = "" then "-" else c) ++ "]"
  | .err .readOnly => "err:readonly"
  | .err .finished => "err:finished"
  | .err .conflict => "err:conflict"

def parseOp : List String → Option Op
  | ["get", k] => some (.get (unq k))
  | ["put", k, v] => some (.put (unq k) v)
  | ["del", k] => some (.del (unq k))
  | ["list", p] => some (.list (unq p) "" (-1))
  | ["listp", p, a, l] => (l.toInt?).map fun l => .list (unq p) (unq a) l
  | _ => none

def parseEvent : List String → Option Event
  | ["begin", id, "rw"] => id.toNat?.map fun i => .begin i true
  | ["begin", id, "ro"] => id.toNat?.map fun i => .begin i false
  | ["commit", id] => id.toNat?.map .commit
  | ["rollback", id] => id.toNat?.map .rollback
  | op :: who :: rest =>
    match parseOp (op :: rest) with
    | none => none
    | some o => if who = "p" then some (.plain o) else who.toNat?.map fun i => .op i o
  | _ => none

/-- driver state: `cached = false` → the bare inmem backend (`inner` only); `true` → behind the cache layer -/
structure St where
  cached : Bool
  sys : CSys
  /-- layer `barrier`: values are encrypted with a fresh nonce on every write -/
  enc : Bool := false
  ctr : Nat := 0
  win : Option MWin := none
  stripes : List (String × Nat) := []     -- lock stripe of every key of the case (`stripes` line)

def stripeFn (tbl : List (String × Nat)) (k : String) : Nat :=
  match tbl.lookup k with
  | some n => n
  | none => 0        -- unreachable: the driver refuses keys that are not in the table

def parseStripes : List String → Option (List (String × Nat))
  | [] => some []
  | k :: n :: r => do
    let n ← n.toNat?
    let rest ← parseStripes r
    pure ((unq k, n) :: rest)
  | _ => none

/-- advance reader `i` by at most `fuel` micro-steps, stopping when it is parked after the backend read (if
    `parkAtFetched`), finished, or blocked -/
def runReader (stripe : String → Nat) (parkAtFetched : Bool) : Nat → MWin → Nat → MWin
  | 0, m, _ => m
  | fuel + 1, m, i =>
    match m.readers[i]? with
    | none => m
    | some r =>
      match r.pc with
      | .done _ => m
      | .fetched _ => if parkAtFetched then m else runReader stripe parkAtFetched fuel (m.step stripe (.reader i)) i
      | _ =>
        let m' := m.step stripe (.reader i)
        if m'.readers[i]? == some r then m        -- blocked
        else runReader stripe parkAtFetched fuel m' i

def showReader (m : MWin) (i : Nat) : String :=
  match m.readers[i]? with
  | some { pc := .done e, .. } => "ret:" ++ showVal e
  | some { pc := .fetched e, .. } => "parked:" ++ showVal e
  | some _ => "blocked"
  | none => "bad-op"

/-- let the committing goroutine run until it has returned or is blocked -/
def runCommit (stripe : String → Nat) : Nat → MWin → MWin
  | 0, m => m
  | fuel + 1, m =>
    if m.w.phase = .done ∧ m.lock = .free then m else
    let m' := m.commitStep stripe
    if m'.w.phase = m.w.phase ∧ m'.lock = m.lock then m   -- blocked on a write lock
    else runCommit stripe fuel m'

def commitFuel (m : MWin) : Nat :=
  match m.w.phase with
  | .invalidating p => 3 * p.length + 4
  | _ => 8 + 3 * ((m.w.sys.ctxns.lookup m.w.id).map (·.modified.length)).getD 0 + 4

def step (s : St) (fs : List String) : St × String :=
  match fs with
  | ["layer", "bare"] => ({ s with cached := false }, "ok")
  | ["layer", "cache"] => ({ s with cached := true }, "ok")
  | ["layer", "view"] => ({ s with cached := true }, "ok")
  -- the AES-GCM barrier over inmem: transparent to transactions (no cache of its own)
  | ["layer", "barrier"] => ({ s with cached := false, enc := true }, "ok")
  | "dump" :: ks =>
    -- the harness dumps through the same (possibly cached) plain read path
    let rec go (s : St) (ks : List String) (acc : List String) : St × String :=
      match ks with
      | [] => (s, ",".intercalate acc.reverse)
      | k :: r =>
        if s.cached then
          match s.sys.step (.plain (.get (unq k))) with
          | some (c', res) => go { s with sys := c' } r (showRes res :: acc)
          | none => (s, "bad-op")
        else go s r (showVal (sget s.sys.inner.parent (unq k)) :: acc)
    go s ks []
  | "stripes" :: rest =>
    match parseStripes rest with
    | some tbl => ({ s with stripes := tbl }, "ok")
    | none => (s, "bad-op")
  | ["purge"] =>
    if s.cached && s.win.isNone then ({ s with sys := { s.sys with lru := [] } }, "ok") else (s, "bad-op")
  | ["cstart", id] =>
    match s.cached, s.win, id.toNat? with
    | true, none, some i =>
      match MWin.start s.sys i true with
      | some m =>
        -- every key the eviction will lock must have a known stripe
        if ((s.sys.ctxns.lookup i).map (·.modified)).getD [] |>.all (fun k => (s.stripes.lookup k).isSome) then
          ({ s with win := some m }, "ok")
        else (s, "bad-op")
      | none => (s, "bad-op")
    | _, _, _ => (s, "bad-op")
  | ["hget", k] =>
    -- a whole concurrent `cache.Get` at a hook point inside the committing goroutine: never blocked there
    match s.win with
    | some m =>
      if (s.stripes.lookup (unq k)).isNone then (s, "bad-op") else
      let i := m.readers.length
      let m' := runReader (stripeFn s.stripes) false 8 (m.step (stripeFn s.stripes) (.spawn (unq k))) i
      match m'.readers[i]? with
      | some { pc := .done e, .. } => ({ s with win := some m' }, showVal e)
      | _ => (s, "bad-op")
    | none => (s, "bad-op")
  | ["rstart", k] =>
    -- a concurrent `cache.Get` in its own goroutine; the hook below the cache parks it right after the backend read
    match s.win with
    | some m =>
      if (s.stripes.lookup (unq k)).isNone then (s, "bad-op") else
      let i := m.readers.length
      let m' := runReader (stripeFn s.stripes) true 8 (m.step (stripeFn s.stripes) (.spawn (unq k))) i
      ({ s with win := some m' }, showReader m' i)
    | none => (s, "bad-op")
  | ["rrelease"] =>
    -- the parked reader (the last one spawned) is released: `lru.Add`, unlock, return
    match s.win with
    | some m =>
      match m.readers.length with
      | 0 => (s, "bad-op")
      | n + 1 =>
        match m.readers[n]? with
        | some { pc := .fetched _, .. } =>
          let m' := runReader (stripeFn s.stripes) false 8 m n
          ({ s with win := some m' }, showReader m' n)
        | _ => (s, "bad-op")
    | none => (s, "bad-op")
  | ["cunder", id] =>
    match s.win, id.toNat? with
    | some m, some i =>
      if m.w.id = i ∧ m.w.phase = .before then
        let m' := m.commitStep (stripeFn s.stripes)
        match m'.w.phase with
        | .before => (s, "bad-op")
        | _ => ({ s with win := some m' }, showRes m'.w.res)
      else (s, "bad-op")
    | _, _ => (s, "bad-op")
  | ["cwait", id] =>
    -- has `Commit` returned? it runs as far as the locks let it
    match s.win, id.toNat? with
    | some m, some i =>
      if m.w.id = i then
        let m' := runCommit (stripeFn s.stripes) (commitFuel m) m
        ({ s with win := some m' }, if m'.w.phase = .done ∧ m'.lock = .free then "ret:" ++ showRes m'.w.res else "blocked")
      else (s, "bad-op")
    | _, _ => (s, "bad-op")
  | "cohere" :: ks =>
    if !s.cached || s.win.isSome then (s, "bad-op") else
    let rec goc (s : St) (ks : List String) (acc : List Char) : St × String :=
      match ks with
      | [] => (s, String.ofList acc.reverse)
      | k :: r =>
        match s.sys.step (.plain (.get (unq k))) with
        | some (c', .val e) => goc { s with sys := c' } r ((if e = sget c'.inner.parent (unq k) then '=' else '!') :: acc)
        | _ => (s, "bad-op")
    goc s ks []
  | _ =>
    match parseEvent fs with
    | none => (s, "bad-op")
    | some e0 =>
      -- behind the barrier: tag the written value (a fresh ciphertext per write)
      let (e, s) := if s.enc then
          match e0 with
          | .plain (.put k v) => (Event.plain (.put k (v ++ "#" ++ toString s.ctr)), { s with ctr := s.ctr + 1 })
          | .op i (.put k v) => (Event.op i (.put k (v ++ "#" ++ toString s.ctr)), { s with ctr := s.ctr + 1 })
          | e => (e, s)
        else (e0, s)
      match s.win, e with
      | some m, .commit i =>
        if m.w.id = i then
          let m' := runCommit (stripeFn s.stripes) (commitFuel m) m
          if m'.quiescent then ({ s with sys := m'.w.sys, win := none }, showRes m'.w.res)
          else (s, "bad-op")        -- `Commit` cannot have returned yet, or a reader is still inside
        else (s, "bad-op")
      | some _, _ => (s, "bad-op")     -- nothing but readers runs inside a commit window
      | none, _ =>
      if s.cached then
        match s.sys.step e with
        | none => (s, "bad-op")
        | some (c', r) => ({ s with sys := c' }, showRes r)
      else
        match s.sys.inner.step e with
        | none => (s, "bad-op")
        | some (i', r) => ({ s with sys := { s.sys with inner := i' } }, showRes r)

def streams : List (String × Driver.Stream) :=
  [("txn-inmem", { σ := St, init := { cached := false, sys := CSys.init [] }, step := step })]
end Driver.InmemTxn
