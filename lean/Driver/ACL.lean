import Driver.Stream
import Obao.Model.ACLSpec
import Obao.Model.ControlGroup
/-!
Driver stream `acl` (stateful). Lines (tab-separated fields):

* `policy <name> <rule>…` — parse one policy (the `parsePaths` post-processing); answers `ok <parsed rule>&…` or `err:<class>`.
  rule = `pathhex|caps|legacy|min|max|allowed|denied|required|pag|exp` (exp = seconds relative to now, `-` = none)
* `reparse <name> <rule>…` — is the parse result of this policy text independent of Go's map iteration order?
* `attach <slot> <mode> <i,j,…> <overrides>` — `NewACL` (at now = 0) over the policies with these indices (`n` = nil
  entry) into a slot; overrides `k:i:off;…` first set `Paths[i].Expiration` of the k-th attached object to now+off
* `allow <slot> <cc> <op> <pathhex> <data> <wrap>` — `AllowOperation`
* `caps <slot> <pathhex>` — `Capabilities`
* `cgmerge <cg>…` — the control group `NewACL` stores for ONE pattern whose stanzas (one per attached policy, in this
  order) carry these control groups: cg = `-` | `ttl:self:f1+f2`; answers `nocg` | `cg:<ttl>:<self>:<sorted factor names>`
-/
namespace Driver.ACL
open Obao Obao.ACL Obao.ACLSpec

structure St where
  pols : List (Option Policy) := []
  slots : List (Nat × List (Option Policy) × Except ACLErr Obao.ACL.ACL) := []

def hexPath? (s : String) : Option Path := parseHex? s

def parsePVal (s : String) : Option PVal :=
  if s = "n" then some .null else if s = "bt" then some (.bool true) else if s = "bf" then some (.bool false)
  else match s.toList with
    | 's' :: r => (parseHexStr? (String.ofList r)).map .str
    | 'i' :: r => (String.ofList r).toInt?.map .int
    | _ => none

def showPVal : PVal → String
  | .str s => "s" ++ strToHex s
  | .int i => "i" ++ toString i
  | .bool true => "bt"
  | .bool false => "bf"
  | .null => "n"

def parseVals (s : String) : Option (List PVal) :=
  if s = "" then some [] else (s.splitOn ",").mapM parsePVal

/-- `-` absent, `{}` empty, else `khex=v,v;khex=` -/
def parsePMap (s : String) : Option (Option PMap) :=
  if s = "-" then some none else if s = "{}" then some (some []) else do
    let es ← (s.splitOn ";").mapM fun e =>
      match e.splitOn "=" with
      | [k, vs] => do
        let k ← parseHexStr? k
        let vs ← parseVals vs
        pure (k, vs)
      | _ => none
    pure (some es)

def parseCsv (s : String) : List String := if s = "-" then [] else s.splitOn ","

def parseOptInt (s : String) : Option (Option Int) :=
  if s = "-" then some none else s.toInt?.map some

def parseSrcRule (s : String) : Option SrcRule :=
  match s.splitOn "|" with
  | [p, caps, legacy, mn, mx, al, de, rq, pag, ex] => do
    let path ← hexPath? p
    let minTTL ← parseOptInt mn
    let maxTTL ← parseOptInt mx
    let allowed ← parsePMap al
    let denied ← parsePMap de
    let required ← (parseCsv rq).mapM parseHexStr?
    let pag ← pag.toInt?
    let expiration ← parseOptInt ex
    pure { path, caps := parseCsv caps, legacy := if legacy = "-" then "" else legacy, minTTL, maxTTL,
           allowed, denied, required, pag, expiration }
  | _ => none

/-- insertion sort of a parameter map by key (the harness sorts Go map keys) -/
def sortPMap (m : PMap) : PMap :=
  m.foldl (fun acc kv =>
    let rec ins : PMap → PMap
      | [] => [kv]
      | x :: xs => if kv.1 < x.1 then kv :: x :: xs else x :: ins xs
    ins acc) []

def showPMap (m : PMap) : String :=
  if m.isEmpty then "-" else
  ";".intercalate ((sortPMap m).map fun kv => strToHex kv.1 ++ "=" ++ ",".intercalate (kv.2.map showPVal))

def showRule (r : PathRule) : String :=
  let kind := if r.hasSW then "S" else if r.isPrefix then "P" else "E"
  let p := r.perms
  "|".intercalate [toHex r.path, kind, toString p.caps, toString p.minTTL, toString p.maxTTL, showPMap p.allowed,
    showPMap p.denied, (if p.required.isEmpty then "-" else ",".intercalate (p.required.map strToHex)), toString p.pag,
    (match r.expiration with | none => "-" | some e => if e > 0 then "fut" else "past")]

def showParseErr : ParseErr → String
  | .plusStar => "err:plusstar" | .badPolicy => "err:badpolicy" | .badCap => "err:badcap" | .ttl => "err:ttl"
  | .dupParam => "err:dupparam" | .negTTL => "err:negttl"

def parseOp (s : String) : Option Op :=
  match s with
  | "create" => some .create | "read" => some .read | "update" => some .update | "patch" => some .patch
  | "delete" => some .delete | "list" => some .list | "scan" => some .scan | "help" => some .help
  | "revoke" => some .revoke | "renew" => some .renew | "rollback" => some .rollback
  | "alias-lookahead" => some .other | "resolve-role" => some .other | "header" => some .other
  | _ => none

def parseData (s : String) : Option (List (String × PVal)) :=
  if s = "-" then some [] else
  (s.splitOn ";").mapM fun e =>
    match e.splitOn "=" with
    | [k, v] => do pure (← parseHexStr? k, ← parsePVal v)
    | _ => none

def b01 (b : Bool) : String := if b then "1" else "0"

def showRes (r : Res) : String :=
  s!"a={b01 r.allowed} r={b01 r.rootPrivs} i={b01 r.isRoot} c={r.caps} l=" ++
    (match r.limit with | none => "-" | some v => showPVal v)

def parseIdx (pols : List (Option Policy)) (s : String) : Option (Option Policy) :=
  if s = "n" then some none else do
    let i ← s.toNat?
    match pols[i]? with
    | some (some p) => some (some p)
    | _ => none

/-- `k:i:off` — set `Paths[i].Expiration` of the k-th attached policy object to now+off seconds (`z` = the zero time) -/
def parseOverride (s : String) : Option (Nat × Nat × Option Int) :=
  match s.splitOn ":" with
  | [k, i, off] => do
    let k ← k.toNat?
    let i ← i.toNat?
    let off ← if off = "z" then some none else off.toInt?.map some
    pure (k, i, off)
  | _ => none

def applyOverride (ps : List (Option Policy)) (ov : Nat × Nat × Option Int) : List (Option Policy) :=
  ps.mapIdx fun k p => if k = ov.1 then
      p.map fun p => { p with paths := p.paths.mapIdx fun i r => if i = ov.2.1 then { r with expiration := ov.2.2 } else r }
    else p

def parseCG? (s : String) : Option (Option Obao.ControlGroup.CG) :=
  if s == "-" then some none else
  match s.splitOn ":" with
  | [t, sf, fs] => match t.toNat? with
    | some t => some (some { ttl := t, self := sf == "1", factors := if fs.isEmpty then [] else fs.splitOn "+" })
    | none => none
  | _ => none

def insSorted (x : String) : List String → List String
  | [] => [x]
  | y :: ys => if x ≤ y then x :: y :: ys else y :: insSorted x ys

def showCG : Option Obao.ControlGroup.CG → String
  | none => "nocg"
  | some c => s!"cg:{c.ttl}:{if c.self then 1 else 0}:{"+".intercalate (c.factors.foldr insSorted [])}"

def step (spec : Bool) (st : St) (fs : List String) : St × String :=
  match fs with
  | "cgmerge" :: cgs =>
    match cgs.mapM parseCG? with
    | some l => (st, showCG (Obao.ControlGroup.cgOf l))
    | none => (st, "bad-op")
  | "policy" :: name :: rules =>
    match rules.mapM parseSrcRule with
    | none => (st, "bad-op")
    | some rs =>
      match parsePolicy 0 name rs with
      | .error e => ({ st with pols := st.pols ++ [none] }, showParseErr e)
      | .ok p => ({ st with pols := st.pols ++ [some p] },
                  "ok " ++ (if p.paths.isEmpty then "-" else "&".intercalate (p.paths.map showRule)))
  | "reparse" :: _name :: rules =>
    match rules.mapM parseSrcRule with
    | none => (st, "bad-op")
    | some rs => (st, if parseStable rs then "stable" else "unstable")
  | ["attach", slot, _mode, idxs, ovs] =>
    match slot.toNat?, (if idxs = "-" then some [] else (idxs.splitOn ",").mapM (parseIdx st.pols)),
        (if ovs = "-" then some [] else (ovs.splitOn ";").mapM parseOverride) with
    | some slot, some ps, some ovs =>
      let ps := ovs.foldl applyOverride ps
      let r := newACL 0 ps
      ({ st with slots := (slot, ps, r) :: st.slots.filter (·.1 != slot) },
       if spec then (if attachable ps then "ok" else "err:root")
       else match r with | .ok _ => "ok" | .error .rootWithOthers => "err:root")
    | _, _, _ => (st, "bad-op")
  | ["allow", slot, cc, op, path, data, wrap] =>
    match slot.toNat?, parseOp op, hexPath? path, parseData data, parseOptInt wrap with
    | some slot, some op, some path, some data, some wrapTTL =>
      match st.slots.lookup slot, (if cc = "0" then some false else if cc = "1" then some true else none) with
      | some (ps, .ok a), some cc =>
        if spec && !wfRules (rulesOf 0 ps) then (st, "n/a") else
        (st, showRes (if spec then specAllow 0 ps { path, op, data, wrapTTL } cc
                      else allowOperation a { path, op, data, wrapTTL } cc))
      | _, _ => (st, "bad-op")
    | _, _, _, _, _ => (st, "bad-op")
  | ["caps", slot, path] =>
    match slot.toNat?, hexPath? path with
    | some slot, some path =>
      match st.slots.lookup slot with
      | some (ps, .ok a) =>
        if spec && !wfRules (rulesOf 0 ps) then (st, "n/a") else
        (st, ",".intercalate (if spec then specCapabilities 0 ps path else capabilities a path))
      | _ => (st, "bad-op")
    | _, _ => (st, "bad-op")
  | _ => (st, "bad-op")

/-- `acl` = the implementation model; `aclspec` = the declarative semantics (same protocol) -/
def streams : List (String × Driver.Stream) :=
  [("acl", { σ := St, init := {}, step := step false }), ("aclspec", { σ := St, init := {}, step := step true })]
end Driver.ACL
