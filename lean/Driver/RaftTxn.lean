import Driver.Stream
import Obao.Model.RaftTxn
/-! Driver stream `txn-raft` (C08): the scheduler trace of a single-node RaftBackend. Same line format as
`txn-inmem`, plus `lag <n>` (the harness parked the FSM behind raft's applied index; answered `ok`). -/
namespace Driver.RaftTxn
open Obao Obao.SerialTxn Obao.RaftTxn

def unq (s : String) : String := if s = "-" then "" else s

def showVal : Option Val → String
  | none => "nil"
  | some v => "v:" ++ v

def showRes : Res → String
  | .ok => "ok"
  | .val v => showVal v
  | .keys l => "[" ++ ",".intercalate (l.map fun c => if c = "" then "-" else c) ++ "]"
  | .err .readOnly => "err:readonly"
  | .err .finished => "err:finished"
  | .err .conflict => "err:conflict"

def parseOp : List String → Option Op
  | ["get", k] => some (.get (unq k))
  | ["put", k, v] => some (.put (unq k) v)
  | ["del", k] => some (.del (unq k))
  | ["list", p] => some (.list (unq p) "" (-1))
  | ["listp", p, a, l] => (l.toInt?).map fun l => .list (unq p) (unq a) l
  | _ => none

def parseEvent : List String → Option Event
  | ["begin", id, "rw"] => id.toNat?.map fun i => .begin i true
  | ["begin", id, "ro"] => id.toNat?.map fun i => .begin i false
  | ["commit", id] => id.toNat?.map .commit
  | ["rollback", id] => id.toNat?.map .rollback
  | op :: who :: rest =>
    match parseOp (op :: rest) with
    | none => none
    | some o => if who = "p" then some (.plain o) else who.toNat?.map fun i => .op i o
  | _ => none

def step (s : RSys) (fs : List String) : RSys × String :=
  match fs with
  | ["layer", _] => (s, "ok")
  | ["lag", _] => (s, "ok")
  | "dump" :: ks => (s, ",".intercalate (ks.map fun k => showVal (sget s.store (unq k))))
  | _ =>
    match parseEvent fs with
    | none => (s, "bad-op")
    | some e =>
      match s.step e with
      | none => (s, "bad-op")
      | some (s', r) => (s', showRes r)

def streams : List (String × Driver.Stream) :=
  [("txn-raft", { σ := RSys, init := RSys.init, step := step })]
end Driver.RaftTxn
