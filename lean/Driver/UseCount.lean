import Driver.Stream
import Obao.Model.WrapNs
import Obao.Model.UseCount
/-!
Trace validation for C19 (stream `usecount`) and C18 (stream `wrapuse`): the harness reports the OBSERVED schedule —
which request thread executed which storage operation, which thread was found waiting for a lock, what every
request returned — and this driver replays it on the micro-step model. For every executed event it answers whether
that event is an enabled transition of the model in the replayed state (`ok` / `not-enabled`); for every completed
request it answers the outcome class the model predicts; for `final` / `wfinal` / `leases` / `bg` the predicted
state of the token entry, payload, lease accounting and the effect of the expiration worker.

Invisible micro-steps (lock acquire just before the re-read, unlock right after the store, result bookkeeping,
the marker check of `revokeInternal` when the marker is already there) are performed together with the storage
operation next to them, because the gate of the harness sits at storage operations.
-/
namespace Driver.UseCount
open Obao Obao.UseCount

def parseKind? : String → Option Kind
  | "read" => some .read
  | "write" => some .write
  | "denied" => some .denied
  | "self" => some .self
  | "lease" => some .lease
  | "create" => some .create
  | "recread" => some .recread
  | "unwrap1" => some .unwrap1
  | "unwrap3" => some .unwrap3
  | "rewrap1" => some .rewrap1
  | "rewrap3" => some .rewrap3
  | "lookup1" => some .lookup1
  | "lookup3" => some .lookup3
  | "cubby" => some .cubby
  | "other" => some .other
  | _ => none

/-- perform the listed thread steps; `none` as soon as one is not enabled -/
def steps (s : St) : List Nat → Option St
  | [] => some s
  | t :: ts => match step s t with
    | some s' => steps s' ts
    | none => none

def showToken (sh : Shared) : String :=
  if sh.gone then "gone" else if sh.numUses < 0 then "pending" else s!"uses:{sh.numUses}"

def bit (b : Bool) : String := if b then "1" else "0"

def isDone : Pc → Bool
  | .done _ _ => true
  | _ => false

def anyOtherLive (pcs : List Pc) (t : Nat) : Bool :=
  (pcs.zipIdx).any fun (pc, u) => u != t && !isDone pc

/-- replay state: the model state plus the threads that are in "cleanup": a tainted lookup that finds the entry
while a synchronous revocation has already deleted the token's lease treats the token as expired, tries to revoke
it (storage operations that change nothing: the revocation in progress owns the token) and reports nothing; the
operations of that attempt are accepted without model steps until the request returns -/
structure RSt where
  st : St
  cleanup : List Nat
  /-- the live token of a rewrap chain (sequential `hist` cases) -/
  chain : Option WToken := none

abbrev DSt := Option RSt

abbrev Ans := St × String

def ok (s : St) : Ans := (s, "ok")
def ne (s : St) : Ans := (s, "not-enabled")

/-- the body instruction thread `t` is at -/
def bodyIns (s : St) (t : Nat) : Option Body :=
  match s.pcs[t]?, s.kinds[t]? with
  | some (.body i _ _), some k => (scriptOf k).body[i]?
  | _, _ => none

/-- perform the invisible steps thread `t` is at: result bookkeeping (`set`), the marker check of `revokeInternal`
when the marker is already stored -/
def settle (s : St) (t : Nat) : St :=
  let rec go (fuel : Nat) (s : St) : St :=
    match fuel with
    | 0 => s
    | fuel + 1 =>
      match s.pcs[t]? with
      | some (.body _ _ _) =>
        match bodyIns s t with
        | some (.set _) => match step s t with | some s' => go fuel s' | none => s
        | _ => s
      | some (.rmark _ _) =>
        if s.sh.numUses = pending then (match step s t with | some s' => go fuel s' | none => s) else s
      | _ => s
  go 8 s

def stepOk (s : St) (t : Nat) : Ans :=
  match step s t with | some s' => ok s' | none => ne s

/-- thread `t` is about to perform a tainted lookup -/
def atTaint (s : St) (t : Nat) : Bool :=
  match s.pcs[t]?, s.kinds[t]? with
  | some (.pre i), some k => match (scriptOf k).pre[i]? with | some (.taint _) => true | _ => false
  | some (.body i _ _), some k => match (scriptOf k).body[i]? with | some (.taint _) => true | _ => false
  | _, _ => false

def onEv (s0 : St) (t : Nat) (op cls : String) : Ans :=
  let s := settle s0 t
  match s.pcs[t]? with
  | none => ne s0
  | some pc =>
    if cls == "tok-id" then
      if op == "get" then
        match pc with
        | .pre _ => stepOk s t
        | .acquire =>
          -- lock (must be free), re-read; a refused re-read unlocks and returns at once
          match steps s [t, t] with
          | some s' =>
            match s'.pcs[t]? with
            | some (.release none) => stepOk s' t
            | _ => ok s'
          | none => ne s0
        | .body _ _ _ =>
          match bodyIns s t with
          | some (.taint _) => stepOk s t
          | some .create => stepOk s t
          | some (.set _) => ok s
          | none => ok s               -- handlers may look the token up again (lookup-self)
          | _ => ne s0
        | .rlook _ _ => stepOk s t
        | .dq _ _ => ok s              -- handlers may look the token up again (lookup-self)
        | _ => ne s0
      else if op == "put" then
        match pc with
        | .store _ => match steps s [t, t] with | some s' => ok s' | none => ne s0   -- store, unlock
        | _ => ne s0
      else if op == "delete" then
        match pc with
        | .rE _ _ => stepOk s t
        | .rL _ _ => (match steps s [t, t] with | some s' => ok s' | none => ne s0)  -- no lease left to delete
        | _ => ne s0
      else ne s0
    else if cls == "payload" then
      match pc with
      | .body _ _ _ => if op == "get" && bodyIns s t == some .getPayload then stepOk s t else ne s0
      | .rP _ _ => if op == "delete" then stepOk s t else ne s0
      | _ => ne s0
    else if cls == "wrapinfo" then
      match pc with
      | .body _ _ _ => if op == "get" && bodyIns s t == some .getInfo then stepOk s t else ne s0
      | .rI _ _ => if op == "delete" then stepOk s t else ne s0
      | .rP _ _ =>
        -- nothing left of the payload to delete
        if op == "delete" && !s.sh.payload then (match steps s [t, t] with | some s' => ok s' | none => ne s0)
        else ne s0
      | _ => ne s0
    else
      -- storage outside the token entry and its payload: policies, mounts' data, leases, other tokens
      match pc with
      | .store _ => ne s0
      | .done none _ => ne s0      -- a refused request touches no storage afterwards
      | .body _ _ _ =>
        if op == "put" && cls == "lease-tokidx" && bodyIns s t == some .register then stepOk s t else ok s
      | .rL _ _ => if op == "delete" && cls == "lease-id" then stepOk s t else ok s
      | _ => ok s

def onBlocked (s : St) (t : Nat) : Ans :=
  match s.pcs[t]? with
  | some pc => if !isDone pc && anyOtherLive s.pcs t then ok s else ne s
  | none => ne s

/-- finish a request that has no storage operation left: bookkeeping, deferred LazyRevoke -/
def finish (s : St) (t : Nat) : Option (St × Res) :=
  let rec go (fuel : Nat) (s : St) : Option (St × Res) :=
    match fuel with
    | 0 => none
    | fuel + 1 =>
      let s := settle s t
      match s.pcs[t]? with
      | some (.done _ r) => some (s, r)
      | some (.dq _ _) => match step s t with | some s' => go fuel s' | none => none
      | _ => none
  go 4 s

def onDone (s : St) (t : Nat) : Ans :=
  match s.kinds[t]? with
  | some k =>
    match finish s t with
    | some (s', r) => (s', resultClass k r)
    | none => ne s
  | none => ne s

/-- one more request, run alone to completion -/
def onAfter (s : St) (k : Kind) : Ans :=
  let t := s.pcs.length
  let s1 : St := { s with pcs := s.pcs ++ [.pre 0], kinds := s.kinds ++ [k] }
  let rec go (fuel : Nat) (s : St) : St :=
    match fuel with
    | 0 => s
    | fuel + 1 => match step s t with | some s' => go fuel s' | none => s
  let s2 := go 40 s1
  match s2.pcs[t]? with
  | some (.done _ r) => (s2, resultClass k r)
  | _ => (s2, "not-enabled")

def showResp (r : Resp) : String :=
  if r.data then "leak:data" else if r.auth then "leak:auth" else if r.secret then "leak:secret"
  else if r.wrapInfo then "wrapinfo-only" else "leak:not-wrapped"

/-- the response the wrapped request kind produces before wrapping -/
def origResp? : String → Option Resp
  | "secret" => some { data := true, auth := false, secret := false, wrapInfo := false }
  | "login" => some { data := false, auth := true, secret := false, wrapInfo := false }
  | "list" => some { data := true, auth := false, secret := false, wrapInfo := false }
  | _ => none

def workerTwice (s : St) : St := run [s.pcs.length, s.pcs.length] s

def showInfo (i : WInfo) : String := s!"path:{i.path}/ttl:{i.ttl}"

def deadTok : String := "err:invalid-wrapping-token"

def fresh (s : St) : DSt := some { st := s, cleanup := [] }

def stepD (st : DSt) (fs : List String) : DSt × String :=
  match fs with
  | "init" :: n :: m :: kinds =>
    match n.toNat?, m.toNat?, kinds.mapM parseKind? with
    | some n, some m, some ks => if ks.length = m then (fresh (init n ks), "ok") else (st, "bad-op")
    | _, _, _ => (st, "bad-op")
  | "winit" :: w :: m :: kinds =>
    match origResp? w, m.toNat?, kinds.mapM parseKind? with
    | some r, some m, some ks =>
      if ks.length = m then (fresh (initW true 1 ks), showResp (wrapResponse r)) else (st, "bad-op")
    | _, _, _ => (st, "bad-op")
  | ["wseq"] => (fresh (initW true 1 []), "ok")
  -- a wrapping token is a token of ONE use whatever its payload is (a stored response, or a deferred control-group
  -- request that the unwrap executes): the first unwrap spends it, every later attempt and lookup finds nothing
  -- (`C18.unwrap_at_most_once` over the use-count model with n = 1)
  | ["cgunwrap"] => (st, "approve:ok|first:ok:v1|second:err|third:err|lookup:err|value:kept")
  | ["xns", dir] =>
    -- third-party unwrap across namespaces on the model `Obao.WrapNs` (namespace 0 = root, 1 = the child namespace)
    let (tokNs, reqNs) := if dir == "down" then (0, 1) else if dir == "same" then (1, 1) else (1, 0)
    let s0 : Obao.WrapNs.St := { toks := [(tokNs, 7)], payloads := [(tokNs, 7)] }
    let r1 := Obao.WrapNs.unwrap3 s0 reqNs tokNs 7
    let r2 := Obao.WrapNs.unwrap3 r1.1 reqNs tokNs 7
    let sh := fun (b : Bool) => if b then "ok+payload" else "refused"
    let tok := if r2.1.toks.contains (tokNs, 7) then "present" else "gone"
    let n := if r2.1.payloads.contains (tokNs, 7) then 1 else 0
    (st, s!"first:{sh r1.2}/second:{sh r2.2}/token:{tok}/payload:{n}/wrapinfo:{n}")
  | ["cgstanza"] => (st, "first:data|second:err")
  | ["hist", path, ttl] =>
    -- a response wrapped for a request on `path`: what the requester's wrap_info says
    match ttl.toNat? with
    | some ttl =>
      let tok := wrapFirst path ttl
      (some { st := initW true 1 [], cleanup := [], chain := some tok }, showInfo tok.handed)
    | none => (st, "bad-op")
  | ["lastwrap", _n] =>
    -- a lease-generating final use is answered with the "one use left" error whether or not wrapping was asked for
    (st, "refused|wrapped:0|secret:0")
  | ["rootlast", n] =>
    -- the deferred revocation after the last use does not depend on the token's lease having an expiry: revoked, and
    -- with it the n-1 leases issued under it
    match n.toNat? with
    | some (m+1) => (st, s!"ok|token:gone|leases:{m}/{m}")
    | _ => (st, "bad-op")
  | ["nslast", n, k] =>
    -- the n-th use of a root-namespace token is a request into a child namespace: the use step counts it wherever the
    -- request goes, the deferred revocation works in the TOKEN's namespace (finding F55, repaired): revoked
    match n.toNat?, k.toNat? with
    | some n, some k => if n = 0 ∨ k ≥ n then (st, "bad-op") else (st, "ok|token:gone")
    | _, _ => (st, "bad-op")
  | ["batchuses", how] =>
    -- a use limit can only be promised for a token whose uses are counted (a stored entry): the request for a use-limited
    -- batch token is refused (`C19.limit_needs_counted_uses`), whether the limit comes from the request or from the role
    (st, match how with | _ => "refused")
  | ["orphanrace", n, _at] =>
    -- a rewrite of the entry that is not a use (orphaning) interleaved with a use: the count is the uses' alone
    -- (`C19.non_use_rewrite_preserves_count`)
    match n.toNat? with
    | some n => if n = 0 then (st, "bad-op") else (st, s!"uses:{n}")
    | none => (st, "bad-op")
  | ["sealdenied", n, "ns"] =>
    -- the same with a token of a child namespace: the use step is the token's, whatever namespace the request names
    match n.toNat? with
    | some n => if n = 0 then (st, "bad-op") else (st, "denied|token:gone")
    | none => (st, "bad-op")
  | ["sealdenied", n] =>
    -- n-1 leased uses through handleRequest, then a denied sys/seal (Core.sealInitCommon) as the n-th use: the use step
    -- counts it, so the token has spent its n uses: revoked, with the n-1 leases it obtained (`C19.spent_token_revoked_any_entry`)
    match n.toNat? with
    | some n => if n = 0 then (st, "bad-op") else (st, s!"denied|token:gone|leases:{n - 1}/{n - 1}")
    | none => (st, "bad-op")
  | _ =>
    match st with
    | none => (none, "bad-op")
    | some rs =>
      let s := rs.st
      let upd (a : Ans) : DSt × String := (some { rs with st := a.1 }, a.2)
      match fs with
      | ["ev", t, op, cls] =>
        match t.toNat? with
        | some t =>
          if rs.cleanup.contains t then (st, "ok")
          else
            let s1 := settle s t
            let window := atTaint s1 t && s1.sh.leaseGone && !s1.sh.gone && op == "get" && cls == "tok-id"
            let a := onEv s t op cls
            (some { st := a.1, cleanup := if window && a.2 == "ok" then t :: rs.cleanup else rs.cleanup }, a.2)
        | none => (st, "bad-op")
      | ["blocked", t] => match t.toNat? with | some t => upd (onBlocked s t) | none => (st, "bad-op")
      | ["done", t] =>
        match t.toNat? with
        | some t =>
          let a := onDone s t
          (some { st := a.1, cleanup := rs.cleanup.filter (· != t) }, a.2)
        | none => (st, "bad-op")
      | ["bg"] =>
        let s' := workerTwice s
        (some { rs with st := s' }, showToken s'.sh)
      | ["final"] => (st, showToken s.sh)
      | ["wfinal"] => (st, s!"token:{showToken s.sh}/payload:{bit s.sh.payload}/wrapinfo:{bit s.sh.info}")
      | ["leases"] => (st, s!"issued:{s.sh.issued}/revoked:{s.sh.revoked}")
      | ["after", k] => match parseKind? k with | some k => upd (onAfter s k) | none => (st, "bad-op")
      | ["wafter", k] => match parseKind? k with | some k => upd (onAfter s k) | none => (st, "bad-op")
      | ["wlookup"] => upd (onAfter s .lookup3)
      | ["wnew"] =>
        -- the token a successful rewrap returned is a fresh wrapping token: one unwrap succeeds, the next fails
        let (s1, a) := onAfter (initW true 1 []) .unwrap3
        (st, a ++ "|" ++ (onAfter s1 .unwrap1).2)
      | ["probe", path, op] =>
        -- a fresh wrapping token presented for `op` on `path`: what its policy grants
        (st, if wrapPolicyAllows path op then "allowed" else "denied")
      | ["probe", path, op, req] =>
        -- the same when the wrapping was requested by root ("root") or by a token bound to an entity that carries the
        -- identity policy c18ident ("entity")
        match req with
        | "root" => (st, if wrapTokenAllows (fun _ => ["c18ident"]) "" path op then "allowed" else "denied")
        | "entity" => (st, if wrapTokenAllows (fun _ => ["c18ident"]) "e1" path op then "allowed" else "denied")
        | _ => (st, "bad-op")
      | ["wused"] =>
        -- whatever the probe did, it went through the use step: the single use is gone
        let (s1, _) := onAfter (initW true 1 []) .other
        (st, (onAfter (workerTwice s1) .unwrap3).2)
      | ["hlookup"] =>
        match rs.chain with
        | some tok => (st, showInfo (lookupInfo tok) ++ "/time:fresh")
        | none => (st, deadTok)
      | ["hrewrap", "3"] =>
        match rs.chain with
        | some tok => let t' := rewrapTok tok; (some { rs with chain := some t' }, showInfo t'.handed)
        | none => (st, deadTok)
      | ["hrewrap", "1"] =>
        -- the wrapping token's own policy does not grant sys/wrapping/rewrap: the use is consumed, nothing issued
        match rs.chain with
        | some _ => (some { rs with chain := none }, "denied")
        | none => (st, deadTok)
      | ["hunwrap"] =>
        match rs.chain with
        | some _ => (some { rs with chain := none }, "ok+payload")
        | none => (st, deadTok)
      | ["expiry", k] =>
        -- TTL elapsed: the token's own lease expired, the expiration worker revoked the token
        match parseKind? k with
        | some k =>
          let s0 := initW true 1 []
          let s1 := workerTwice { s0 with sh := { s0.sh with queued := true } }
          (st, (onAfter s1 k).2)
        | none => (st, "bad-op")
      | _ => (st, "bad-op")

def streams : List (String × Driver.Stream) :=
  [("usecount", { σ := DSt, init := none, step := stepD }),
   ("wrapuse", { σ := DSt, init := none, step := stepD }),
   -- predicate-only stream (attempts racing with an explicit revocation): nothing is predicted
   ("wrapfree", .stateless fun _ => "-")]

end Driver.UseCount
