import Driver.Stream
import Obao.Model.KV2
/-! Line-protocol driver for the versioned-KV model (C14).  One stream `kv2` serves the three harness streams
(sequential, fault, concurrent): the op language is the same, the fault and concurrent streams add the ops
`writef`/`patchf` (fault position) and `conc` (a recorded concurrent history, checked for linearizability). -/
namespace Driver.KV2
open Obao Obao.KV2

structure St where
  tx : Bool
  st : State

def showDel : Del → String
  | .none => "-" | .deleted => "D" | .future => "F"

def showBool (b : Bool) : String := if b then "1" else "0"

def showData (d : Data) : String :=
  if d.isEmpty then "-" else ",".intercalate (d.map fun (k, v) => k ++ "=" ++ v)

def showErr : Err → String
  | .casMismatch => "err:cas-mismatch"
  | .casRequired => "err:cas-required"
  | .casParse => "err:cas-parse"
  | .noVersions => "err:no-versions"
  | .storage => "err:storage"
  | .missingBlob => "err:missing-blob"
  | .mcasMismatch => "err:mcas-mismatch"
  | .mcasNotZero => "err:mcas-notzero"
  | .badPath => "err:badpath"

def showCfgDva : CfgDva → String
  | .unset => "0" | .future => "F" | .disabled => "N"

def showResp : Resp → String
  | .nil => "nil"
  | .wrote v del w => s!"ok:{v}:{showDel del}" ++ (if w then ":warn" else "")
  | .data v d del => s!"ok:{v}:{showData d}:{showDel del}:0"
  | .gone v del ds => s!"gone:{v}:{showDel del}:{showBool ds}"
  | .notFound => "notfound"
  | .metaInfo cur old mx cr dva mv vers cm =>
    let vs := if vers.isEmpty then "-" else
      ",".intercalate (vers.map fun (w, vm) => s!"{w}/{showDel vm.del}/{showBool vm.destroyed}")
    s!"meta:cur={cur}:old={old}:max={mx}:casreq={showBool cr}:dva={if dva then "F" else "0"}:mv={mv}:{vs}:cm={showData cm}"
  | .conf mx cr dva => s!"conf:max={mx}:casreq={showBool cr}:dva={showCfgDva dva}"
  | .warn => "warn"
  | .err e => showErr e

def parseCas (s : String) : Option Cas :=
  if s = "-" then some .absent
  else if s = "bad" then some .bad
  else s.toInt?.map .val

def parseKV (s : String) : Option (String × String) :=
  match s.splitOn "=" with
  | [k, v] => if k.isEmpty then none else some (k, v)
  | _ => none

def parseData (s : String) : Option Data :=
  if s = "-" then some [] else do
    let kvs ← (s.splitOn ",").mapM parseKV
    if kvs.any (fun (_, v) => v = "~") then none
    else pure (kvs.foldl (fun d (k, v) => insertKV k v d) [])

def parsePatch (s : String) : Option PatchData :=
  if s = "-" then some [] else do
    let kvs ← (s.splitOn ",").mapM parseKV
    pure (kvs.map fun (k, v) => (k, if v = "~" then none else some v))

def parseInts (s : String) : Option (List Int) :=
  if s = "-" then some [] else (s.splitOn ",").mapM String.toInt?

def parseOptInt (s : String) : Option (Option Int) :=
  if s = "-" then some none else s.toInt?.map some

def parseOptBool (s : String) : Option (Option Bool) :=
  if s = "-" then some none else if s = "0" then some (some false) else if s = "1" then some (some true) else none

def parseMetaDva (s : String) : Option (Option Bool) :=
  if s = "-" then some none else if s = "0" then some (some false) else if s = "F" then some (some true) else none

def parseCfgDva (s : String) : Option (Option DvaArg) :=
  if s = "-" then some none else if s = "0" then some (some .zero) else if s = "F" then some (some .future)
  else if s = "N" then some (some .negative) else none

/-- custom_metadata of a PUT: `-` absent, `{}` empty map, else k=v,… -/
def parseOptCM (s : String) : Option (Option Data) :=
  if s = "-" then some none else if s = "{}" then some (some []) else (parseData s).map some

/-- custom_metadata of a PATCH: `-` absent, `{}` empty patch, else k=v,… with `~` = null -/
def parseOptCMPatch (s : String) : Option (Option PatchData) :=
  if s = "-" then some none else if s = "{}" then some (some []) else (parsePatch s).map some

def parseOp (fs : List String) : Option Op :=
  match fs with
  | ["write", p, cas, d] => do pure (.write p (← parseCas cas) (← parseData d))
  | ["patch", p, cas, d] => do pure (.patch p (← parseCas cas) (← parsePatch d))
  | ["read", p, v] => do pure (.read p (← v.toInt?))
  | ["delete", p] => some (.delete p)
  | ["deletev", p, vs] => do pure (.deleteV p (← parseInts vs))
  | ["undelete", p, vs] => do pure (.undelete p (← parseInts vs))
  | ["destroy", p, vs] => do pure (.destroy p (← parseInts vs))
  | ["metawrite", p, mx, cr, dva, cm, mcas] => do
    pure (.metaWrite p ⟨← parseOptInt mx, ← parseOptBool cr, ← parseMetaDva dva, ← parseOptCM cm, ← parseOptInt mcas⟩)
  | ["metapatch", p, mx, cr, dva, cm, mcas] => do
    pure (.metaPatch p ⟨← parseOptInt mx, ← parseOptBool cr, ← parseMetaDva dva, ← parseOptCMPatch cm, ← parseOptInt mcas⟩)
  | ["metaread", p] => some (.metaRead p)
  | ["metadelete", p] => some (.metaDelete p)
  | ["confwrite", mx, cr, dva] => do pure (.confWrite (← parseOptInt mx) (← parseOptBool cr) (← parseCfgDva dva))
  | ["confread"] => some .confRead
  | _ => none

/-- what the harness's `observe(path)` collects: the metadata read and a read of versions 0 … current+1 -/
def observe (s : State) (p : String) : List String :=
  let cur := match (s.paths p).md with
    | some m => m.current
    | none => 0
  showResp (metaRead (s.paths p)) ::
    (List.range (cur + 2)).map fun v => showResp (readPath (s.paths p) (Int.ofNat v))

def insertAll {α : Type} (x : α) : List α → List (List α)
  | [] => [[x]]
  | y :: ys => (x :: y :: ys) :: (insertAll x ys).map (y :: ·)

def perms {α : Type} : List α → List (List α)
  | [] => [[]]
  | x :: xs => (perms xs).flatMap (insertAll x)

def parsePrec (s : String) : Option (List (Nat × Nat)) :=
  if s = "-" then some [] else
    (s.splitOn ",").mapM fun pr =>
      match pr.splitOn "<" with
      | [a, b] => do pure ((← a.toNat?), (← b.toNat?))
      | _ => none

def respects (perm : List Nat) (prec : List (Nat × Nat)) : Bool :=
  prec.all fun (a, b) =>
    match perm.idxOf? a, perm.idxOf? b with
    | some i, some j => i < j
    | _, _ => false

/-- `conc ops prec responses path obs`: search a linearization — an order of the threads' requests that respects
    the real-time precedence pairs and under which the sequential model gives every thread the response it got and
    ends in a state with the recorded observations -/
def concStep (st : St) (opsF precF respF p obsF : String) : St × String :=
  let opsP : Option (List Op) := (opsF.splitOn "|").mapM fun o => parseOp (o.splitOn ";")
  match opsP, parsePrec precF with
  | some ops, some prec =>
    let resps := respF.splitOn "|"
    let obs := obsF.splitOn "|"
    if resps.length ≠ ops.length then (st, "bad-op") else
    let cands := (perms (List.range ops.length)).filter (respects · prec)
    let ok := cands.findSome? fun perm =>
      let (s', rs) := seqRun st.st (perm.filterMap (ops[·]?))
      let byThread := (List.range ops.length).map fun t =>
        match perm.idxOf? t with
        | some i => (rs[i]?.map showResp).getD "?"
        | none => "?"
      if byThread == resps && observe s' p == obs then some s' else none
    match ok with
    | some s' => ({ st with st := s' }, "lin")
    | none => (st, "not-linearizable")
  | _, _ => (st, "bad-op")

def stepLine (st : St) (fs : List String) : St × String :=
  match fs with
  | ["mode", "tx"] => ({ st with tx := true }, "ok")
  | ["mode", "notx"] => ({ st with tx := false }, "ok")
  | ["writef", p, cas, d, k] =>
    match parseCas cas, parseData d, k.toNat? with
    | some c, some d, some k =>
      let (s', r, fired) := stepF st.tx (some k) st.st (.write p c d)
      ({ st with st := s' }, showResp r ++ (if fired then ":fired" else ":notfired"))
    | _, _, _ => (st, "bad-op")
  | ["patchf", p, cas, d, k] =>
    match parseCas cas, parsePatch d, k.toNat? with
    | some c, some d, some k =>
      let (s', r, fired) := stepF st.tx (some k) st.st (.patch p c d)
      ({ st with st := s' }, showResp r ++ (if fired then ":fired" else ":notfired"))
    | _, _, _ => (st, "bad-op")
  | ["conc", ops, prec, resps, p, obs] => concStep st ops prec resps p obs
  | ["conc", ops, prec, resps, p, obs, _schedule] => concStep st ops prec resps p obs
  | _ =>
    match parseOp fs with
    | some op =>
      let (s', r) := stepC st.st op
      ({ st with st := s' }, showResp r)
    | none => (st, "bad-op")

def streams : List (String × Driver.Stream) :=
  [("kv2", { σ := St, init := { tx := false, st := Obao.KV2.init }, step := stepLine })]

end Driver.KV2
