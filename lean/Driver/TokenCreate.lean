import Driver.Stream
import Obao.Model.TokenCreate
/-! Driver for the C07 streams: op kinds `role`, `create`, `login` (see harness/wb/vault/zz_verif_c07_test.go). -/
namespace Driver.TokenCreate
open Obao Obao.TokenCreate

/-- `n:a,b,c` → list of names (n = 0 ⇒ empty list; `1:` ⇒ one empty name) -/
def parseList? (s : String) : Option (List Name) :=
  match s.splitOn ":" with
  | [n, rest] =>
    match n.toNat? with
    | some 0 => if rest.isEmpty then some [] else none
    | some k =>
      let parts := rest.splitOn ","
      if parts.length = k then some (parts.map String.toList) else none
    | none => none
  | _ => none

def showList (l : List Name) : String :=
  s!"{l.length}:" ++ ",".intercalate (l.map String.ofList)

def parseBool? : String → Option Bool
  | "0" => some false
  | "1" => some true
  | _ => none

def showB (b : Bool) : String := if b then "1" else "0"

def parseDur? (s : String) : Option Dur :=
  if s = "-" then some .absent else if s = "bad" then some .bad else (s.toInt?).map Dur.val

def parseRoleType? : String → Option RoleType
  | "default-service" => some .defaultService
  | "default-batch" => some .defaultBatch
  | "service" => some .service
  | "batch" => some .batch
  | _ => none

def showRoleType : RoleType → String
  | .defaultService => "default-service"
  | .defaultBatch => "default-batch"
  | .service => "service"
  | .batch => "batch"

/-- a field with a one-character tag in front (so that it is never empty) -/
def untag? (tag : Char) (s : String) : Option String :=
  match s.toList with
  | c :: rest => if c = tag then some (String.ofList rest) else none
  | [] => none

def showRole (r : Role) : String :=
  "|".intercalate [showList r.allowed, showList r.disallowed, showList r.allowedGlob, showList r.disallowedGlob,
    showB r.orphan, showB r.renewable, showB r.noDefault, toString r.period, toString r.emax, toString r.numUses,
    showRoleType r.tokType, "s" ++ String.ofList r.pathSuffix, showList r.aliases]

/-- the 13 stored-role fields of a `create` line -/
def parseRole? (fs : List String) : Option Role :=
  match fs with
  | [al, dis, ag, dg, orphan, renewable, noDefault, period, emax, uses, tt, suffix, aliases] => do
    let allowed ← parseList? al
    let disallowed ← parseList? dis
    let allowedGlob ← parseList? ag
    let disallowedGlob ← parseList? dg
    let orphan ← parseBool? orphan
    let renewable ← parseBool? renewable
    let noDefault ← parseBool? noDefault
    let period ← period.toInt?
    let emax ← emax.toInt?
    let numUses ← uses.toInt?
    let tokType ← parseRoleType? tt
    let sfx ← untag? 's' suffix
    let aliases ← parseList? aliases
    pure { allowed, disallowed, allowedGlob, disallowedGlob, orphan, renewable, noDefault, period, emax, numUses,
           tokType, pathSuffix := sfx.toList, aliases }
  | _ => none

def handleRole (fs : List String) : String :=
  match fs with
  | [al, dis, ag, dg, orphan, renewable, noDefault, period, emax, uses, tt, suffix, suffixOk, aliases] =>
    let cfg? : Option RoleCfg := do
      let allowed ← parseList? al
      let disallowed ← parseList? dis
      let allowedGlob ← parseList? ag
      let disallowedGlob ← parseList? dg
      let orphan ← parseBool? orphan
      let renewable ← parseBool? renewable
      let noDefault ← parseBool? noDefault
      let period ← period.toInt?
      let emax ← emax.toInt?
      let numUses ← uses.toInt?
      let sfx ← untag? 's' suffix
      let suffixOk ← parseBool? suffixOk
      let aliases ← parseList? aliases
      let (tokType, tokTypeBad) := if tt = "-" then (none, false) else
        match parseRoleType? tt with
        | some t => (some t, false)
        | none => (none, true)
      pure { allowed, disallowed, allowedGlob, disallowedGlob, orphan, renewable, noDefault, period, emax, numUses,
             tokType, tokTypeBad, pathSuffix := sfx.toList, suffixOk, aliases }
    match cfg? with
    | none => "bad-op"
    | some cfg =>
      match storeRole cfg with
      | .err e => "err:" ++ e
      | .ok r => "ok:" ++ showRole r
  | _ => "bad-op"

def parseId? : String → Option IdReq
  | "none" => some .none
  | "custom" => some .custom
  | "hvs" => some .hvs
  | "legacy" => some .legacy
  | "dot" => some .dot
  | "dup" => some .dup
  | _ => none

def parseType? : String → Option TypeStr
  | "t" => some .empty
  | "tservice" => some .service
  | "tbatch" => some .batch
  | s => if s.startsWith "t" then some .other else none

/-- `racy`: a non-expiring token in a child namespace — the harness cannot look it up reliably (it is revoked as soon
    as its lease is registered), so the looked-up fields are `?` on both sides -/
def showCreated (racy : Bool) (t : Created) : String :=
  let ty := if t.batch then "batch" else "service"
  let l (s : String) : String := if racy then "?" else s
  ";".intercalate [
    "ok",
    "pol=" ++ showList t.policies, "tpol=" ++ showList t.policies, "lpol=" ++ l (showList t.policies),
    "orphan=" ++ showB t.orphan, "lorphan=" ++ l (showB t.orphan),
    "type=" ++ ty, "ltype=" ++ l ty,
    s!"ttl={t.ttl}", "lttl=" ++ l (toString t.ttl),
    s!"period={t.period}", "lperiod=" ++ l (toString t.periodStored),
    s!"emax={t.emax}", "lemax=" ++ l (toString t.emaxStored),
    s!"uses={t.numUses}", "luses=" ++ l (toString (if t.batch then 0 else t.numUses)),
    "renewable=" ++ showB t.renewable, "custom=" ++ showB t.customId,
    "path=" ++ String.ofList t.path, "role=" ++ l (String.ofList t.role)]

def handleCreate (fs : List String) : String :=
  match fs with
  | allowed :: sudo :: nsChild :: crossNS :: sysDef :: sysMax :: _mountMax :: ppol :: pttl :: puses :: pbatch :: ep :: roleName ::
    r1 :: r2 :: r3 :: r4 :: r5 :: r6 :: r7 :: r8 :: r9 :: r10 :: r11 :: r12 :: r13 ::
    [pols, noParent, noDefault, renewable, period, emax, ttl, uses, id, typ, alias] =>
    let parsed? : Option (Env × Parent × Endpoint × Req) := do
      let env : Env := { allowed := ← parseBool? allowed, sudo := ← parseBool? sudo, nsChild := ← parseBool? nsChild,
                         crossNS := ← parseBool? crossNS, sysDefault := ← sysDef.toInt?, sysMax := ← sysMax.toInt? }
      let par : Parent := { policies := ← parseList? ppol, ttl := ← pttl.toInt?, numUses := ← puses.toInt?,
                            batch := ← parseBool? pbatch }
      let endpoint : Endpoint ← match ep with
        | "create" => some Endpoint.create
        | "orphan" => some Endpoint.createOrphan
        | "role" => (parseRole? [r1, r2, r3, r4, r5, r6, r7, r8, r9, r10, r11, r12, r13]).map
                      (fun r => Endpoint.withRole roleName.toList (some r))
        | "norole" => some (Endpoint.withRole roleName.toList none)
        | _ => none
      let alias ← if alias = "-" then some none else (untag? '=' alias).map (fun a => some a.toList)
      let rq : Req := { policies := ← parseList? pols, noParent := ← parseBool? noParent, noDefault := ← parseBool? noDefault,
                        renewable := ← parseBool? renewable, period := ← parseDur? period, emax := ← parseDur? emax,
                        ttl := ← parseDur? ttl, numUses := ← uses.toInt?, id := ← parseId? id, type := ← parseType? typ,
                        alias }
      pure (env, par, endpoint, rq)
    match parsed? with
    | none => "bad-op"
    | some (env, par, endpoint, rq) =>
      match create env par endpoint rq with
      | .denied => "denied"
      | .err e => "err:" ++ e
      | .ok t => showCreated (env.nsChild && t.ttl == 0) t
  | _ => "bad-op"

def parseTokType? : String → Option TokType
  | "0" => some .default
  | "1" => some .service
  | "2" => some .batch
  | "3" => some .defaultService
  | "4" => some .defaultBatch
  | "default-service" => some .defaultService
  | "default-batch" => some .defaultBatch
  | "service" => some .service
  | "batch" => some .batch
  | _ => none

def handleLogin (fs : List String) : String :=
  match fs with
  | [mt, sysDef, sysMax, pols, ipols, noDefault, ttl, maxTTL, period, emax, uses, renewable, tt] =>
    let parsed? : Option (TokType × Int × Int × LoginAuth) := do
      let a : LoginAuth := { policies := ← parseList? pols, identity := ← parseList? ipols, noDefault := ← parseBool? noDefault,
                             ttl := ← ttl.toInt?, maxTTL := ← maxTTL.toInt?, period := ← period.toInt?, emax := ← emax.toInt?,
                             numUses := ← uses.toInt?, renewable := ← parseBool? renewable, tokType := ← parseTokType? tt }
      pure (← parseTokType? mt, ← sysDef.toInt?, ← sysMax.toInt?, a)
    match parsed? with
    | none => "bad-op"
    | some (mt, sd, sm, a) =>
      match login mt sd sm a with
      | .err e => "err:" ++ e
      | .ok t =>
        ";".intercalate [
          "ok", "tpol=" ++ showList t.tokenPolicies, "pol=" ++ showList t.policies, "ipol=" ++ showList t.identity,
          "type=" ++ (if t.batch then "batch" else "service"), s!"ttl={t.ttl}", s!"attl={t.ttl}",
          s!"period={t.period}", s!"emax={t.emax}", s!"uses={t.numUses}", "renewable=" ++ showB t.renewable, "orphan=1"]
  | _ => "bad-op"

def handle (fs : List String) : String :=
  match fs with
  | "role" :: rest => handleRole rest
  | "create" :: rest => handleCreate rest
  | "login" :: rest => handleLogin rest
  | ["table", "nonassignable"] => "ok:" ++ showList nonAssignable
  | _ => "bad-op"

def streams : List (String × Driver.Stream) :=
  [("tokencreate", .stateless handle), ("login", .stateless handle)]
end Driver.TokenCreate
