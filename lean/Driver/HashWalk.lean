import Driver.Stream
import Obao.Model.HashWalk
/-!
Driver stream `hashwalk` (C11).  Trees travel as comma-separated prefix tokens:
`s<hex>` string, `n<literal>` number, `t`/`f` booleans, `z` null, `a<n>` array of the next n values,
`o<n>` object of the next n fields, each field being `k<hex>` followed by a value.  In results a string leaf that
is the HMAC of `x` is written `h<hex x>` (the harness maps every real `hmac-sha256:…` value back to its pre-image
through a table of independently recomputed HMACs), every other string leaf `s<hex>`.

The symbolic HMAC used here is `fn x = "\u0000H" ++ x`; input strings containing U+0000 are rejected (`bad-op`), so
the marker is unambiguous.
-/
namespace Driver.HashWalk
open Obao Obao.HashWalk

def marker : String := "\u0000H"
def symH (s : String) : String := marker ++ s

def okStr (s : String) : Bool := !(s.toList.any (· == '\u0000'))

def parseStr? (h : String) : Option String := do
  let s ← parseHexStr? h
  if okStr s then some s else none

/-- `fuel` bounds the number of tokens consumed; callers pass the token count. -/
def parseJ : Nat → List String → Option (J × List String)
  | 0, _ => none
  | _, [] => none
  | fuel + 1, tok :: rest =>
    let body := (tok.drop 1).toString
    match tok.toList.head? with
    | some 's' => do let s ← parseStr? body; pure (.str s, rest)
    | some 'n' => if body.isEmpty then none else some (.num body, rest)
    | some 't' => if tok = "t" then some (.bool true, rest) else none
    | some 'f' => if tok = "f" then some (.bool false, rest) else none
    | some 'z' => if tok = "z" then some (.null, rest) else none
    | some 'a' => do
        let n ← body.toNat?
        let rec elems : Nat → Nat → List String → Option (List J × List String)
          | _, 0, r => some ([], r)
          | 0, _, _ => none
          | g + 1, k + 1, r => do
              let (x, r) ← parseJ fuel r
              let (xs, r) ← elems g k r
              pure (x :: xs, r)
        let (xs, r) ← elems fuel n rest
        pure (.arr xs, r)
    | some 'o' => do
        let n ← body.toNat?
        let rec flds : Nat → Nat → List String → Option (List (String × J) × List String)
          | _, 0, r => some ([], r)
          | 0, _, _ => none
          | g + 1, k + 1, r =>
            match r with
            | kt :: r => do
              if kt.toList.head? ≠ some 'k' then none
              let key ← parseStr? (kt.drop 1).toString
              let (v, r) ← parseJ fuel r
              let (kvs, r) ← flds g k r
              pure ((key, v) :: kvs, r)
            | [] => none
        let (kvs, r) ← flds fuel n rest
        pure (.obj kvs, r)
    | _ => none

/-- a data field: `nil` or the tokens of an object -/
def parseData? (f : String) : Option (Option (List (String × J))) :=
  if f = "nil" then some none else
  let toks := f.splitOn ","
  match parseJ (toks.length + 1) toks with
  | some (.obj kvs, []) => some (some kvs)
  | _ => none

def parseKeys? (f : String) : Option (List String) :=
  if f = "none" then some [] else (f.splitOn ",").mapM parseStr?

def parseBool? (f : String) : Option Bool :=
  if f = "1" then some true else if f = "0" then some false else none

def renderStr (s : String) : String :=
  if s.startsWith marker then "h" ++ strToHex (s.drop marker.length).toString else "s" ++ strToHex s

mutual
def renderJ : J → List String
  | .str s => [renderStr s]
  | .num l => ["n" ++ l]
  | .bool true => ["t"]
  | .bool false => ["f"]
  | .null => ["z"]
  | .arr xs => s!"a{xs.length}" :: renderList xs
  | .obj kvs => s!"o{kvs.length}" :: renderFields kvs
def renderList : List J → List String
  | [] => []
  | x :: xs => renderJ x ++ renderList xs
def renderFields : List (String × J) → List String
  | [] => []
  | (k, v) :: rest => ("k" ++ strToHex k) :: (renderJ v ++ renderFields rest)
end

/-- `Data map[string]any json:"data,omitempty"`: a nil or empty map does not appear in the entry -/
def renderData : Option (List (String × J)) → String
  | none => "nil"
  | some [] => "nil"
  | some kvs => String.intercalate "," (renderJ (.obj kvs))

def renderReq (e : ReqEntry) : String :=
  String.intercalate "|" [renderStr e.auth.clientToken, renderStr e.auth.accessor, renderStr e.reqToken,
    renderStr e.reqAccessor, renderData e.data]

def renderAuth : Option Auth → String
  | none => "nil"
  | some a => renderStr a.clientToken ++ "," ++ renderStr a.accessor

def renderWrap : Option Wrap → String
  | none => "nil"
  | some w => renderStr w.token ++ "," ++ renderStr w.accessor ++ "," ++ renderStr w.wrappedAccessor

def parseReqIn? (ign authTok authAcc reqTok reqAcc data : String) : Option ReqIn := do
  let ign ← parseKeys? ign
  let aTok ← parseStr? authTok
  let aAcc ← parseStr? authAcc
  let rTok ← parseStr? reqTok
  let rAcc ← parseStr? reqAcc
  let d ← parseData? data
  pure { auth := { clientToken := aTok, accessor := aAcc }, reqToken := rTok, reqAccessor := rAcc, data := d, ign := ign }

def parseAuth? (f : String) : Option (Option Auth) :=
  if f = "nil" then some none else
  match f.splitOn "," with
  | [t, a] => do let t ← parseStr? t; let a ← parseStr? a; pure (some { clientToken := t, accessor := a })
  | _ => none

def parseWrap? (f : String) : Option (Option Wrap) :=
  if f = "nil" then some none else
  match f.splitOn "," with
  | [t, a, w] => do
    let t ← parseStr? t; let a ← parseStr? a; let w ← parseStr? w
    pure (some { token := t, accessor := a, wrappedAccessor := w })
  | _ => none

def handle (fs : List String) : String :=
  match fs with
  -- time <hex string>  ⇒  1 / 0  (time.Time.UnmarshalText accepts it)
  | ["time", h] => match parseHexStr? h with
      | some s => if isTimeShaped s then "1" else "0"
      | none => "bad-op"
  | ["req", hm, ign, authTok, authAcc, reqTok, reqAcc, data] =>
      match parseBool? hm, parseReqIn? ign authTok authAcc reqTok reqAcc data with
      | some hm, some i => renderReq (formatRequest symH hm i)
      | _, _ => "bad-op"
  | ["resp", hm, el, ign, authTok, authAcc, reqTok, reqAcc, data, rign, rauth, rdata, wrap] =>
      match parseBool? hm, parseBool? el, parseReqIn? ign authTok authAcc reqTok reqAcc data,
            parseKeys? rign, parseAuth? rauth, parseData? rdata, parseWrap? wrap with
      | some hm, some el, some i, some rign, some ra, some rd, some w =>
          let e := formatResponse symH hm { req := i, respAuth := ra, respData := rd, respIgn := rign, wrap := w, elide := el }
          String.intercalate "|" [renderReq e.req, renderAuth e.respAuth, renderData e.respData, renderWrap e.wrap]
      | _, _, _, _, _, _, _ => "bad-op"
  | _ => "bad-op"

def streams : List (String × Driver.Stream) := [("hashwalk", .stateless handle)]
end Driver.HashWalk
