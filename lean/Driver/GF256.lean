import Driver.Stream
import Obao.Model.GF256
namespace Driver.GF256
open Obao Obao.GF256

def chunks (n : Nat) (l : List Nat) : List (List Nat) :=
  if h : n = 0 ∨ l.isEmpty then [] else
    l.take n :: chunks n (l.drop n)
termination_by l.length
decreasing_by
  simp only [not_or, List.isEmpty_iff] at h
  have : l.length ≠ 0 := by simpa using h.2
  simp only [List.length_drop]; omega

def handle (fs : List String) : String :=
  match fs with
  | ["mult", a, b] => match a.toNat?, b.toNat? with
      | some a, some b => toString (mult a b)
      | _, _ => "bad-op"
  | ["inverse", a] => match a.toNat? with
      | some a => toString (inverse a)
      | _ => "bad-op"
  | ["div", a, b] => match a.toNat?, b.toNat? with
      | some a, some b => match div? a b with
          | some r => toString r
          | none => "panic"
      | _, _ => "bad-op"
  | ["add", a, b] => match a.toNat?, b.toNat? with
      | some a, some b => toString (add a b)
      | _, _ => "bad-op"
  | ["eval", cs, x] => match parseHex? cs, x.toNat? with
      | some cs, some x => if x = 0 then "panic" else toString (evaluate cs x)
      | _, _ => "bad-op"
  | ["interp", xs, ys, x] => match parseHex? xs, parseHex? ys, x.toNat? with
      | some xs, some ys, some x => toString (interpolate xs ys x)
      | _, _, _ => "bad-op"
  | ["splitcheck", len, parts, thr] => match len.toInt?, parts.toInt?, thr.toInt? with
      | some l, some p, some t => match splitCheck l p t with
          | none => "ok"
          | some e => "err:" ++ (reprStr e).replace "Obao.GF256.SplitErr." ""
      | _, _, _ => "bad-op"
  -- split secret xs coeffs(threshold-1 per secret byte, concatenated) threshold
  | ["split", secret, xs, coeffs, thr] => match parseHex? secret, parseHex? xs, parseHex? coeffs, thr.toNat? with
      | some s, some xs, some cs, some t =>
          let per := chunks (t - 1) cs
          if per.length != s.length then "bad-op" else
          String.intercalate "," ((split s xs per).map toHex)
      | _, _, _, _ => "bad-op"
  -- which share column a coefficient byte (position relpos in the coefficient region) belongs to: in the model
  -- the polynomials of different secret bytes use disjoint coefficient chunks of length t-1
  | ["influence", len, thr, relpos] => match len.toNat?, thr.toNat?, relpos.toNat? with
      | some l, some t, some p => if t < 2 || p ≥ l * (t - 1) then "bad-op" else "cols:" ++ toString (p / (t - 1))
      | _, _, _ => "bad-op"
  | ["combine", parts] =>
      let ps := if parts = "" then [] else (parts.splitOn ",").map parseHex?
      if ps.any Option.isNone then "bad-op" else
      match combine (ps.filterMap id) with
      | .ok s => "ok:" ++ toHex s
      | .error e => "err:" ++ (reprStr e).replace "Obao.GF256.CombineErr." ""
  | _ => "bad-op"

def streams : List (String × Driver.Stream) := [("gf256", .stateless handle)]
end Driver.GF256
