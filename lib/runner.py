"""Generic decision procedure shared by all property checks (DESIGN.md section 3)."""
import re
import json, os, sys, time, traceback
from . import core
from .core import TieBroken, log


class Stream:
    """one correspondence stream: a harness run + the Lean driver stream it is compared with"""
    name = ""            # trace name
    driver = ""          # obaodriver stream
    harness = None       # dict(name, module, pkg, files, test) for core.build_harness
    testname = ""        # Go test function
    rule = ""            # how cases are generated; what makes a case non-trivial

    def env(self, tier, seed):
        return {"VERIF_TIER": tier, "VERIF_SEED": seed}

    def cwd(self):
        h = self.harness
        d = os.path.join(core.MODULES[h["module"]], h["pkg"].lstrip("./"))
        return d if os.path.isdir(d) else core.MODULES[h["module"]]

    def predicate(self, op, impl):
        """the property's own predicate evaluated on an implementation output; None = holds / not applicable,
        else a short reason (str) or dict(what=..., signature=...).  Evaluated on EVERY op, not only on
        mismatches.  The default recognises the marker a harness appends when it evaluated the property's
        predicate itself on the real code's output: `<result>!VIOL:<reason>[#<signature>]`."""
        return None

    def case_predicate(self, ops, impls):
        """property predicate over a whole case (the ops between two `reset` lines); returns a list of
        failures (str or dict(what, signature, ...))"""
        return []

    def nontrivial(self, op, impl):
        return not impl.startswith("err") and impl != "bad-op"

    def distinct_key(self, op, impl):
        """what identifies a case for the distinct_nontrivial count (stateful streams may add the result)"""
        return op

    def norm_impl(self, op, impl):
        return impl.split("!VIOL:", 1)[0]

    def norm_model(self, op, model):
        return model

    def verdict_predicate(self, op, impl, model, cov):
        """for ops where the driver's answer is a VERDICT about the implementation's recorded output (a linearization
        search over a recorded concurrent history, trace validation of an observed schedule): called on a model/impl
        disagreement; a negative verdict that by itself shows the property failing on that recorded output is returned
        as a failure (str or dict(what, signature)) and reported with the recorded history as the concrete input.
        `cov` = statistics of the streams run so far (to require e.g. that the sequential stream agreed)."""
        return None

    def signature(self, failure):
        """structural signature of a (shrunk) failing case, matched against known_findings.json"""
        return None

    timeout = 1800


class PropCheck:
    pid = ""
    lean_modules = None        # default [pid]
    assumptions = []
    trusted_base = []
    streams = []
    level_text = ""            # MANIFEST level_claimed.text
    level_note = ""            # MANIFEST level_note
    technique = "Lean 4 proof over an executable model + differential correspondence with the Go code"

    def pre(self, ctx):
        """optional: regenerate Gen files etc. May raise TieBroken."""
        return None

    search_seeds = 2           # extra seeds tried by the default search
    search_tier = "quick"

    def search(self, ctx, broken):
        """Search for a concrete failing input when an obligation or the correspondence broke: evaluate the
        property predicate (never the model comparison) on implementation outputs of further harness runs
        (wider tier, other seeds).  Property modules override/extend this with directed generators.
        Returns a list of concrete failures: dict(what, input, stream?, signature?)"""
        found = []
        t0 = time.time()
        for st in self.streams:
            key = st.harness["name"]
            binp = ctx.get("built", {}).get(key)
            if not binp:
                continue
            for k in range(1, self.search_seeds + 1):
                if found or time.time() - t0 > 900:
                    break
                seed = str(int(ctx["seed"]) + 7919 * k)
                trace = os.path.join(core.WORK, "trace-%s-%s-search%d.tsv" % (self.pid, st.name, k))
                try:
                    core.run_harness(binp, st.testname, st.cwd(), trace, st.env(self.search_tier, seed),
                                     timeout=st.timeout, test=st.harness.get("test", True))
                    ops, impl = core.read_trace(trace)
                except TieBroken:
                    continue
                found += eval_predicates(st, ops, impl)[:3]
        return found

    def extra(self, ctx):
        """optional additional checks; returns dict(concrete=[...], broken=[...], stats={})"""
        return None


def marker_predicate(impl):
    """`<result>!VIOL:<reason>[#<signature>]` appended by a harness that evaluated the property itself"""
    if "!VIOL:" in impl:
        r = impl.split("!VIOL:", 1)[1]
        if "#" in r:
            what, sig = r.split("#", 1)
            return {"what": what, "signature": sig}
        return r
    return None


def eval_predicates(st, ops, impl):
    """evaluate the per-op and per-case property predicates of a stream on implementation outputs"""
    concrete = []
    cur_o, cur_i = [], []
    for o, a in list(zip(ops, impl)) + [("reset", "reset")]:
        if o == "reset":
            if cur_o:
                for why in st.case_predicate(cur_o, cur_i) or []:
                    c = {"stream": st.name, "input": {"ops": cur_o[-200:], "impl": cur_i[-200:]}}
                    c.update(why if isinstance(why, dict) else {"what": why})
                    concrete.append(c)
            cur_o, cur_i = [], []
            continue
        cur_o.append(o); cur_i.append(a)
        why = marker_predicate(a) or st.predicate(o, a)
        if why:
            c = {"stream": st.name, "input": {"op": o, "impl": a}}
            c.update(why if isinstance(why, dict) else {"what": why})
            concrete.append(c)
    return concrete


def sample_cases(ops, impl, k=4):
    out = []
    n = len(ops)
    if n == 0:
        return out
    step = max(1, n // k)
    for i in range(0, n, step):
        if ops[i] == "reset":
            continue
        out.append({"op": ops[i][:400], "impl": impl[i][:400]})
        if len(out) >= k:
            break
    return out


def impl_panic(e, sname, trace, seed, testname):
    """The harness process died of a Go panic raised inside the implementation (first non-runtime frame of the panicking
    goroutine is not harness code): that is a concrete failing history — the trace written so far (flushed per line) plus
    the operation the harness was executing; it replays with the same seed."""
    if not e.what.startswith("harness-run:"):
        return None
    out = e.output or ""
    i = out.find("panic: ")
    if i < 0:
        i = out.find("fatal error: ")
    if i < 0:
        return None
    msg = out[i:].split("\n", 1)[0][:300]
    frames = re.findall(r"^\t(\S+\.go):(\d+)", out[i:], re.M)
    first = next((f for f in frames if "/runtime/" not in f[0] and "/testing/" not in f[0]), None)
    if not first or "zz_verif" in first[0] or "zzverif" in first[0]:
        return None
    last = []
    try:
        with open(trace, errors="replace") as fh:
            last = fh.read().splitlines()[-6:]
    except OSError:
        pass
    return {"stream": sname, "signature": "implementation-panic",
            "what": "the implementation panicked (%s at %s:%s) while executing the operation after the last line of the trace" % (msg, first[0].split("/repo/")[-1], first[1]),
            "input": {"seed": seed, "harness_test": testname, "last_completed_ops": last}}


def run_check(chk, tier, seed, replay=None):
    t0 = time.time()
    pid = chk.pid
    replay_payload = None
    if replay:
        # a replay file records (seed, tier): every random choice derives from the seed, so re-running the
        # check with them regenerates the failing case; we then report whether the same failure recurs
        replay_payload = json.load(open(replay))
        seed = str(replay_payload.get("seed", seed))
        tier = replay_payload.get("tier", tier)
    os.makedirs(core.WORK, exist_ok=True)
    ctx = {"tier": tier, "seed": seed, "pid": pid}
    concrete = []      # failures with a concrete input on the implementation
    broken = []        # obligations / correspondences that no longer check
    cov_streams = {}
    evaluations = 0
    distinct = set()
    samples = []

    # (1) optional regeneration
    try:
        chk.pre(ctx)
    except TieBroken as e:
        broken.append({"kind": "generation", "name": e.what, "detail": e.output[-3000:]})

    # (2) proof obligations
    po = core.proof_obligations(pid, chk.lean_modules, leanchecker=(tier == "thorough"))
    for f in po["failures"]:
        broken.append({"kind": "proof-obligation", "name": f, "failed_theorems": po.get("failed_theorems", []),
                       "detail": po["log"][-3000:] if "lake build" in f else ""})

    # (3)+(4) correspondence streams and direct predicate evaluation
    driver_ok = True
    try:
        core.ensure_driver()
    except TieBroken as e:
        driver_ok = False
        broken.append({"kind": "correspondence", "name": e.what, "detail": e.output[-3000:]})
    built = {}
    ctx["built"] = built
    for st in chk.streams:
        sname = st.name
        try:
            h = st.harness
            key = h["name"]
            if key not in built:
                built[key] = core.build_harness(h["name"], h["module"], h["pkg"], h["files"], test=h.get("test", True))
            trace = os.path.join(core.WORK, "trace-%s-%s.tsv" % (pid, sname))
            core.run_harness(built[key], st.testname, st.cwd(), trace, st.env(tier, seed), timeout=st.timeout,
                             test=h.get("test", True))
            if not driver_ok:
                continue
            d = core.diff_stream(st.driver, trace, st.norm_impl, st.norm_model)
        except TieBroken as e:
            broken.append({"kind": "correspondence", "stream": sname, "name": e.what, "detail": e.output[-3000:]})
            pc = impl_panic(e, sname, os.path.join(core.WORK, "trace-%s-%s.tsv" % (pid, sname)), seed, st.testname)
            if pc:
                concrete.append(pc)
            continue
        evaluations += d["evaluations"]
        nt = 0
        kinds = {}
        stateful = "reset" in d["ops"]
        for o, a in zip(d["ops"], d["impl"]):
            if o == "reset":
                continue
            k = o.split("\t", 1)[0] + ("" if st.nontrivial(o, a) else ":trivial")
            kinds[k] = kinds.get(k, 0) + 1
            if st.nontrivial(o, a):
                # stateful streams: short op lines recur in different states, so the observation is part of the key
                h = hash(st.distinct_key(o, a) + (("\t=>\t" + a) if stateful else ""))
                if (sname, h) not in distinct:
                    distinct.add((sname, h)); nt += 1
        concrete += eval_predicates(st, d["ops"], d["impl"])
        cov_streams[sname] = {"evaluations": d["evaluations"], "distinct_nontrivial": nt,
                              "mismatches": d["n_mismatches"], "op_kinds": kinds, "rule": st.rule}
        samples += [dict(s, stream=sname) for s in sample_cases(d["ops"], d["impl"], 3)]
        for m in d["mismatches"][:50]:
            why = marker_predicate(m["impl"]) or st.predicate(m["op"], m["impl"])
            if not why:
                v = st.verdict_predicate(m["op"], m["impl"], m["model"], cov_streams)
                if v:
                    c = {"stream": sname, "input": {"op": m["op"], "impl": m["impl"], "model_verdict": m["model"],
                                                    "prefix": m["prefix"][-12:]}}
                    c.update(v if isinstance(v, dict) else {"what": v})
                    concrete.append(c)
                    why = v
            if not why:
                broken.append({"kind": "correspondence", "stream": sname, "name": "model!=impl",
                               "case": m["case"], "op": m["op"], "impl": m["impl"], "model": m["model"],
                               "prefix": m["prefix"][-40:]})

    # extra property-specific checks
    try:
        ex = chk.extra(ctx)
    except TieBroken as e:
        ex = None
        broken.append({"kind": "correspondence", "name": e.what, "detail": e.output[-3000:]})
    if ex:
        concrete += ex.get("concrete", [])
        broken += ex.get("broken", [])
        for k, v in ex.get("stats", {}).items():
            cov_streams[k] = v
            evaluations += v.get("evaluations", 0)
        samples += ex.get("samples", [])

    # (5) decide
    known = core.load_known()

    def known_entry(c):
        sig = c.get("signature")
        if sig is None:
            return None
        for f in known.get("findings", []):
            if f["property"] == pid and f["signature"] == sig and f.get("stream", c.get("stream")) == c.get("stream"):
                return f
        return None

    lines = []
    nviol = 0
    known_hit = []

    def classify(cs):
        fresh = []
        for c in cs:
            kf = known_entry(c)
            if kf:
                if kf["id"] not in known_hit:
                    known_hit.append(kf["id"])
                    lines.append("KNOWN-FINDING: property=%s %s: %s" % (pid, kf["id"], kf["what"]))
            else:
                fresh.append(c)
        return fresh

    fresh = classify(concrete)
    if broken and not fresh:
        # an obligation or a correspondence no longer checks and no NEW failing input is at hand: search for one
        # (known findings never excuse a broken obligation / correspondence)
        try:
            found = chk.search(ctx, broken) or []
        except Exception:
            found = []
            log("search failed:\n" + traceback.format_exc())
        fresh = classify(found)
    seen_what = set()
    for c in fresh:
        key = (c.get("stream"), c.get("what"), c.get("signature"))
        if key in seen_what:       # one replay per distinct kind of failure
            nviol += 1
            continue
        seen_what.add(key)
        if len(seen_what) > 3:
            nviol += 1
            continue
        p = core.write_replay(pid, seed, len(seen_what) - 1, {"property": pid, "kind": "concrete-failing-input",
                                                              "seed": int(seed), "tier": tier, **c})
        lines.append("VIOLATION property=%s replay=%s" % (pid, p))
        nviol += 1
    if broken and nviol == 0:
        p = core.write_replay(pid, seed, 0, {"property": pid, "kind": "no-failing-input-found",
                                             "seed": int(seed), "tier": tier, "broken": broken[:20]})
        lines.append("VIOLATION property=%s replay=%s no-failing-input-found" % (pid, p))
        nviol += 1

    wall = time.time() - t0
    dirty = core.repo_dirty() if os.environ.get("VERIF_ALLOW_DIRTY") is None else ""
    coverage = {
        "obligations": po["obligations"], "discharged": po["discharged"],
        "checker_cmd": "cd /verif/lean && lake build %s && lake env lean .work/audit-%s.lean (#print axioms per theorem)%s"
                       % (" ".join("Obao.Props." + m for m in (chk.lean_modules or [pid])), pid,
                          " && lake env leanchecker" if tier == "thorough" else ""),
        "trusted_base": chk.trusted_base + ["axioms used per theorem: " + json.dumps(po["theorems"], sort_keys=True)],
        "theorem_axioms": po["theorems"],
        "evaluations": evaluations, "distinct_nontrivial": len(distinct),
        "rule": "; ".join("%s: %s" % (s.name, s.rule) for s in chk.streams),
        "streams": cov_streams, "samples": samples[:12],
        "broken": [{k: (v if not isinstance(v, str) else v[:300]) for k, v in b.items() if k != "prefix"} for b in broken[:10]],
        "known_findings_hit": known_hit,
    }
    if "leanchecker" in po:
        coverage["leanchecker"] = po["leanchecker"]
    core.write_evidence(pid, tier, seed, wall, coverage, chk.assumptions, nviol)
    if replay_payload is not None:
        want = replay_payload.get("what") or ",".join(b.get("name", "") for b in replay_payload.get("broken", []))
        same = [c for c in concrete if c.get("what") == replay_payload.get("what")] if replay_payload.get("what") else broken
        print("REPLAY %s: %s (%s)" % (replay, "reproduced" if same else "not reproduced", want[:200]), flush=True)
    for l in lines:
        print(l, flush=True)
    print("[check] %s tier=%s seed=%s obligations=%d/%d evaluations=%d distinct=%d violations=%d wall=%.1fs"
          % (pid, tier, seed, po["discharged"], po["obligations"], evaluations, len(distinct), nviol, wall), flush=True)
    return 1 if nviol else 0
