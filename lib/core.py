"""Orchestrator core for /verif checks (python3 stdlib only).

A check = (1) regenerate facts (optional) (2) re-check the Lean proof obligations of the property and
audit their axioms (3) build the Go harness from /repo's working tree through a build overlay, run it,
run the Lean driver on the same op lines, diff (4) evaluate the property predicate on implementation
outputs (5) decide + write evidence.  See DESIGN.md section 3.
"""
import hashlib, json, os, re, shutil, subprocess, sys, time

ROOT = os.path.dirname(os.path.dirname(os.path.abspath(__file__)))
REPO = os.environ.get("VERIF_REPO", "/repo")
WORK = os.path.join(ROOT, ".work")
LEAN = os.path.join(ROOT, "lean")
DRIVER = os.path.join(LEAN, ".lake", "build", "bin", "obaodriver")
ALLOWED_AXIOMS = {"propext", "Classical.choice", "Quot.sound"}
FORBIDDEN_TOKENS = re.compile(r"\b(sorry|admit|native_decide|bv_decide|implemented_by|unsafe|maxHeartbeats 0)\b|^axiom ", re.M)

MODULES = {"root": REPO, "sdk": os.path.join(REPO, "sdk")}


class TieBroken(Exception):
    """the harness does not build / run against the current tree: a broken correspondence"""
    def __init__(self, what, output):
        super().__init__(what)
        self.what, self.output = what, output


def log(*a):
    print("[check]", *a, file=sys.stderr, flush=True)


def run(cmd, cwd=None, env=None, timeout=None, stdin=None):
    t0 = time.time()
    p = subprocess.run(cmd, cwd=cwd, env=env, timeout=timeout, input=stdin,
                       stdout=subprocess.PIPE, stderr=subprocess.STDOUT, text=True, errors="replace")
    return p.returncode, p.stdout, time.time() - t0


# ---------------------------------------------------------------- Go side

def go_env(module):
    """environment for go commands: offline, alternate -modfile so that /repo/go.mod is never rewritten"""
    src = MODULES[module]
    d = os.path.join(WORK, "gomod", module)
    os.makedirs(d, exist_ok=True)
    for f in ("go.mod", "go.sum"):
        s = os.path.join(src, f)
        dst = os.path.join(d, f)
        with open(s, "rb") as fh:
            data = fh.read()
        if not os.path.exists(dst) or open(dst, "rb").read() != data:
            with open(dst, "wb") as fh:
                fh.write(data)
    env = dict(os.environ)
    env.update({
        "GOFLAGS": "-mod=mod -modfile=" + os.path.join(d, "go.mod"),
        "GOPROXY": "off", "GOSUMDB": "off", "GOWORK": "off",
    })
    # /repo needs go 1.27: use the pre-installed toolchain directly when present, else let the go
    # command switch to its cached copy (GOTOOLCHAIN=auto works offline for exactly this version)
    g127 = "/opt/veriftools/go1.27.0/bin"
    if os.path.exists(os.path.join(g127, "go")):
        env["PATH"] = g127 + os.pathsep + env.get("PATH", "")
        env["GOTOOLCHAIN"] = "local"
    else:
        env["GOTOOLCHAIN"] = "auto"
    return env


def repo_dirty():
    rc, out, _ = run(["git", "-C", REPO, "status", "--porcelain"])
    return out.strip()


def build_harness(name, module, pkg, files, extra_pkgs=None, test=True, timeout=1500):
    """Build a harness binary from /repo's working tree with overlay files.
    files: {path relative to module root: path relative to /verif/harness}.
    Returns the binary path. Raises TieBroken when it does not compile."""
    src = MODULES[module]
    os.makedirs(os.path.join(WORK, "bin"), exist_ok=True)
    repl = {}
    for dst, s in files.items():
        repl[os.path.join(src, dst)] = os.path.join(ROOT, "harness", s)
        if os.path.exists(os.path.join(src, dst)):
            raise TieBroken("overlay-collision", "file %s already exists in the repository" % dst)
    ov = os.path.join(WORK, "overlay-%s.json" % name)
    with open(ov, "w") as fh:
        json.dump({"Replace": repl}, fh, indent=1)
    out = os.path.join(WORK, "bin", name + (".test" if test else ""))
    if os.path.exists(out):
        os.remove(out)
    if test:
        cmd = ["go", "test", "-c", "-vet=off", "-tags", "verif", "-overlay", ov, "-o", out, pkg]
    else:
        cmd = ["go", "build", "-tags", "verif", "-overlay", ov, "-o", out, pkg]
    rc, o, dt = run(cmd, cwd=src, env=go_env(module), timeout=timeout)
    log("built %s in %.1fs rc=%d" % (name, dt, rc))
    if rc != 0 or not os.path.exists(out):
        raise TieBroken("harness-build:" + name, o[-6000:])
    return out


def run_harness(binpath, testname, cwd, outfile, env_extra, timeout=1800, test=True, args=None):
    """Run a harness binary; it writes its trace to VERIF_OUT. Returns (rc, stdout)."""
    env = dict(os.environ)
    env.update({k: str(v) for k, v in env_extra.items()})
    env["VERIF_OUT"] = outfile
    env.setdefault("GOMEMLIMIT", "12GiB")
    if os.path.exists(outfile):
        os.remove(outfile)
    # quick tier: no harness run is allowed to sit for more than 15 minutes (the Go test binary's own -test.timeout then
    # panics with a goroutine dump, which lands in the replay file of the broken tie)
    if str(env_extra.get("VERIF_TIER", "quick")) != "thorough":
        timeout = min(timeout, 900)
    if test:
        cmd = [binpath, "-test.run", "^%s$" % testname, "-test.v", "-test.timeout", "%ds" % timeout]
    else:
        cmd = [binpath] + (args or [])
    try:
        rc, o, dt = run(cmd, cwd=cwd, env=env, timeout=timeout + 60)
    except subprocess.TimeoutExpired as e:
        raise TieBroken("harness-timeout:" + testname, str(e.output)[-4000:] if e.output else "")
    log("ran %s in %.1fs rc=%d" % (testname, dt, rc))
    if rc != 0 or not os.path.exists(outfile):
        raise TieBroken("harness-run:" + testname, o[-8000:])
    return rc, o


def regenerate():
    """T-gen: rebuild tools/extract and regenerate lean/Obao/Gen/*.lean from /repo's current source.
    Files are rewritten only when their content changes (keeps Lake's traces valid)."""
    os.makedirs(os.path.join(WORK, "bin"), exist_ok=True)
    env = dict(os.environ)
    env.update({"GOFLAGS": "", "GOPROXY": "off", "GOSUMDB": "off", "GOWORK": "off", "GOTOOLCHAIN": "local"})
    g127 = "/opt/veriftools/go1.27.0/bin"
    if os.path.exists(os.path.join(g127, "go")):
        env["PATH"] = g127 + os.pathsep + env.get("PATH", "")
    exe = os.path.join(WORK, "bin", "extract")
    rc, o, dt = run(["go", "build", "-o", exe, "."], cwd=os.path.join(ROOT, "tools", "extract"), env=env, timeout=600)
    if rc != 0:
        raise TieBroken("extractor-build", o[-4000:])
    rc, o, dt = run([exe, REPO, os.path.join(LEAN, "Obao", "Gen")], timeout=600)
    log("regenerated Obao/Gen in %.1fs rc=%d" % (dt, rc))
    if rc != 0:
        raise TieBroken("extractor-run (source shape not recognised)", o[-4000:])


# ---------------------------------------------------------------- Lean side

def lake_build(targets, timeout=3600):
    rc, o, dt = run(["lake", "build"] + targets, cwd=LEAN, timeout=timeout)
    log("lake build %s in %.1fs rc=%d" % (" ".join(targets), dt, rc))
    return rc, o


def ensure_driver():
    rc, o = lake_build(["obaodriver"])
    if rc != 0:
        raise TieBroken("driver-build", o[-6000:])


def prop_theorems(pid, module=None):
    """names of the theorems stated in Obao/Props/<pid>.lean (namespace <pid>)"""
    path = os.path.join(LEAN, "Obao", "Props", (module or pid) + ".lean")
    txt = open(path).read()
    txt_nc = re.sub(r"/-.*?-/", "", txt, flags=re.S)
    txt_nc = re.sub(r"--.*", "", txt_nc)
    names = re.findall(r"^theorem\s+([A-Za-z0-9_'.]+)", txt_nc, re.M)
    return names, txt_nc


def lean_sources_for_scan():
    out = []
    for base, _, fs in os.walk(os.path.join(LEAN, "Obao")):
        for f in fs:
            if f.endswith(".lean"):
                out.append(os.path.join(base, f))
    return out


def forbidden_scan():
    """textual scan of the whole Lean library for sorry/axiom/native_decide/... outside comments"""
    hits = []
    for p in lean_sources_for_scan():
        txt = open(p).read()
        txt = re.sub(r"/-.*?-/", "", txt, flags=re.S)
        txt = re.sub(r"--.*", "", txt)
        for m in FORBIDDEN_TOKENS.finditer(txt):
            hits.append("%s: %s" % (os.path.relpath(p, LEAN), m.group(0).strip()))
    return hits


def proof_obligations(pid, modules=None, leanchecker=False):
    """Re-check the property's theorems: lake build of Obao.Props.<pid>, axiom audit through
    `#print axioms`, forbidden-token scan.  Returns dict(obligations, discharged, theorems{name: axioms},
    failures[list of str], log)."""
    modules = modules or [pid]
    res = {"obligations": 0, "discharged": 0, "theorems": {}, "failures": [], "log": ""}
    targets = ["Obao.Props." + m for m in modules]
    rc, o = lake_build(targets)
    res["log"] = o[-6000:]
    names = []
    for m in modules:
        ns, _ = prop_theorems(pid, m)
        names += [(m, n) for n in ns]
    res["obligations"] = len(names)
    if rc != 0:
        res["failures"].append("lake build of %s failed" % ",".join(targets))
        # find which theorems fail: error lines mention file:line; map to nearest preceding theorem
        res["failed_theorems"] = failing_theorems(o, modules)
        return res
    audit = os.path.join(WORK, "audit-%s.lean" % pid)
    with open(audit, "w") as fh:
        for m in modules:
            fh.write("import Obao.Props.%s\n" % m)
        for m, n in names:
            fh.write("#print axioms %s.%s\n" % (m, n))
    rc, o, _ = run(["lake", "env", "lean", audit], cwd=LEAN, timeout=900)
    if rc != 0:
        res["failures"].append("axiom audit failed: " + o[-2000:])
        return res
    # parse: "'C20.foo' depends on axioms: [propext, Quot.sound]" / "'X' does not depend on any axioms"
    o1 = re.sub(r"\s+", " ", o)
    for m, n in names:
        full = "%s.%s" % (m, n)
        mm = re.search(r"'%s' depends on axioms: \[([^\]]*)\]" % re.escape(full), o1)
        if mm:
            ax = [a.strip() for a in mm.group(1).split(",") if a.strip()]
        elif re.search(r"'%s' does not depend on any axioms" % re.escape(full), o1):
            ax = []
        else:
            res["failures"].append("no audit line for " + full)
            continue
        res["theorems"][full] = ax
        bad = [a for a in ax if a not in ALLOWED_AXIOMS]
        if bad:
            res["failures"].append("%s depends on non-whitelisted axioms %s" % (full, bad))
        else:
            res["discharged"] += 1
    hits = forbidden_scan()
    if hits:
        res["failures"].append("forbidden tokens in Lean sources: " + "; ".join(hits[:10]))
    if leanchecker and not res["failures"]:
        rc, o, dt = run(["lake", "env", "leanchecker"] + targets, cwd=LEAN, timeout=3600)
        res["leanchecker"] = {"rc": rc, "wall_s": round(dt, 1)}
        if rc != 0:
            res["failures"].append("leanchecker rejected: " + o[-2000:])
    return res


def failing_theorems(build_out, modules):
    out = set()
    for m in modules:
        path = os.path.join(LEAN, "Obao", "Props", m + ".lean")
        if not os.path.exists(path):
            continue
        lines = open(path).read().split("\n")
        for mm in re.finditer(r"Obao/Props/%s\.lean:(\d+):\d+: error" % re.escape(m), build_out):
            ln = int(mm.group(1))
            for i in range(min(ln, len(lines)) - 1, -1, -1):
                t = re.match(r"^(theorem|example|def|lemma)\s+([A-Za-z0-9_'.]+)?", lines[i])
                if t:
                    out.add("%s.%s" % (m, t.group(2) or "example@%d" % (i + 1)))
                    break
    for mm in re.finditer(r"error: (Obao/[A-Za-z0-9_/]+\.lean):(\d+)", build_out):
        if "/Props/" not in mm.group(1):
            out.add("%s:%s" % (mm.group(1), mm.group(2)))
    return sorted(out)


def drive(stream, oplines, timeout=1800):
    """run the Lean driver on op lines; returns list of result lines"""
    data = "\n".join(oplines) + "\n"
    p = subprocess.run([DRIVER, stream], input=data, stdout=subprocess.PIPE, stderr=subprocess.PIPE,
                       text=True, timeout=timeout)
    if p.returncode != 0:
        raise TieBroken("driver-run:" + stream, p.stderr[-2000:])
    out = p.stdout.split("\n")
    if out and out[-1] == "":
        out.pop()
    if len(out) != len(oplines):
        raise TieBroken("driver-run:" + stream, "driver produced %d lines for %d ops" % (len(out), len(oplines)))
    return out


SEP = "\t=>\t"


def read_trace(path):
    """harness trace: `<op fields tab-separated>\\t=>\\t<impl result>` per line; `reset` lines separate cases"""
    ops, res = [], []
    with open(path, errors="replace") as fh:
        for line in fh:
            line = line.rstrip("\n")
            if not line:
                continue
            if line == "reset":
                ops.append("reset"); res.append("reset"); continue
            if SEP not in line:
                raise TieBroken("trace-format", "line without separator: %r" % line[:200])
            a, b = line.split(SEP, 1)
            ops.append(a); res.append(b)
    return ops, res


def diff_stream(stream, trace_path, norm_impl=None, norm_model=None):
    """returns dict(evaluations, mismatches=[{case, index, op, impl, model, prefix}], ops, impl, model)"""
    ops, impl = read_trace(trace_path)
    model = drive(stream, ops)
    mism = []
    nmism = 0
    case, case_start = 0, 0
    for i, (o, a, b) in enumerate(zip(ops, impl, model)):
        if o == "reset":
            case += 1; case_start = i + 1; continue
        a1 = norm_impl(o, a) if norm_impl else a
        b1 = norm_model(o, b) if norm_model else b
        if a1 != b1:
            nmism += 1
            if len(mism) < 200:
                mism.append({"case": case, "index": i, "op": o, "impl": a, "model": b,
                             "prefix": ops[max(case_start, i - 200):i + 1]})
    n = sum(1 for o in ops if o != "reset")
    return {"evaluations": n, "mismatches": mism, "n_mismatches": nmism, "ops": ops, "impl": impl, "model": model}


# ---------------------------------------------------------------- known findings, replays, evidence

def load_known():
    p = os.path.join(ROOT, "known_findings.json")
    if not os.path.exists(p):
        return {"findings": [], "fixed": []}
    return json.load(open(p))


def write_replay(pid, seed, n, payload):
    d = os.path.join(ROOT, "replays")
    os.makedirs(d, exist_ok=True)
    p = os.path.join(d, "%s-%s-%d.json" % (pid, seed, n))
    with open(p, "w") as fh:
        json.dump(payload, fh, indent=1, sort_keys=True)
    return p


def write_evidence(pid, tier, seed, wall_s, coverage, assumptions, violations, level="proof"):
    # runs against a scratch worktree (VERIF_REPO: mutants, seeded changes) must not overwrite the evidence of /repo
    evdir = "evidence" if REPO == "/repo" else os.path.join(".work", "evidence-scratch")
    os.makedirs(os.path.join(ROOT, evdir), exist_ok=True)
    ev = {"property_id": pid, "tier": tier, "seed": int(seed), "level": level, "coverage": coverage,
          "assumptions": assumptions, "wall_s": round(wall_s, 2), "violations": violations}
    p = os.path.join(ROOT, evdir, pid + ".json")
    with open(p, "w") as fh:
        json.dump(ev, fh, indent=1, sort_keys=False)
    return p
