//go:build verif

package vault

// C11, stream "audite2e": the plumbing between a mount's audit exemptions and what a REAL file audit device writes.
// A real Core with the real file device (default, non-raw mode) and a kv mount tuned with
// audit_non_hmac_request_keys / audit_non_hmac_response_keys; every request carries fresh canaries as values;
// after each request the new lines of the audit file are scanned: a canary may appear in clear only under a key that the
// mount exempts FOR THAT SIDE (request keys in request data, response keys in response data), on request and response
// entries alike. Op lines:
//   e2e write|read <reqExempt> <respExempt> <keys>  =>  clear:<keys whose values appear in clear in the entries of this request>
// (key lists comma-separated, `-` = empty)

import (
	"net"
	"io"
	"time"
	"fmt"
	auditSocket "github.com/openbao/openbao/v2/internal/builtin/audit/socket"
	"github.com/openbao/openbao/v2/internal/command/server"
	"os"
	"path/filepath"
	"sort"
	"strings"
	"testing"

	"github.com/openbao/openbao/sdk/v2/logical"
	"github.com/openbao/openbao/v2/internal/helper/namespace"
	auditFile "github.com/openbao/openbao/v2/internal/builtin/audit/file"
	"github.com/openbao/openbao/v2/internal/vault/routing"
	"github.com/openbao/openbao/v2/internal/zzverif/vh"
)

func c11eList(xs []string) string {
	if len(xs) == 0 {
		return "-"
	}
	return strings.Join(xs, ",")
}

// c11eHeaders: audited request headers. Header X-Verif-Secret is configured hmac=true; an update to hmac=false (or a
// removal followed by a re-add in clear) whose storage write FAILS answers with an error and must not take effect: the
// audit file keeps holding the header's HMAC, never its value. Op line: hdr <update> <fault 0|1> => <class>|hdr:<hmac|clear|absent>
func c11eHeaders(t *testing.T, out *vh.Out) {
	for _, upd := range []string{"to-clear", "to-hmac"} {
		for _, fault := range []int{0, 1} {
			out.Reset()
			p := vhNewPhys(t)
			c, _, root := vhNewCore(t, p, nil, func(conf *CoreConfig) {
				conf.AuditBackends["file"] = auditFile.Factory
			})
			logPath := filepath.Join(t.TempDir(), "audit.log")
			fme := &routing.MountEntry{Table: auditTableType, Path: "c11hdr", Type: "file", Options: map[string]string{"file_path": logPath}}
			if err := c.enableAudit(vhRootCtx(), fme, true); err != nil {
				t.Fatalf("enable file audit device: %v", err)
			}
			first := upd == "to-clear" // the state before the update: hmac when it goes to clear, clear when it goes to hmac
			if cl, _ := vhReq(c, logical.UpdateOperation, "sys/config/auditing/request-headers/X-Verif-Secret", root, map[string]any{"hmac": first}); cl != "ok" {
				t.Fatalf("header config: %s", cl)
			}
			if fault == 1 {
				p.FailKeyOnce("put", "audited-headers", "")
			}
			cl, _ := vhReq(c, logical.UpdateOperation, "sys/config/auditing/request-headers/X-Verif-Secret", root, map[string]any{"hmac": !first})
			if fault == 1 && !p.KeyFaultFired() {
				cl += ":nofault"
			}
			b0, _ := os.ReadFile(logPath)
			canary := "CANARYhdr" + upd + vh.I(int64(fault))
			req := &logical.Request{Operation: logical.ReadOperation, Path: "sys/mounts", ClientToken: root, Headers: map[string][]string{"X-Verif-Secret": {canary}}}
			req.SetTokenEntry(nil)
			if _, err := c.HandleRequest(vhRootCtx(), req); err != nil {
				t.Fatalf("request with header: %v", err)
			}
			b1, _ := os.ReadFile(logPath)
			lines := string(b1[len(b0):])
			hdr := "absent"
			switch {
			case strings.Contains(lines, canary):
				hdr = "clear"
			case strings.Contains(strings.ToLower(lines), "x-verif-secret"):
				hdr = "hmac"
			}
			// the configuration the operator was told is in force: the update's when it succeeded, the earlier one otherwise
			wantHMAC := first
			if cl == "ok" {
				wantHMAC = !first
			}
			res := cl + "|hdr:" + hdr
			if wantHMAC && hdr == "clear" {
				res += "!VIOL:the audit file holds the value of a request header whose configuration in force says hmac=true (the update to hmac=false answered " + cl + ")#audited-header-in-clear-after-failed-update"
			}
			out.Op(res, "hdr", upd, vh.I(int64(fault)))
			_ = c.Shutdown()
		}
	}
}

// c11eHeadersStandby: a standby that serves (and audits) requests itself keeps the audited-headers configuration in
// memory; when the active node changes it the standby receives a storage invalidation for the persisted entry and must
// follow. The node is made a standby the way invalidation_test.go does (standby flag, invalidation manager started); the
// active node's write is placed in storage around the cache. Op line: hdrstandby <to-hmac|removed> => hdr:<hmac|clear|absent>
func c11eHeadersStandby(t *testing.T, out *vh.Out) {
	for _, upd := range []string{"to-hmac", "removed"} {
		out.Reset()
		p := vhNewPhys(t)
		c, _, root := vhNewCore(t, p, nil, func(conf *CoreConfig) {
			conf.AuditBackends["file"] = auditFile.Factory
		})
		logPath := filepath.Join(t.TempDir(), "audit.log")
		fme := &routing.MountEntry{Table: auditTableType, Path: "c11hsb", Type: "file", Options: map[string]string{"file_path": logPath}}
		if err := c.enableAudit(vhRootCtx(), fme, true); err != nil {
			t.Fatalf("enable file audit device: %v", err)
		}
		if cl, _ := vhReq(c, logical.UpdateOperation, "sys/config/auditing/request-headers/X-Verif-Secret", root, map[string]any{"hmac": false}); cl != "ok" {
			t.Fatalf("header config: %s", cl)
		}
		c.standby.Store(true)
		c.invalidations.Track()
		c.stateLock.RLock()
		c.invalidations.Start(t.Context())
		c.stateLock.RUnlock()
		key := "sys/" + auditedHeadersSubPath + auditedHeadersEntry
		cfg := map[string]*auditedHeaderSettings{}
		if upd == "to-hmac" {
			cfg["x-verif-secret"] = &auditedHeaderSettings{HMAC: true}
		}
		entry, err := logical.StorageEntryJSON(key, cfg)
		if err != nil {
			t.Fatal(err)
		}
		c.physicalCache.SetEnabled(false)
		if err := c.NamespaceView(namespace.RootNamespace).Put(vhRootCtx(), entry); err != nil {
			t.Fatal(err)
		}
		c.physicalCache.SetEnabled(true)
		res := ""
		if err := c.invalidateSynchronous(key); err != nil {
			res = "invalidation-error|"
		}
		b0, _ := os.ReadFile(logPath)
		canary := "CANARYhsb" + upd
		req := &logical.Request{Operation: logical.ReadOperation, Path: "sys/mounts", ClientToken: root, Headers: map[string][]string{"X-Verif-Secret": {canary}}}
		req.SetTokenEntry(nil)
		if _, err := c.HandleRequest(vhRootCtx(), req); err != nil {
			res += "request-error|"
		}
		b1, _ := os.ReadFile(logPath)
		lines := string(b1[len(b0):])
		hdr := "absent"
		switch {
		case strings.Contains(lines, canary):
			hdr = "clear"
		case strings.Contains(strings.ToLower(lines), "x-verif-secret"):
			hdr = "hmac"
		}
		res += "hdr:" + hdr
		if hdr == "clear" {
			res += "!VIOL:a standby that audits its own requests wrote a request header in clear although the cluster's persisted configuration (changed by the active node) says " + upd + "#audited-header-in-clear-on-standby"
		}
		out.Op(res, "hdrstandby", upd)
		_ = c.Shutdown()
	}
}

// c11eDisableFault: the only audit device is disabled while the write of the audit table fails. The disable answers with
// an error and the device is still enabled (the table, in memory and in storage, lists it): the requests that follow must
// still be audited by it. Control: a disable that succeeds leaves no device, and nothing is audited (by design).
// Op line: disableaudit <fault 0|1> => <class>|listed:<0|1>|audited:<0|1>
func c11eDisableFault(t *testing.T, out *vh.Out) {
	for _, fault := range []int{1, 0} {
		out.Reset()
		p := vhNewPhys(t)
		c, _, root := vhNewCore(t, p, nil, func(conf *CoreConfig) {
			conf.AuditBackends["file"] = auditFile.Factory
		})
		logPath := filepath.Join(t.TempDir(), "audit.log")
		fme := &routing.MountEntry{Table: auditTableType, Path: "c11dis", Type: "file", Options: map[string]string{"file_path": logPath}}
		if err := c.enableAudit(vhRootCtx(), fme, true); err != nil {
			t.Fatalf("enable file audit device: %v", err)
		}
		if fault == 1 {
			p.FailKeyOnce("put", "core/audit", "")
		}
		_, err := c.disableAudit(vhRootCtx(), "c11dis", true)
		cl := "ok"
		if err != nil {
			cl = "err"
		}
		if fault == 1 && !p.KeyFaultFired() {
			cl += ":nofault"
		}
		listed := "0"
		c.auditLock.RLock()
		for _, e := range c.audit.Entries {
			if e.Path == "c11dis/" {
				listed = "1"
			}
		}
		c.auditLock.RUnlock()
		b0, _ := os.ReadFile(logPath)
		if rcl, _ := vhReq(c, logical.ReadOperation, "sys/mounts", root, nil); rcl != "ok" {
			cl += "|request:" + rcl
		}
		b1, _ := os.ReadFile(logPath)
		audited := "0"
		if len(b1) > len(b0) {
			audited = "1"
		}
		res := cl + "|listed:" + listed + "|audited:" + audited
		if listed == "1" && audited == "0" {
			res += "!VIOL:an audit device is enabled (its disable answered " + cl + ", the audit table lists it) but a request was served without any audit entry#enabled-device-audits-nothing"
		}
		out.Op(res, "disableaudit", vh.I(int64(fault)))
		_ = c.Shutdown()
	}
}

// c11eDeclaredDown: the only audit device is one DECLARED in the server configuration (the normal way to have one); the
// node is restarted (seal + unseal) while the device cannot be initialised (`down` = 1: its log directory has become a
// regular file). The device is still enabled — in the audit table, in the configuration —, so either the node refuses to
// come up or whatever it serves is audited. Op line:
//   declareddown <down> => unseal:<ok|refused>|listed:<0|1>|served:<0|1>|audited:<0|1>
func c11eDeclaredDown(t *testing.T, out *vh.Out) {
	for _, down := range []int{1, 0} {
		out.Reset()
		dir := t.TempDir()
		logDir := filepath.Join(dir, "logs")
		if err := os.Mkdir(logDir, 0o755); err != nil {
			t.Fatal(err)
		}
		logPath := filepath.Join(logDir, "audit.log")
		p := vhNewPhys(t)
		c, keys, root := vhNewCore(t, p, nil, func(conf *CoreConfig) {
			conf.AuditBackends["file"] = auditFile.Factory
			conf.RawConfig = &server.Config{Audits: []*server.AuditDevice{{Type: "file", Path: "declared", Options: map[string]string{"file_path": logPath}}}}
		})
		if !c.auditBroker.IsRegistered("declared/") {
			t.Fatal("declared audit device was not created")
		}
		if err := TestCoreSeal(c); err != nil {
			t.Fatalf("seal: %v", err)
		}
		if down == 1 {
			if err := os.RemoveAll(logDir); err != nil {
				t.Fatal(err)
			}
			if err := os.WriteFile(logDir, nil, 0o600); err != nil {
				t.Fatal(err)
			}
		}
		un := "ok"
		for _, key := range keys {
			if _, err := TestCoreUnseal(c, TestKeyCopy(key)); err != nil {
				un = "refused"
				break
			}
		}
		if c.Sealed() {
			un = "refused"
		}
		listed, served, audited := "0", "0", "0"
		if un == "ok" {
			c.auditLock.RLock()
			for _, e := range c.audit.Entries {
				if e.Path == "declared/" {
					listed = "1"
				}
			}
			c.auditLock.RUnlock()
			b0, _ := os.ReadFile(logPath)
			if rcl, _ := vhReq(c, logical.ReadOperation, "sys/mounts", root, nil); rcl == "ok" {
				served = "1"
			}
			b1, _ := os.ReadFile(logPath)
			if len(b1) > len(b0) {
				audited = "1"
			}
		}
		res := "unseal:" + un + "|listed:" + listed + "|served:" + served + "|audited:" + audited
		if listed == "1" && served == "1" && audited == "0" {
			res += "!VIOL:the node came up with its configuration-declared audit device enabled but not running, and served a request without any audit entry#enabled-device-audits-nothing"
		}
		out.Op(res, "declareddown", vh.I(int64(down)))
		_ = c.Shutdown()
	}
}

// c11eSocketStall: the only audit device is a SOCKET device whose collector accepts connections but has stopped reading;
// a request whose audit entry does not fit into the socket buffer cannot be delivered (write, reconnect, write again: both
// writes time out). An entry that was not delivered was not accepted: the request is refused and has no effect.
// Op line: socketstall => small:<class>|big:<refused|ok>|stored:<0|1>
func c11eSocketStall(t *testing.T, out *vh.Out) {
	out.Reset()
	sockPath := filepath.Join(t.TempDir(), "a.sock")
	ln, err := net.Listen("unix", sockPath)
	if err != nil {
		t.Fatal(err)
	}
	defer ln.Close() //nolint:errcheck
	resume := make(chan struct{})
	go func() {
		for {
			conn, err := ln.Accept()
			if err != nil {
				return
			}
			go func() {
				defer conn.Close() //nolint:errcheck
				<-resume
				_, _ = io.Copy(io.Discard, conn)
			}()
		}
	}()
	p := vhNewPhys(t)
	c, _, root := vhNewCore(t, p, nil, func(conf *CoreConfig) {
		conf.AuditBackends["socket"] = auditSocket.Factory
	})
	sme := &routing.MountEntry{Table: auditTableType, Path: "c11sock", Type: "socket", Options: map[string]string{"address": sockPath, "socket_type": "unix", "write_timeout": "300ms"}}
	if err := c.enableAudit(vhRootCtx(), sme, true); err != nil {
		t.Fatalf("enable socket audit device: %v", err)
	}
	small, _ := vhReq(c, logical.UpdateOperation, "cubbyhole/small", root, map[string]any{"foo": "bar"})
	items := make([]any, 40000)
	for i := range items {
		items[i] = fmt.Sprintf("value-%d", i)
	}
	bcl, _ := vhReq(c, logical.UpdateOperation, "cubbyhole/big", root, map[string]any{"items": items})
	big := "refused"
	if bcl == "ok" {
		big = "ok"
	}
	close(resume)
	time.Sleep(100 * time.Millisecond)
	stored := "0"
	if rcl, resp := vhReq(c, logical.ReadOperation, "cubbyhole/big", root, nil); rcl == "ok" && resp != nil && resp.Data != nil && resp.Data["items"] != nil {
		stored = "1"
	}
	res := "small:" + small + "|big:" + big + "|stored:" + stored
	if big == "ok" || stored == "1" {
		res += "!VIOL:the only audit device (socket, stalled collector) could not deliver the request entry, yet the request was answered successfully / took effect: " + res + "#undelivered-audit-entry-accepted"
	}
	out.Op(res, "socketstall")
	_ = c.Shutdown()
}

func TestVerifC11E2E(t *testing.T) {
	out := vh.Open()
	defer out.Close()
	c11eSocketStall(t, out)
	c11eDeclaredDown(t, out)
	c11eDisableFault(t, out)
	c11eHeaders(t, out)
	c11eHeadersStandby(t, out)
	rng := vh.NewRand(vh.Seed() ^ 0xe2e11)
	cases := 10
	if vh.Thorough() {
		cases = 120
	}
	alphabet := []string{"k1", "k2", "k3", "k4", "k5"}
	subset := func(r *vh.Rand, max int) []string {
		var xs []string
		for _, k := range alphabet {
			if len(xs) < max && r.Chance(40) {
				xs = append(xs, k)
			}
		}
		return xs
	}
	for ci := 0; ci < cases; ci++ {
		r := rng.Fork(uint64(ci))
		out.Reset()
		p := vhNewPhys(t)
		c, _, root := vhNewCore(t, p, nil, func(conf *CoreConfig) {
			conf.AuditBackends["file"] = auditFile.Factory
		})
		dir := t.TempDir()
		logPath := filepath.Join(dir, "audit.log")
		// (audit devices are managed declaratively in this tree; Core.enableAudit is what the configuration loader calls)
		fme := &routing.MountEntry{Table: auditTableType, Path: "c11e2e", Type: "file", Options: map[string]string{"file_path": logPath}}
		if err := c.enableAudit(vhRootCtx(), fme, true); err != nil {
			t.Fatalf("enable file audit device: %v", err)
		}
		if cl, _ := vhReq(c, logical.UpdateOperation, "sys/mounts/kv", root, map[string]any{"type": "kv"}); cl != "ok" {
			t.Fatalf("mount kv: %s", cl)
		}
		reqEx, respEx := subset(r, 3), subset(r, 3)
		if ci == 0 { // directed: disjoint non-empty lists (a swap or a union of the two lists is visible)
			reqEx, respEx = []string{"k1"}, []string{"k2"}
		}
		if cl, _ := vhReq(c, logical.UpdateOperation, "sys/mounts/kv/tune", root, map[string]any{
			"audit_non_hmac_request_keys": reqEx, "audit_non_hmac_response_keys": respEx}); cl != "ok" {
			t.Fatalf("tune: %s", cl)
		}
		offset := int64(0)
		newLines := func() string {
			b, err := os.ReadFile(logPath)
			if err != nil {
				t.Fatal(err)
			}
			s := string(b[offset:])
			offset = int64(len(b))
			return s
		}
		newLines()
		ncan := 0
		for step := 0; step < 6; step++ {
			keys := subset(r, 5)
			if len(keys) == 0 {
				keys = []string{alphabet[r.Intn(len(alphabet))]}
			}
			canary := map[string]string{}
			data := map[string]any{}
			for _, k := range keys {
				ncan++
				canary[k] = "CANARYe2e" + vh.I(int64(ci)) + "x" + vh.I(int64(ncan)) + "x" + vh.Hex(r.Bytes(5))
				data[k] = canary[k]
			}
			path := "kv/s" + vh.I(int64(step))
			for _, kind := range []string{"write", "read"} {
				var cl string
				if kind == "write" {
					cl, _ = vhReq(c, logical.UpdateOperation, path, root, data)
				} else {
					cl, _ = vhReq(c, logical.ReadOperation, path, root, nil)
				}
				if cl != "ok" {
					t.Fatalf("%s %s: %s", kind, path, cl)
				}
				lines := newLines()
				var clear []string
				for _, k := range keys {
					if strings.Contains(lines, canary[k]) {
						clear = append(clear, k)
					}
				}
				sort.Strings(clear)
				res := "clear:" + c11eList(clear)
				// the property, directly: a value in clear needs an exemption of its key for the side it travels on
				allowed := reqEx
				if kind == "read" {
					allowed = respEx
				}
				for _, k := range clear {
					ok := false
					for _, a := range allowed {
						ok = ok || a == k
					}
					if !ok {
						res += "!VIOL:the audit file holds the value of " + k + " in clear although the mount does not exempt that key on the " + map[string]string{"write": "request", "read": "response"}[kind] + " side#plaintext-in-audit-file"
						break
					}
				}
				out.Op(res, "e2e", kind, c11eList(reqEx), c11eList(respEx), c11eList(keys))
			}
		}
		_ = c.Shutdown()
	}
}
