//go:build verif

package vault

// C06 — "no dynamic secret or token is handed out without a durable lease": correspondence harness.
// Three flows on a real Core over the recording/faulting physical layer (zz_verif_common_test.go):
//   secret  read rec/lease/<k> (recording secrets backend) with a service / batch / orphan-batch requester
//   wrap    the same read with response wrapping (wrapInCubbyhole: wrapping token, two cubbyhole entries, its lease)
//   login   auth/c06/login on a fake credential backend returning logical.Auth (service / batch)
//   create  auth/token/create[-orphan] (service / batch child)
// For each (flow, variant): `dry` = fault-free run (storage-op sequence of the request goroutine), then
// `fault k` for EVERY k < N (the k-th storage op of the request fails once), then `crash j` for every
// physical write j of the fault-free run (snapshot after the j-th write, new core on the copy).
// Every line carries the observation the property's predicate is evaluated on (props/C06.py).
// Stream `regauth`: ExpirationManager.RegisterAuth called directly on a lattice of refusal inputs.

import (
	"context"
	"fmt"
	"os"
	"sort"
	"strings"
	"testing"
	"time"

	"github.com/openbao/openbao/sdk/v2/framework"
	"github.com/openbao/openbao/sdk/v2/helper/consts"
	"github.com/openbao/openbao/sdk/v2/helper/jsonutil"
	"github.com/openbao/openbao/sdk/v2/logical"
	"github.com/openbao/openbao/sdk/v2/physical"
	"github.com/openbao/openbao/v2/internal/helper/namespace"
	"github.com/openbao/openbao/v2/internal/vault/routing"
	"github.com/openbao/openbao/v2/internal/zzverif/vh"
)

// c06AuthFactory: a fake credential backend whose `login` path returns a logical.Auth built from the request data.
func c06AuthFactory(ctx context.Context, conf *logical.BackendConfig) (logical.Backend, error) {
	b := &framework.Backend{
		BackendType:  logical.TypeCredential,
		PathsSpecial: &logical.Paths{Unauthenticated: []string{"login"}},
	}
	b.Paths = []*framework.Path{{
		Pattern: "login",
		Fields: map[string]*framework.FieldSchema{
			"type":   {Type: framework.TypeString},
			"ttl":    {Type: framework.TypeInt},
			"max":    {Type: framework.TypeInt},
			"period": {Type: framework.TypeInt},
			"pol":    {Type: framework.TypeCommaStringSlice},
		},
		Callbacks: map[logical.Operation]framework.OperationFunc{
			logical.UpdateOperation: func(ctx context.Context, req *logical.Request, d *framework.FieldData) (*logical.Response, error) {
				a := &logical.Auth{
					Policies:    d.Get("pol").([]string),
					DisplayName: "c06user",
				}
				a.TTL = time.Duration(d.Get("ttl").(int)) * time.Second
				a.MaxTTL = time.Duration(d.Get("max").(int)) * time.Second
				a.Period = time.Duration(d.Get("period").(int)) * time.Second
				a.Renewable = true
				switch d.Get("type").(string) {
				case "batch":
					a.TokenType = logical.TokenTypeBatch
					a.Renewable = false
				default:
					a.TokenType = logical.TokenTypeService
				}
				return &logical.Response{Auth: a}, nil
			},
		},
	}}
	b.AuthRenew = func(ctx context.Context, req *logical.Request, d *framework.FieldData) (*logical.Response, error) {
		return &logical.Response{Auth: req.Auth}, nil
	}
	if err := b.Setup(ctx, conf); err != nil {
		return nil, err
	}
	return b, nil
}

func c06Tweak(conf *CoreConfig) {
	conf.CredentialBackends["c06auth"] = c06AuthFactory
}

const c06PolicyText = `path "rec/*" { capabilities = ["create","read","update","delete","list"] }
path "recpl/*" { capabilities = ["read"] }
path "recplo/*" { capabilities = ["read"] }
path "recplp/*" { capabilities = ["read"] }
path "recpk/*" { capabilities = ["read"] }
path "recpko/*" { capabilities = ["read"] }
path "recpkl/*" { capabilities = ["read"] }
path "reckv/*" { capabilities = ["read"] }
path "reckvo/*" { capabilities = ["read"] }
path "reckvl/*" { capabilities = ["read"] }
path "recgen/*" { capabilities = ["read"] }
path "recgenl/*" { capabilities = ["read"] }
path "auth/token/create" { capabilities = ["create","update"] }
path "auth/token/create-orphan" { capabilities = ["create","update","sudo"] }`

type c06Env struct {
	recs map[string]*vhRecBackend // per mount kind (the second environment)
	t    *testing.T
	p    *vhPhys
	c    *Core
	rec  *vhRecBackend
	root string
	keys [][]byte
}

func c06NewEnv(t *testing.T) *c06Env {
	e := &c06Env{t: t, p: vhNewPhys(t)}
	e.c, e.keys, e.root = vhNewCore(t, e.p, &e.rec, c06Tweak)
	c06Setup(t, e.c, e.root)
	return e
}

// c06MountKinds: the recording backend mounted the way OLD releases persisted mounts — stored type `plugin` with the
// engine name in Config.PluginName — and under the KV types, with and without options. sys/mounts rewrites
// type=plugin, so the entries are created white-box through Core.mount with the factory registered under the stored type.
var c06MountKinds = []struct {
	code, typ, plugin string
	opts              map[string]string
}{
	{"pl", "plugin", "vhrec", nil},
	{"plo", "plugin", "vhrec", map[string]string{"c06": "x"}},
	{"plp", "plugin", "vhrec", map[string]string{"leased_passthrough": "true"}},
	{"pk", "plugin", "kv", nil},
	{"pko", "plugin", "kv", map[string]string{"leased_passthrough": "false"}},
	{"pkl", "plugin", "kv", map[string]string{"leased_passthrough": "true"}},
	{"kv", "kv", "", nil},
	{"kvo", "kv", "", map[string]string{"c06": "x"}},
	{"kvl", "kv", "", map[string]string{"leased_passthrough": "true"}},
	{"gen", "generic", "", nil},
	{"genl", "generic", "", map[string]string{"leased_passthrough": "true"}},
}

func c06NewEnvMounts(t *testing.T) *c06Env {
	e := c06NewEnv(t)
	e.recs = map[string]*vhRecBackend{}
	for _, mk := range c06MountKinds {
		key := mk.typ
		if key == "generic" {
			key = "kv" // mountAliases
		}
		old, had := e.c.logicalBackends[key]
		holder := new(*vhRecBackend)
		e.c.logicalBackends[key] = vhRecFactory(holder)
		me := &routing.MountEntry{Table: routing.MountTableType, Path: "rec" + mk.code + "/", Type: mk.typ, Options: mk.opts}
		me.Config.PluginName = mk.plugin
		if err := e.c.mount(vhRootCtx(), me); err != nil {
			t.Fatalf("mount %s: %v", mk.code, err)
		}
		if had {
			e.c.logicalBackends[key] = old
		} else {
			delete(e.c.logicalBackends, key)
		}
		e.recs[mk.code] = *holder
	}
	return e
}

func c06Setup(t *testing.T, c *Core, root string) {
	vhMount(t, c, root, "rec/")
	if cl, _ := vhReq(c, logical.UpdateOperation, "sys/auth/c06", root, map[string]any{"type": "c06auth"}); cl != "ok" {
		t.Fatal("auth mount", cl)
	}
	for _, n := range []string{"c06pol", "c06x1", "c06x2", "c06x3"} {
		if cl, _ := vhReq(c, logical.UpdateOperation, "sys/policies/acl/"+n, root, map[string]any{"policy": c06PolicyText}); cl != "ok" {
			t.Fatal("policy", cl)
		}
	}
}

// c06Variant: flow + parameters. `req`: requester kind (s = service child of root, b = batch child of a service
// token, o = orphan batch, r = the root token, - = none); `npol`: number of named policies on the requester (the
// `default` policy is added by the token store, so a non-root requester reads npol+1 policies); `typ`: type of the
// token produced (login/create) s|b; orphan: create-orphan endpoint.
type c06Variant struct {
	flow   string
	req    string
	npol   int
	typ    string
	orphan bool
	mnt    string // mount kind of the secret engine: "" / "m" = mounted the modern way at rec/
}

func (v c06Variant) fields() []string {
	o := "0"
	if v.orphan {
		o = "1"
	}
	m := v.mnt
	if m == "" {
		m = "m"
	}
	return []string{v.flow, v.req, vh.I(int64(v.npol)), v.typ, o, m}
}

// c06Policies: n named policies; n = 0 is the token that holds only `default` (an empty list would make a child of
// the root token inherit `root`).
func c06Policies(n int) []string {
	if n == 0 {
		return []string{"default"}
	}
	return []string{"c06pol", "c06x1", "c06x2", "c06x3"}[:n]
}

// requester makes a fresh requesting token for the variant.
func (e *c06Env) requester(v c06Variant) string {
	switch v.req {
	case "s":
		return vhCreateToken(e.t, e.c, e.root, map[string]any{"ttl": "1h", "policies": c06Policies(v.npol)})
	case "b":
		par := vhCreateToken(e.t, e.c, e.root, map[string]any{"ttl": "1h", "policies": c06Policies(v.npol)})
		return vhCreateToken(e.t, e.c, par, map[string]any{"ttl": "30m", "type": "batch"})
	case "o":
		cl, resp := vhReq(e.c, logical.UpdateOperation, "auth/token/create-orphan", e.root,
			map[string]any{"ttl": "30m", "type": "batch", "policies": c06Policies(v.npol)})
		if cl != "ok" || resp == nil || resp.Auth == nil {
			e.t.Fatalf("orphan batch: %s", cl)
		}
		return resp.Auth.ClientToken
	case "r":
		return e.root
	}
	return ""
}

func (e *c06Env) request(v c06Variant, tok string) (string, *logical.Response) {
	switch v.flow {
	case "secret":
		if v.mnt != "" && v.mnt != "m" {
			return vhReq(e.c, logical.ReadOperation, "rec"+v.mnt+"/lease/a", tok, nil)
		}
		return vhReq(e.c, logical.ReadOperation, "rec/lease/a", tok, nil)
	case "wrap":
		req := &logical.Request{Operation: logical.ReadOperation, Path: "rec/lease/a", ClientToken: tok,
			WrapInfo: &logical.RequestWrapInfo{TTL: 5 * time.Minute}}
		req.SetTokenEntry(nil)
		resp, err := e.c.HandleRequest(vhRootCtx(), req)
		return vhClass(resp, err), resp
	case "login":
		typ := "service"
		if v.typ == "b" {
			typ = "batch"
		}
		return vhReq(e.c, logical.UpdateOperation, "auth/c06/login", "",
			map[string]any{"type": typ, "ttl": 3600, "pol": strings.Join(c06Policies(v.npol), ",")})
	case "create":
		path := "auth/token/create"
		if v.orphan {
			path = "auth/token/create-orphan"
		}
		// the child asks for exactly the requester's named policies (always a subset: no sudo needed); a root
		// requester asks for one policy it does not hold (needs its sudo)
		d := map[string]any{"ttl": "20m"}
		if v.req == "r" {
			d["policies"] = []string{"c06pol"}
		} else if v.npol > 0 {
			d["policies"] = c06Policies(v.npol)
		}
		if v.typ == "b" {
			d["type"] = "batch"
		}
		return vhReq(e.c, logical.UpdateOperation, path, tok, d)
	}
	return "bad-flow", nil
}

func c06OpStr(ops []vhOp, thread int) string {
	var s []string
	for _, o := range ops {
		if o.Thread != thread {
			continue
		}
		x := o.Kind + ":" + vhKeyClass(o.Key)
		if o.Failed {
			x += "!"
		}
		s = append(s, x)
	}
	if len(s) == 0 {
		return "-"
	}
	return strings.Join(s, ",")
}

func c06Diff(before, after []string) (added, removed []string) {
	b := map[string]bool{}
	for _, k := range before {
		b[k] = true
	}
	a := map[string]bool{}
	for _, k := range after {
		a[k] = true
		if !b[k] {
			added = append(added, k)
		}
	}
	for _, k := range before {
		if !a[k] {
			removed = append(removed, k)
		}
	}
	return
}

func c06Classes(keys []string) string {
	m := map[string]int{}
	for _, k := range keys {
		m[vhKeyClass(k)]++
	}
	var cs []string
	for c := range m {
		cs = append(cs, c)
	}
	sort.Strings(cs)
	var out []string
	for _, c := range cs {
		out = append(out, fmt.Sprintf("%s:%d", c, m[c]))
	}
	if len(out) == 0 {
		return "-"
	}
	return strings.Join(out, ",")
}

// c06Tracked: how many of the given lease keys (sys/expire/id/<leaseID>) the expiration manager tracks, and how
// many tracked lease ids have no key in storage (ghosts).
func c06Tracked(c *Core, p *vhPhys, leaseKeys []string) (tracked int, stored int, ghosts int) {
	m := c.expiration
	if m == nil {
		return -1, -1, -1
	}
	has := func(id string) bool {
		if _, ok := m.pending.Load(id); ok {
			return true
		}
		if _, ok := m.nonexpiring.Load(id); ok {
			return true
		}
		if _, ok := m.irrevocable.Load(id); ok {
			return true
		}
		return false
	}
	for _, k := range leaseKeys {
		if has(strings.TrimPrefix(k, "sys/expire/id/")) {
			tracked++
		}
	}
	all := map[string]bool{}
	for _, k := range p.AllKeys() {
		if strings.HasPrefix(k, "sys/expire/id/") {
			all[strings.TrimPrefix(k, "sys/expire/id/")] = true
			stored++
		}
	}
	cnt := func(key, _ any) bool {
		if !all[key.(string)] {
			ghosts++
		}
		return true
	}
	m.pending.Range(cnt)
	m.nonexpiring.Range(cnt)
	m.irrevocable.Range(cnt)
	return
}

// c06TokenIDs: the token ids of the given sys/token/id/<salted> keys, read through the barrier view.
func c06TokenIDs(c *Core, idKeys []string) []string {
	var out []string
	for _, k := range idKeys {
		salted := strings.TrimPrefix(k, "sys/token/id/")
		raw, err := c.tokenStore.idView(namespace.RootNamespace).Get(vhRootCtx(), salted)
		if err != nil || raw == nil {
			continue
		}
		te := new(logical.TokenEntry)
		if jsonutil.DecodeJSON(raw.Value, te) == nil && te.ID != "" {
			out = append(out, te.ID)
		}
	}
	return out
}

// c06Probe: one direct TokenStore.Lookup of a token entry the request left behind (after a pause that lets the
// background expiration workers go quiet), with the storage ops of the lookup recorded: `found=<0/1>;<ops>`.
func c06Probe(c *Core, p *vhPhys, id string) string {
	c06Quiesce(p)
	p.Tag(0)
	p.StartRecording()
	te, err := c.tokenStore.Lookup(vhRootCtx(), id)
	ops := p.StopRecording()
	p.Untag()
	c06Quiesce(p)
	r := "0"
	if err != nil {
		r = "err"
	} else if te != nil {
		r = "1"
	}
	for i := range ops {
		if os.Getenv("VERIF_DEBUG_KEYS") != "" && vhKeyClass(ops[i].Key) == "sys-other" {
			fmt.Fprintln(os.Stderr, "sys-other key:", ops[i].Key)
		}
	}
	return "found=" + r + ";" + c06OpStr(ops, 0)
}

// c06Quiesce waits until no goroutine has touched the store for two consecutive 8 ms windows (the expiration
// workers may still be finishing a revocation job the request triggered; AllKeys must not see their transients).
func c06Quiesce(p *vhPhys) {
	p.mu.Lock()
	wasRec := p.rec
	p.rec = true
	last := len(p.log)
	p.mu.Unlock()
	calm := 0
	for i := 0; i < 100 && calm < 2; i++ {
		time.Sleep(8 * time.Millisecond)
		p.mu.Lock()
		n := len(p.log)
		p.mu.Unlock()
		if n == last {
			calm++
		} else {
			calm = 0
			last = n
		}
	}
	p.mu.Lock()
	p.rec = wasRec
	if !wasRec {
		p.log = nil
	}
	p.mu.Unlock()
}

// c06Snapshot: like vhPhys.Snapshot, but a key that a background expiration worker deletes between the listing and
// the read is skipped instead of failing the test (a crash picture taken while workers write is still a legal crash
// picture).
func c06Snapshot(t *testing.T, p *vhPhys) *vhPhys {
	q := vhNewPhys(t)
	for _, k := range p.AllKeys() {
		e, err := p.inner.Get(context.Background(), k)
		if err != nil || e == nil {
			continue
		}
		v := make([]byte, len(e.Value))
		copy(v, e.Value)
		if err := q.inner.Put(context.Background(), &physical.Entry{Key: k, Value: v}); err != nil {
			t.Fatal(err)
		}
	}
	return q
}

func c06Filter(keys []string, prefix string) []string {
	var out []string
	for _, k := range keys {
		if strings.HasPrefix(k, prefix) {
			out = append(out, k)
		}
	}
	return out
}

func c06B(b bool) string {
	if b {
		return "1"
	}
	return "0"
}

// observe: the canonical observation after one request (faults cleared).
//   <class>|sec=<0/1>|tok=<0/1>|iss=<n>|rev=<n>|new=<classes>|gone=<classes>|trk=<n>|ghost=<n>|use=<n>|new2=<classes>
// sec/tok: the response carries a secret / a client token; iss/rev: secrets issued / revoked at the backend by
// this request; new/gone: storage keys added / removed by the request, by class; trk: how many of the new lease
// entries are tracked by the expiration manager; ghost: tracked ids without a stored entry; use: how many new
// tokens (handed out or left in storage) pass lookup-self; new2: the added keys that remain after that probe.
func (e *c06Env) observe(cl string, resp *logical.Response, before []string, iss0, rev0 int) string {
	c, p := e.c, e.p
	if cl != "ok" {
		c06Quiesce(p)
	}
	after := p.AllKeys()
	added, removed := c06Diff(before, after)
	_, issued, revoked := e.rec.Snapshot()
	sec := resp != nil && (resp.Secret != nil || (resp.Data != nil && resp.Data["secret"] != nil))
	tok := resp != nil && resp.Auth != nil && resp.Auth.ClientToken != ""
	wrap := resp != nil && resp.WrapInfo != nil && resp.WrapInfo.Token != ""
	trk, _, ghost := c06Tracked(c, p, c06Filter(added, "sys/expire/id/"))
	// usability probe: the token handed out (if any) and every token entry the request left in storage
	probe := map[string]bool{}
	if tok {
		probe[resp.Auth.ClientToken] = true
	}
	ids := c06TokenIDs(c, c06Filter(added, "sys/token/id/"))
	handedInternal := ""
	if tok {
		if in, err := c.DecodeSSCToken(resp.Auth.ClientToken); err == nil {
			handedInternal = in
		}
	}
	if wrap {
		handedInternal = resp.WrapInfo.Token
		if in, err := c.DecodeSSCToken(resp.WrapInfo.Token); err == nil && in != "" {
			handedInternal = in
		}
	}
	for _, id := range ids {
		if id != handedInternal {
			probe[id] = true
		}
	}
	usable := 0
	var pk []string
	for k := range probe {
		pk = append(pk, k)
	}
	sort.Strings(pk)
	pops := "-"
	for _, k := range pk {
		handed := tok && k == resp.Auth.ClientToken
		if !handed {
			pops = c06Probe(c, p, k)
		}
		if pcl, presp := vhReq(c, logical.ReadOperation, "auth/token/lookup-self", k, nil); pcl == "ok" && presp != nil {
			usable++
		}
	}
	if pops != "-" {
		c06Quiesce(p)
	}
	if wrap {
		// a wrapping token has one use and a restricted policy: probe it with one direct lookup, not with a request
		if te, err := c.tokenStore.Lookup(vhRootCtx(), resp.WrapInfo.Token); err == nil && te != nil {
			usable++
		}
	}
	after2 := p.AllKeys()
	added2, _ := c06Diff(before, after2)
	return fmt.Sprintf("%s|sec=%s|tok=%s|wrap=%s|iss=%d|rev=%d|new=%s|gone=%s|trk=%d|ghost=%d|use=%d|pops=%s|new2=%s",
		cl, c06B(sec), c06B(tok), c06B(wrap), len(issued)-iss0, len(revoked)-rev0, c06Classes(added), c06Classes(removed), trk, ghost, usable, pops, c06Classes(added2))
}

func (e *c06Env) counts() (int, int) {
	_, i, r := e.rec.Snapshot()
	return len(i), len(r)
}

func c06WaitRestore(c *Core) bool {
	for i := 0; i < 2000; i++ {
		if c.expiration != nil && !c.expiration.inRestoreMode() {
			return true
		}
		time.Sleep(5 * time.Millisecond)
	}
	return false
}

func c06Variants() []c06Variant {
	vs := []c06Variant{
		{"secret", "s", 1, "-", false, ""}, {"secret", "b", 1, "-", false, ""}, {"secret", "o", 1, "-", false, ""}, {"secret", "r", 0, "-", false, ""},
		{"login", "-", 1, "s", false, ""}, {"login", "-", 1, "b", false, ""},
		{"create", "s", 1, "s", false, ""}, {"create", "s", 1, "b", false, ""}, {"create", "r", 0, "s", true, ""}, {"create", "r", 0, "s", false, ""},
		{"secret", "s", 2, "-", false, ""}, {"create", "s", 2, "s", false, ""}, {"login", "-", 2, "s", false, ""},
		{"wrap", "s", 1, "-", false, ""}, {"wrap", "o", 1, "-", false, ""}, {"wrap", "r", 0, "-", false, ""},
	}
	if vh.Thorough() {
		for n := 1; n <= 4; n++ {
			for _, r := range []string{"s", "b", "o"} {
				vs = append(vs, c06Variant{"secret", r, n, "-", false, ""}, c06Variant{"wrap", r, n, "-", false, ""})
			}
			for _, ty := range []string{"s", "b"} {
				vs = append(vs, c06Variant{"create", "s", n, ty, false, ""})
				if n >= 1 {
					vs = append(vs, c06Variant{"login", "-", n, ty, false, ""})
				}
			}
			vs = append(vs, c06Variant{"create", "s", n, "s", true, ""})
		}
		vs = append(vs, c06Variant{"create", "r", 0, "b", false, ""}, c06Variant{"create", "r", 0, "b", true, ""})
	}
	return vs
}

func TestVerifC06(t *testing.T) {
	out := vh.Open()
	defer out.Close()
	rng := vh.NewRand(vh.Seed())
	e := c06NewEnv(t)
	vs := c06Variants()
	// seeded order of variants (the cases are independent; the order exercises different surrounding state)
	for i := len(vs) - 1; i > 0; i-- {
		j := rng.Intn(i + 1)
		vs[i], vs[j] = vs[j], vs[i]
	}
	var e2 *c06Env
	base := e
	for _, mk := range c06MountKinds {
		vs = append(vs, c06Variant{"secret", "s", 1, "-", false, mk.code})
	}
	if vh.Thorough() {
		for _, mk := range c06MountKinds {
			vs = append(vs, c06Variant{"secret", "o", 2, "-", false, mk.code}, c06Variant{"secret", "r", 0, "-", false, mk.code})
		}
	}
	for _, v := range vs {
		e = base
		if v.mnt != "" && v.mnt != "m" {
			if e2 == nil {
				e2 = c06NewEnvMounts(t)
			}
			e = e2
			e.rec = e.recs[v.mnt]
		}
		f := v.fields()
		// ---- dry run
		tok := e.requester(v)
		before := e.p.AllKeys()
		i0, r0 := e.counts()
		e.p.Tag(0)
		e.p.StartRecording()
		cl, resp := e.request(v, tok)
		ops := e.p.StopRecording()
		e.p.Untag()
		n := 0
		writes := 0
		for _, o := range ops {
			if o.Thread == 0 {
				n++
				if o.Kind == "put" || o.Kind == "delete" {
					writes++
				}
			}
		}
		out.Op(vh.Catch(func() string {
			return "ops=" + c06OpStr(ops, 0) + "|" + e.observe(cl, resp, before, i0, r0)
		}), append([]string{"dry"}, f...)...)

		// ---- every single fault position (and one position past the end: no fault fires)
		for k := 0; k <= n; k++ {
			tok := e.requester(v)
			before := e.p.AllKeys()
			i0, r0 := e.counts()
			e.p.Tag(0)
			e.p.FailNth(0, k)
			e.p.StartRecording()
			cl, resp := e.request(v, tok)
			ops := e.p.StopRecording()
			e.p.ClearFaults()
			e.p.Untag()
			out.Op(vh.Catch(func() string {
				return "ops=" + c06OpStr(ops, 0) + "|" + e.observe(cl, resp, before, i0, r0)
			}), append(append([]string{"fault"}, f...), vh.I(int64(k)))...)
		}

		// ---- every crash point: one gated run, snapshot after each write of the request goroutine
		if writes > 0 && e == base {
			tok := e.requester(v)
			before := e.p.AllKeys()
			s := vhNewSched(e.p, 1)
			s.Go(0, func() string {
				cl, _ := e.request(v, tok)
				return cl
			})
			var snaps []*vhPhys
			lastWrite := false
			for step := 0; step < 10000; step++ {
				st := s.Advance(0)
				if st == "blocked" {
					continue
				}
				if lastWrite {
					snaps = append(snaps, c06Snapshot(t, e.p))
					lastWrite = false
				}
				if st == "done" {
					break
				}
				op := s.Parked(0)
				lastWrite = op.Kind == "put" || op.Kind == "delete"
				s.Release(0)
			}
			s.Drain(1000)
			for j, snap := range snaps {
				res := vh.Catch(func() string { return c06Crash(t, e, snap, before, v.flow == "wrap") })
				out.Op(res, append(append([]string{"crash"}, f...), vh.I(int64(j+1)))...)
			}
		}
	}
	c06Namespace(t, out)
	c06RefusedRegistration(t, out)
	c06CancelledRequest(t, out)
	c06DottedMount(t, out)
}

// c06DottedMount: the lease id starts with the mount path; a mount named like a token prefix (`s.rec/`, `b.rec/`) and a
// request path with a dot in it (`lease/app.readonly`) make a lease id that id parsers may misread. A failing lease
// registration must be rolled back all the same: the secret revoked at its backend, no lease or index record left.
// Op line: dotmount <mount> <fail at: id|token> => <class>|newlease:<n>|newindex:<n>|live:<n>
func c06DottedMount(t *testing.T, out *vh.Out) {
	e := c06NewEnv(t)
	c, root := e.c, e.root
	for _, m := range []string{"s.rec", "b.rec"} {
		if cl, _ := vhReq(c, logical.UpdateOperation, "sys/mounts/"+m, root, map[string]any{"type": "vhrec"}); cl != "ok" {
			t.Fatalf("mount %s: %s", m, cl)
		}
		for _, at := range []string{"id", "token"} {
			count := func(sub string) int {
				n := 0
				for _, k := range e.p.AllKeys() {
					if strings.Contains(k, sub) {
						n++
					}
				}
				return n
			}
			c06Quiesce(e.p)
			l0, x0 := count("sys/expire/id/"+m+"/"), count("sys/expire/token/")
			i0, r0 := e.counts()
			e.p.FailKeyOnce("put", "sys/expire/"+at+"/", "")
			cl, _ := vhReq(c, logical.ReadOperation, m+"/lease/app.readonly", root, nil)
			fired := e.p.KeyFaultFired()
			if cl != "ok" {
				cl = "err"
			}
			c06Quiesce(e.p)
			i1, r1 := e.counts()
			nl, nx, live := count("sys/expire/id/"+m+"/")-l0, count("sys/expire/token/")-x0, (i1-i0)-(r1-r0)
			res := fmt.Sprintf("%s|newlease:%d|newindex:%d|live:%d", cl, nl, nx, live)
			if !fired {
				res += "|nofault"
			}
			if cl != "ok" && (nl > 0 || nx > 0 || live > 0) {
				res += fmt.Sprintf("!VIOL:a lease registration on mount %s/ (request path with a dot) failed at the %s write and was not rolled back: %d lease record(s), %d index entr(ies), %d live secret(s) left#C06:failed-registration-not-rolled-back", m, at, nl, nx, live)
			}
			out.Op(res, "dotmount", m, at)
		}
	}
	_ = c.Shutdown()
}

// c06CancelledRequest: the REQUEST's context is cancelled (client gone, request deadline) right after the lease record
// was written — no storage fault: the storage backend honours the context, so the next write (the token index entry)
// fails. "If recording the lease fails at any step, the freshly generated secret is revoked at its backend, no partial
// lease or index records remain": the clean-up must not depend on the context that caused the failure.
// Op line: cancelled <after-put-of> => <class>|newlease:<n>|newindex:<n>|live:<issued-revoked>
func c06CancelledRequest(t *testing.T, out *vh.Out) {
	e := c06NewEnv(t)
	c := e.c
	for _, at := range []string{"sys/expire/id/", "sys/expire/token/"} {
		tok := e.requester(c06Variant{flow: "secret", req: "s", npol: 1})
		c06Quiesce(e.p)
		count := func(sub string) int {
			n := 0
			for _, k := range e.p.AllKeys() {
				if strings.Contains(k, sub) {
					n++
				}
			}
			return n
		}
		l0, x0 := count("sys/expire/id/rec/"), count("sys/expire/token/")
		i0, r0 := e.counts()
		ctx, cancel := context.WithCancel(vhRootCtx())
		sub := at
		if at == "sys/expire/id/" {
			sub = "sys/expire/id/rec/"
		}
		e.p.SetAfterPut(func(k string) {
			if strings.Contains(k, sub) {
				cancel()
				time.Sleep(40 * time.Millisecond) // HandleRequest forwards the cancellation to its own context from a watcher goroutine
			}
		})
		req := &logical.Request{Operation: logical.ReadOperation, Path: "rec/lease/a", ClientToken: tok}
		req.SetTokenEntry(nil)
		resp, err := c.HandleRequest(ctx, req)
		e.p.SetAfterPut(nil)
		cancel()
		cl := vhClass(resp, err)
		if cl != "ok" {
			cl = "err"
		}
		c06Quiesce(e.p)
		i1, r1 := e.counts()
		nl, nx, live := count("sys/expire/id/rec/")-l0, count("sys/expire/token/")-x0, (i1-i0)-(r1-r0)
		res := fmt.Sprintf("%s|newlease:%d|newindex:%d|live:%d", cl, nl, nx, live)
		if cl != "ok" && (nl > 0 || nx > 0 || live > 0) {
			res += "!VIOL:the request failed (its context was cancelled after the write of " + at + "…) and left behind " + fmt.Sprintf("%d lease record(s), %d token index entr(ies), %d live secret(s)", nl, nx, live) + "#C06:partial-records-after-cancelled-request"
		}
		out.Op(res, "cancelled", at)
	}
	_ = c.Shutdown()
}

// c06RefusedRegistration: a token creation whose LEASE REGISTRATION is refused for a reason other than a storage
// fault — the creation path of a token role whose name contains ".." ("rel..1" is a legal role name) is turned down by
// the expiration manager — after the token store has already written the token. "…whose lease registration fails
// leaves no usable token behind": the caller-chosen id must not be a token afterwards. `rel.1` is the control.
// Op line: regrefused <role> => <class>|token:<none|usable|stored>
func c06RefusedRegistration(t *testing.T, out *vh.Out) {
	e := c06NewEnv(t)
	c, root := e.c, e.root
	for i, role := range []string{"rel.1", "rel..1"} {
		if cl, _ := vhReq(c, logical.UpdateOperation, "auth/token/roles/"+role, root, map[string]any{"orphan": true}); cl != "ok" {
			t.Fatalf("role %s: %s", role, cl)
		}
		id := fmt.Sprintf("c06-chosen-id-%d", i)
		cl, resp := vhReq(c, logical.UpdateOperation, "auth/token/create/"+role, root, map[string]any{"id": id})
		handed := resp != nil && resp.Auth != nil && resp.Auth.ClientToken != ""
		state := "none"
		if ucl, _ := vhReq(c, logical.ReadOperation, "sys/mounts", id, nil); ucl == "ok" {
			state = "usable"
		} else if te, _ := c.tokenStore.lookupInternal(vhRootCtx(), id, false, true); te != nil {
			state = "stored"
		}
		res := "refused"
		if cl == "ok" && handed {
			res = "ok"
		}
		line := fmt.Sprintf("%s|token:%s", res, state)
		if res == "refused" && state == "usable" {
			line += "!VIOL:the token creation through role " + role + " was answered with an error (its lease registration was refused) but the caller-chosen token id is a usable token afterwards#C06:token-usable-after-refused-registration"
		}
		if res == "ok" {
			state = "usable" // (handed out with its lease: the control)
			line = "ok|token:usable"
		}
		out.Op(line, "regrefused", role)
	}
	_ = c.Shutdown()
}

// c06Namespace: the secret / wrap / login / create flows inside a CHILD namespace (secrets engine, credential backend,
// policies and requester all belong to namespace c06ns/), with every single fault position. Only the property's
// predicate is evaluated (the key classes of the root-namespace model do not carry over): a response that hands out a
// secret or token needs exactly one new lease entry in the namespace's storage; a failed request leaves no live
// secret at the backend (issued = revoked) and no new lease entry. Op lines: nsflow <flow> <k> => good | bad:<why>.
func c06Namespace(t *testing.T, out *vh.Out) {
	e := c06NewEnv(t)
	c, root := e.c, e.root
	if cl, _ := vhReq(c, logical.UpdateOperation, "sys/namespaces/c06ns", root, nil); cl != "ok" {
		t.Fatalf("namespace: %s", cl)
	}
	if cl, _ := vhReq(c, logical.UpdateOperation, "c06ns/sys/mounts/rec", root, map[string]any{"type": "vhrec"}); cl != "ok" {
		t.Fatal("ns mount", cl) // e.rec now is the namespace's engine
	}
	if cl, _ := vhReq(c, logical.UpdateOperation, "c06ns/sys/auth/c06", root, map[string]any{"type": "c06auth"}); cl != "ok" {
		t.Fatal("ns auth mount", cl)
	}
	if cl, _ := vhReq(c, logical.UpdateOperation, "c06ns/sys/policies/acl/c06pol", root, map[string]any{"policy": c06PolicyText}); cl != "ok" {
		t.Fatal("ns policy", cl)
	}
	nsObj, err := c.namespaceStore.GetNamespaceByPath(vhRootCtx(), "c06ns/")
	if err != nil || nsObj == nil {
		t.Fatalf("namespace lookup: %v", err)
	}
	pre := "namespaces/" + nsObj.UUID + "/"
	leaseKeys := func() map[string]bool {
		m := map[string]bool{}
		for _, k := range e.p.AllKeys() {
			if strings.HasPrefix(k, pre+"sys/expire/id/") {
				m[k] = true
			}
		}
		return m
	}
	// CROSS-namespace requester (flow xsecret): a ROOT-namespace service token whose root-namespace policy names the
	// child namespace's engine; its leases live in c06ns, its token index in the root namespace
	if cl, _ := vhReq(c, logical.UpdateOperation, "sys/policies/acl/c06x", root, map[string]any{"policy": `path "c06ns/rec/*" { capabilities = ["read"] }`}); cl != "ok" {
		t.Fatal("cross policy", cl)
	}
	xflow := false
	idxKeys := func() map[string]bool {
		m := map[string]bool{}
		for _, k := range e.p.AllKeys() {
			if strings.Contains(k, "sys/expire/token/") {
				m[k] = true
			}
		}
		return m
	}
	requester := func() string {
		path, pol := "c06ns/auth/token/create", "c06pol"
		if xflow {
			path, pol = "auth/token/create", "c06x"
		}
		cl, resp := vhReq(c, logical.UpdateOperation, path, root, map[string]any{"ttl": "1h", "policies": []string{pol}})
		if cl != "ok" || resp == nil || resp.Auth == nil {
			t.Fatalf("ns requester: %s", cl)
		}
		return resp.Auth.ClientToken
	}
	// "for secrets, its token index entry exists": the lease handed out is found from its owning token (what
	// revocation of the token walks)
	indexed := func(tok string, resp *logical.Response) bool {
		te, err := c.tokenStore.Lookup(vhRootCtx(), tok)
		if err != nil || te == nil {
			return true // (the token is gone: nothing to judge)
		}
		ids, err := c.expiration.lookupLeasesByToken(vhRootCtx(), te)
		if err != nil {
			return false
		}
		for _, id := range ids {
			if id == resp.Secret.LeaseID {
				return true
			}
		}
		return false
	}
	run := func(flow, tok string) (string, *logical.Response) {
		switch flow {
		case "secret", "xsecret":
			return vhReq(c, logical.ReadOperation, "c06ns/rec/lease/a", tok, nil)
		case "wrap":
			req := &logical.Request{Operation: logical.ReadOperation, Path: "c06ns/rec/lease/a", ClientToken: tok,
				WrapInfo: &logical.RequestWrapInfo{TTL: 5 * time.Minute}}
			req.SetTokenEntry(nil)
			resp, err := c.HandleRequest(vhRootCtx(), req)
			return vhClass(resp, err), resp
		case "login":
			return vhReq(c, logical.UpdateOperation, "c06ns/auth/c06/login", "", map[string]any{"type": "service", "ttl": 3600, "pol": "c06pol"})
		default:
			return vhReq(c, logical.UpdateOperation, "c06ns/auth/token/create", tok, map[string]any{"ttl": "20m", "policies": []string{"c06pol"}})
		}
	}
	for _, flow := range []string{"secret", "wrap", "login", "create", "xsecret"} {
		xflow = flow == "xsecret"
		// dry run: number of storage ops of the request
		tok := requester()
		e.p.Tag(0)
		e.p.StartRecording()
		run(flow, tok)
		ops := e.p.StopRecording()
		e.p.Untag()
		n := 0
		for _, o := range ops {
			if o.Thread == 0 {
				n++
			}
		}
		c06Quiesce(e.p)
		for k := 0; k <= n; k++ {
			tok := requester()
			c06Quiesce(e.p)
			before := leaseKeys()
			idxBefore := idxKeys()
			i0, r0 := e.counts()
			e.p.Tag(0)
			e.p.FailNth(0, k)
			cl, resp := run(flow, tok)
			e.p.ClearFaults()
			e.p.Untag()
			c06Quiesce(e.p)
			i1, r1 := e.counts()
			idxNow := idxKeys()
			added := 0
			for key := range leaseKeys() {
				if !before[key] {
					added++
				}
			}
			handed := resp != nil && (resp.Secret != nil || (resp.Auth != nil && resp.Auth.ClientToken != "") || (resp.WrapInfo != nil && resp.WrapInfo.Token != ""))
			res := "good"
			switch {
			case cl == "ok" && handed && added < 1:
				res = fmt.Sprintf("bad:handed out without a lease entry in the namespace (flow %s, fault %d)", flow, k)
			case cl == "ok" && resp != nil && resp.Secret != nil && resp.Secret.LeaseID != "" && !indexed(tok, resp):
				res = fmt.Sprintf("bad:secret handed out with lease %s, which is not in the token index of its owning token (flow %s, fault %d): revoking the token does not reach it", resp.Secret.LeaseID, flow, k)
			case cl != "ok" && flow == "wrap" && (i1-i0)-(r1-r0) > added:
				// (a failed wrapping may leave the secret live as long as it is durably leased: it then expires on its own)
				res = fmt.Sprintf("bad:wrapping failed (%s) and the generated secret is neither revoked nor leased in the namespace (fault %d)", cl, k)
			case cl != "ok" && flow != "wrap" && (i1-i0) != (r1-r0):
				res = fmt.Sprintf("bad:request failed (%s) but %d secret(s) issued and %d revoked at the namespace's backend (flow %s, fault %d)", cl, i1-i0, r1-r0, flow, k)
			case cl != "ok" && added > 0 && flow != "wrap":
				res = fmt.Sprintf("bad:request failed (%s) and left %d new lease entr(ies) (flow %s, fault %d)", cl, added, flow, k)
			}
			if res != "good" {
				res += "!VIOL:" + strings.TrimPrefix(res, "bad:") + "#C06:namespace-" + flow
			}
			out.Op(res, "nsflow", flow, vh.I(int64(k)))
			if cl == "ok" && k == n && resp != nil && resp.Secret != nil {
				// where the token index entry of this secret went: the view of the root namespace or the view of c06ns
				// (model: TokIdx.create — the view of the TOKEN's namespace)
				where := map[string]bool{}
				for key := range idxNow {
					if !idxBefore[key] {
						if strings.HasPrefix(key, pre) {
							where["ns"] = true
						} else {
							where["root"] = true
						}
					}
				}
				var ws []string
				for w := range where {
					ws = append(ws, w)
				}
				sort.Strings(ws)
				out.Op(strings.Join(ws, "+"), "tokidx", flow)
			}
		}
	}
	_ = c.Shutdown()
}

func TestVerifC06RegAuth(t *testing.T) {
	out := vh.Open()
	defer out.Close()
	c06RegAuth(t, c06NewEnv(t), out, vh.NewRand(vh.Seed()))
}

// c06Crash: start a new core on the snapshot; observe the leftover of the interrupted request:
//   new=<classes>|lease=<stored>|trk=<tracked>|ghost=<n>|use=<usable leftover tokens>|new2=<classes after probe>
func c06Crash(t *testing.T, e *c06Env, snap *vhPhys, before []string, wrapFlow bool) string {
	var rec2 *vhRecBackend
	c2, err := vhRestartCore(t, snap, e.keys, &rec2, c06Tweak)
	if err != nil {
		return "err:restart"
	}
	defer func() { _ = c2.Shutdown() }()
	if !c06WaitRestore(c2) {
		return "err:restore-timeout"
	}
	// load the token salt now (the first SaltID of a fresh core reads sys/token/salt), so that the probe's
	// recorded operations are those of the lookup alone
	_, _ = c2.tokenStore.SaltID(vhRootCtx(), "c06-warm")
	added, _ := c06Diff(before, snap.AllKeys())
	// every lease in storage must be tracked after the restore
	var allLease []string
	for _, k := range snap.AllKeys() {
		if strings.HasPrefix(k, "sys/expire/id/") {
			allLease = append(allLease, k)
		}
	}
	trkAll, stored, ghost := c06Tracked(c2, snap, allLease)
	trkNew, _, _ := c06Tracked(c2, snap, c06Filter(added, "sys/expire/id/"))
	usable := 0
	pops := "-"
	for _, id := range c06TokenIDs(c2, c06Filter(added, "sys/token/id/")) {
		pops = c06Probe(c2, snap, id)
		if wrapFlow {
			// a wrapping token has one use and a restricted policy: the direct lookup is the probe
			if strings.HasPrefix(pops, "found=1") {
				usable++
			}
			continue
		}
		if pcl, presp := vhReq(c2, logical.ReadOperation, "auth/token/lookup-self", id, nil); pcl == "ok" && presp != nil {
			usable++
		}
	}
	if pops != "-" {
		c06Quiesce(snap)
	}
	added2, _ := c06Diff(before, snap.AllKeys())
	return fmt.Sprintf("new=%s|untracked=%d|trk=%d|ghost=%d|use=%d|pops=%s|new2=%s",
		c06Classes(added), stored-trkAll, trkNew, ghost, usable, pops, c06Classes(added2))
}

// ---- stream regauth: ExpirationManager.RegisterAuth refusals, called directly

func c06RegAuth(t *testing.T, e *c06Env, out *vh.Out, rng *vh.Rand) {
	m := e.c.expiration
	// an accepted lease with auth TTL 0 and a non-root token has a zero expiry: its timer fires at once. The stream is
	// about acceptance / refusal and what is stored and tracked, so expiry is switched off (the manager's own no-op
	// strategy) — otherwise the observation races with the background revocation.
	var noop ExpireLeaseStrategy = expireNoop
	m.expireFunc.Store(&noop)
	ttls := []int64{0, 3600}
	pols := [][]string{{"root"}, {"root", "c06pol"}, {"default"}, {}, {"c06pol"}}
	types := []logical.TokenType{logical.TokenTypeService, logical.TokenTypeBatch, logical.TokenTypeDefault}
	toks := []string{"", "hvs.c06regauthtoken", "c06plain"}
	paths := []string{"auth/c06/login", "auth/../login", "auth/c06/a..b", "auth/c06/."}
	n := 0
	run := func(tettl, attl int64, pi, ti, ki, pa int, persist bool) {
		n++
		te := &logical.TokenEntry{TTL: time.Duration(tettl) * time.Second, Policies: pols[pi], Type: types[ti],
			Path: paths[pa], NamespaceID: namespace.RootNamespaceID}
		tokID := toks[ki]
		if tokID != "" {
			tokID = fmt.Sprintf("%s%d", tokID, n)
		}
		auth := &logical.Auth{ClientToken: tokID, Policies: pols[pi]}
		auth.TTL = time.Duration(attl) * time.Second
		before := e.p.AllKeys()
		err := m.RegisterAuth(vhRootCtx(), te, auth, "", persist)
		res := "ok"
		if err != nil {
			switch {
			case strings.Contains(err.Error(), "non-root token with no TTL"):
				res = "err:zero-ttl"
			case strings.Contains(err.Error(), "batch token"):
				res = "err:batch"
			case strings.Contains(err.Error(), "empty token"):
				res = "err:empty-token"
			case err == consts.ErrPathContainsParentReferences:
				res = "err:dotdot"
			default:
				res = "err:other"
			}
		}
		added, _ := c06Diff(before, e.p.AllKeys())
		trk, _, ghost := c06Tracked(e.c, e.p, c06Filter(added, "sys/expire/id/"))
		res += fmt.Sprintf("|new=%s|trk=%d|ghost=%d|ext=%s", c06Classes(added), trk, ghost, c06B(te.ExternalID != ""))
		for _, k := range c06Filter(added, "sys/expire/id/") {
			_ = m.revokeCommon(vhRootCtx(), strings.TrimPrefix(k, "sys/expire/id/"), true, true)
		}
		pk := "0"
		switch ki {
		case 1:
			pk = "hvs"
		case 2:
			pk = "plain"
		}
		out.Op(res, "regauth", vh.I(tettl), vh.I(attl), vh.HexS(strings.Join(pols[pi], ",")), vh.I(int64(types[ti])), pk, vh.HexS(paths[pa]), c06B(persist))
	}
	// full lattice
	for _, tettl := range ttls {
		for _, attl := range ttls {
			for pi := range pols {
				for ti := range types {
					for ki := range toks {
						for pa := range paths {
							for _, persist := range []bool{true, false} {
								if !vh.Thorough() && rng.Intn(4) != 0 {
									continue
								}
								run(tettl, attl, pi, ti, ki, pa, persist)
							}
						}
					}
				}
			}
		}
	}
}
